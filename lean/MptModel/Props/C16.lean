/-
  C16 — Names are stored and compared faithfully at every length.

  Objects (Impl/Ident.lean): an identifier `id : Ident` is the header fields plus the cell list of the storage from
  `_val` on, in which the pointer `_base` overlays the inline bytes; `h : Heap` is the allocation log.
  `Wf id h k` (Lemmas/Ident.lean): the identifier is a consistent `struct identifier` of slot `k` in storage of at
  least 16 bytes — inline content readable, or `_base` a live block of the right length owned by `k`;
  `Own id h k`: every live block of owner `k` is the one `id` points to (nothing leaked);
  `Holds id h k cs d`: both, and the identifier reads back (through `mpt_identifier_data` and `_len`) as the bytes
  `d` with charset `cs`.  A text `name` is stored as `name ++ [0]` (the length field counts the terminator).
  The theorems hold for every storage size (>= 16 bytes; 16..256 are instances), every previous content and
  placement (inline or allocated), every new length up to the 16-bit limit.
-/
import MptModel.Lemmas.Ident
import MptModel.Lemmas.IdentLocate
import MptModel.Lemmas.IdentRefine
import MptModel.Spec.Ident
namespace Mpt.C16
open Mpt.Ident

/- ------------------------------------------------------------------------------------------------
   readback
   ------------------------------------------------------------------------------------------------ -/

/-- **readback**: setting a well-formed identifier — whatever it held, inline or allocated — to a text of up to
    65534 bytes succeeds, and the identifier then reads back as exactly that text (followed by its terminator)
    with length `name.length + 1`, charset UTF8; storage size and capacity are unchanged, blocks of other
    identifiers are untouched. -/
theorem readback {id : Ident} {h : Heap} {k : Nat} (hw : Wf id h k) (ho : Own id h k) (name : List Byte)
    (hn : name.length ≤ 65534) :
    ∃ id' h', set id h k (some (name ++ [0])) name.length = .ok (id', h', true) ∧
      view id' h' = .ok (utf8, name ++ [0]) ∧ id'.len = name.length + 1 ∧
      Wf id' h' k ∧ Own id' h' k ∧ Frame h h' k ∧ id'.max = id.max ∧ id'.area.length = id.area.length := by
  obtain ⟨id', h', hs, hh, hf, hm, ha⟩ := set_text hw ho name (by omega)
  refine ⟨id', h', hs, ?_, by rw [hh.len]; simp, hh.wf, hh.own, hf, hm, ha⟩
  simp [view, hh.read, hh.cs, bind, Except.bind, pure, Except.pure, utf8]

/-- the documented limit: a text of 65535 bytes or more is refused and nothing changes -/
theorem readback_limit (id : Ident) (h : Heap) (k : Nat) (name : List Byte) (hn : 65535 ≤ name.length) :
    set id h k (some (name ++ [0])) name.length = .ok (id, h, false) :=
  set_text_refused id h k name (by omega)

/-- zero name pointer: `n ≤ 65535` cleared bytes of non-printable content (charset 0); `n = 0` unsets -/
theorem readback_null {id : Ident} {h : Heap} {k : Nat} (hw : Wf id h k) (ho : Own id h k) (n : Nat) (hn : n ≤ 65535) :
    ∃ id' h', set id h k none n = .ok (id', h', true) ∧ view id' h' = .ok (0, List.replicate n 0) ∧ id'.len = n ∧
      Wf id' h' k ∧ Own id' h' k ∧ Frame h h' k := by
  obtain ⟨id', h', hs, hh, hf, _⟩ := set_null hw ho n hn
  refine ⟨id', h', hs, ?_, by rw [hh.len]; simp, hh.wf, hh.own, hf⟩
  simp [view, hh.read, hh.cs, bind, Except.bind, pure, Except.pure]

/-- `len = -1` reads the text as a C string -/
theorem readback_cstr (id : Ident) (h : Heap) (k : Nat) (buf : List Byte) :
    set id h k (some buf) (-1) = set id h k (some buf) (strlen buf) := set_cstr id h k buf

/-- **every (storage size, previous length, new length) triple**: a new identifier in storage of `size >= 16`
    bytes, set to `old`, then set to `new`, reads back as `new` — for all sizes and all lengths up to 65534,
    across the inline capacity in either direction. -/
theorem readback_triple (size : Nat) (hs : 16 ≤ size) (old new : List Byte) (ho : old.length ≤ 65534) (hn : new.length ≤ 65534) :
    ∃ id0 id1 h1 id2 h2, create size = .ok id0 ∧
      set id0 ⟨[]⟩ 0 (some (old ++ [0])) old.length = .ok (id1, h1, true) ∧
      set id1 h1 0 (some (new ++ [0])) new.length = .ok (id2, h2, true) ∧
      view id2 h2 = .ok (utf8, new ++ [0]) ∧ id2.len = new.length + 1 := by
  obtain ⟨id0, hc, hh0, _⟩ := create_spec size hs ⟨[]⟩ 0 (by intro t b hb; simp at hb)
  obtain ⟨id1, h1, hs1, _, _, hw1, ho1, _⟩ := readback hh0.wf hh0.own old ho
  obtain ⟨id2, h2, hs2, hv2, hl2, _⟩ := readback hw1 ho1 new hn
  exact ⟨id0, id1, h1, id2, h2, hc, hs1, hs2, hv2, hl2⟩

/-- 16 bytes of storage hold 11 bytes of text inline; the 12th moves the content to a block and back -/
example : (do
    let id0 ← create 16
    let (id1, h1, _) ← set id0 ⟨[]⟩ 0 (some ([1,2,3,4,5,6,7,8,9,10,11,12] ++ [0])) 12
    let (id2, h2, _) ← set id1 h1 0 (some ([7,7,7,7,7,7] ++ [0])) 6
    pure (id1.len, id1.max, id2.len, h2.blocks.map Block.live)).toOption =
    some (13, 12, 7, [false]) := by decide
example : (do
    let id0 ← create 16
    let (id1, h1, _) ← set id0 ⟨[]⟩ 0 (some ([1,2,3,4,5,6,7,8,9,10,11,12] ++ [0])) 12
    let (id2, h2, _) ← set id1 h1 0 (some ([7,7,7,7,7,7] ++ [0])) 6
    pure (id2.len, h2.blocks.map Block.live, (view id2 h2).toOption)).toOption =
    some (7, [false], some (1, [7,7,7,7,7,7,0])) := by decide

/- ------------------------------------------------------------------------------------------------
   copy_equal_source_untouched
   ------------------------------------------------------------------------------------------------ -/

/-- **copy**: copying a source that holds `(cs, d)` into a different well-formed identifier — of any storage
    size, whatever it held — succeeds; the target then reads back as `(cs, d)`, and the source still reads back as
    `(cs, d)` in the new heap (it stays well-formed and keeps its block). -/
theorem copy_equal_source_untouched {dst src : Ident} {h : Heap} {k j cs : Nat} {d : List Byte}
    (hw : Wf dst h k) (ho : Own dst h k) (hs : Holds src h j cs d) (hjk : j ≠ k) :
    ∃ dst' h', copy dst (some src) false h k = .ok (dst', h', true) ∧
      view dst' h' = .ok (cs, d) ∧ view src h' = .ok (cs, d) ∧
      Holds dst' h' k cs d ∧ Holds src h' j cs d := by
  obtain ⟨dst', h', hc, hh, hf, _⟩ := copy_spec hw ho hs
  have hs' := hs.frame hf hjk
  refine ⟨dst', h', hc, ?_, ?_, hh, hs'⟩
  · simp [view, hh.read, hh.cs, bind, Except.bind, pure, Except.pure]
  · simp [view, hs'.read, hs'.cs, bind, Except.bind, pure, Except.pure]

/-- **copy into a container item** (`item_group::append(const identifier *, metatype *)`: a new `item<T>`, whose
    identifier has 24 bytes of storage, gets `*it = *id`): the stored identifier reads back as the source's charset
    and bytes — zero bytes inside or at the end of the name and non-text content included — whatever storage the
    source has, and the source is untouched. -/
theorem item_append_copy {src : Ident} {h : Heap} {j k cs : Nat} {d : List Byte}
    (hs : Holds src h j cs d) (hjk : j ≠ k)
    (hfresh : ∀ (t : Nat) (b : Block), h.blocks[t]? = some b → b.owner = k → b.live = false) :
    ∃ it it' h', create 24 = .ok it ∧ it.max = 20 ∧ copy it (some src) false h k = .ok (it', h', true) ∧
      view it' h' = .ok (cs, d) ∧ view src h' = .ok (cs, d) ∧ Holds it' h' k cs d ∧ Holds src h' j cs d := by
  obtain ⟨it, hc, hh, hm, _⟩ := create_spec 24 (by omega) h k hfresh
  obtain ⟨it', h', hcp, hv1, hv2, hh1, hh2⟩ := copy_equal_source_untouched hh.wf hh.own hs hjk
  exact ⟨it, it', h', hc, by rw [hm]; decide, hcp, hv1, hv2, hh1, hh2⟩

/-- a name with a zero byte inside, copied from a 16-byte identifier into an item -/
example : (do
    let a ← create 16
    let (a1, h1, _) ← set a ⟨[]⟩ 0 (some ([0x61, 0x62, 0, 0x63, 0x64] ++ [0])) 5
    let it ← create 24
    let (it1, h2, _) ← copy it (some a1) false h1 1
    pure ((view it1 h2).toOption, it1.max)).toOption = some (some (1, [0x61, 0x62, 0, 0x63, 0x64, 0]), 20) := by decide

/-- copy onto itself, and copy from the zero pointer -/
theorem copy_self_unchanged {id : Ident} {h : Heap} {k : Nat} (hw : Wf id h k) :
    copy id (some id) true h k = .ok (id, h, true) := copy_self hw

theorem copy_null_unsets {dst : Ident} {h : Heap} {k : Nat} (hw : Wf dst h k) (ho : Own dst h k) :
    ∃ dst' h', copy dst none false h k = .ok (dst', h', true) ∧ view dst' h' = .ok (0, []) ∧ Holds dst' h' k 0 [] := by
  obtain ⟨dst', h', hc, hh, _⟩ := copy_null hw ho
  refine ⟨dst', h', hc, ?_, hh⟩
  simp [view, hh.read, hh.cs, bind, Except.bind, pure, Except.pure]

/-- the case of defect #18: the target holds 20 allocated bytes, the source 8 inline bytes -/
example : (do
    let a ← create 16
    let b ← create 16
    let (a1, h1, _) ← set a ⟨[]⟩ 0 (some (List.replicate 20 0x61 ++ [0])) 20
    let (b1, h2, _) ← set b h1 1 (some (List.replicate 8 0x62 ++ [0])) 8
    let (a2, h3, _) ← copy a1 (some b1) false h2 0
    pure ((view a2 h3).toOption, (view b1 h3).toOption, h3.blocks.map Block.live)).toOption =
    some (some (1, List.replicate 8 0x62 ++ [0]), some (1, List.replicate 8 0x62 ++ [0]), [false]) := by decide

/- ------------------------------------------------------------------------------------------------
   compare_iff_equal
   ------------------------------------------------------------------------------------------------ -/

/-- **text comparison**: for an identifier that holds the text `c`, `mpt_identifier_compare(id, b, len b)` is zero
    exactly when `b = c` -/
theorem compare_iff_equal {id : Ident} {h : Heap} {k : Nat} {c : List Byte} (hh : Holds id h k utf8 (c ++ [0])) (b : List Byte) :
    ∃ r, compare id h (some (b ++ [0])) b.length = .ok r ∧ (r = 0 ↔ b = c) :=
  compare_text hh b

/-- an identifier that holds no text (unset, or non-printable content) equals no text -/
theorem compare_nontext_differs {id : Ident} {h : Heap} (hc : id.charset ≠ utf8) (b : List Byte) (n : Int) :
    compare id h (some b) n = .ok Err.BadType.code ∧ Err.BadType.code ≠ 0 :=
  ⟨compare_nontext hc b n, by decide⟩

/-- **identifier comparison**: `mpt_identifier_inequal` is zero exactly for the same charset and the same bytes,
    whatever the storage sizes and placements of the two identifiers -/
theorem inequal_iff_equal {a b : Ident} {h : Heap} {ka kb ca cb : Nat} {da db : List Byte}
    (ha : Holds a h ka ca da) (hb : Holds b h kb cb db) :
    ∃ r, inequal a b h = .ok r ∧ (r = 0 ↔ ca = cb ∧ da = db) :=
  inequal_spec ha hb

example : (do
    let a ← create 16
    let (a1, h1, _) ← set a ⟨[]⟩ 0 (some ([0x61, 0x62, 0x63] ++ [0])) 3
    pure ((compare a1 h1 (some ([0x61, 0x62, 0x63] ++ [0])) 3).toOption, (compare a1 h1 (some ([0x61, 0x62, 0x64] ++ [0])) 3).toOption,
          (compare a1 h1 (some ([0x61, 0x62] ++ [0])) 2).toOption)).toOption =
    some (some 0, some 3, some (-16)) := by decide

/-- **node names** (`node_locate.c`): for an identifier that denotes the value `v`, the name test of
    `mpt_node_locate` (default identifier type) answers exactly "`v` is the text `t`" — for names of any length,
    stored inline or in a block -/
theorem locate_match_iff_equal {id : Ident} {h : Heap} {k : Nat} {v : Val} (hd : Denotes id h k v) (t : List Byte) :
    locateMatch id h t = .ok (cmpEq v t) :=
  locateMatch_spec hd t

/-- `mpt_node_locate` over a node list (position forms `pos > 0`, `pos < 0`, `pos = 0`) finds exactly the node the
    search over the denoted values finds -/
theorem locate_finds_equal_names {nodes : List (Ident × Nat × Val)} {h : Heap}
    (hd : ∀ n, n ∈ nodes → Denotes n.1 h n.2.1 n.2.2) (start : Nat) (pos : Int) (t : List Byte) :
    locate (nodes.map (·.1)) h start pos t = .ok (locateS (nodes.map (·.2.2)) start pos t) :=
  locate_spec hd start pos t

/-- the name test of `mpt_node_next` (C string argument) on an identifier holding the text `c` -/
theorem next_match_iff_equal {id : Ident} {h : Heap} {k : Nat} {c : List Byte} (hh : Holds id h k utf8 (c ++ [0])) (b : List Byte)
    (hb : ∀ x, x ∈ b → x ≠ 0) :
    nextMatch id h (some (b ++ [0])) = .ok (decide (b = c)) :=
  nextMatch_text hh b hb

example : (do
    let a ← create 24
    let (a1, h1, _) ← set a ⟨[]⟩ 0 (some (List.replicate 30 0x61 ++ [0])) 30
    let b ← create 24
    let (b1, h2, _) ← set b h1 1 (some ([0x61] ++ [0])) 1
    locate [a1, b1, a1] h2 0 2 (List.replicate 30 0x61)).toOption = some (some 2) := by decide


/- ------------------------------------------------------------------------------------------------
   refinement of the value-level collection (Spec/Ident.lean: `Vals`, `setVal`, `cmpEq`, `nameOf`) — the spec
   column of the driver is computed with these very functions
   ------------------------------------------------------------------------------------------------ -/

theorem denotes_view {id : Ident} {h : Heap} {k : Nat} {v : Val} (hd : Denotes id h k v) :
    view id h = .ok (v.charset, v.stored) := by
  simp [view, hd.read, hd.cs, bind, Except.bind, pure, Except.pure]

/-- **set, every operand shape**: `len` bytes of a buffer that may be longer (a slice), the C string in the buffer
    (`len = -1`), or `len` cleared bytes (zero pointer): the identifier then reads back as the value `setVal` gives
    for that operand, or — exactly when `setVal` refuses (length limit, negative length without a name) — the call is
    refused and nothing changes. -/
theorem set_stores_value {id : Ident} {h : Heap} {k : Nat} (hw : Wf id h k) (ho : Own id h k) (name : Option (List Byte))
    (len : Int) (hv : ∀ b, name = some b → len ≤ b.length) :
    match (nameOf name len).bind setVal with
    | some v => ∃ id' h', set id h k (name.map (· ++ [0])) len = .ok (id', h', true) ∧
        view id' h' = .ok (v.charset, v.stored) ∧ Wf id' h' k ∧ Own id' h' k ∧ Frame h h' k
    | none => set id h k (name.map (· ++ [0])) len = .ok (id, h, false) := by
  have := set_value hw ho name len hv
  cases hb : (nameOf name len).bind setVal with
  | none => rw [hb] at this; exact this
  | some v =>
    rw [hb] at this
    obtain ⟨id', h', hs, hd, hf⟩ := this
    exact ⟨id', h', hs, denotes_view hd, hd.wf, hd.own, hf⟩

/-- a slice of a longer buffer, and a C string with text behind its terminator -/
example : (do
    let a ← create 16
    let (a1, h1, _) ← set a ⟨[]⟩ 0 (some ([0x61, 0x62, 0x63, 0x64, 0x65] ++ [0])) 3
    let (a2, h2, _) ← set a1 h1 0 (some ([0x61, 0x62, 0, 0x64, 0x65] ++ [0])) (-1)
    pure ((view a1 h1).toOption, (view a2 h2).toOption)).toOption =
    some (some (1, [0x61, 0x62, 0x63, 0]), some (1, [0x61, 0x62, 0])) := by decide

/-- **set while the allocator fails** (true by the construction of `setNoMem`, which mirrors the early `return 0` of the
    code; tied to the code by the correspondence run with injected malloc failure): either the request is refused and
    identifier and heap are exactly what they were — charset, length and bytes — or no allocation was needed and the
    call is the ordinary `set`. -/
theorem set_without_memory (id : Ident) (h : Heap) (k : Nat) (name : Option (List Byte)) (len : Int) :
    setNoMem id h k name len = .ok (id, h, false) ∨ setNoMem id h k name len = set id h k name len := by
  have key : ∀ {α : Type} (c : Prop) [Decidable c] (x y : α), (if c then x else y) = x ∨ (if c then x else y) = y := by
    intro α c _ x y; by_cases hc : c <;> simp [hc]
  unfold setNoMem
  exact key _ _ _

example : (do
    let a ← create 16
    let (a1, h1, _) ← set a ⟨[]⟩ 0 (some ([0x61, 0x62] ++ [0])) 2
    let (a2, h2, ok) ← setNoMem a1 h1 0 none 40
    pure (ok, (view a2 h2).toOption)).toOption = some (false, some (1, [0x61, 0x62, 0])) := by decide

/-- **compare, every operand shape**: for an identifier that denotes the value `v` (text or not), the comparison with
    `len` bytes of a buffer that may be longer, or with the C string in it (`len < 0`), is zero exactly when `v` is
    that text. -/
theorem compare_iff_equal_value {id : Ident} {h : Heap} {k : Nat} {v : Val} (hd : Denotes id h k v) (b : List Byte) (len : Int)
    (hl : len ≤ b.length) :
    ∃ r, compare id h (some (b ++ [0])) len = .ok r ∧
      (r = 0 ↔ cmpEq v (if len < 0 then cstr b else b.take len.toNat) = true) :=
  compare_value hd b len hl

example : (do
    let a ← create 16
    let (a1, h1, _) ← set a ⟨[]⟩ 0 (some ([0x61, 0x62] ++ [0])) 2
    pure ((compare a1 h1 (some ([0x61, 0x62, 0x63, 0x64] ++ [0])) 2).toOption, (compare a1 h1 (some ([0x61, 0x62, 0, 0x64] ++ [0])) (-1)).toOption,
          (compare a1 h1 (some ([0x61, 0x62, 0x63] ++ [0])) (-1)).toOption)).toOption = some (some 0, some 0, some (-16)) := by decide

/-- the name test of `mpt_node_next` for every C string operand, and the walk over a node list: the node found is the
    first one from the current node on whose name is that C string -/
theorem next_match_value {id : Ident} {h : Heap} {k : Nat} {v : Val} (hd : Denotes id h k v) (b : List Byte) :
    nextMatch id h (some (b ++ [0])) = .ok (cmpEq v (cstr b)) :=
  nextMatch_value hd b

theorem next_finds_equal_name {nodes : List (Ident × Nat × Val)} {h : Heap}
    (hd : ∀ n, n ∈ nodes → Denotes n.1 h n.2.1 n.2.2) (b : List Byte) (i : Nat) :
    ∃ r, nodeNext h (some (b ++ [0])) (nodes.map (·.1)) i = .ok r ∧
      walkS (cstr b) 1 (nodes.map (·.2.2)) 1 (i : Int) = r.map Int.ofNat :=
  nodeNext_spec hd b i

example : (do
    let a ← create 24
    let (a1, h1, _) ← set a ⟨[]⟩ 0 (some ([0x61] ++ [0])) 1
    let b ← create 24
    let (b1, h2, _) ← set b h1 1 (some ([0x62] ++ [0])) 1
    nodeNext h2 (some ([0x62, 0, 0x63] ++ [0])) [a1, b1, a1] 0).toOption = some (some 1) := by decide

/-- **one step refines the value level**: from a system that satisfies the invariant and agrees with a value-level
    collection `sp` (every identifier denotes the value `sp` holds for its slot, ended slots are ended), every
    operation runs without fault and the system agrees with `sp.step` afterwards. -/
theorem step_refines_values {s : Sys} {sp : Vals} (hi : SysInv s) (ha : Agree s sp) (op : Op) (hv : op.valid) :
    ∃ s' r, s.step op = .ok (s', r) ∧ SysInv s' ∧ Agree s' (sp.step op.abs) :=
  step_refines hi ha op hv

/-- **histories refine the value level**: after every history of set / copy / end-of-life / construct operations
    (any storage sizes >= 16, any operand shapes, in any order, switching between inline and allocated content in
    either direction) every identifier reads back exactly the value the property assigns to its slot — the value last
    set or copied into it — and the slots that ended are ended. -/
theorem history_refines_values (ops : List Op) (hv : ∀ op, op ∈ ops → op.valid) :
    ∃ s, Sys.empty.run ops = .ok s ∧ SysInv s ∧ s.ids.length = (Vals.run [] (ops.map Op.abs)).length ∧
      ∀ k, (s.get k = none ∧ Vals.slot (Vals.run [] (ops.map Op.abs)) k = none) ∨
        ∃ id v, s.get k = some id ∧ Vals.slot (Vals.run [] (ops.map Op.abs)) k = some v ∧
          view id s.heap = .ok (v.charset, v.stored) := by
  obtain ⟨s, hr, hi, ha⟩ := run_refines SysInv.empty Agree.empty ops hv
  refine ⟨s, hr, hi, ha.len, ?_⟩
  intro k
  rcases ha.slot k with h1 | ⟨id, v, h1, h2, h3⟩
  · exact Or.inl h1
  · exact Or.inr ⟨id, v, h1, h2, denotes_view h3⟩

/-- long -> short by copy, then the source is overwritten and ended: the copy keeps the value -/
example : Vals.run [] ([Op.new 16, .new 32, .set 0 (some (List.replicate 30 0x61)) 30, .set 1 (some [0x62, 0x62, 0x63]) 2,
      .copy 0 (some 1), .set 1 none 3, .free 1].map Op.abs) = [some ⟨1, [0x62, 0x62]⟩, none] := by decide
example : (do
    let s ← Sys.empty.run [.new 16, .new 32, .set 0 (some (List.replicate 30 0x61)) 30, .set 1 (some [0x62, 0x62, 0x63]) 2,
      .copy 0 (some 1), .set 1 none 3, .free 1]
    pure ((s.get 0).map fun id => (view id s.heap).toOption)).toOption = some (some (some (1, [0x62, 0x62, 0]))) := by decide

/- ------------------------------------------------------------------------------------------------
   heap_discipline
   ------------------------------------------------------------------------------------------------ -/

/-- **heap discipline, one operation**: in a system of identifiers that satisfies the invariant (every identifier
    well-formed; every live block referenced by the live identifier that owns it) no operation — new, set, copy,
    end of life by `set(0,0)`, traits init/fini — faults: in the model a fault is a free of a wild, already freed
    or foreign block, a read through a clobbered or stale pointer, of a freed block or of non-data bytes, or an
    access outside the storage.  The invariant is kept, and an identifier that ends leaves no block behind. -/
theorem heap_discipline_step {s : Sys} (hi : SysInv s) (op : Op) (hv : op.valid) :
    ∃ s' r, s.step op = .ok (s', r) ∧ SysInv s' ∧ (∀ n, r = .ended n → n = 0) :=
  step_inv hi op hv

/-- **heap discipline, all histories**: every history of operations (storage >= 16 bytes, buffers as long as
    announced) from the empty system runs without a fault and ends in a system where every live block is the
    content of exactly the identifier that owns it. -/
theorem heap_discipline (ops : List Op) (hv : ∀ op, op ∈ ops → op.valid) :
    ∃ s, Sys.empty.run ops = .ok s ∧ SysInv s :=
  run_inv SysInv.empty ops hv

/-- when all identifiers have ended, no block is live -/
theorem no_leak_at_end {s : Sys} (hi : SysInv s) (hall : ∀ k, s.get k = none) :
    ∀ (t : Nat) (b : Block), s.heap.blocks[t]? = some b → b.live = false := by
  intro t b hb
  exact hi.dead (hall b.owner) t b hb rfl

example : (do
    let s ← Sys.empty.run [.new 16, .new 32, .set 0 (some (List.replicate 99 0x61)) 99, .set 1 (some [0x62, 0x62]) 2,
      .copy 0 (some 1), .copy 1 (some 0), .tinit (some 0), .set 0 none 40, .free 0, .tfini 2, .free 1]
    pure (s.heap.blocks.map Block.live, s.ids)).toOption = some ([false, false], [none, none, none]) := by decide

end Mpt.C16
