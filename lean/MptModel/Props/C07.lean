import MptModel.Impl.Convert
namespace Mpt.C07
theorem placeholder : True := trivial
end Mpt.C07
