/-
  C07 — scalar conversion is exact or refused.

  M = `conv` (Impl/Convert.lean) evaluates the converter tables that translate/cextract.py regenerates from
  mptcore/convert/data_convert_int.c, data_convert_float.c, data_converter.c on every run
  (Generated/ConvInt.lean), plus the hand model of text -> integer.  S = Spec/Scalar.lean (what a scalar
  object denotes, what a numeral denotes).

  The theorems about `conv` are proved by *deciding a verified checker on the generated table*
  (Lemmas/Convert.lean, Lemmas/ConvFloat.lean): a widened bound, a dropped `if (dest)`, a store of the wrong
  width or an unguarded `isgraph` in the C source changes the table and makes `by decide` fail.

  Floating targets: `float_no_saturation` proves that an accepted conversion stores the correctly rounded value of
  Spec/Float.lean and never turns a finite number into an infinity; that the hardware conversion instructions and
  `strtof/strtod/strtold` round this way is an assumption, checked differentially against the real code.
-/
import MptModel.Lemmas.Convert
import MptModel.Lemmas.ConvText
import MptModel.Lemmas.ConvFloat
import MptModel.Lemmas.ConvDec
namespace Mpt.C07
open Mpt Mpt.Conv Mpt.Scalar Mpt.Flt

/-- Integer -> integer (all 9 x 9 pairs of c b y n q i u x t, every value of the source type, with and without
    destination): the conversion never has undefined behaviour; an accepted conversion returns the size of the
    target type; without destination nothing is stored; with destination the target object denotes exactly the
    source number — and a character target only ever receives a printable 7-bit character. -/
theorem int_exact (src tgt : Ty) (hs : src ∈ Ty.ints) (ht : tgt ∈ Ty.ints) (v : Int) (hv : inRange src v) (d : Bool) :
    verdict (conv src tgt (.int v) d) ≠ .broken ∧
    ∀ o n, conv src tgt (.int v) d = .ok (o, n) →
      n = tgt.size ∧ (d = false → o = none) ∧
      (d = true → ∃ bits, o = some (.int bits) ∧ denote tgt bits = v ∧ (tgt = .c → isGraph v = true)) := by
  have htab : checkIntTable = true := by decide
  unfold checkIntTable at htab
  rw [List.all_eq_true] at htab
  have h1 := htab src hs
  rw [List.all_eq_true] at h1
  have hp := h1 tgt ht
  have hsf : src.isFloat = false := by
    cases src <;> simp [Ty.ints] at hs <;> rfl
  rcases checkPair_sound src tgt v d hp hsf hv with ⟨e, he⟩ | ⟨o, ho, h2, h3⟩
  · exact ⟨by simp [he, verdict], by intro o n h; simp [he] at h⟩
  · refine ⟨by simp [ho, verdict], ?_⟩
    intro o' n' h
    rw [ho] at h
    simp only [Res.ok.injEq, Prod.mk.injEq] at h
    obtain ⟨rfl, rfl⟩ := h
    exact ⟨rfl, h2, h3⟩

/-- instances: uint32 65535 -> 'q' is stored exactly, 65536 is refused, int32 -8194 -> 'c' is refused -/
example : conv .u .q (.int 65535) true = .ok (some (.int 65535), 2) := by decide
example : conv .u .q (.int 65536) true = .err .BadValue := by decide
example : conv .i .c (.int (-8194)) true = .err .BadValue := by decide
example : conv .y .u (.int 200) false = .ok (none, 4) := by decide

/-- Asking whether a conversion is possible (no destination) gives the same verdict as performing it:
    all 12 x 12 pairs, every integer or floating source value. -/
theorem query_same_verdict (src tgt : Ty) (s : Src) :
    verdict (conv src tgt s false) = verdict (conv src tgt s true) :=
  query_of_table (by decide) src tgt s

example : verdict (conv .q .e (.int 7) false) = .accepted := by decide

/-- representable source values: an integer of the source type, or a floating datum whose magnitude does not
    exceed the largest finite value of the source type -/
def srcOK (src : Ty) : Src → Prop
  | .int v => src.isFloat = false ∧ inRange src v
  | .flt x => src.isFloat = true ∧ x.absLe (tgtCTy src).fmt.maxInt

def srcVal : Src → FVal
  | .int v => ofInt v
  | .flt x => x

/-- Floating targets (all 12 sources x f d e, every representable source value): no undefined behaviour; an accepted
    conversion returns the target's size and stores the correctly rounded (nearest, ties to even) value of the
    source number (DESIGN §5.0) — and that value is finite whenever the source is: a finite number is never turned
    into an infinity or a NaN, it is refused instead. -/
theorem float_no_saturation (src tgt : Ty) (ht : tgt ∈ Ty.floats) (s : Src) (hs : srcOK src s) :
    verdict (conv src tgt s true) ≠ .broken ∧
    ∀ o n, conv src tgt s true = .ok (o, n) →
      n = tgt.size ∧ ∃ y, o = some (.flt y) ∧ y = round (tgtCTy tgt).fmt (srcVal s) ∧
        ((srcVal s).isFinite = true → y.isFinite = true) := by
  cases s with
  | int v =>
    obtain ⟨hsf, hv⟩ := hs
    have hsm : src ∈ Ty.ints := by cases src <;> simp [Ty.isFloat] at hsf <;> simp [Ty.ints]
    have htab : checkFloatTable = true := by decide
    unfold checkFloatTable at htab
    rw [List.all_eq_true] at htab
    have h1 := htab src hsm
    rw [List.all_eq_true] at h1
    rcases checkPairF_sound_any src tgt v (h1 tgt ht) hsf hv with ⟨e, he⟩ | ⟨y, hy, hyr, hfin⟩
    · exact ⟨by simp [he, verdict], by intro o n h; simp [he] at h⟩
    · refine ⟨by simp [hy, verdict], ?_⟩
      intro o n h
      rw [hy] at h
      simp only [Res.ok.injEq, Prod.mk.injEq] at h
      exact ⟨h.2.symm, y, h.1.symm, hyr, fun _ => hfin⟩
  | flt x =>
    obtain ⟨hsf, hx⟩ := hs
    have hsm : src ∈ Ty.floats := by cases src <;> simp [Ty.isFloat] at hsf <;> simp [Ty.floats]
    have htab : checkFloatSrcTable = true := by decide +kernel
    unfold checkFloatSrcTable at htab
    rw [List.all_eq_true] at htab
    have h1 := htab src hsm
    rw [List.all_eq_true] at h1
    rcases checkPairFF_sound src tgt x (h1 tgt ht) hx with ⟨e, he⟩ | ⟨y, hy, hyr, hfin⟩
    · exact ⟨by simp [he, verdict], by intro o n h; simp [he] at h⟩
    · refine ⟨by simp [hy, verdict], ?_⟩
      intro o n h
      rw [hy] at h
      simp only [Res.ok.injEq, Prod.mk.injEq] at h
      exact ⟨h.2.symm, y, h.1.symm, hyr, hfin⟩

/-- FLT_MAX converts from double, the next double above it is refused (not stored as infinity); 2^24+1 rounds to 2^24 -/
example : conv .d .f (.flt (.fin false 16777215 104)) true = .ok (some (.flt (.fin false 16777215 104)), 4) := by decide +kernel
example : conv .d .f (.flt (.fin false (16777215 * 2 ^ 29 + 1) 75)) true = .err .BadValue := by decide +kernel
example : conv .i .f (.int 16777217) true = .ok (some (.flt (.fin false 8388608 1)), 4) := by decide +kernel

/-- Integer -> floating point: a source value with fewer significant bits than the target's significand
    (24 / 53 / 64) is either refused or stored as exactly that number. -/
theorem int_to_float_exact (src tgt : Ty) (hs : src ∈ Ty.ints) (ht : tgt ∈ Ty.floats) (v : Int) (hv : inRange src v)
    (hsmall : v.natAbs < 2 ^ precision tgt) :
    verdict (conv src tgt (.int v) true) ≠ .broken ∧
    ∀ o n, conv src tgt (.int v) true = .ok (o, n) → ∃ y, o = some (.flt y) ∧ y.toInt? = some v := by
  have htab : checkFloatTable = true := by decide
  unfold checkFloatTable at htab
  rw [List.all_eq_true] at htab
  have h1 := htab src hs
  rw [List.all_eq_true] at h1
  have hp := h1 tgt ht
  have hsf : src.isFloat = false := by
    cases src <;> simp [Ty.ints] at hs <;> rfl
  rcases checkPairF_sound src tgt v hp hsf hv hsmall with ⟨e, he⟩ | hn
  · exact ⟨by simp [he, verdict], by intro o n h; simp [he] at h⟩
  · refine ⟨by simp [hn, verdict], ?_⟩
    intro o n' h
    rw [hn] at h
    simp only [Res.ok.injEq, Prod.mk.injEq] at h
    exact ⟨ofInt v, h.1.symm, ofInt_toInt v⟩

example : precision .f = 24 ∧ precision .d = 53 ∧ precision .e = 64 := by decide

/-- Text -> integer (`mpt_convert_number`, the `mpt_c[u]intN` wrapper and the `_mpt_convert_int/_uint` parser it
    reaches, as described by the regenerated `Generated/ConvText.lean`; targets b y n q i u x t): never undefined
    behaviour; an accepted conversion consumed a prefix of the text that is either blank (then nothing is stored) or
    a numeral — optional white space, optional sign, C integer literal — of a number in the target's range, and the
    stored object denotes exactly that number (never a saturated or wrapped one); the query mode reports the same
    verdict and the same consumed length.  Proved by deciding a verified checker on the generated parser tables:
    dropping the ERANGE test, the minus-sign test, a range test or the `if (val)` breaks it. -/
theorem text_int_exact (tgt : Ty) (ht : tgt ∈ textTargets) (s : List Nat) (d : Bool) :
    verdict (convertNumber tgt s d) ≠ .broken ∧
    (∀ o n, convertNumber tgt s d = .ok (o, n) → TextOK tgt s d o n) ∧
    convertNumber tgt s false = dropValue (convertNumber tgt s true) := by
  have htab : checkTextTable = true := by decide
  unfold checkTextTable at htab
  rw [List.all_eq_true] at htab
  exact convertNumber_sound tgt ht (htab tgt ht) s d

/-- the same for `mpt_convert_string` (skips leading white space itself; blank text is "no value", 0 consumed) -/
theorem text_string_exact (tgt : Ty) (ht : tgt ∈ textTargets) (s : List Nat) (d : Bool) :
    verdict (convertString tgt s d) ≠ .broken ∧
    (∀ o n, convertString tgt s d = .ok (o, n) → TextOK tgt s d o n) ∧
    convertString tgt s false = dropValue (convertString tgt s true) :=
  ⟨convertString_notBroken tgt s d (fun s' => (text_int_exact tgt ht s' d).1),
   fun o n h => convertString_ok tgt s d o n (fun s' o' n' h' => (text_int_exact tgt ht s' d).2.1 o' n' h') h,
   convertString_query tgt s (fun s' => (text_int_exact tgt ht s' false).2.2)⟩

/-- " -129" is refused for int8, " -128x" is read as -128 from its first 5 characters; "-1" is refused for uint64;
    2^63 is refused for int64 -/
example : convertNumber .b [32, 45, 49, 50, 57] true = .err .BadValue := by decide
example : convertNumber .b [32, 45, 49, 50, 56, 120] true = .ok (some 128, 5) := by decide
example : convertNumber .t [45, 49] true = .err .BadValue := by decide
example : numeral [32, 45, 49, 50, 56] = some (-128) ∧ denote .b 128 = -128 := by decide

/-- Text -> character ('c' target of `mpt_convert_number` and `mpt_convert_string`): never undefined behaviour; an
    accepted conversion either found only blanks (nothing stored, nothing consumed) or consumed blanks and one
    printable 7-bit character, which is what is stored; the query mode reports the same verdict and length. -/
theorem text_char_exact (s : List Nat) (d : Bool) :
    verdict (convertNumber .c s d) ≠ .broken ∧ verdict (convertString .c s d) ≠ .broken ∧
    (∀ o n, convertNumber .c s d = .ok (o, n) → CharOK s d o n) ∧
    (∀ o n, convertString .c s d = .ok (o, n) → CharOK s d o n) ∧
    convertNumber .c s false = dropValue (convertNumber .c s true) ∧
    convertString .c s false = dropValue (convertString .c s true) := by
  have hnb : ∀ s' d', verdict (convertNumber .c s' d') ≠ .broken := by
    intro s' d'; simp only [convertNumber, if_true]; exact convertChar_notBroken s' d'
  have hq : ∀ s', convertNumber .c s' false = dropValue (convertNumber .c s' true) := by
    intro s'; simp only [convertNumber, if_true]; exact convertChar_query s'
  refine ⟨hnb s d, convertString_notBroken .c s d (fun s' => hnb s' d), ?_, fun o n h => convertStringChar_ok s d o n h,
    hq s, convertString_query .c s hq⟩
  intro o n h
  simp only [convertNumber, if_true] at h
  exact convertChar_ok s d o n h

example : convertNumber .c [32, 9, 65, 66] true = .ok (some 65, 3) := by decide

/-- Text -> floating point (`mpt_cfloat`, `mpt_cdouble`, `mpt_cldouble` as described by the regenerated
    `Generated/ConvText.lean`; `strtof/strtod/strtold` themselves are an oracle `r` that satisfies the libc contract
    "a numeral whose correctly rounded value is not finite yields an infinity and ERANGE"): an accepted conversion
    consumed what `strto*` consumed and stores the value it returned, and the numeral did not overflow — a finite
    numeral is never stored as an infinity, it is refused.  Dropping the `errno` reset or the ERANGE test breaks it. -/
theorem text_float_no_saturation (p : TextParser)
    (hp : p ∈ [Generated.Text.mpt_cfloat, Generated.Text.mpt_cdouble, Generated.Text.mpt_cldouble])
    (r : StrToF) (hr : r.contract) (s : List Nat) (d : Bool) (o : Option FVal) (n : Nat)
    (h : runFloatParser p r s d = .ok (o, n)) (hn : n ≠ 0) :
    r.overflow = false ∧ n = r.consumed ∧ (d = true → o = some r.value) := by
  have hall : ∀ q ∈ [Generated.Text.mpt_cfloat, Generated.Text.mpt_cdouble, Generated.Text.mpt_cldouble],
      checkFloatParser q = true := by decide +kernel
  exact runFloatParser_no_overflow p (hall p hp) r hr s d o n h hn

/-- the parsers `mpt_convert_number` reaches for f, d, e pass both checkers -/
theorem floatTargets (tgt : Ty) (ht : tgt ∈ [Ty.f, Ty.d, Ty.e]) :
    ∃ p, numberFloatTarget tgt = some p ∧ checkFloatParser p = true ∧ checkFloatSafe p = true := by
  have h : ∀ ty ∈ [Ty.f, Ty.d, Ty.e], (match numberFloatTarget ty with
      | some p => checkFloatParser p && checkFloatSafe p
      | none => false) = true := by decide +kernel
  have := h tgt ht
  cases hp : numberFloatTarget tgt with
  | none => simp [hp] at this
  | some p =>
    simp only [hp, Bool.and_eq_true] at this
    exact ⟨p, rfl, this.1, this.2⟩

/-- Text -> floating point, `mpt_convert_number` and `mpt_convert_string` for the targets f, d, e as described by the
    regenerated `Generated/ConvText.lean`, for *every* behaviour `strto` of `strtof/strtod/strtold`: the call never
    has undefined behaviour, and without destination it gives the verdict and the count of the storing call and
    stores nothing.  (An unguarded store, a test the temporary cannot be put to, or a second width case break it.) -/
theorem text_float_total (tgt : Ty) (ht : tgt ∈ [Ty.f, Ty.d, Ty.e]) (strto : List Nat → StrToF) (s : List Nat) :
    (∀ d, verdict (convertNumberF tgt strto s d) ≠ .broken) ∧
    convertNumberF tgt strto s false = dropF (convertNumberF tgt strto s true) ∧
    (∀ d, verdict (convertStringF tgt strto s d) ≠ .broken) ∧
    convertStringF tgt strto s false = dropF (convertStringF tgt strto s true) := by
  obtain ⟨p, hp, _, hsafe⟩ := floatTargets tgt ht
  obtain ⟨h1, h2⟩ := runFloatParser_safe p hsafe (strto s) s
  obtain ⟨h3, h4⟩ := convertStringF_safe tgt strto s (fun q hq => by rw [hp] at hq; cases hq; exact hsafe)
  refine ⟨?_, ?_, h3, h4⟩
  · intro d; simp only [convertNumberF, hp]; exact h1 d
  · simp only [convertNumberF, hp]; exact h2

/-- Text -> floating point over the decimal model `strtoDec` of `strtof/strtod/strtold` (Impl/Convert.lean; the driver
    runs it against the real libc for every decimal text): what an accepted `mpt_convert_string` call consumed is
    white space followed by a decimal floating-point numeral in the sense of Spec/Scalar.lean (`IsDecNumeral`:
    sign, digits with optional fraction, optional exponent) denoting `(-1)^neg * m * 10^e`; the correctly rounded
    value of that number in the target format is finite, and it is what the destination receives; without destination
    nothing is stored.  A numeral whose rounded value would be an infinity is refused.  Whether the rounded value
    equals the number is not claimed here: see `float_exact_counterexample`. -/
theorem text_float_decimal (tgt : Ty) (ht : tgt ∈ [Ty.f, Ty.d, Ty.e]) (s : List Nat) (d : Bool)
    (o : Option FVal) (n : Nat)
    (h : convertStringF tgt (strtoDec (tgtCTy tgt).fmt) s d = .ok (o, n)) (hn : n ≠ 0) :
    n ≤ s.length ∧ ∃ neg m e, IsDecNumeral (s.take n) neg m e ∧
      (∀ sg, roundDec (tgtCTy tgt).fmt neg m e ≠ .inf sg) ∧
      (d = true → o = some (roundDec (tgtCTy tgt).fmt neg m e)) ∧ (d = false → o = none) := by
  obtain ⟨p, hp, hck, _⟩ := floatTargets tgt ht
  exact convertStringF_decimal tgt p hp hck _ s d o n h hn

/-- " 0.1" is accepted as a float with the nearest binary32 value; "1e39" is refused, not stored as infinity -/
example : convertStringF .f (strtoDec binary32) [32, 48, 46, 49] true = .ok (some (.fin false 13421773 (-27)), 4) := by
  decide +kernel
example : convertStringF .f (strtoDec binary32) [49, 101, 51, 57] true = .err .BadValue := by decide +kernel
example : convertStringF .d (strtoDec binary64) [49, 101, 51, 57] false = .ok (none, 4) := by decide +kernel

/-- which of them `mpt_convert_number` reaches for f, d, e -/
example : (Generated.Text.numberDispatch.filter (fun x => x.1 ∈ [102, 100, 101])).map (·.2.1) =
    ["mpt_cfloat", "mpt_cdouble", "mpt_cldouble"] := by decide

def tokVerdict : TextRes → Verdict
  | .ok (some _, _) => .accepted
  | .ok (none, _) => .refused
  | .err _ => .refused
  | _ => .broken

/-- A number read from a text file through the file iterator (`fileToken`: the element converts the token with
    `mpt_convert_number`), integer targets: never undefined; the verdict does not depend on the destination; an accepted
    read converted a prefix of the token that is a numeral of a number in the target's range, and the object handed
    out denotes exactly that number — never a wrapped or saturated one ("300" is no uint8, "-1" no unsigned). -/
theorem file_token_exact (tgt : Ty) (ht : tgt ∈ textTargets) (strto : List Nat → StrToF) (s : List Nat) (d : Bool) :
    verdict (fileToken tgt strto s d) ≠ .broken ∧
    verdict (fileToken tgt strto s false) = verdict (fileToken tgt strto s true) ∧
    ∀ o n, fileToken tgt strto s d = .ok (o, n) →
      (d = false → o = none) ∧
      (d = true → ∃ bits k v, o = some (.int bits) ∧ numeral (s.take k) = some v ∧ inRange tgt v ∧ denote tgt bits = v) := by
  obtain ⟨hnb, hok, _⟩ := text_int_exact tgt ht s true
  have hc : ¬ (tgt = .c ∨ tgt = .e) := by
    intro h; rcases h with h | h <;> subst h <;> simp [textTargets] at ht
  have hf : tgt.isFloat = false := by cases tgt <;> simp [textTargets] at ht <;> rfl
  have hv : ∀ d', verdict (fileToken tgt strto s d') = tokVerdict (convertNumber tgt s true) := by
    intro d'
    simp only [fileToken, hc, hf, if_false, Bool.false_eq_true]
    cases hcn : convertNumber tgt s true with
    | ok r => obtain ⟨o, n⟩ := r; cases o <;> simp [verdict, tokVerdict]
    | err e => cases e <;> simp [verdict, tokVerdict]
    | null => rfl
    | oob => rfl
    | fault => rfl
  refine ⟨?_, by rw [hv false, hv true], ?_⟩
  · rw [hv d]
    cases hcn : convertNumber tgt s true with
    | ok r => obtain ⟨o, n⟩ := r; cases o <;> simp [tokVerdict]
    | err e => simp [tokVerdict]
    | null => simp [hcn, verdict] at hnb
    | oob => simp [hcn, verdict] at hnb
    | fault => simp [hcn, verdict] at hnb
  · intro o n h
    simp only [fileToken, hc, hf, if_false, Bool.false_eq_true] at h
    cases hcn : convertNumber tgt s true with
    | ok r =>
      obtain ⟨ob, k⟩ := r
      cases ob with
      | none => simp [hcn] at h
      | some bits =>
        simp only [hcn, Res.ok.injEq, Prod.mk.injEq] at h
        obtain ⟨ho, _⟩ := h
        have hT := hok (some bits) k hcn
        obtain ⟨_, hT⟩ := hT
        rcases hT with ⟨hnone, _, _⟩ | ⟨v, hnum, hrange, hst⟩
        · cases hnone
        · rcases hst with ⟨_, b, hb, hden⟩ | ⟨hd, _⟩
          · simp only [Option.some.injEq] at hb
            subst hb
            refine ⟨fun hd => by simp [hd] at ho; exact ho.symm, fun hd => ?_⟩
            simp only [hd, if_true] at ho
            exact ⟨bits, k, v, ho.symm, hnum, hrange, hden⟩
          · cases hd
    | err e => cases e <;> simp [hcn] at h
    | null => simp [hcn] at h
    | oob => simp [hcn] at h
    | fault => simp [hcn] at h

example : fileToken .y (fun _ => ⟨.nan, 0, false, false⟩) [51, 48, 48] true = .err .BadType ∧
    fileToken .y (fun _ => ⟨.nan, 0, false, false⟩) [50, 48, 48] true = .ok (some (.int 200), 128) := by decide

/-- the target types of the `mpt_c*` integer wrappers: the fixed-width ones and the native `char`, `int`, `long`,
    `unsigned char`, `unsigned int`, `unsigned long` (LP64: sizes from the regenerated table) -/
def wrapperTys : List (String × Ty) :=
  [("mpt_cint8", .b), ("mpt_cint16", .n), ("mpt_cint32", .i), ("mpt_cint64", .x),
   ("mpt_cchar", .b), ("mpt_cint", .i), ("mpt_clong", .x),
   ("mpt_cuint8", .y), ("mpt_cuint16", .q), ("mpt_cuint32", .u), ("mpt_cuint64", .t),
   ("mpt_cuchar", .y), ("mpt_cuint", .u), ("mpt_culong", .t)]

/-- Text -> integer through the wrappers called directly (`mpt_cint8(val, src, 0, NULL)` ... `mpt_culong`), base 0:
    never undefined, an accepted call consumed a numeral of an in-range number which the stored object denotes, and
    the query has the verdict and count of the storing call. -/
theorem text_wrapper_exact (name : String) (tgt : Ty) (hw : (name, tgt) ∈ wrapperTys) (s : List Nat) (d : Bool) :
    verdict (runWrapper name s 0 d) ≠ .broken ∧
    (∀ o n, runWrapper name s 0 d = .ok (o, n) → TextOK tgt s d o n) ∧
    runWrapper name s 0 false = dropValue (runWrapper name s 0 true) := by
  have hall : ∀ w ∈ wrapperTys, (match wrapperTarget w.1 with
      | some (p, size) => checkParser p size w.2
      | none => false) = true := by decide
  have := hall (name, tgt) hw
  simp only [runWrapper]
  cases hwt : wrapperTarget name with
  | none => simp [hwt] at this
  | some ps =>
    obtain ⟨p, size⟩ := ps
    simp only [hwt] at this
    exact runParser_sound p size tgt s d this

example : runWrapper "mpt_cchar" [45, 49, 50, 56] 0 true = .ok (some 128, 4) := by decide
example : runWrapper "mpt_cuchar" [50, 53, 54] 0 true = .err .BadValue := by decide

/-- The target code `'l'` (`long`): every integer converter rewrites it to `mpt_type_int(sizeof(long))` = `'x'` before
    its switch, and so does `mpt_convert_number` (its own `case 'l'` behind the rewrite is dead): a conversion to `'l'`
    is the conversion to `'x'`, to which `int_exact`, `float_to_int_refused` and `text_int_exact` apply. -/
theorem long_alias (src : Ty) (s : Src) (d : Bool) :
    convLong src s d = conv src .x s d ∧ Generated.Text.numberAlias = some (108, Ty.x.code) := by
  refine ⟨?_, by decide⟩
  have hall : ∀ ty ∈ Ty.all, ((fnOf ty).map fun f => decide (f.resolve 108 = f.resolve 120) ||
      ((f.lookup 108).isNone && (f.lookup 120).isNone && decide (f.resolve 108 ∉ f.vectors) &&
        decide (f.resolve 120 ∉ f.vectors))).getD true = true := by
    decide
  have hrun : ∀ (f : Fn) a b, f.resolve a = f.resolve b → f.run a s d = f.run b s d := by
    intro f a b h; simp only [Fn.run, Fn.lookup, h]
  have hs := hall src (by cases src <;> simp [Ty.all])
  simp only [convLong, conv]
  cases hf : fnOf src with
  | none => rfl
  | some f =>
    simp only [hf, Option.map, Option.getD, Bool.or_eq_true, Bool.and_eq_true, decide_eq_true_eq,
      Option.isNone_iff_eq_none] at hs
    rcases hs with hs | ⟨⟨⟨h1, h2⟩, h3⟩, h4⟩
    · simp only [hrun f 108 120 hs, show Ty.x.code = 120 from rfl]
    · simp only [show Ty.x.code = 120 from rfl, Fn.run, h1, h2, h3, h4, if_false]

/-- Values passed through a variadic call (`mpt_process_vararg` / `mpt_value_argv`, regenerated `argvTable`): every
    case fetches the promoted type of what it stores and reports its size, so an integer of any of the nine integer
    types arrives unchanged in the typed iterator (and is then converted under the theorems above). -/
theorem argv_faithful :
    (∀ r ∈ Generated.argvTable, r.2.2.2 = r.2.1.size ∧
      r.2.2.1 = (match r.2.1 with | .i8 | .i16 => CTy.i32 | .u8 | .u16 => CTy.u32 | .f32 => CTy.f64 | ty => ty)) ∧
    (∀ src ∈ Ty.ints, ∀ v, inRange src v → argvPass src (.int v) = .ok (.int v)) := by
  refine ⟨by decide, ?_⟩
  intro src hs v hv
  cases src <;> simp [Ty.ints] at hs <;> simp only [inRange, Ty.lo, Ty.hi] at hv <;>
    simp [argvPass, argvRow, Generated.argvTable, Generated.typeInt, Ty.code, tgtCTy, CTy.size, CTy.isFloat, wrap] <;> omega

example : argvPass .x (.int 5000000000) = .ok (.int 5000000000) := by decide

/-- `mpt_fpoint_set` (mptplot, a consumer of `mpt_iterator_consume`): both coordinates are consumed as 'f' straight
    into the float members, so what it stores is what the 'f' conversion delivers (`float_no_saturation`). -/
theorem fpoint_consumes_float : Generated.fpointConsume = [(Ty.code .f, true), (Ty.code .f, true)] := by decide

/-! ### the clause "the target denotes the same number" for floating targets: known finding `c_ne_s:rounded` -/

/-- The full clause for floating targets: an accepted conversion stores a value that denotes the source number. -/
def float_exact_statement : Prop :=
  ∀ (src tgt : Ty) (s : Src) (y : FVal) (n : Nat), tgt ∈ Ty.floats → srcOK src s →
    conv src tgt s true = .ok (some (.flt y), n) → y.same (srcVal s) = true

/-- It does not hold for the unchanged code: int32 16777217 is accepted for a float target and 16777216 is stored
    (likewise 2^53+1 for double); the conversion rounds instead of refusing. -/
theorem float_exact_counterexample : ¬ float_exact_statement := by
  intro h
  have := h .i .f (.int 16777217) (.fin false 8388608 1) 4 (by decide) ⟨rfl, by decide⟩ (by decide +kernel)
  revert this
  decide

/-- What holds instead (with `float_no_saturation`: the stored value is the correctly rounded one, never an infinity for
    a finite source): a source number that the target format can hold is stored exactly. -/
theorem float_exact_partial (src tgt : Ty) (ht : tgt ∈ Ty.floats) (s : Src) (hs : srcOK src s)
    (hrep : (round (tgtCTy tgt).fmt (srcVal s)).same (srcVal s) = true) (o : Option Out) (n : Nat)
    (h : conv src tgt s true = .ok (o, n)) : ∃ y, o = some (.flt y) ∧ y.same (srcVal s) = true := by
  obtain ⟨y, hy, hyr, _⟩ := ((float_no_saturation src tgt ht s hs).2 o n h).2
  exact ⟨y, hy, by rw [hyr]; exact hrep⟩

example : (round binary32 (srcVal (.int 16777216))).same (srcVal (.int 16777216)) = true := by decide +kernel

/-- Floating source, integer target (27 pairs): the converters have no such case, every value is refused (BadType) in
    both modes — the property allows a refusal, it is never a fault. -/
theorem float_to_int_refused (src tgt : Ty) (hs : src ∈ Ty.floats) (ht : tgt ∈ Ty.ints) (s : Src) (d : Bool) :
    conv src tgt s d = .err .BadType := by
  simp only [Ty.floats, Ty.ints, List.mem_cons, List.mem_nil_iff, or_false] at hs ht
  rcases hs with rfl | rfl | rfl <;> rcases ht with rfl | rfl | rfl | rfl | rfl | rfl | rfl | rfl | rfl <;> rfl

/-! ### the functions built on the converters: `mpt_value_convert`, `mpt_iterator_consume`, the vararg iterator, `mpt_fpoint_set` -/

/-- `mpt_value_convert` (converter, else raw copy of an identical type), integer types: never a fault, same verdict in
    query mode, and an accepted conversion leaves an object that denotes exactly the source number. -/
theorem value_convert_exact (src tgt : Ty) (hs : src ∈ Ty.ints) (ht : tgt ∈ Ty.ints) (v : Int) (hv : inRange src v) (d : Bool) :
    verdict (valueConvert src tgt (.int v) d) ≠ .broken ∧
    verdict (valueConvert src tgt (.int v) false) = verdict (valueConvert src tgt (.int v) true) ∧
    ∀ o n, valueConvert src tgt (.int v) d = .ok (o, n) →
      (d = false → o = none) ∧ (d = true → ∃ bits, o = some (.int bits) ∧ denote tgt bits = v) := by
  have hq := query_same_verdict src tgt (.int v)
  have key : ∀ d', verdict (valueConvert src tgt (.int v) d') ≠ .broken ∧
      ∀ o n, valueConvert src tgt (.int v) d' = .ok (o, n) →
        (d' = false → o = none) ∧ (d' = true → ∃ bits, o = some (.int bits) ∧ denote tgt bits = v) := by
    intro d'
    obtain ⟨hnb, hex⟩ := int_exact src tgt hs ht v hv d'
    unfold valueConvert
    cases hc : conv src tgt (.int v) d' with
    | ok r =>
      obtain ⟨o, n⟩ := r
      obtain ⟨_, h1, h2⟩ := hex o n hc
      refine ⟨by simp [verdict], ?_⟩
      intro o' n' h
      simp only [Res.ok.injEq, Prod.mk.injEq] at h
      obtain ⟨rfl, _⟩ := h
      exact ⟨h1, fun hd => by obtain ⟨b, hb, hden, _⟩ := h2 hd; exact ⟨b, hb, hden⟩⟩
    | err e =>
      by_cases hst : src = tgt
      · subst hst
        simp only [if_true]
        refine ⟨by simp [verdict], ?_⟩
        intro o n h
        simp only [Res.ok.injEq, Prod.mk.injEq] at h
        obtain ⟨rfl, _⟩ := h
        have hf : src.isFloat = false := by cases src <;> simp [Ty.ints] at hs <;> rfl
        refine ⟨by intro hd; simp [hd], ?_⟩
        intro hd
        exact ⟨_, by simp [hd, srcOut], denote_store src v hf hv.1 hv.2⟩
      · simp only [hst, if_false]
        exact ⟨by simp [verdict], by intro o n h; simp at h⟩
    | null => simp [hc, verdict] at hnb
    | oob => simp [hc, verdict] at hnb
    | fault => simp [hc, verdict] at hnb
  refine ⟨(key d).1, ?_, (key d).2⟩
  -- query mode: the verdict is a function of the converter's verdict and of `src = tgt`
  have hv : ∀ d', verdict (valueConvert src tgt (.int v) d') =
      (match verdict (conv src tgt (.int v) d') with
        | .accepted => Verdict.accepted
        | .refused => if src = tgt then Verdict.accepted else Verdict.refused
        | .broken => Verdict.broken) := by
    intro d'
    unfold valueConvert
    cases conv src tgt (.int v) d' with
    | ok r => simp [verdict]
    | err e => by_cases hst : src = tgt <;> simp [hst, verdict]
    | null => rfl
    | oob => rfl
    | fault => rfl
  rw [hv false, hv true, hq]

/-- an accepted conversion of a missing source stored the number 0 (nothing in query mode) -/
def storesZero (d : Bool) : Res (Option Out × Nat) → Bool
  | .ok (some (.int b), _) => d && b == 0
  | .ok (some (.flt x), _) => d && x.same (.fin false 0 0)
  | .ok (none, _) => !d
  | _ => true

/-- A value without data (`_addr = NULL`; all 12 x 12 pairs) through the converter and through `mpt_value_convert`:
    never a fault, the query has the verdict of the storing call, and an accepted conversion stored the number 0 — the
    raw copy of an identical type is not attempted without a source (c -> c: 0 is not printable, so it is refused). -/
theorem value_convert_null (src tgt : Ty) (d : Bool) :
    verdict (convNull src tgt d) ≠ .broken ∧ verdict (valueConvertNull src tgt d) ≠ .broken ∧
    verdict (valueConvertNull src tgt false) = verdict (valueConvertNull src tgt true) ∧
    storesZero d (convNull src tgt d) = true ∧ storesZero d (valueConvertNull src tgt d) = true := by
  have h : ∀ ts ∈ Ty.all, ∀ tt ∈ Ty.all, ∀ b ∈ [true, false],
      (verdict (convNull ts tt b) != .broken && verdict (valueConvertNull ts tt b) != .broken &&
        verdict (valueConvertNull ts tt false) == verdict (valueConvertNull ts tt true) &&
        storesZero b (convNull ts tt b) && storesZero b (valueConvertNull ts tt b)) = true := by decide +kernel
  have := h src (by cases src <;> simp [Ty.all]) tgt (by cases tgt <;> simp [Ty.all]) d (by cases d <;> simp)
  simp only [Bool.and_eq_true, bne_iff_ne, ne_eq, beq_iff_eq] at this
  obtain ⟨⟨⟨⟨h1, h2⟩, h3⟩, h4⟩, h5⟩ := this
  exact ⟨h1, h2, h3, h4, h5⟩

example : valueConvertNull .c .c true = .err .MissingData ∧ valueConvertNull .i .x true = .ok (some (.int 0), 3) := by decide

/-- c -> c with a non-printable value: the converter refuses, `mpt_value_convert` copies the character -/
example : conv .c .c (.int 7) true = .err .BadValue ∧ valueConvert .c .c (.int 7) true = .ok (some (.int 7), 0) := by decide

/-- `mpt_iterator_consume` and the vararg path hand the same object on: they differ from `mpt_value_convert` only in
    the returned code, and the vararg path delivers the integer unchanged (`argv_faithful`). -/
theorem consume_exact (src tgt : Ty) (hs : src ∈ Ty.ints) (ht : tgt ∈ Ty.ints) (v : Int) (hv : inRange src v) (d : Bool) :
    argvConsume src tgt (.int v) d = consume src tgt (.int v) d ∧
    verdict (consume src tgt (.int v) d) ≠ .broken ∧
    ∀ o n, consume src tgt (.int v) d = .ok (o, n) →
      n = src.code ∧ (d = false → o = none) ∧ (d = true → ∃ bits, o = some (.int bits) ∧ denote tgt bits = v) := by
  obtain ⟨hnb, _, hex⟩ := value_convert_exact src tgt hs ht v hv d
  refine ⟨by simp [argvConsume, argv_faithful.2 src hs v hv], ?_, ?_⟩
  · unfold consume
    cases h : valueConvert src tgt (.int v) d <;> simp_all [verdict]
  · intro o n h
    unfold consume at h
    cases hc : valueConvert src tgt (.int v) d with
    | ok r =>
      obtain ⟨o', n'⟩ := r
      simp only [hc, Res.ok.injEq, Prod.mk.injEq] at h
      obtain ⟨rfl, rfl⟩ := h
      exact ⟨rfl, hex o' n' hc⟩
    | _ => simp [hc] at h

/-- the vararg path for floating values: a double arrives unchanged, a float that is a float arrives unchanged (it is
    promoted to double and narrowed again), a long double is refused (`mpt_value_argv` has no case for it) -/
theorem argv_float (x : FVal) :
    (round binary64 x = x → argvPass .d (.flt x) = .ok (.flt x)) ∧
    (round binary64 x = x → round binary32 x = x → argvPass .f (.flt x) = .ok (.flt x)) ∧
    argvPass .e (.flt x) = .err .BadType := by
  refine ⟨?_, ?_, by rfl⟩
  · intro h; simp [argvPass, argvRow, Generated.argvTable, Ty.code, tgtCTy, CTy.size, CTy.isFloat, CTy.fmt, h]
  · intro h1 h2; simp [argvPass, argvRow, Generated.argvTable, Ty.code, tgtCTy, CTy.size, CTy.isFloat, CTy.fmt, h1, h2]

example : round binary64 (.fin false 3 (-1)) = .fin false 3 (-1) ∧ round binary32 (.fin false 3 (-1)) = .fin false 3 (-1) := by decide

/-- `mpt_fpoint_set`: no fault; an accepted point holds, per coordinate, the correctly rounded float of the source
    number — never an infinity for a finite source (a finite value beyond the float range refuses the whole point). -/
theorem fpoint_no_saturation (src : Ty) (vals : List Src) (hv : ∀ s ∈ vals, srcOK src s) :
    verdict (fpointSet src vals) ≠ .broken ∧
    ∀ px py, fpointSet src vals = .ok (px, py) →
      ∃ a b, (vals = [a] ∨ vals = [a, b]) ∧ px = round binary32 (srcVal a) ∧
        py = round binary32 (srcVal (if vals.length = 1 then a else b)) ∧
        ((srcVal a).isFinite = true → px.isFinite = true) ∧
        ((srcVal (if vals.length = 1 then a else b)).isFinite = true → py.isFinite = true) := by
  -- one coordinate
  have coord : ∀ k, k < 2 → ∀ s, srcOK src s →
      verdict (fpointCoord k src s) ≠ .broken ∧
      ∀ z, fpointCoord k src s = .ok z → z = round binary32 (srcVal s) ∧ ((srcVal s).isFinite = true → z.isFinite = true) := by
    intro k hk s hs
    have hcode : Generated.fpointConsume[k]? = some (Ty.code .f, true) := by
      rw [fpoint_consumes_float]; rcases k with _ | _ | k <;> first | rfl | omega
    obtain ⟨hnb, hex⟩ := float_no_saturation src .f (by decide) s hs
    have hvc : ∀ o n, valueConvert src .f s true = .ok (o, n) →
        ∃ z, o = some (.flt z) ∧ (z = round binary32 (srcVal s) ∧ ((srcVal s).isFinite = true → z.isFinite = true) ∨ (src = .f ∧ z = srcVal s)) := by
      intro o n h
      unfold valueConvert at h
      cases hc : conv src .f s true with
      | ok r =>
        obtain ⟨o', n'⟩ := r
        simp only [hc, Res.ok.injEq, Prod.mk.injEq] at h
        obtain ⟨_, z, hz, hzr, hzf⟩ := hex o' n' hc
        exact ⟨z, by rw [← h.1, hz], Or.inl ⟨hzr, hzf⟩⟩
      | err e =>
        simp only [hc] at h
        by_cases hsf : src = .f
        · subst hsf
          simp only [if_true, Res.ok.injEq, Prod.mk.injEq] at h
          cases s with
          | int v => exact absurd hs.1 (by decide)
          | flt z => exact ⟨z, by rw [← h.1]; rfl, Or.inr ⟨rfl, rfl⟩⟩
        · simp [hsf] at h
      | null => simp [hc] at h
      | oob => simp [hc] at h
      | fault => simp [hc] at h
    -- a float source is never refused by its own converter, so the raw copy branch does not occur
    have hff : ∀ z, src = .f → s = .flt z → ∃ n, conv .f .f (.flt z) true = .ok (some (.flt (round binary32 z)), n) := by
      intro z _ _; exact ⟨4, by simp [conv, fnOf, Generated.dispatch, Ty.code, Fn.run, Fn.lookup, Fn.resolve, Generated.mpt_data_convert_float32, runCase, Case.supported, evalGuards, CTy.isFloat, doStore, readBack, tgtCTy, CTy.size, CTy.fmt]⟩
    simp only [fpointCoord, hcode, Ty.ofCode]
    have hof : Ty.all.find? (fun ty => decide (ty.code = Ty.code .f)) = some .f := by decide
    simp only [hof, consume]
    cases hv' : valueConvert src .f s true with
    | ok r =>
      obtain ⟨o, n⟩ := r
      obtain ⟨z, hz, hcase⟩ := hvc o n hv'
      subst hz
      simp only [and_self, if_true]
      refine ⟨by simp [verdict], ?_⟩
      intro z' hz'
      simp only [Res.ok.injEq] at hz'
      subst hz'
      rcases hcase with h | ⟨hsf, hzs⟩
      · exact h
      · -- raw copy branch: impossible, `conv .f .f` accepts
        subst hsf
        cases s with
        | int v => exact absurd hs.1 (by decide)
        | flt w =>
          obtain ⟨n', hn'⟩ := hff w rfl rfl
          unfold valueConvert at hv'
          rw [hn'] at hv'
          simp only [Res.ok.injEq, Prod.mk.injEq, Option.some.injEq, Out.flt.injEq] at hv'
          have := (hex _ _ hn').2
          obtain ⟨y, hy, hyr, hyf⟩ := this
          simp only [Option.some.injEq, Out.flt.injEq] at hy
          rw [← hv'.1, hy]
          exact ⟨hyr, hyf⟩
    | err e => simp [verdict]
    | null =>
      exfalso; unfold valueConvert at hv'
      cases hc : conv src .f s true <;> simp [hc] at hv' <;> simp_all [verdict]
      all_goals (split at hv' <;> simp at hv')
    | oob =>
      exfalso; unfold valueConvert at hv'
      cases hc : conv src .f s true <;> simp [hc] at hv' <;> simp_all [verdict]
      all_goals (split at hv' <;> simp at hv')
    | fault =>
      exfalso; unfold valueConvert at hv'
      cases hc : conv src .f s true <;> simp [hc] at hv' <;> simp_all [verdict]
      all_goals (split at hv' <;> simp at hv')
  match vals, hv with
  | [], _ => exact ⟨by simp [fpointSet, verdict], by intro x y h; simp [fpointSet] at h⟩
  | [a], hv =>
    obtain ⟨hnb, hok⟩ := coord 0 (by omega) a (hv a (by simp))
    simp only [fpointSet]
    cases hc : fpointCoord 0 src a with
    | ok z =>
      refine ⟨by simp [verdict], ?_⟩
      intro px py h
      simp only [Res.ok.injEq, Prod.mk.injEq] at h
      obtain ⟨rfl, rfl⟩ := h
      obtain ⟨h1, h2⟩ := hok z hc
      exact ⟨a, a, Or.inl rfl, h1, by simpa using h1, h2, by simpa using h2⟩
    | err e => exact ⟨by simp [verdict], by intro x y h; simp at h⟩
    | null => simp [hc, verdict] at hnb
    | oob => simp [hc, verdict] at hnb
    | fault => simp [hc, verdict] at hnb
  | [a, b], hv =>
    obtain ⟨hnba, hoka⟩ := coord 0 (by omega) a (hv a (by simp))
    obtain ⟨hnbb, hokb⟩ := coord 1 (by omega) b (hv b (by simp))
    simp only [fpointSet]
    cases hca : fpointCoord 0 src a with
    | ok z =>
      cases hcb : fpointCoord 1 src b with
      | ok w =>
        refine ⟨by simp [verdict], ?_⟩
        intro px py h
        simp only [Res.ok.injEq, Prod.mk.injEq] at h
        obtain ⟨rfl, rfl⟩ := h
        obtain ⟨h1, h2⟩ := hoka z hca
        obtain ⟨h3, h4⟩ := hokb w hcb
        exact ⟨a, b, Or.inr rfl, h1, by simpa using h3, h2, by simpa using h4⟩
      | err e => exact ⟨by simp [verdict], by intro x y h; simp at h⟩
      | null => simp [hcb, verdict] at hnbb
      | oob => simp [hcb, verdict] at hnbb
      | fault => simp [hcb, verdict] at hnbb
    | err e => exact ⟨by simp [verdict], by intro x y h; simp at h⟩
    | null => simp [hca, verdict] at hnba
    | oob => simp [hca, verdict] at hnba
    | fault => simp [hca, verdict] at hnba
  | _ :: _ :: _ :: _, _ => exact ⟨by simp [fpointSet, verdict], by intro x y h; simp [fpointSet] at h⟩

end Mpt.C07
