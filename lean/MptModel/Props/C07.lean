/-
  C07 — scalar conversion is exact or refused.

  M = `conv` (Impl/Convert.lean) evaluates the converter tables that translate/cextract.py regenerates from
  mptcore/convert/data_convert_int.c, data_convert_float.c, data_converter.c on every run
  (Generated/ConvInt.lean), plus the hand model of text -> integer.  S = Spec/Scalar.lean (what a scalar
  object denotes, what a numeral denotes).

  The theorems about `conv` are proved by *deciding a verified checker on the generated table*
  (Lemmas/Convert.lean, Lemmas/ConvFloat.lean): a widened bound, a dropped `if (dest)`, a store of the wrong
  width or an unguarded `isgraph` in the C source changes the table and makes `by decide` fail.

  Not proved here (differential only, see the level note): floating targets beyond exactly representable
  integers (rounding, finite -> infinity), text -> floating point.  `float_no_saturation_statement` records the
  clause.
-/
import MptModel.Lemmas.Convert
import MptModel.Lemmas.ConvText
import MptModel.Lemmas.ConvFloat
namespace Mpt.C07
open Mpt Mpt.Conv Mpt.Scalar Mpt.Flt

/-- Integer -> integer (all 9 x 9 pairs of c b y n q i u x t, every value of the source type, with and without
    destination): the conversion never has undefined behaviour; if it is accepted without destination nothing is
    stored; if it is accepted with destination the target object denotes exactly the source number — and a
    character target only ever receives a printable 7-bit character. -/
theorem int_exact (src tgt : Ty) (hs : src ∈ Ty.ints) (ht : tgt ∈ Ty.ints) (v : Int) (hv : inRange src v) (d : Bool) :
    verdict (conv src tgt (.int v) d) ≠ .broken ∧
    ∀ o n, conv src tgt (.int v) d = .ok (o, n) →
      (d = false → o = none) ∧
      (d = true → ∃ bits, o = some (.int bits) ∧ denote tgt bits = v ∧ (tgt = .c → isGraph v = true)) := by
  have htab : checkIntTable = true := by decide
  unfold checkIntTable at htab
  rw [List.all_eq_true] at htab
  have h1 := htab src hs
  rw [List.all_eq_true] at h1
  have hp := h1 tgt ht
  have hsf : src.isFloat = false := by
    cases src <;> simp [Ty.ints] at hs <;> rfl
  rcases checkPair_sound src tgt v d hp hsf hv with ⟨e, he⟩ | ⟨o, n, ho, h2, h3⟩
  · exact ⟨by simp [he, verdict], by intro o n h; simp [he] at h⟩
  · refine ⟨by simp [ho, verdict], ?_⟩
    intro o' n' h
    rw [ho] at h
    simp only [Res.ok.injEq, Prod.mk.injEq] at h
    obtain ⟨rfl, rfl⟩ := h
    exact ⟨h2, h3⟩

/-- instances: uint32 65535 -> 'q' is stored exactly, 65536 is refused, int32 -8194 -> 'c' is refused -/
example : conv .u .q (.int 65535) true = .ok (some (.int 65535), 2) := by decide
example : conv .u .q (.int 65536) true = .err .BadValue := by decide
example : conv .i .c (.int (-8194)) true = .err .BadValue := by decide
example : conv .y .u (.int 200) false = .ok (none, 4) := by decide

/-- Asking whether a conversion is possible (no destination) gives the same verdict as performing it:
    all 12 x 12 pairs, every integer or floating source value. -/
theorem query_same_verdict (src tgt : Ty) (s : Src) :
    verdict (conv src tgt s false) = verdict (conv src tgt s true) :=
  query_of_table (by decide) src tgt s

example : verdict (conv .q .e (.int 7) false) = .accepted := by decide

/-- Integer -> floating point: a source value with fewer significant bits than the target's significand
    (24 / 53 / 64) is either refused or stored as exactly that number. -/
theorem int_to_float_exact (src tgt : Ty) (hs : src ∈ Ty.ints) (ht : tgt ∈ Ty.floats) (v : Int) (hv : inRange src v)
    (hsmall : v.natAbs < 2 ^ precision tgt) :
    verdict (conv src tgt (.int v) true) ≠ .broken ∧
    ∀ o n, conv src tgt (.int v) true = .ok (o, n) → ∃ y, o = some (.flt y) ∧ y.toInt? = some v := by
  have htab : checkFloatTable = true := by decide
  unfold checkFloatTable at htab
  rw [List.all_eq_true] at htab
  have h1 := htab src hs
  rw [List.all_eq_true] at h1
  have hp := h1 tgt ht
  have hsf : src.isFloat = false := by
    cases src <;> simp [Ty.ints] at hs <;> rfl
  rcases checkPairF_sound src tgt v hp hsf hv hsmall with ⟨e, he⟩ | ⟨n, hn⟩
  · exact ⟨by simp [he, verdict], by intro o n h; simp [he] at h⟩
  · refine ⟨by simp [hn, verdict], ?_⟩
    intro o n' h
    rw [hn] at h
    simp only [Res.ok.injEq, Prod.mk.injEq] at h
    exact ⟨ofInt v, h.1.symm, ofInt_toInt v⟩

example : precision .f = 24 ∧ precision .d = 53 ∧ precision .e = 64 := by decide

/-- Text -> integer (`mpt_convert_number` and the `mpt_c[u]intN` functions it calls; targets b y n q i u x t):
    never undefined behaviour; an accepted conversion consumed a prefix of the text that is either blank (then
    nothing is stored) or a numeral — optional white space, optional sign, C integer literal — of a number in
    the target's range, and the stored object denotes exactly that number. -/
theorem text_int_exact (tgt : Ty) (ht : tgt ∈ textTargets) (s : List Nat) (d : Bool) :
    verdict (convertNumber tgt s d) ≠ .broken ∧
    ∀ o n, convertNumber tgt s d = .ok (o, n) → TextOK tgt s d o n :=
  ⟨convertNumber_notBroken tgt ht s d, fun o n h => convertNumber_ok tgt s d o n h⟩

/-- the same for `mpt_convert_string` (skips leading white space itself) -/
theorem text_string_exact (tgt : Ty) (ht : tgt ∈ textTargets) (s : List Nat) (d : Bool) :
    verdict (convertString tgt s d) ≠ .broken ∧
    ∀ o n, convertString tgt s d = .ok (o, n) → TextOK tgt s d o n :=
  ⟨convertString_notBroken tgt ht s d, fun o n h => convertString_ok tgt s d o n h⟩

/-- " -129" is refused for int8, " -128x" is read as -128 from its first 5 characters; "-1" is refused for uint64;
    2^63 is refused for int64 -/
example : convertNumber .b [32, 45, 49, 50, 57] true = .err .BadValue := by decide
example : convertNumber .b [32, 45, 49, 50, 56, 120] true = .ok (some 128, 5) := by decide
example : convertNumber .t [45, 49] true = .err .BadValue := by decide
example : numeral [32, 45, 49, 50, 56] = some (-128) ∧ denote .b 128 = -128 := by decide

/-- Text: the query mode reports the same verdict and the same consumed length as the conversion. -/
theorem text_query_same_verdict (tgt : Ty) (s : List Nat) :
    convertNumber tgt s false = dropValue (convertNumber tgt s true) ∧
    convertString tgt s false = dropValue (convertString tgt s true) :=
  ⟨convertNumber_query tgt s, convertString_query tgt s⟩

/-- Floating point -> floating point narrowing never turns a finite number into an infinity (DESIGN §5.0).
    Statement only: rounding is outside the proved part; the clause is checked differentially against the real
    code with the exact rounding of Spec/Float.lean (see the level note). -/
def float_no_saturation_statement : Prop :=
  ∀ (src tgt : Ty) (x y : FVal) (n : Nat), src ∈ Ty.floats → tgt ∈ Ty.floats →
    conv src tgt (.flt x) true = .ok (some (.flt y), n) → x.isFinite = true → y.isFinite = true

end Mpt.C07
