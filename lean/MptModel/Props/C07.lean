/-
  C07 — scalar conversion is exact or refused.

  M = `conv` (Impl/Convert.lean) evaluates the converter tables that translate/cextract.py regenerates from
  mptcore/convert/data_convert_int.c, data_convert_float.c, data_converter.c on every run
  (Generated/ConvInt.lean), plus the hand model of text -> integer.  S = Spec/Scalar.lean (what a scalar
  object denotes, what a numeral denotes).

  The theorems about `conv` are proved by *deciding a verified checker on the generated table*
  (Lemmas/Convert.lean, Lemmas/ConvFloat.lean): a widened bound, a dropped `if (dest)`, a store of the wrong
  width or an unguarded `isgraph` in the C source changes the table and makes `by decide` fail.

  Floating targets: `float_no_saturation` proves that an accepted conversion stores the correctly rounded value of
  Spec/Float.lean and never turns a finite number into an infinity; that the hardware conversion instructions and
  `strtof/strtod/strtold` round this way is an assumption, checked differentially against the real code.
-/
import MptModel.Lemmas.Convert
import MptModel.Lemmas.ConvText
import MptModel.Lemmas.ConvFloat
namespace Mpt.C07
open Mpt Mpt.Conv Mpt.Scalar Mpt.Flt

/-- Integer -> integer (all 9 x 9 pairs of c b y n q i u x t, every value of the source type, with and without
    destination): the conversion never has undefined behaviour; an accepted conversion returns the size of the
    target type; without destination nothing is stored; with destination the target object denotes exactly the
    source number — and a character target only ever receives a printable 7-bit character. -/
theorem int_exact (src tgt : Ty) (hs : src ∈ Ty.ints) (ht : tgt ∈ Ty.ints) (v : Int) (hv : inRange src v) (d : Bool) :
    verdict (conv src tgt (.int v) d) ≠ .broken ∧
    ∀ o n, conv src tgt (.int v) d = .ok (o, n) →
      n = tgt.size ∧ (d = false → o = none) ∧
      (d = true → ∃ bits, o = some (.int bits) ∧ denote tgt bits = v ∧ (tgt = .c → isGraph v = true)) := by
  have htab : checkIntTable = true := by decide
  unfold checkIntTable at htab
  rw [List.all_eq_true] at htab
  have h1 := htab src hs
  rw [List.all_eq_true] at h1
  have hp := h1 tgt ht
  have hsf : src.isFloat = false := by
    cases src <;> simp [Ty.ints] at hs <;> rfl
  rcases checkPair_sound src tgt v d hp hsf hv with ⟨e, he⟩ | ⟨o, ho, h2, h3⟩
  · exact ⟨by simp [he, verdict], by intro o n h; simp [he] at h⟩
  · refine ⟨by simp [ho, verdict], ?_⟩
    intro o' n' h
    rw [ho] at h
    simp only [Res.ok.injEq, Prod.mk.injEq] at h
    obtain ⟨rfl, rfl⟩ := h
    exact ⟨rfl, h2, h3⟩

/-- instances: uint32 65535 -> 'q' is stored exactly, 65536 is refused, int32 -8194 -> 'c' is refused -/
example : conv .u .q (.int 65535) true = .ok (some (.int 65535), 2) := by decide
example : conv .u .q (.int 65536) true = .err .BadValue := by decide
example : conv .i .c (.int (-8194)) true = .err .BadValue := by decide
example : conv .y .u (.int 200) false = .ok (none, 4) := by decide

/-- Asking whether a conversion is possible (no destination) gives the same verdict as performing it:
    all 12 x 12 pairs, every integer or floating source value. -/
theorem query_same_verdict (src tgt : Ty) (s : Src) :
    verdict (conv src tgt s false) = verdict (conv src tgt s true) :=
  query_of_table (by decide) src tgt s

example : verdict (conv .q .e (.int 7) false) = .accepted := by decide

/-- representable source values: an integer of the source type, or a floating datum whose magnitude does not
    exceed the largest finite value of the source type -/
def srcOK (src : Ty) : Src → Prop
  | .int v => src.isFloat = false ∧ inRange src v
  | .flt x => src.isFloat = true ∧ x.absLe (tgtCTy src).fmt.maxInt

def srcVal : Src → FVal
  | .int v => ofInt v
  | .flt x => x

/-- Floating targets (all 12 sources x f d e, every representable source value): no undefined behaviour; an accepted
    conversion returns the target's size and stores the correctly rounded (nearest, ties to even) value of the
    source number (DESIGN §5.0) — and that value is finite whenever the source is: a finite number is never turned
    into an infinity or a NaN, it is refused instead. -/
theorem float_no_saturation (src tgt : Ty) (ht : tgt ∈ Ty.floats) (s : Src) (hs : srcOK src s) :
    verdict (conv src tgt s true) ≠ .broken ∧
    ∀ o n, conv src tgt s true = .ok (o, n) →
      n = tgt.size ∧ ∃ y, o = some (.flt y) ∧ y = round (tgtCTy tgt).fmt (srcVal s) ∧
        ((srcVal s).isFinite = true → y.isFinite = true) := by
  cases s with
  | int v =>
    obtain ⟨hsf, hv⟩ := hs
    have hsm : src ∈ Ty.ints := by cases src <;> simp [Ty.isFloat] at hsf <;> simp [Ty.ints]
    have htab : checkFloatTable = true := by decide
    unfold checkFloatTable at htab
    rw [List.all_eq_true] at htab
    have h1 := htab src hsm
    rw [List.all_eq_true] at h1
    rcases checkPairF_sound_any src tgt v (h1 tgt ht) hsf hv with ⟨e, he⟩ | ⟨y, hy, hyr, hfin⟩
    · exact ⟨by simp [he, verdict], by intro o n h; simp [he] at h⟩
    · refine ⟨by simp [hy, verdict], ?_⟩
      intro o n h
      rw [hy] at h
      simp only [Res.ok.injEq, Prod.mk.injEq] at h
      exact ⟨h.2.symm, y, h.1.symm, hyr, fun _ => hfin⟩
  | flt x =>
    obtain ⟨hsf, hx⟩ := hs
    have hsm : src ∈ Ty.floats := by cases src <;> simp [Ty.isFloat] at hsf <;> simp [Ty.floats]
    have htab : checkFloatSrcTable = true := by decide +kernel
    unfold checkFloatSrcTable at htab
    rw [List.all_eq_true] at htab
    have h1 := htab src hsm
    rw [List.all_eq_true] at h1
    rcases checkPairFF_sound src tgt x (h1 tgt ht) hx with ⟨e, he⟩ | ⟨y, hy, hyr, hfin⟩
    · exact ⟨by simp [he, verdict], by intro o n h; simp [he] at h⟩
    · refine ⟨by simp [hy, verdict], ?_⟩
      intro o n h
      rw [hy] at h
      simp only [Res.ok.injEq, Prod.mk.injEq] at h
      exact ⟨h.2.symm, y, h.1.symm, hyr, hfin⟩

/-- FLT_MAX converts from double, the next double above it is refused (not stored as infinity); 2^24+1 rounds to 2^24 -/
example : conv .d .f (.flt (.fin false 16777215 104)) true = .ok (some (.flt (.fin false 16777215 104)), 4) := by decide +kernel
example : conv .d .f (.flt (.fin false (16777215 * 2 ^ 29 + 1) 75)) true = .err .BadValue := by decide +kernel
example : conv .i .f (.int 16777217) true = .ok (some (.flt (.fin false 8388608 1)), 4) := by decide +kernel

/-- Integer -> floating point: a source value with fewer significant bits than the target's significand
    (24 / 53 / 64) is either refused or stored as exactly that number. -/
theorem int_to_float_exact (src tgt : Ty) (hs : src ∈ Ty.ints) (ht : tgt ∈ Ty.floats) (v : Int) (hv : inRange src v)
    (hsmall : v.natAbs < 2 ^ precision tgt) :
    verdict (conv src tgt (.int v) true) ≠ .broken ∧
    ∀ o n, conv src tgt (.int v) true = .ok (o, n) → ∃ y, o = some (.flt y) ∧ y.toInt? = some v := by
  have htab : checkFloatTable = true := by decide
  unfold checkFloatTable at htab
  rw [List.all_eq_true] at htab
  have h1 := htab src hs
  rw [List.all_eq_true] at h1
  have hp := h1 tgt ht
  have hsf : src.isFloat = false := by
    cases src <;> simp [Ty.ints] at hs <;> rfl
  rcases checkPairF_sound src tgt v hp hsf hv hsmall with ⟨e, he⟩ | hn
  · exact ⟨by simp [he, verdict], by intro o n h; simp [he] at h⟩
  · refine ⟨by simp [hn, verdict], ?_⟩
    intro o n' h
    rw [hn] at h
    simp only [Res.ok.injEq, Prod.mk.injEq] at h
    exact ⟨ofInt v, h.1.symm, ofInt_toInt v⟩

example : precision .f = 24 ∧ precision .d = 53 ∧ precision .e = 64 := by decide

/-- Text -> integer (`mpt_convert_number`, the `mpt_c[u]intN` wrapper and the `_mpt_convert_int/_uint` parser it
    reaches, as described by the regenerated `Generated/ConvText.lean`; targets b y n q i u x t): never undefined
    behaviour; an accepted conversion consumed a prefix of the text that is either blank (then nothing is stored) or
    a numeral — optional white space, optional sign, C integer literal — of a number in the target's range, and the
    stored object denotes exactly that number (never a saturated or wrapped one); the query mode reports the same
    verdict and the same consumed length.  Proved by deciding a verified checker on the generated parser tables:
    dropping the ERANGE test, the minus-sign test, a range test or the `if (val)` breaks it. -/
theorem text_int_exact (tgt : Ty) (ht : tgt ∈ textTargets) (s : List Nat) (d : Bool) :
    verdict (convertNumber tgt s d) ≠ .broken ∧
    (∀ o n, convertNumber tgt s d = .ok (o, n) → TextOK tgt s d o n) ∧
    convertNumber tgt s false = dropValue (convertNumber tgt s true) := by
  have htab : checkTextTable = true := by decide
  unfold checkTextTable at htab
  rw [List.all_eq_true] at htab
  exact convertNumber_sound tgt ht (htab tgt ht) s d

/-- the same for `mpt_convert_string` (skips leading white space itself; blank text is "no value", 0 consumed) -/
theorem text_string_exact (tgt : Ty) (ht : tgt ∈ textTargets) (s : List Nat) (d : Bool) :
    verdict (convertString tgt s d) ≠ .broken ∧
    (∀ o n, convertString tgt s d = .ok (o, n) → TextOK tgt s d o n) ∧
    convertString tgt s false = dropValue (convertString tgt s true) :=
  ⟨convertString_notBroken tgt s d (fun s' => (text_int_exact tgt ht s' d).1),
   fun o n h => convertString_ok tgt s d o n (fun s' o' n' h' => (text_int_exact tgt ht s' d).2.1 o' n' h') h,
   convertString_query tgt s (fun s' => (text_int_exact tgt ht s' false).2.2)⟩

/-- " -129" is refused for int8, " -128x" is read as -128 from its first 5 characters; "-1" is refused for uint64;
    2^63 is refused for int64 -/
example : convertNumber .b [32, 45, 49, 50, 57] true = .err .BadValue := by decide
example : convertNumber .b [32, 45, 49, 50, 56, 120] true = .ok (some 128, 5) := by decide
example : convertNumber .t [45, 49] true = .err .BadValue := by decide
example : numeral [32, 45, 49, 50, 56] = some (-128) ∧ denote .b 128 = -128 := by decide

/-- Text -> character ('c' target of `mpt_convert_number` and `mpt_convert_string`): never undefined behaviour; an
    accepted conversion either found only blanks (nothing stored, nothing consumed) or consumed blanks and one
    printable 7-bit character, which is what is stored; the query mode reports the same verdict and length. -/
theorem text_char_exact (s : List Nat) (d : Bool) :
    verdict (convertNumber .c s d) ≠ .broken ∧ verdict (convertString .c s d) ≠ .broken ∧
    (∀ o n, convertNumber .c s d = .ok (o, n) → CharOK s d o n) ∧
    (∀ o n, convertString .c s d = .ok (o, n) → CharOK s d o n) ∧
    convertNumber .c s false = dropValue (convertNumber .c s true) ∧
    convertString .c s false = dropValue (convertString .c s true) := by
  have hnb : ∀ s' d', verdict (convertNumber .c s' d') ≠ .broken := by
    intro s' d'; simp only [convertNumber, if_true]; exact convertChar_notBroken s' d'
  have hq : ∀ s', convertNumber .c s' false = dropValue (convertNumber .c s' true) := by
    intro s'; simp only [convertNumber, if_true]; exact convertChar_query s'
  refine ⟨hnb s d, convertString_notBroken .c s d (fun s' => hnb s' d), ?_, fun o n h => convertStringChar_ok s d o n h,
    hq s, convertString_query .c s hq⟩
  intro o n h
  simp only [convertNumber, if_true] at h
  exact convertChar_ok s d o n h

example : convertNumber .c [32, 9, 65, 66] true = .ok (some 65, 3) := by decide

/-- Text -> floating point (`mpt_cfloat`, `mpt_cdouble`, `mpt_cldouble` as described by the regenerated
    `Generated/ConvText.lean`; `strtof/strtod/strtold` themselves are an oracle `r` that satisfies the libc contract
    "a numeral whose correctly rounded value is not finite yields an infinity and ERANGE"): an accepted conversion
    consumed what `strto*` consumed and stores the value it returned, and the numeral did not overflow — a finite
    numeral is never stored as an infinity, it is refused.  Dropping the `errno` reset or the ERANGE test breaks it. -/
theorem text_float_no_saturation (p : TextParser)
    (hp : p ∈ [Generated.Text.mpt_cfloat, Generated.Text.mpt_cdouble, Generated.Text.mpt_cldouble])
    (r : StrToF) (hr : r.contract) (s : List Nat) (d : Bool) (o : Option FVal) (n : Nat)
    (h : runFloatParser p r s d = .ok (o, n)) (hn : n ≠ 0) :
    r.overflow = false ∧ n = r.consumed ∧ (d = true → o = some r.value) := by
  have hall : ∀ q ∈ [Generated.Text.mpt_cfloat, Generated.Text.mpt_cdouble, Generated.Text.mpt_cldouble],
      checkFloatParser q = true := by decide +kernel
  exact runFloatParser_no_overflow p (hall p hp) r hr s d o n h hn

/-- which of them `mpt_convert_number` reaches for f, d, e -/
example : (Generated.Text.numberDispatch.filter (fun x => x.1 ∈ [102, 100, 101])).map (·.2.1) =
    ["mpt_cfloat", "mpt_cdouble", "mpt_cldouble"] := by decide

/-- Values passed through a variadic call (`mpt_process_vararg` / `mpt_value_argv`, regenerated `argvTable`): every
    case fetches the promoted type of what it stores and reports its size, so an integer of any of the nine integer
    types arrives unchanged in the typed iterator (and is then converted under the theorems above). -/
theorem argv_faithful :
    (∀ r ∈ Generated.argvTable, r.2.2.2 = r.2.1.size ∧
      r.2.2.1 = (match r.2.1 with | .i8 | .i16 => CTy.i32 | .u8 | .u16 => CTy.u32 | .f32 => CTy.f64 | ty => ty)) ∧
    (∀ src ∈ Ty.ints, ∀ v, inRange src v → argvPass src (.int v) = .ok (.int v)) := by
  refine ⟨by decide, ?_⟩
  intro src hs v hv
  cases src <;> simp [Ty.ints] at hs <;> simp only [inRange, Ty.lo, Ty.hi] at hv <;>
    simp [argvPass, argvRow, Generated.argvTable, Generated.typeInt, Ty.code, tgtCTy, CTy.size, CTy.isFloat, wrap] <;> omega

example : argvPass .x (.int 5000000000) = .ok (.int 5000000000) := by decide

/-- `mpt_fpoint_set` (mptplot, a consumer of `mpt_iterator_consume`): both coordinates are consumed as 'f' straight
    into the float members, so what it stores is what the 'f' conversion delivers (`float_no_saturation`). -/
theorem fpoint_consumes_float : Generated.fpointConsume = [(Ty.code .f, true), (Ty.code .f, true)] := by decide

end Mpt.C07
