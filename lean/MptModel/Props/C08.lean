/-
  C08 — Configuration parser is total and fails cleanly.   PROPERTY THEOREMS ONLY.

  M = `Mpt.Parse` (Impl/Parse.lean: character source, path, the four element functions
  `mpt_parse_format_pre/enc/sep`, `mpt_parse_option`, `mpt_parse_data`; Impl/ParseConfig.lean:
  `mpt_parse_config`, `mpt_node_append`, `mpt_parse_node`).  S = `Mpt.Events` (well nested event
  sequences, Spec/Events.lean).

  All theorems hold for EVERY input byte sequence, every format (`Cfg`: delimiters, comment and escape
  characters, name flag words, end marker -2 or -1), each of the four format families (`Kind`) and any
  previous-operation code.  Leak freedom and the absence of invalid accesses in the real code are
  sanitizer results of the correspondence run, not theorems.
-/
import MptModel.Lemmas.ParseEof

namespace Mpt.C08
open Mpt Mpt.Parse Mpt.Events

/-! ### total -/

/-- **Progress**: whenever one of the element functions returns an element (positive code) the
    termination measure — twice the unread input, plus one while the previous operation was a section
    end — has strictly decreased.  This is the fact Lean used to accept the unbounded `while` loop of
    `mpt_parse_config` (`Parse.loop`) by well-founded recursion; every inner loop is structurally
    recursive on the unread input (`Parse.scanAux`).  No fuel parameter exists anywhere in the model. -/
theorem total (k : Kind) (cfg : Cfg) (prev : Nat) (s : St) (src : Src)
    (h : 0 < (next k cfg prev s src).1) :
    Parse.measure (next k cfg prev s src).2.1.curr (next k cfg prev s src).2.2 < Parse.measure prev src :=
  next_measure k cfg prev s src h

/-- **Bounded work**: the handler is called at most `2·|input| + 1` times, whatever the input is and
    whether or not it refuses at some point. -/
theorem total_calls (k : Kind) (cfg : Cfg) (failAt : Option Nat) (prev : Nat) (input : List UInt8) :
    (parseConfig k cfg (record failAt) [] prev input).ctx.length ≤ 2 * input.length + 1 := by
  have := loop_calls k cfg failAt [] prev {} { rest := input }
  unfold parseConfig
  unfold Parse.measure at this
  simp only [List.length_nil, Nat.zero_add] at this
  split at this <;> omega

/-- **Each character is read once** (NOTE: every function written against the `Src` interface of M has
    this property — a `Src` is only ever advanced by `getc`/`scan` — so the theorem shows that M never
    re-reads or pushes back, and the tie compares the number of `getc` calls and of consumed bytes of the
    real parser with M on every script, op `p stat`; there is no bound on observations of the end marker,
    which the property does not count): when `mpt_parse_config` returns — with any handler, successfully
    or not — the characters delivered by `getc` so far (`trace`, newest first) followed by the unread
    rest are exactly the input: the i-th successful `getc` returned `input[i]`, nothing was skipped,
    nothing was delivered twice; and every delivered character cost at least one `getc` call (`reads`
    also counts the observations of the end marker). -/
theorem reads_once {α : Type} (k : Kind) (cfg : Cfg) (save : Handler α) (ctx : α) (prev : Nat)
    (input : List UInt8) :
    input = (parseConfig k cfg save ctx prev input).src.trace.reverse ++ (parseConfig k cfg save ctx prev input).src.rest
    ∧ (parseConfig k cfg save ctx prev input).src.trace.length ≤ (parseConfig k cfg save ctx prev input).src.reads := by
  obtain ⟨cs, h1, h2, h3⟩ := loop_reads k cfg save ctx prev {} { rest := input }
  unfold parseConfig
  simp only [List.append_nil] at h1 h2 h3
  rw [h2]
  simp only [List.reverse_reverse, List.length_reverse]
  exact ⟨h1, by omega⟩

/-- the same, element-wise -/
theorem reads_once_index {α : Type} (k : Kind) (cfg : Cfg) (save : Handler α) (ctx : α) (prev : Nat)
    (input : List UInt8) (i : Nat)
    (hi : i < (parseConfig k cfg save ctx prev input).src.trace.length) :
    (parseConfig k cfg save ctx prev input).src.trace.reverse[i]? = input[i]? := by
  have h := (reads_once k cfg save ctx prev input).1
  conv => rhs; rw [h]
  rw [List.getElem?_append_left (by simpa using hi)]

/-! ### well nested -/

/-- **A successful parse emits a well nested event sequence**: if `mpt_parse_config` returns a
    non-negative code, the events it handed to the handler, replayed from the empty stack of open
    sections, never fail: every `end_` finds an open section and names exactly the innermost one
    (the depth never goes negative), every `sect`/`opt` path is the open sections plus one name,
    every `data` path is the open sections. -/
theorem well_nested (k : Kind) (cfg : Cfg) (prev : Nat) (input : List UInt8)
    (hok : 0 ≤ (events k cfg prev input).1) : WellNested (events k cfg prev input).2 := by
  unfold events at hok ⊢
  unfold parseConfig at hok ⊢
  exact loop_nested k cfg [] prev {} { rest := input } rfl hok

/-- one step of the same fact, for every element function and every state: a returned element is one
    of the five codes; section (1) / option (3) / option+data (7) appended exactly one path element,
    section end (2) / data (4) left the path elements as they were -/
theorem element_shape (k : Kind) (cfg : Cfg) (prev : Nat) (s : St) (src : Src) :
    (next k cfg prev s src).1 ≤ 0
    ∨ (((next k cfg prev s src).1 = 1 ∨ (next k cfg prev s src).1 = 3 ∨ (next k cfg prev s src).1 = 7)
        ∧ ∃ n, (next k cfg prev s src).2.1.path.elems = s.path.elems ++ [n])
    ∨ (((next k cfg prev s src).1 = 2 ∨ (next k cfg prev s src).1 = 4)
        ∧ (next k cfg prev s src).2.1.path.elems = s.path.elems) :=
  next_good k cfg prev s src

/-! ### fail clean

  NOTE (true by the construction of M): the three `fail_clean*` theorems read off the shape of the model
  functions — `parseNode` builds a temporary tree and merges it only on success, `nodeParse` sets the
  children aside and puts them back on failure, `parserRead` replaces the children only on success — which
  is the shape of the C functions (local `conf` node in parse_node.c, `old` children in node_parse.c,
  `tmp` node in mpt++/parse.cpp).  M is purely functional: it cannot express a parser that damages the
  target while it fails.  That the REAL functions leave the target alone is established by the
  correspondence run only (`p node`, `p nparse`, `x read`: the spec column allows `err` only together with
  the old target, printed by walking the real tree, and the sanitizers watch the walk), not by these
  theorems. -/

/-- **A failed parse leaves the target as it was** (definitional in M, see the note above):
    `mpt_parse_node` returning a negative code has the children of the target unchanged (the temporary
    tree is dropped, nothing was merged). -/
theorem fail_clean (root : Conf.Forest) (str : Option (List UInt8)) (sect opt : Nat) (eof : Int)
    (input : List UInt8) (h : (parseNode root str sect opt eof input).code < 0) :
    (parseNode root str sect opt eof input).children = root := by
  unfold parseNode at h ⊢
  simp only [] at h ⊢
  split
  · rfl
  · rename_i kk hk
    rw [hk] at h
    simp only [] at h
    split
    · rfl
    · rename_i hn
      split at h
      · exact absurd (by assumption) hn
      · exact absurd h hn

/-- (definitional in M) the same for the stdio front end `mpt_node_parse` (with or without logger): a refused restriction
    text or a failed parse returns a negative code and the children of the target as they were -/
theorem fail_clean_node_parse (root : Conf.Forest) (str limits : Option (List UInt8)) (input : List UInt8)
    (h : (nodeParse root str limits input).code < 0) : (nodeParse root str limits input).children = root := by
  unfold nodeParse at h ⊢
  cases hacc : parseAccept (some (limits.getD [110, 115])) with
  | none => rfl
  | some so =>
    rw [hacc] at h
    simp only [] at h ⊢
    by_cases hn : (parseNode [] str so.1 so.2 (-2) input).code < 0
    · rw [if_pos hn]
    · rw [if_neg hn] at h
      exact absurd h hn

/-- (definitional in M) and for the C++ wrapper `mpt::parser::read` (one context for all reads of a parser object): a failed
    read leaves the children of the target as they were, whatever the earlier reads left in the context -/
theorem fail_clean_parser_read (k : Kind) (cfg : Cfg) (curr : Nat) (target : Conf.Forest) (unread : List UInt8)
    (h : (parserRead k cfg curr target unread).1.code < 0) : (parserRead k cfg curr target unread).2 = target := by
  unfold parserRead at h ⊢
  simp only [] at h ⊢
  rw [if_pos h]

/-! ### a failed parse reports an error -/

/-- the return code of `mpt_parse_config` is 0 (success) or negative, for every handler -/
theorem code_nonpos {α : Type} (k : Kind) (cfg : Cfg) (save : Handler α) (ctx : α) (prev : Nat)
    (input : List UInt8) : (parseConfig k cfg save ctx prev input).code ≤ 0 :=
  (loop_code k cfg save ctx prev {} { rest := input }).1

/-- **A read error is never a success**: when the source ends with anything but the regular end
    marker -2 (`getc` reports -1 = read error), `mpt_parse_config` returns a negative code — for every
    input read before the error, every format, every handler.  (The elements completed before the error
    have been delivered; the error is reported by the call that meets it or by the one after.) -/
theorem read_error_reported {α : Type} (k : Kind) (cfg : Cfg) (save : Handler α) (ctx : α) (prev : Nat)
    (input : List UInt8) (h : cfg.eof ≠ -2) : (parseConfig k cfg save ctx prev input).code < 0 := by
  have := loop_code k cfg save ctx prev {} { rest := input }
  unfold parseConfig
  have h0 : (loop k cfg save ctx prev {} { rest := input }).code ≠ 0 := fun h0 => h (this.2 h0)
  omega

/-- … and `mpt_parse_node` then fails and leaves the target alone -/
theorem read_error_reported_node (root : Conf.Forest) (str : Option (List UInt8)) (sect opt : Nat) (eof : Int)
    (input : List UInt8) (h : eof ≠ -2) :
    (parseNode root str sect opt eof input).code < 0 ∧ (parseNode root str sect opt eof input).children = root := by
  have hc : (parseNode root str sect opt eof input).code < 0 := by
    unfold parseNode
    simp only []
    split
    · exact Err.code_neg Err.BadType
    · rename_i kk _
      have := read_error_reported kk { fmt := (parseFormat str).1, sect := sect, opt := opt, eof := eof } nodeAppend
        ({} : Build) Flag.section_ input h
      rw [if_pos this]; exact this
  exact ⟨hc, fail_clean root str sect opt eof input hc⟩

/-- **A handler refusal is reported, and nothing is delivered after it**: let the handler refuse its
    call number `n` (counted from 0).  If the accepting handler would get more than `n` calls on this
    input, `mpt_parse_config` returns -0x80 and the events delivered are exactly the first `n` events of
    the accepting run; otherwise the refusal never happens and the result is that of the accepting
    run. -/
theorem refusal_reported (k : Kind) (cfg : Cfg) (n : Nat) (prev : Nat) (input : List UInt8) :
    (n < (parseConfig k cfg (record none) [] prev input).ctx.length →
        (parseConfig k cfg (record (some n)) [] prev input).code = -128
        ∧ (parseConfig k cfg (record (some n)) [] prev input).ctx.reverse
            = (parseConfig k cfg (record none) [] prev input).ctx.reverse.take n)
    ∧ ((parseConfig k cfg (record none) [] prev input).ctx.length ≤ n →
        parseConfig k cfg (record (some n)) [] prev input = parseConfig k cfg (record none) [] prev input) := by
  unfold parseConfig
  obtain ⟨h1, h2⟩ := loop_refuse k cfg n _ [] prev {} { rest := input } (Nat.le_refl _) (Nat.zero_le _)
  refine ⟨fun hlt => ?_, h1⟩
  obtain ⟨hc, hl, l, hsuf⟩ := h2 hlt
  refine ⟨hc, ?_⟩
  rw [hsuf, List.reverse_append, List.take_left' (by simpa using hl)]

/-- so a refusing handler never sees more than `n` events -/
theorem refusal_stops (k : Kind) (cfg : Cfg) (n : Nat) (prev : Nat) (input : List UInt8) :
    (parseConfig k cfg (record (some n)) [] prev input).ctx.length ≤ n := by
  by_cases h : n < (parseConfig k cfg (record none) [] prev input).ctx.length
  · have := ((refusal_reported k cfg n prev input).1 h).2
    have hl := congrArg List.length this
    simp only [List.length_reverse, List.length_take] at hl
    omega
  · rw [(refusal_reported k cfg n prev input).2 (by omega)]; omega

/-! ### the 16-bit identifier limit -/

/-- **A name that does not fit an identifier is refused, not truncated**: `mpt_node_append` for a section
    or option element whose name (last path element) has 65535 bytes or more returns NULL, whatever the
    tree built so far — `mpt_parse_config` then returns -0x80 (`refusal_reported`) and `mpt_parse_node`
    leaves the target alone.  (Path elements themselves have no length limit in the model: the path
    buffer of the real parser is an array that grows, `parser_context.valid` is a `size_t` since fix
    dd47ea9.) -/
theorem name_limit_refused (b : Build) (s : St) (prev : Nat) (ret : Int) (n : List UInt8)
    (hret : ret = 1 ∨ ret = 3 ∨ ret = 7) (hlast : s.path.elems.getLast? = some n) (hlen : 65535 ≤ n.length) :
    nodeAppend b s prev ret = none := by
  have hname : nodeName s.path = none := by
    unfold nodeName
    rw [hlast]
    have : n.length + 1 > 65535 := by omega
    simp [this]
  unfold nodeAppend
  rcases hret with h | h | h <;> subst h <;> simp [Flag.sectEnd, Flag.section_, hname]

/-- a shorter name is never refused for its length: the only other refusal is the structural one (an
    element at depth 0 that is not the first child of the local root) -/
theorem name_limit_accepted (b : Build) (s : St) (prev : Nat) (ret : Int) (n : List UInt8)
    (hret : ret = 1 ∨ ret = 3 ∨ ret = 7) (hlast : s.path.elems.getLast? = some n) (hlen : n.length < 65535)
    (hdepth : b.depth ≠ 0) : (nodeAppend b s prev ret).isSome = true := by
  have hname : nodeName s.path = some n := by
    unfold nodeName
    rw [hlast]
    have : ¬ (n.length + 1 > 65535) := by omega
    simp [this]
  unfold nodeAppend
  rcases hret with h | h | h <;> subst h <;> simp [Flag.sectEnd, Flag.section_, Flag.data, hname, metaNew, hdepth] <;>
    split <;> rfl

/-! ### non-vacuity: concrete inputs -/
section examples
def bytes (s : String) : List UInt8 := s.toUTF8.toList

/-- default format: `a {` / `b=1` / `}` gives section, option with value, section end -/
example : events .pre {} 0 (bytes "a {\nb=1\n}\n")
    = (0, [.sect [bytes "a"], .opt [bytes "a", bytes "b"] (some (bytes "1")), .end_ [bytes "a"]]) := by
  decide +kernel
example : WellNested (events .pre {} 0 (bytes "a {\nb=1\n}\n")).2 := by decide +kernel
/-- a stray section end fails (MissingData) although the handler saw the `end_` event first:
    the hypothesis of `well_nested` matters -/
example : (events .pre {} 0 (bytes "}\n")) = (-16, [.end_ []]) := by decide +kernel
example : ¬ WellNested (events .pre {} 0 (bytes "}\n")).2 := by decide +kernel
/-- all input characters are in the trace, one more `getc` saw the end marker -/
example : (parseConfig .pre {} (record none) [] 0 (bytes "a=1\n")).src.reads = 5
    ∧ (parseConfig .pre {} (record none) [] 0 (bytes "a=1\n")).src.trace.reverse = bytes "a=1\n" := by
  decide +kernel
/-- failing parse into a non-empty target: the target is returned unchanged -/
example : (parseNode [.node (bytes "x") none []] none 0xff 0xff (-2) (bytes "a {\n")).code = -16
    ∧ Conf.flat 0 (parseNode [.node (bytes "x") none []] none 0xff 0xff (-2) (bytes "a {\n")).children
        = [(0, bytes "x", none)] := by
  decide +kernel
example : (nodeParse [.node (bytes "x") none []] none none (bytes "a {\n")).code = -16
    ∧ Conf.flat 0 (nodeParse [.node (bytes "x") none []] none none (bytes "a {\n")).children
        = [(0, bytes "x", none)] := by
  decide +kernel
/-- `mpt_node_parse` replaces, `mpt_parse_node` merges -/
example : Conf.flat 0 (nodeParse [.node (bytes "x") none []] none none (bytes "a=1\n")).children
    = [(0, bytes "a", some (bytes "1"))] := by
  decide +kernel
/-- a successful one merges -/
example : Conf.flat 0 (parseNode [.node (bytes "x") none []] none 0xff 0xff (-2) (bytes "a {\nb=1\n}\n")).children
    = [(0, bytes "a", none), (1, bytes "b", some (bytes "1")), (0, bytes "x", none)] := by
  decide +kernel
/-- the one situation in which an element is returned without reading (separated format with the same
    start and end character): the second `/` ends the unnamed section, the section start implied by it
    is returned by the next call without a `getc` -/
example : events .sep { fmt := (parseFormat (some (bytes "/ / =;#"))).1 } 0 (bytes "b=1;//")
    = (0, [.opt [bytes "b"] (some (bytes "1")), .sect [[]], .end_ [[]], .sect [[]]]) := by
  decide +kernel
example : (next .sep { fmt := (parseFormat (some (bytes "/ / =;#"))).1 } 2
      { path := { elems := [[]], hasBuf := true } } { rest := bytes "x" }).1 = 1
    ∧ (next .sep { fmt := (parseFormat (some (bytes "/ / =;#"))).1 } 2
      { path := { elems := [[]], hasBuf := true } } { rest := bytes "x" }).2.2.rest = bytes "x" := by
  decide +kernel
/-- a handler that refuses the second call: -0x80, one event delivered -/
example : (parseConfig .pre {} (record (some 1)) [] 0 (bytes "a {\nb=1\n}\n")).code = -128
    ∧ (parseConfig .pre {} (record (some 1)) [] 0 (bytes "a {\nb=1\n}\n")).ctx = [.sect [bytes "a"]] := by
  decide +kernel
/-- a read error behind a complete text: the option is delivered, the parse fails -/
example : (parseConfig .pre { eof := -1 } (record none) [] 0 (bytes "a=1\n")).code = -1
    ∧ (parseConfig .pre { eof := -1 } (record none) [] 0 (bytes "a=1\n")).ctx.length = 1 := by
  decide +kernel
end examples

end Mpt.C08
