/-
  C18 — Visible line parts partition the data exactly.   PROPERTY THEOREMS ONLY.

  M = `Mpt.Linepart` (MptModel/Impl/Linepart.lean, mirrors mptplot/values/linepart_linear.c,
  linepart_code.c, linepart_join.c), S = `Mpt.Visible` (MptModel/Spec/Visible.lean).
  Values are exact rationals: every theorem holds for ALL value sequences and ALL ranges (also
  degenerate and inverted ones) over `Rat`; rounding of `double`, infinities and NaN are outside the model.
  `parts xs range` is the record sequence of the caller's loop (repeated calls advancing by `raw`).
  The C++ layer (mpt++/linepart.cpp `linepart::array::set/apply` with its merge path, the part view of
  mpt++/polyline.cpp) is modelled in Impl/LinepartArray.lean and tied to the code by the second driver part
  (harness/drvxx_linepart.cpp); for the way `polyline::set` uses it — parts for `n` points, then ONE dimension
  applied — the whole property is proved (`merge_partition`), for further dimensions it is checked per script by
  the model driver.  `polyline::set` / `apply_data` / `value_store` are not modelled.
-/
import MptModel.Lemmas.LinepartMerge

namespace Mpt.C18
open Mpt.Visible Mpt.Linepart

/-- **Progress**: on a non-empty window one call consumes at least one and at most
    `min len 65535` points (with or without a range). -/
theorem progress (xs : List Rat) (range : Option Range) (h : 0 < xs.length) :
    0 < (linepartLinear xs range).raw ∧ (linepartLinear xs range).raw ≤ min xs.length 65535 :=
  linear_progress xs range h

example : (linepartLinear [-1, -1, 1/2] (some ⟨0, 1⟩)).raw = 1 := by decide +kernel

/-- all four fields fit their 16-bit storage: the `uint16_t` increments of the C code never wrap -/
theorem fields_fit (xs : List Rat) (r : Range) :
    (linepartLinear xs (some r)).raw ≤ 65535 ∧ (linepartLinear xs (some r)).usr ≤ 65535 ∧
    (linepartLinear xs (some r)).cut ≤ 65535 ∧ (linepartLinear xs (some r)).trim ≤ 65535 := by
  have hu : u16max = 65535 := rfl
  have hraw : (linepartLinear xs (some r)).raw ≤ 65535 ∧ (linepartLinear xs (some r)).usr ≤ 65535 := by
    by_cases hne : 0 < xs.length
    · have ok := linear_ok r xs hne
      exact ⟨by have := ok.raw_le; omega, by have := ok.usr_le; omega⟩
    · have : xs = [] := List.eq_nil_of_length_eq_zero (by omega)
      subst this
      exact ⟨by simp [linepartLinear, linearCore, headCut, visLen], by simp [linepartLinear, linearCore, headCut, visLen]⟩
  refine ⟨hraw.1, hraw.2, ?_, ?_⟩
  · show (linearCore r (xs.take u16max)).cut ≤ 65535
    rw [linearCore_eq]
    split <;> simp only [] <;> split <;> first | omega | skip
    all_goals (unfold cutCode; split <;> first | exact u16_le _ | omega)
  · show (linearCore r (xs.take u16max)).trim ≤ 65535
    rw [linearCore_eq]
    split <;> simp only [] <;> first | omega | skip
    split <;> first | exact u16_le _ | omega

/-- **Partition**: the records of the repeated calls consume every input point exactly once — the `raw`
    counts add up to the number of points — and every record consumes at least one point.
    For all sequences and all ranges (and for the NULL range). -/
theorem partition (xs : List Rat) (range : Option Range) :
    ((parts xs range).map (·.raw)).sum = xs.length ∧ ∀ p ∈ parts xs range, 0 < p.raw :=
  ⟨partsAux_sum range xs.length xs (Nat.le_refl _), partsAux_pos range xs.length xs⟩

example : parts [-1, 1/2, 1/2, 2, 2, 1/2] (some ⟨0, 1⟩)
    = [{ raw := 4, usr := 4, cut := 43690, trim := 43690 }, { raw := 2, usr := 2, cut := 43690, trim := 0 }] := by
  decide +kernel

/-- **Visible once**: every visible point (at-min and at-max included) lies in the drawn portion
    `[start, start+usr)` of exactly one part. -/
theorem visible_once (xs : List Rat) (r : Range) (i : Nat) (h : insideAt r xs i) :
    drawnCount (parts xs (some r)) 0 i = 1 :=
  (partsAux_drawn r xs.length xs 0 (Nat.le_refl _) i).2 (Nat.zero_le _) h

example : insideAt ⟨0, 1⟩ [-1, 1/2, 1/2, 2, 2, 1/2] 5 := by decide +kernel

/-- **No hidden interior point is drawn**: every point strictly between the first and the last drawn point
    of a part is visible (only the first point of a part with a cut and the last point of a part with a trim
    lie outside the range). -/
theorem interior_visible (xs : List Rat) (r : Range) :
    InteriorVisible r xs (parts xs (some r)) 0 :=
  partsAux_interior r xs xs.length xs 0 (by intro j; simp) (Nat.le_refl _)

/-- **Fraction accuracy**: decoding the 16-bit code of a fraction `0 ≤ f ≤ 1` gives `f` up to one unit of the
    encoding: `|real (code f) − f| ≤ 1/65536`; the code fits 16 bits, and a non-zero fraction never gets the
    code 0 (which the consumers read as "nothing cut"). -/
theorem fraction_accuracy (f : Rat) (h0 : 0 ≤ f) (h1 : f ≤ 1) :
    real (code f) - f ≤ 1 / 65536 ∧ f - real (code f) ≤ 1 / 65536 ∧ 0 ≤ code f ∧ code f ≤ 65535 ∧
    (0 < f → 1 ≤ code f) :=
  ⟨(code_accuracy f h0 h1).1, (code_accuracy f h0 h1).2, (code_bounds f h0 h1).1, (code_bounds f h0 h1).2,
   fun hp => code_pos f hp h1⟩

example : code (2/3) = 43690 ∧ real 43690 = 21845/32768 ∧ code (1/131072) = 1 := by decide +kernel

/-- **The stored cut is the code of the exact crossing fraction**: when a part draws at least two points and
    its first point `x0` is invisible, the second point `x1` is visible, the stored `cut` is the code of the
    fraction `t` with `x0 + t·(x1 − x0) = bound` (`bound` = the range limit next to `x0`), and `0 < t ≤ 1`; the stored code is not 0. -/
theorem cut_is_crossing (xs : List Rat) (r : Range) (x0 x1 : Rat)
    (h0 : xs[0]? = some x0) (h1 : xs[1]? = some x1) (ho : ¬ insideAt r xs 0)
    (hu : 2 ≤ (linepartLinear xs (some r)).usr) :
    r.has x1 = true ∧ 0 < (linepartLinear xs (some r)).cut ∧
    (linepartLinear xs (some r)).cut = (code (crossing x0 x1 (nearBound r x0))).toNat ∧
    0 < crossing x0 x1 (nearBound r x0) ∧ crossing x0 x1 (nearBound r x0) ≤ 1 ∧
    x0 + crossing x0 x1 (nearBound r x0) * (x1 - x0) = nearBound r x0 :=
  cut_crossing xs r x0 x1 h0 h1 ho hu

example : (linepartLinear [-1, 1/2, 1/2] (some ⟨0, 1⟩)).cut = 43690 ∧ crossing (-1) (1/2) 0 = 2/3 := by decide +kernel

/-- **The stored trim is the code of the exact crossing fraction**: when the last drawn point `x` of a part
    with at least two drawn points is invisible, its predecessor `prev` is visible and the stored `trim` is
    the code of the fraction `t` (measured from `x`) with `x + t·(prev − x) = bound`, `0 < t ≤ 1`. -/
theorem trim_is_crossing (xs : List Rat) (r : Range) (prev x : Rat)
    (hu : 2 ≤ (linepartLinear xs (some r)).usr)
    (hp : xs[(linepartLinear xs (some r)).usr - 2]? = some prev)
    (hx : xs[(linepartLinear xs (some r)).usr - 1]? = some x)
    (ho : ¬ insideAt r xs ((linepartLinear xs (some r)).usr - 1)) :
    r.has prev = true ∧ 0 < (linepartLinear xs (some r)).trim ∧
    (linepartLinear xs (some r)).trim = (code (crossing x prev (nearBound r x))).toNat ∧
    0 < crossing x prev (nearBound r x) ∧ crossing x prev (nearBound r x) ≤ 1 ∧
    x + crossing x prev (nearBound r x) * (prev - x) = nearBound r x :=
  trim_crossing xs r prev x hu hp hx ho

example : (linepartLinear [1/2, 1/2, 2] (some ⟨0, 1⟩)).usr = 3 ∧
    (linepartLinear [1/2, 1/2, 2] (some ⟨0, 1⟩)).trim = 43690 := by decide +kernel

/-- **Crossings are marked**: in the records of the repeated calls every drawn end point that lies outside
    the range — the first point of a part that starts with a cut, the last point of a part that ends with a
    trim — carries a non-zero fraction code, so a consumer that takes code 0 as "nothing cut"
    (`polyline::part::points`) never reports an out-of-range point as drawn. -/
theorem crossings_flagged (xs : List Rat) (r : Range) : Flagged r xs (parts xs (some r)) 0 :=
  partsAux_flagged r xs xs.length xs 0 (by intro j; simp) (Nat.le_refl _)

example : (parts [131071/131072, 4, 2] (some ⟨1, 4⟩)) = [{ raw := 3, usr := 3, cut := 1, trim := 0 }] := by
  decide +kernel

/-- **Join keeps the totals**: a successful join yields one record whose `raw` and `usr` are the sums of the
    two records (so the sums over a record list are unchanged), keeps the cut of the first and the trim of
    the second record, fits the 16-bit fields when its inputs do, and happens only when the first record has
    no hidden tail (`usr = raw`, no trim) and the second no cut — i.e. the joined record denotes the same
    drawn points.  A refused join changes nothing (`none`). -/
theorem join_total (to post j : Part) (h : linepartJoin to post = some j) :
    j.raw = to.raw + post.raw ∧ j.usr = to.usr + post.usr ∧ j.cut = to.cut ∧ j.trim = post.trim ∧
    (to.raw ≤ 65535 → to.usr ≤ 65535 → j.raw ≤ 65535 ∧ j.usr ≤ 65535) ∧
    to.usr = to.raw ∧ to.trim = 0 ∧ post.cut = 0 := by
  unfold linepartJoin at h
  have hu : u16max = 65535 := rfl
  split at h; · cases h
  split at h; · cases h
  split at h; · cases h
  cases h
  refine ⟨rfl, rfl, rfl, rfl, ?_, ?_, ?_, ?_⟩ <;> first | omega | (simp only []; omega)

example : linepartJoin ⟨3, 3, 7, 0⟩ ⟨2, 2, 0, 9⟩ = some ⟨5, 5, 7, 9⟩ := by decide +kernel

/-- **Joining keeps every point's drawn count**: replacing two adjacent records by their join changes for no
    point the number of parts that draw it (and the records behind them start where they started). -/
theorem join_keeps_drawn (to post j : Part) (rest : List Part) (start i : Nat) (h : linepartJoin to post = some j) :
    drawnCount (j :: rest) start i = drawnCount (to :: post :: rest) start i := by
  obtain ⟨h1, h2, _, _, _, h6, _, _⟩ := join_total to post j h
  simp only [drawnCount]
  rw [h1, h2, h6]
  have e : start + (to.raw + post.raw) = start + to.raw + post.raw := by omega
  rw [e]
  by_cases a : start ≤ i ∧ i < start + (to.raw + post.usr)
  · by_cases b : start ≤ i ∧ i < start + to.raw
    · rw [if_pos a, if_pos b, if_neg (by omega)]; omega
    · rw [if_pos a, if_neg b, if_pos (by omega)]; omega
  · rw [if_neg a, if_neg (by omega), if_neg (by omega)]; omega

/-- **A lone out-of-range point is consumed, not drawn** (the one-point remainders behind a full part of
    65535 or 65533 points). -/
theorem single_point (x : Rat) (r : Range) (h : r.has x = false) :
    linepartLinear [x] (some r) = { raw := 1, usr := 0, cut := 0, trim := 0 } := by
  have ho : out r x = true := by
    rw [has_eq_not_out] at h; simpa using h
  show linearCore r ([x].take u16max) = _
  have : [x].take u16max = [x] := rfl
  rw [this, linearCore_eq]
  have hb : bIdx r [x] = 0 := by simp [bIdx, kIdx, headCut, visLen, ho]
  have ht : tLen r [x] = 0 := by simp [tLen, hb, outLen]
  simp [hb, ht, headCut]

/-- without a range every point is drawn and a call takes `min len 65535` points: the default
    `transform::part()` makes progress for every length (65536 included) -/
theorem no_range_part (xs : List Rat) :
    linepartLinear xs none = { raw := min 65535 xs.length, usr := min 65535 xs.length, cut := 0, trim := 0 } :=
  linear_none xs

/-- **Fractions of ALL records**: in the records of the repeated calls every stored cut / trim of a part
    that draws at least two points and starts / ends outside the range decodes to the crossing fraction of
    its first / last drawn segment with the range boundary up to one unit of the 16-bit encoding
    (`|real code − t| ≤ 1/65536`), and is not 0. -/
theorem fractions_all_records (xs : List Rat) (r : Range) :
    CrossingsCoded (fun c => real (c : Int)) r xs (parts xs (some r)) 0 :=
  partsAux_coded r xs xs.length xs 0 (by intro j; simp) (Nat.le_refl _)

example : (parts [1/2, 2, 2, -1, 1/2] (some ⟨0, 1⟩)).map (fun p => (p.cut, p.trim)) = [(0, 43690), (43690, 0)] := by
  decide +kernel

/-- **Stability of the code under a perturbed quotient** (what a `double` evaluation of the fraction can do):
    the code is monotone in the quotient, and a quotient that is off by `d` moves the decoded fraction by at
    most `d` plus two units of the encoding.  The `double` evaluation `(bound − x0)/(x1 − x0)` has a relative
    error of a few `2^-53` (two roundings), far below one unit `2^-16`: the stored code is the exact code or its
    neighbour (assumption on IEEE arithmetic, not proved here). -/
theorem code_monotone (f g : Rat) (h0 : 0 ≤ f) (hfg : f ≤ g) (h1 : g ≤ 1) :
    code f ≤ code g ∧ real (code g) - real (code f) ≤ (g - f) + 2 / 65536 := by
  have hm := code_mono f g h0 hfg h1
  refine ⟨hm, ?_⟩
  have a := code_accuracy f h0 (Rat.le_trans hfg h1)
  have b := code_accuracy g (Rat.le_trans h0 hfg) h1
  obtain ⟨a1, a2⟩ := a
  obtain ⟨b1, b2⟩ := b
  grind

/-- **The consumer reports visible points only**: for the records of the repeated calls the points
    `polyline::part::points()` hands out — the drawn points of a part without the first one when a cut is
    stored and without the last one when a trim is stored (`polyParts_spans`: these are exactly the spans the
    model of the part view computes) — are all visible. -/
theorem consumer_points_visible (xs : List Rat) (r : Range) :
    ReportedVisible r xs (parts xs (some r)) 0 ∧
    ∀ (ps : List Part) (t : Nat),
      (polyParts ps t).map (fun e => ((e.1 : Int) - e.2.2.1, e.2.1, e.2.2.2)) =
        ps.map (fun p => (((if p.cut ≠ 0 then 1 else 0 : Nat) : Int),
          (p.usr : Int) - (if p.cut ≠ 0 then 1 else 0 : Nat) - (if p.trim ≠ 0 then 1 else 0 : Nat), p.usr)) :=
  ⟨reported_visible r xs _ 0 (interior_visible xs r) (crossings_flagged xs r), polyParts_spans⟩

example : polyParts (parts [-1, 1/2, 1/2, 2, 2, 1/2] (some ⟨0, 1⟩)) 0 = [(1, 2, 0, 4), (5, 1, 4, 2)] := by
  decide +kernel

/-! ### The merge path of `linepart::array::apply` -/

/-- **Merge path**: `linepart::array::apply` on the parts `linepart::array::set` has made for the points (as
    `polyline::set` uses it: parts for `n` points first, then one dimension applied — chunks of 65533 points,
    each re-split by the calls and re-joined where nothing is hidden in between) yields records with the whole
    property: they consume every point exactly once, each at least one; every visible point is drawn by
    exactly one part; interiors are visible; crossings are marked; hence the consumer reports visible points
    only.  (Applying a FURTHER dimension to such records is checked per script by the model driver.) -/
theorem merge_partition (xs : List Rat) (r : Range) (ps : List Part)
    (h : arrayApply (arraySet xs.length) xs (some r) = some ps) :
    (ps.map (·.raw)).sum = xs.length ∧ (∀ p ∈ ps, 0 < p.raw) ∧
    (∀ i, insideAt r xs i → drawnCount ps 0 i = 1) ∧ InteriorVisible r xs ps 0 ∧ Flagged r xs ps 0 ∧
    ReportedVisible r xs ps 0 := by
  obtain ⟨g1, g2, g3, g4, g5⟩ := merge_good xs r ps h
  refine ⟨g1, g2, ?_, g4, g5, reported_visible r xs ps 0 g4 g5⟩
  intro i hin
  rw [g3 i hin, if_pos]
  obtain ⟨x, hx, _⟩ := hin
  exact (List.getElem?_eq_some_iff.1 hx).1

example : arrayApply (arraySet 6) [-1, 1/2, 1/2, 2, 2, 1/2] (some ⟨0, 1⟩)
    = some [{ raw := 4, usr := 4, cut := 43690, trim := 43690 }, { raw := 2, usr := 2, cut := 43690, trim := 0 }] := by
  decide +kernel

example : arrayApply (arraySet 4) [1/2, 1/2, 1/2, 2] (some ⟨0, 1⟩) = some [{ raw := 4, usr := 4, cut := 0, trim := 43690 }] := by
  decide +kernel

end Mpt.C18
