import MptModel.Impl.Linepart
namespace Mpt.C18
open Mpt.Visible Mpt.Linepart

theorem join_total (to post j : Part) (h : linepartJoin to post = some j) :
    j.raw = to.raw + post.raw ∧ j.usr = to.usr + post.usr := by
  unfold linepartJoin at h
  split at h; · cases h
  split at h; · cases h
  split at h; · cases h
  cases h; exact ⟨rfl, rfl⟩

end Mpt.C18
