/-
  C01 — message framing round trip for every codec.  Property theorems only
  (helper lemmas: Lemmas/Cobs.lean, Lemmas/Encode.lean).
-/
import MptModel.Lemmas.Cobs
namespace Mpt.C01
open Mpt.Cobs

/-- decode ∘ encode = id for COBS, COBS/R, COBS/ZPE, COBS/ZPE+R and every message -/
theorem roundtrip (v : Variant) (m : List Byte) : dec v (enc v m) = some m := by
  have := dec_body_frame v (m.map fun b => (b, false))
  simpa [enc, Function.comp_def] using this

example : dec .zpeR (enc .zpeR [7, 0, 0, 0, 9]) = some [7, 0, 0, 0, 9] := by decide

/-- the same when the message is handed over in pieces (zero pair elimination cannot look past the
    end of a piece, so the frame may differ from `enc v m` — it still decodes to the message) -/
theorem roundtrip_chunks (v : Variant) (chunks : List (List Byte)) :
    dec v (encChunks v chunks) = some chunks.flatten := by
  have := dec_body_frame v (mark chunks)
  rw [mark_fst] at this
  exact this

example : encChunks .zpe [[7, 0], [0, 9]] ≠ enc .zpe [7, 0, 0, 9]
    ∧ dec .zpe (encChunks .zpe [[7, 0], [0, 9]]) = some [7, 0, 0, 9] := by decide

/-- a finished frame contains no zero byte except its single terminating delimiter -/
theorem frame_zero_free (v : Variant) (chunks : List (List Byte)) :
    (∀ b ∈ (encChunks v chunks).dropLast, b ≠ 0) ∧ (encChunks v chunks).getLast? = some 0 := by
  unfold encChunks
  refine ⟨?_, by simp⟩
  simp only [List.dropLast_concat]
  exact encB_nz v _ [] false (Inv.nil v)

theorem frame_zero_free_enc (v : Variant) (m : List Byte) :
    (∀ b ∈ (enc v m).dropLast, b ≠ 0) ∧ (enc v m).getLast? = some 0 := by
  unfold enc
  refine ⟨?_, by simp⟩
  simp only [List.dropLast_concat]
  exact encB_nz v _ [] false (Inv.nil v)

example : enc .cobs [0, 0] = [1, 1, 1, 0] := by decide

/-- command text: messages without a zero byte round-trip (the decoder prepends its 2-byte header) -/
theorem cmd_roundtrip (m : List Byte) (h : (0 : Byte) ∉ m) :
    ∃ f, encStr m = some f ∧ decCmd f = some (cmdHeader ++ m) := by
  refine ⟨m ++ [0], by simp [encStr, h], ?_⟩
  simp [decCmd, h]

/-- command text admits exactly the messages without a zero byte -/
theorem cmd_refuses (m : List Byte) (h : (0 : Byte) ∈ m) : encStr m = none := by
  simp [encStr, h]

example : encStr [0x68, 0x69] = some [0x68, 0x69, 0] ∧ encStr [0x68, 0, 0x69] = none := by decide

/-- the (repaired) Python client encoder produces the reference COBS frame … -/
theorem py_refines (m : List Byte) : pyEnc m = enc .cobs m := pyEnc_eq_enc m

/-- … hence its frames decode to the message -/
theorem py_roundtrip (m : List Byte) : dec .cobs (pyEnc m) = some m := by
  rw [py_refines]; exact roundtrip .cobs m

example : pyEnc [1, 0, 2] = [2, 1, 2, 2, 0] := by decide

end Mpt.C01
