/-
  C01 — message framing round trip for every codec.  Property theorems only
  (helper lemmas: Lemmas/Cobs.lean, Lemmas/Encode.lean).
-/
import MptModel.Lemmas.Cobs
import MptModel.Lemmas.Encode
namespace Mpt.C01
open Mpt.Cobs Mpt.Codec

/-- decode ∘ encode = id for COBS, COBS/R, COBS/ZPE, COBS/ZPE+R and every message -/
theorem roundtrip (v : Variant) (m : List Byte) : dec v (enc v m) = some m := by
  have := dec_body_frame v (m.map fun b => (b, false))
  simpa [enc, Function.comp_def] using this

example : dec .zpeR (enc .zpeR [7, 0, 0, 0, 9]) = some [7, 0, 0, 0, 9] := by decide

/-- the same when the message is handed over in pieces (zero pair elimination cannot look past the
    end of a piece, so the frame may differ from `enc v m` — it still decodes to the message) -/
theorem roundtrip_chunks (v : Variant) (chunks : List (List Byte)) :
    dec v (encChunks v chunks) = some chunks.flatten := by
  have := dec_body_frame v (mark chunks)
  rw [mark_fst] at this
  exact this

example : encChunks .zpe [[7, 0], [0, 9]] ≠ enc .zpe [7, 0, 0, 9]
    ∧ dec .zpe (encChunks .zpe [[7, 0], [0, 9]]) = some [7, 0, 0, 9] := by decide

/-- a finished frame contains no zero byte except its single terminating delimiter -/
theorem frame_zero_free (v : Variant) (chunks : List (List Byte)) :
    (∀ b ∈ (encChunks v chunks).dropLast, b ≠ 0) ∧ (encChunks v chunks).getLast? = some 0 := by
  unfold encChunks
  refine ⟨?_, by simp⟩
  simp only [List.dropLast_concat]
  exact encB_nz v _ [] false (Inv.nil v)

theorem frame_zero_free_enc (v : Variant) (m : List Byte) :
    (∀ b ∈ (enc v m).dropLast, b ≠ 0) ∧ (enc v m).getLast? = some 0 := by
  unfold enc
  refine ⟨?_, by simp⟩
  simp only [List.dropLast_concat]
  exact encB_nz v _ [] false (Inv.nil v)

example : enc .cobs [0, 0] = [1, 1, 1, 0] := by decide

/-- command text: messages without a zero byte round-trip (the decoder prepends its 2-byte header) -/
theorem cmd_roundtrip (m : List Byte) (h : (0 : Byte) ∉ m) :
    ∃ f, encStr m = some f ∧ decCmd f = some (cmdHeader ++ m) := by
  refine ⟨m ++ [0], by simp [encStr, h], ?_⟩
  simp [decCmd, h]

/-- command text admits exactly the messages without a zero byte -/
theorem cmd_refuses (m : List Byte) (h : (0 : Byte) ∈ m) : encStr m = none := by
  simp [encStr, h]

example : encStr [0x68, 0x69] = some [0x68, 0x69, 0] ∧ encStr [0x68, 0, 0x69] = none := by decide

/-- the (repaired) Python client encoder produces the reference COBS frame … -/
theorem py_refines (m : List Byte) : pyEnc m = enc .cobs m := pyEnc_eq_enc m

/-- … hence its frames decode to the message -/
theorem py_roundtrip (m : List Byte) : dec .cobs (pyEnc m) = some m := by
  rw [py_refines]; exact roundtrip .cobs m

example : pyEnc [1, 0, 2] = [2, 1, 2, 2, 0] := by decide


/-! ### the implementation model refines the reference encoder -/

/-- full statement: whatever the pieces and however the window grows, a finished frame decodes to the
    message (all four framings) -/
def encoder_refines_statement : Prop :=
  ∀ (v : Variant) (fill : Byte) (fuel : Nat) (win : List Byte) (chunks : List (List Byte)) (caps : List Nat) (o : EncOut),
    encodeSched (.cobs v) fill fuel {} win chunks caps = .ok o →
    dec v (o.win.take o.st.done) = some chunks.flatten

/-- COBS and COBS/R: for every split of the message into push calls and every capacity growth schedule
    (including calls that consume only part of their input or ask for space) the model encoder's finished
    data is exactly the reference frame.  Missing for the full statement: the two ZPE framings, whose
    frame depends on where the calls end (correspondence-checked against `encChunks`, see `roundtrip_chunks`). -/
theorem encoder_refines_partial (v : Variant) (hz : v.isZpe = false) (fill : Byte) (fuel : Nat) (win : List Byte)
    (chunks : List (List Byte)) (caps : List Nat) (o : EncOut)
    (h : encodeSched (.cobs v) fill fuel {} win chunks caps = .ok o) :
    o.win.take o.st.done = enc v chunks.flatten ∧ dec v (o.win.take o.st.done) = some chunks.flatten := by
  have hinv : EncInv v {} win [] [] := EncInv.start v {} win [] rfl rfl (by simp) (by simp)
  have := (sched_refines v hz fill fuel {} win chunks caps [] [] o hinv h).2.2
  simp only [List.nil_append] at this
  exact ⟨this, by rw [this]; exact roundtrip v _⟩

example : (encodeSched (.cobs .cobsR) 0xEE 20 {} [] [[1, 2], [0, 9]] [1, 1, 2, 1, 1, 1, 1, 1]).toOption.map
    (fun o => o.win.take o.st.done) = some (enc .cobsR [1, 2, 0, 9]) := by decide

/-- frames are appended: finished data in front of the message (`pre`) is kept, whatever happens during
    the encoding of the next message -/
theorem encoder_appends (v : Variant) (hz : v.isZpe = false) (fill : Byte) (fuel : Nat) (st : EncState)
    (win pre : List Byte) (chunks : List (List Byte)) (caps : List Nat) (o : EncOut)
    (hs : st.scratch = 0) (hd : st.done = pre.length) (hw : win.take st.done = pre) (hl : st.done ≤ win.length)
    (h : encodeSched (.cobs v) fill fuel st win chunks caps = .ok o) :
    o.win.take o.st.done = pre ++ enc v chunks.flatten := by
  have := (sched_refines v hz fill fuel st win chunks caps pre [] o (EncInv.start v st win pre hs hd hw hl) h).2.2
  simpa using this

/-- with enough room (two bytes per message byte, one per piece, two for the end) the encoder takes
    every piece completely and the termination succeeds: no retry, no growth -/
theorem encoder_total (v : Variant) (hz : v.isZpe = false) (fill : Byte) (win : List Byte) (chunks : List (List Byte))
    (hne : ∀ c ∈ chunks, c ≠ []) (hsp : 2 * chunks.flatten.length + chunks.length + 2 ≤ win.length) :
    ∃ o, encodeSched (.cobs v) fill (chunks.length + 1) {} win chunks [] = .ok o ∧
      o.win.take o.st.done = enc v chunks.flatten := by
  have hinv : EncInv v {} win [] [] := EncInv.start v {} win [] rfl rfl (by simp) (by simp)
  obtain ⟨o, ho⟩ := sched_total v hz fill chunks {} win [] [] hne (by simpa using hsp) hinv
  exact ⟨o, ho, (encoder_refines_partial v hz fill _ win chunks [] o ho).1⟩

end Mpt.C01
