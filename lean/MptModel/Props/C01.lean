/-
  C01 — message framing round trip for every codec.  Property theorems only
  (helper lemmas: Lemmas/Cobs.lean, Lemmas/Encode.lean, Lemmas/EncodeZpe.lean).
-/
import MptModel.Lemmas.Cobs
import MptModel.Lemmas.Encode
import MptModel.Lemmas.EncodeZpe
import MptModel.Lemmas.EncodeString
import MptModel.Lemmas.ArrayPush
import MptModel.Lemmas.DecodeCommand
namespace Mpt.C01
open Mpt.Cobs Mpt.Codec

/-- decode ∘ encode = id for COBS, COBS/R, COBS/ZPE, COBS/ZPE+R and every message -/
theorem roundtrip (v : Variant) (m : List Byte) : dec v (enc v m) = some m := by
  have := dec_body_frame v (m.map fun b => (b, false))
  simpa [enc, Function.comp_def] using this

example : dec .zpeR (enc .zpeR [7, 0, 0, 0, 9]) = some [7, 0, 0, 0, 9] := by decide

/-- the same when the message is handed over in pieces (zero pair elimination cannot look past the
    end of a piece, so the frame may differ from `enc v m` — it still decodes to the message) -/
theorem roundtrip_chunks (v : Variant) (chunks : List (List Byte)) :
    dec v (encChunks v chunks) = some chunks.flatten := by
  have := dec_body_frame v (mark chunks)
  rw [mark_fst] at this
  exact this

example : encChunks .zpe [[7, 0], [0, 9]] ≠ enc .zpe [7, 0, 0, 9]
    ∧ dec .zpe (encChunks .zpe [[7, 0], [0, 9]]) = some [7, 0, 0, 9] := by decide

/-- a finished frame contains no zero byte except its single terminating delimiter -/
theorem frame_zero_free (v : Variant) (chunks : List (List Byte)) :
    (∀ b ∈ (encChunks v chunks).dropLast, b ≠ 0) ∧ (encChunks v chunks).getLast? = some 0 := by
  unfold encChunks
  refine ⟨?_, by simp⟩
  simp only [List.dropLast_concat]
  exact encB_nz v _ [] false (Inv.nil v)

theorem frame_zero_free_enc (v : Variant) (m : List Byte) :
    (∀ b ∈ (enc v m).dropLast, b ≠ 0) ∧ (enc v m).getLast? = some 0 := by
  unfold enc
  refine ⟨?_, by simp⟩
  simp only [List.dropLast_concat]
  exact encB_nz v _ [] false (Inv.nil v)

example : enc .cobs [0, 0] = [1, 1, 1, 0] := by decide

/-- command text: messages without a zero byte round-trip (the decoder prepends its 2-byte header) -/
theorem cmd_roundtrip (m : List Byte) (h : (0 : Byte) ∉ m) :
    ∃ f, encStr m = some f ∧ decCmd f = some (cmdHeader ++ m) := by
  refine ⟨m ++ [0], by simp [encStr, h], ?_⟩
  simp [decCmd, h]

/-- command text admits exactly the messages without a zero byte -/
theorem cmd_refuses (m : List Byte) (h : (0 : Byte) ∈ m) : encStr m = none := by
  simp [encStr, h]

example : encStr [0x68, 0x69] = some [0x68, 0x69, 0] ∧ encStr [0x68, 0, 0x69] = none := by decide

/-- the (repaired) Python client encoder produces the reference COBS frame … -/
theorem py_refines (m : List Byte) : pyEnc m = enc .cobs m := pyEnc_eq_enc m

/-- … hence its frames decode to the message -/
theorem py_roundtrip (m : List Byte) : dec .cobs (pyEnc m) = some m := by
  rw [py_refines]; exact roundtrip .cobs m

example : pyEnc [1, 0, 2] = [2, 1, 2, 2, 0] := by decide

/-- the (repaired) Python client's `encode_command` admits exactly the zero-free messages and frames them
    like the reference -/
theorem py_cmd_refines (m : List Byte) : pyCmd m = encStr m := rfl

example : pyCmd [0x68, 0, 0x69] = none ∧ pyCmd [0x68, 0x69] = some [0x68, 0x69, 0] := by decide


/-! ### the implementation model refines the reference encoder -/

/-- The model encoder refines the reference encoder, all four framings: whatever the pieces in which the
    message is pushed and however the window is granted (`caps` = arbitrary growth schedule; calls that take
    only part of their input or ask for space are retried), a finished frame decodes to the message, ends
    in its only zero byte, and is the reference encoding of the message for the marking that cuts where
    the encoder calls ended. -/
theorem encoder_refines (v : Variant) (fill : Byte) (fuel : Nat) (win : List Byte) (chunks : List (List Byte))
    (caps : List Nat) (o : EncOut) (h : encodeSched (.cobs v) fill fuel {} win chunks caps = .ok o) :
    dec v (o.win.take o.st.done) = some chunks.flatten ∧
    (∀ b ∈ (o.win.take o.st.done).dropLast, b ≠ 0) ∧ (o.win.take o.st.done).getLast? = some 0 ∧
    ∃ ms, ms.map Prod.fst = chunks.flatten ∧ o.win.take o.st.done = encB v [] false ms ++ [0] := by
  have hinv : EncInvM v {} win [] [] := EncInvM.start v {} win [] rfl rfl (by simp) (by simp)
  obtain ⟨ms, e1, _, _, e4⟩ := sched_refinesM v fill fuel {} win chunks caps [] [] o hinv h
  simp only [List.map_nil, List.nil_append] at e1 e4
  refine ⟨?_, ?_, ?_, ms, e1, e4⟩
  · rw [e4, dec_body_frame v ms, e1]
  · rw [e4, List.dropLast_concat]; exact encB_nz v ms [] false (Inv.nil v)
  · rw [e4]; simp

example : (encodeSched (.cobs .zpe) 0xEE 20 {} [] [[7, 0], [0, 9]] [2, 2, 2, 2]).toOption.map
    (fun o => o.win.take o.st.done) = some (encChunks .zpe [[7, 0], [0, 9]]) := by decide

/-- COBS and COBS/R: for every split of the message into push calls and every capacity growth schedule
    (including calls that consume only part of their input or ask for space) the model encoder's finished
    data is exactly the reference frame `enc v m` (for the ZPE framings the frame depends on where the calls
    end, see `encoder_refines`). -/
theorem encoder_refines_exact (v : Variant) (hz : v.isZpe = false) (fill : Byte) (fuel : Nat) (win : List Byte)
    (chunks : List (List Byte)) (caps : List Nat) (o : EncOut)
    (h : encodeSched (.cobs v) fill fuel {} win chunks caps = .ok o) :
    o.win.take o.st.done = enc v chunks.flatten ∧ dec v (o.win.take o.st.done) = some chunks.flatten := by
  have hinv : EncInv v {} win [] [] := EncInv.start v {} win [] rfl rfl (by simp) (by simp)
  have := (sched_refines v hz fill fuel {} win chunks caps [] [] o hinv h).2.2
  simp only [List.nil_append] at this
  exact ⟨this, by rw [this]; exact roundtrip v _⟩

example : (encodeSched (.cobs .cobsR) 0xEE 20 {} [] [[1, 2], [0, 9]] [1, 1, 2, 1, 1, 1, 1, 1]).toOption.map
    (fun o => o.win.take o.st.done) = some (enc .cobsR [1, 2, 0, 9]) := by decide

/-- frames are appended: finished data in front of the message (`pre`) is kept, whatever happens during
    the encoding of the next message -/
theorem encoder_appends (v : Variant) (hz : v.isZpe = false) (fill : Byte) (fuel : Nat) (st : EncState)
    (win pre : List Byte) (chunks : List (List Byte)) (caps : List Nat) (o : EncOut)
    (hs : st.scratch = 0) (hd : st.done = pre.length) (hw : win.take st.done = pre) (hl : st.done ≤ win.length)
    (h : encodeSched (.cobs v) fill fuel st win chunks caps = .ok o) :
    o.win.take o.st.done = pre ++ enc v chunks.flatten := by
  have := (sched_refines v hz fill fuel st win chunks caps pre [] o (EncInv.start v st win pre hs hd hw hl) h).2.2
  simpa using this

/-- with enough room (two bytes per message byte, one per piece, two for the end) the encoder takes
    every piece completely and the termination succeeds: no retry, no growth -/
theorem encoder_total (v : Variant) (hz : v.isZpe = false) (fill : Byte) (win : List Byte) (chunks : List (List Byte))
    (hne : ∀ c ∈ chunks, c ≠ []) (hsp : 2 * chunks.flatten.length + chunks.length + 2 ≤ win.length) :
    ∃ o, encodeSched (.cobs v) fill (chunks.length + 1) {} win chunks [] = .ok o ∧
      o.win.take o.st.done = enc v chunks.flatten := by
  have hinv : EncInv v {} win [] [] := EncInv.start v {} win [] rfl rfl (by simp) (by simp)
  obtain ⟨o, ho⟩ := sched_total v hz fill chunks {} win [] [] hne (by simpa using hsp) hinv
  exact ⟨o, ho, (encoder_refines_exact v hz fill _ win chunks [] o ho).1⟩


/-- the same for all four framings (the frame then decodes to the message) -/
theorem encoder_total_all (v : Variant) (fill : Byte) (win : List Byte) (chunks : List (List Byte))
    (hne : ∀ c ∈ chunks, c ≠ []) (hsp : 2 * chunks.flatten.length + chunks.length + 2 ≤ win.length) :
    ∃ o, encodeSched (.cobs v) fill (chunks.length + 1) {} win chunks [] = .ok o ∧
      dec v (o.win.take o.st.done) = some chunks.flatten := by
  have hinv : EncInvM v {} win [] [] := EncInvM.start v {} win [] rfl rfl (by simp) (by simp)
  obtain ⟨o, ho⟩ := sched_totalM v fill chunks {} win [] [] hne (by simpa using hsp) hinv
  exact ⟨o, ho, (encoder_refines v fill _ win chunks [] o ho).1⟩


/-! ### `mpt_array_push` (the retry loop that grows the array) -/

/-- `mpt_array_push` with data always returns (the retry loop needs at most `2·len + 1` encoder calls: a call
    that takes nothing — MissingBuffer or the zero return at a full block — is followed by a growth of 64
    bytes, after which data is taken), takes the whole piece, and keeps the array well-formed. -/
theorem array_push_total (v : Variant) (fill : Byte) (a : EncArray) (pre : List Byte) (ms : List (Byte × Bool))
    (bytes : List Byte) (h : ArrInv v a pre ms) (hne : bytes ≠ []) :
    ∃ a' cons ms', arrayPush (.cobs v) fill a (some bytes) = .ok (a', (bytes.length : Int), cons) ∧
      ArrInv v a' pre ms' ∧ ms'.map Prod.fst = ms.map Prod.fst ++ bytes :=
  arrayPush_data v fill a pre ms bytes h hne

/-- a message handed to `mpt_array_push` in any pieces and terminated, starting from the empty array or
    behind earlier frames `pre`: every call returns, the finished data is `pre` followed by a frame that
    decodes to the message -/
theorem array_push_refines (v : Variant) (fill : Byte) (a : EncArray) (pre : List Byte) (chunks : List (List Byte))
    (h : ArrInv v a pre []) (hne : ∀ c ∈ chunks, c ≠ []) :
    ∃ a' buf' frame, arrayMessage (.cobs v) fill a chunks = .ok a' ∧ a'.buf = some buf' ∧
      buf'.take a'.st.done = pre ++ frame ∧ dec v frame = some chunks.flatten ∧ ArrInv v a' (pre ++ frame) [] := by
  obtain ⟨a', buf', ms', e1, e2, e3, e4, e5⟩ := arrayMessage_spec v fill chunks a pre [] h hne
  refine ⟨a', buf', encB v [] false ms' ++ [0], e1, e2, e4, ?_, e5⟩
  rw [dec_body_frame v ms', e3]; simp

set_option maxRecDepth 8000 in
example : (arrayMessage (.cobs .zpeR) 0xBE {} [[7, 0], [0, 9]]).toOption.map
    (fun a => (a.buf.getD []).take a.st.done) = some (encChunks .zpeR [[7, 0], [0, 9]]) := by decide

/-! ### command text: the models of mpt_encode_string / mpt_decode_command -/

/-- the model of `mpt_encode_string` produces the reference frame `m ++ [0]` (one push and the termination
    on a window with room) … -/
theorem cmd_encoder_refines (win m : List Byte) (hm : m ≠ []) (hz : (0 : Byte) ∉ m) (hw : m.length + 1 ≤ win.length) :
    ∃ o1 o2, encodeString {} win (some m) = .ok o1 ∧ o1.ret = m.length ∧
      encodeString o1.st o1.win none = .ok o2 ∧ o2.win.take o2.st.done = m ++ [0] ∧ some (m ++ [0]) = encStr m :=
  encodeString_frame win m hm hz hw

/-- … and refuses a zero byte in the part it would copy -/
theorem cmd_encoder_refuses (st : EncState) (win m : List Byte) (hs : st.scratch = 0 ∧ st.ctx = 0)
    (hz : (0 : Byte) ∈ m.take (min m.length (win.length - st.done))) (hd : st.done < win.length) (hm : m ≠ []) :
    encodeString st win (some m) = .err .BadEncoding :=
  encodeString_refuses st win m hs hz hd hm

/-- the model of `mpt_decode_command`, on a state between two messages with the two bytes of head room the
    header needs and a complete frame `body ++ [0]` at the input position: it delivers (return 1) exactly
    the reference decoding (header ++ text), consumes the frame, and its two stores lie behind the input
    position -/
theorem cmd_decoder_refines (st : DecState) (segs : List Seg) (body junk : List Byte)
    (hlen : st.len - st.msg.getD 0 = 0) (hpos : 2 ≤ st.curr)
    (hin : (flat segs).drop st.curr = body ++ 0 :: junk) (hnz : ∀ x ∈ body, x ≠ 0) :
    (decodeCommand st segs false).ret = .val 1 ∧
    decCmd (body ++ [0]) = some (decodeCommand st segs false).region ∧
    (decodeCommand st segs false).st.curr = st.curr + body.length + 1 ∧
    (∀ x ∈ (decodeCommand st segs false).writes, x.1 < x.2 ∧ x.2 ≤ (flat segs).length) :=
  decodeCommand_honest st segs body junk hlen hpos hin hnz

example : (decodeCommand { curr := 2 } [(0, [0xdd, 0xdd, 0x68, 0x69, 0, 7])] false).region = [0x04, 0x20, 0x68, 0x69] := by decide

end Mpt.C01
