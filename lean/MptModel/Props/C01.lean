/-
  C01 — message framing round trip for every codec.  Property theorems only
  (helper lemmas: Lemmas/Cobs.lean, Lemmas/Encode.lean, Lemmas/EncodeZpe.lean).
-/
import MptModel.Lemmas.Cobs
import MptModel.Lemmas.Encode
import MptModel.Lemmas.EncodeZpe
import MptModel.Lemmas.EncodeString
import MptModel.Lemmas.ArrayPush
import MptModel.Lemmas.EncodeSched
import MptModel.Lemmas.EncodeCommand
import MptModel.Lemmas.EncodeDelete
import MptModel.Lemmas.EncodeArrayXX
import MptModel.Impl.CodecTable
import MptModel.Lemmas.DecodeCommand
import MptModel.Lemmas.DecodeDeliver
namespace Mpt.C01
open Mpt.Cobs Mpt.Codec

/-- decode ∘ encode = id for COBS, COBS/R, COBS/ZPE, COBS/ZPE+R and every message -/
theorem roundtrip (v : Variant) (m : List Byte) : dec v (enc v m) = some m := by
  have := dec_body_frame v (m.map fun b => (b, false))
  simpa [enc, Function.comp_def] using this

example : dec .zpeR (enc .zpeR [7, 0, 0, 0, 9]) = some [7, 0, 0, 0, 9] := by decide

/-- the same when the message is handed over in pieces (zero pair elimination cannot look past the
    end of a piece, so the frame may differ from `enc v m` — it still decodes to the message) -/
theorem roundtrip_chunks (v : Variant) (chunks : List (List Byte)) :
    dec v (encChunks v chunks) = some chunks.flatten := by
  have := dec_body_frame v (mark chunks)
  rw [mark_fst] at this
  exact this

example : encChunks .zpe [[7, 0], [0, 9]] ≠ enc .zpe [7, 0, 0, 9]
    ∧ dec .zpe (encChunks .zpe [[7, 0], [0, 9]]) = some [7, 0, 0, 9] := by decide

/-- a finished frame contains no zero byte except its single terminating delimiter -/
theorem frame_zero_free (v : Variant) (chunks : List (List Byte)) :
    (∀ b ∈ (encChunks v chunks).dropLast, b ≠ 0) ∧ (encChunks v chunks).getLast? = some 0 := by
  unfold encChunks
  refine ⟨?_, by simp⟩
  simp only [List.dropLast_concat]
  exact encB_nz v _ [] false (Inv.nil v)

theorem frame_zero_free_enc (v : Variant) (m : List Byte) :
    (∀ b ∈ (enc v m).dropLast, b ≠ 0) ∧ (enc v m).getLast? = some 0 := by
  unfold enc
  refine ⟨?_, by simp⟩
  simp only [List.dropLast_concat]
  exact encB_nz v _ [] false (Inv.nil v)

example : enc .cobs [0, 0] = [1, 1, 1, 0] := by decide

/-- command text: messages without a zero byte round-trip (the decoder prepends its 2-byte header) -/
theorem cmd_roundtrip (m : List Byte) (h : (0 : Byte) ∉ m) :
    ∃ f, encStr m = some f ∧ decCmd f = some (cmdHeader ++ m) := by
  refine ⟨m ++ [0], by simp [encStr, h], ?_⟩
  simp [decCmd, h]

/-- command text admits exactly the messages without a zero byte -/
theorem cmd_refuses (m : List Byte) (h : (0 : Byte) ∈ m) : encStr m = none := by
  simp [encStr, h]

example : encStr [0x68, 0x69] = some [0x68, 0x69, 0] ∧ encStr [0x68, 0, 0x69] = none := by decide

/-- the (repaired) Python client encoder produces the reference COBS frame … -/
theorem py_refines (m : List Byte) : pyEnc m = enc .cobs m := pyEnc_eq_enc m

/-- … hence its frames decode to the message -/
theorem py_roundtrip (m : List Byte) : dec .cobs (pyEnc m) = some m := by
  rw [py_refines]; exact roundtrip .cobs m

example : pyEnc [1, 0, 2] = [2, 1, 2, 2, 0] := by decide

/-- the (repaired) Python client's `encode_command`: `pyCmd` is a transcription of its two statements and
    coincides with the reference `encStr` by definition — this theorem records that and nothing more; what ties
    mpt.py itself to the reference is the `pycmd` op of the run (python3 executes encode_command, the C decoder
    decodes its output) -/
theorem py_cmd_refines (m : List Byte) : pyCmd m = encStr m := rfl

example : pyCmd [0x68, 0, 0x69] = none ∧ pyCmd [0x68, 0x69] = some [0x68, 0x69, 0] := by decide


/-! ### the implementation model refines the reference encoder -/

/-- The model encoder refines the reference encoder, all four framings: whatever the pieces in which the
    message is pushed and however the window is granted (`caps` = arbitrary growth schedule; calls that take
    only part of their input or ask for space are retried), a finished frame decodes to the message, ends
    in its only zero byte, and is the reference encoding of the message for *some* marking of its bytes (the
    lemma behind it, `sched_refinesM`, builds the marking that cuts where the encoder calls ended; the
    statement here does not pin it — the implementation-independent content is the first conjunct). -/
theorem encoder_refines (v : Variant) (fill : Byte) (fuel : Nat) (win : List Byte) (chunks : List (List Byte))
    (caps : List Nat) (o : EncOut) (h : encodeSched (.cobs v) fill fuel {} win chunks caps = .ok o) :
    dec v (o.win.take o.st.done) = some chunks.flatten ∧
    (∀ b ∈ (o.win.take o.st.done).dropLast, b ≠ 0) ∧ (o.win.take o.st.done).getLast? = some 0 ∧
    ∃ ms, ms.map Prod.fst = chunks.flatten ∧ o.win.take o.st.done = encB v [] false ms ++ [0] := by
  have hinv : EncInvM v {} win [] [] := EncInvM.start v {} win [] rfl rfl (by simp) (by simp)
  obtain ⟨ms, e1, _, _, e4⟩ := sched_refinesM v fill fuel {} win chunks caps [] [] o hinv h
  simp only [List.map_nil, List.nil_append] at e1 e4
  refine ⟨?_, ?_, ?_, ms, e1, e4⟩
  · rw [e4, dec_body_frame v ms, e1]
  · rw [e4, List.dropLast_concat]; exact encB_nz v ms [] false (Inv.nil v)
  · rw [e4]; simp

example : (encodeSched (.cobs .zpe) 0xEE 20 {} [] [[7, 0], [0, 9]] [2, 2, 2, 2]).toOption.map
    (fun o => o.win.take o.st.done) = some (encChunks .zpe [[7, 0], [0, 9]]) := by decide

/-- COBS and COBS/R: for every split of the message into push calls and every capacity growth schedule
    (including calls that consume only part of their input or ask for space) the model encoder's finished
    data is exactly the reference frame `enc v m` (for the ZPE framings the frame depends on where the calls
    end, see `encoder_refines`). -/
theorem encoder_refines_exact (v : Variant) (hz : v.isZpe = false) (fill : Byte) (fuel : Nat) (win : List Byte)
    (chunks : List (List Byte)) (caps : List Nat) (o : EncOut)
    (h : encodeSched (.cobs v) fill fuel {} win chunks caps = .ok o) :
    o.win.take o.st.done = enc v chunks.flatten ∧ dec v (o.win.take o.st.done) = some chunks.flatten := by
  have hinv : EncInv v {} win [] [] := EncInv.start v {} win [] rfl rfl (by simp) (by simp)
  have := (sched_refines v hz fill fuel {} win chunks caps [] [] o hinv h).2.2
  simp only [List.nil_append] at this
  exact ⟨this, by rw [this]; exact roundtrip v _⟩

example : (encodeSched (.cobs .cobsR) 0xEE 20 {} [] [[1, 2], [0, 9]] [1, 1, 2, 1, 1, 1, 1, 1]).toOption.map
    (fun o => o.win.take o.st.done) = some (enc .cobsR [1, 2, 0, 9]) := by decide

/-- frames are appended: finished data in front of the message (`pre`) is kept, whatever happens during
    the encoding of the next message -/
theorem encoder_appends (v : Variant) (hz : v.isZpe = false) (fill : Byte) (fuel : Nat) (st : EncState)
    (win pre : List Byte) (chunks : List (List Byte)) (caps : List Nat) (o : EncOut)
    (hs : st.scratch = 0) (hd : st.done = pre.length) (hw : win.take st.done = pre) (hl : st.done ≤ win.length)
    (h : encodeSched (.cobs v) fill fuel st win chunks caps = .ok o) :
    o.win.take o.st.done = pre ++ enc v chunks.flatten := by
  have := (sched_refines v hz fill fuel st win chunks caps pre [] o (EncInv.start v st win pre hs hd hw hl) h).2.2
  simpa using this

/-- with enough room (two bytes per message byte, one per piece, two for the end) the encoder takes
    every piece completely and the termination succeeds: no retry, no growth -/
theorem encoder_total (v : Variant) (hz : v.isZpe = false) (fill : Byte) (win : List Byte) (chunks : List (List Byte))
    (hne : ∀ c ∈ chunks, c ≠ []) (hsp : 2 * chunks.flatten.length + chunks.length + 2 ≤ win.length) :
    ∃ o, encodeSched (.cobs v) fill (chunks.length + 1) {} win chunks [] = .ok o ∧
      o.win.take o.st.done = enc v chunks.flatten := by
  have hinv : EncInv v {} win [] [] := EncInv.start v {} win [] rfl rfl (by simp) (by simp)
  obtain ⟨o, ho⟩ := sched_total v hz fill chunks {} win [] [] hne (by simpa using hsp) hinv
  exact ⟨o, ho, (encoder_refines_exact v hz fill _ win chunks [] o ho).1⟩


/-- the same for all four framings (the frame then decodes to the message) -/
theorem encoder_total_all (v : Variant) (fill : Byte) (win : List Byte) (chunks : List (List Byte))
    (hne : ∀ c ∈ chunks, c ≠ []) (hsp : 2 * chunks.flatten.length + chunks.length + 2 ≤ win.length) :
    ∃ o, encodeSched (.cobs v) fill (chunks.length + 1) {} win chunks [] = .ok o ∧
      dec v (o.win.take o.st.done) = some chunks.flatten := by
  have hinv : EncInvM v {} win [] [] := EncInvM.start v {} win [] rfl rfl (by simp) (by simp)
  obtain ⟨o, ho⟩ := sched_totalM v fill chunks {} win [] [] hne (by simpa using hsp) hinv
  exact ⟨o, ho, (encoder_refines v fill _ win chunks [] o ho).1⟩


/-- No schedule makes the encoder fault, all four framings: started behind finished data `pre`, whatever the
    pieces, the window and the growth schedule, the caller loop never stores outside the window (`.oob`) and
    never leaves the modelled states; the only refusals are MissingBuffer (space or calls ran out) and
    BadValue (an empty piece). -/
theorem encoder_no_fault (v : Variant) (fill : Byte) (fuel : Nat) (st : EncState) (win pre : List Byte)
    (chunks : List (List Byte)) (caps : List Nat)
    (hs : st.scratch = 0) (hd : st.done = pre.length) (hw : win.take st.done = pre) (hl : st.done ≤ win.length) :
    encodeSched (.cobs v) fill fuel st win chunks caps ≠ .oob ∧
    encodeSched (.cobs v) fill fuel st win chunks caps ≠ .unmodelled ∧
    ∀ e, encodeSched (.cobs v) fill fuel st win chunks caps = .err e → e = .MissingBuffer ∨ e = .BadValue :=
  sched_safeM v fill fuel st win chunks caps pre [] (EncInvM.start v st win pre hs hd hw hl)

/-- "However the output space is granted" with success, all four framings: for every growth schedule `caps`
    (portions of any size, zero and one byte included, granted only when the encoder took less than offered or
    asked for space) the loop finishes with a frame that decodes to the message, as soon as the space granted
    in total reaches two bytes per message byte plus three and one call per piece and per portion is allowed. -/
theorem encoder_total_caps (v : Variant) (fill : Byte) (fuel : Nat) (win : List Byte) (chunks : List (List Byte))
    (caps : List Nat) (hne : ∀ c ∈ chunks, c ≠ []) (hf : chunks.length + caps.length + 1 ≤ fuel)
    (hsp : 2 * chunks.flatten.length + 3 ≤ win.length + caps.sum) :
    ∃ o, encodeSched (.cobs v) fill fuel {} win chunks caps = .ok o ∧
      dec v (o.win.take o.st.done) = some chunks.flatten := by
  have hinv : EncInvM v {} win [] [] := EncInvM.start v {} win [] rfl rfl (by simp) (by simp)
  obtain ⟨o, ho⟩ := sched_total_capsM v fill fuel {} win chunks caps [] [] hinv hne hf
    (by show 0 + max 0 1 + 2 * chunks.flatten.length + 2 ≤ win.length + caps.sum; omega)
  exact ⟨o, ho, (encoder_refines v fill _ win chunks caps o ho).1⟩

example : (encodeSched (.cobs .zpeR) 0xEE 12 {} [] [[7, 0, 0, 9]] [1, 0, 1, 1, 1, 1, 1, 1, 1, 1, 1]).toOption.map
    (fun o => dec .zpeR (o.win.take o.st.done)) = some (some [7, 0, 0, 9]) := by decide

/-! ### `mpt_array_push` (the retry loop that grows the array) -/

/-- `mpt_array_push` with data always returns (the retry loop needs at most `2·len + 1` encoder calls: a call
    that takes nothing — MissingBuffer or the zero return at a full block — is followed by a growth of 64
    bytes, after which data is taken), takes the whole piece, and keeps the array well-formed. -/
theorem array_push_total (v : Variant) (fill : Byte) (a : EncArray) (pre : List Byte) (ms : List (Byte × Bool))
    (bytes : List Byte) (h : ArrInv v a pre ms) (hne : bytes ≠ []) :
    ∃ a' cons ms', arrayPush (.cobs v) fill a (some bytes) = .ok (a', (bytes.length : Int), cons) ∧
      ArrInv v a' pre ms' ∧ ms'.map Prod.fst = ms.map Prod.fst ++ bytes :=
  arrayPush_data v fill a pre ms bytes h hne

/-- a message handed to `mpt_array_push` in any pieces and terminated, starting from the empty array or
    behind earlier frames `pre`: every call returns, the finished data is `pre` followed by a frame that
    decodes to the message -/
theorem array_push_refines (v : Variant) (fill : Byte) (a : EncArray) (pre : List Byte) (chunks : List (List Byte))
    (h : ArrInv v a pre []) (hne : ∀ c ∈ chunks, c ≠ []) :
    ∃ a' buf' frame, arrayMessage (.cobs v) fill a chunks = .ok a' ∧ a'.buf = some buf' ∧
      buf'.take a'.st.done = pre ++ frame ∧ dec v frame = some chunks.flatten ∧ ArrInv v a' (pre ++ frame) [] := by
  obtain ⟨a', buf', ms', e1, e2, e3, e4, e5⟩ := arrayMessage_spec v fill chunks a pre [] h hne
  refine ⟨a', buf', encB v [] false ms' ++ [0], e1, e2, e4, ?_, e5⟩
  rw [dec_body_frame v ms', e3]; simp

set_option maxRecDepth 8000 in
example : (arrayMessage (.cobs .zpeR) 0xBE {} [[7, 0], [0, 9]]).toOption.map
    (fun a => (a.buf.getD []).take a.st.done) = some (encChunks .zpeR [[7, 0], [0, 9]]) := by decide

/-! ### the C++ wrapper `mpt::encode_array` -/

/-- `data()` hands out the finished frames `pre`, followed only by zero-free bytes (blocks of the message in
    progress that are already final): cut at the last delimiter it is exactly the finished frames, whatever
    block of the next message is open behind them -/
theorem wrapper_data (v : Variant) (a : EncArray) (pre : List Byte) (ms : List (Byte × Bool)) (h : ArrInv v a pre ms) :
    ∃ fin, xaData a = pre ++ fin ∧ ∀ x ∈ fin, x ≠ 0 :=
  xaData_spec v a pre ms h

/-- `shift(n)` removes exactly the first `n` bytes from what `data()` hands out -/
theorem wrapper_shift (a a' : EncArray) (n : Nat) (hn : n ≠ 0) (hu : a.st.done + a.st.scratch ≤ a.used)
    (h : xaShift a n = some a') : xaData a' = (xaData a).drop n :=
  xaShift_data a a' n hn hu h

example : xaData { st := { done := 4, scratch := 3, ctx := 3 }, buf := some [3, 0x61, 0x61, 0, 3, 0x62, 0x62, 0xBE], used := 7 }
    = [3, 0x61, 0x61, 0] := by decide

/-! ### message deletion and the uninitialized window -/

/-- Deleting the message in progress (`base->iov_base == NULL`, one message) restores the encoder state in
    front of it, whatever has been pushed of it in whatever pieces — including blocks of it that were already
    counted as finished data: `done` is back at the end of the finished frames `pre`, no block is open, the
    window is untouched and ready for the next message. -/
theorem delete_restores (v : Variant) (st : EncState) (win pre : List Byte) (ms : List (Byte × Bool))
    (h : EncInvM v st win pre ms) (hctx : st.ctx ≠ 0) (hpre : pre = [] ∨ pre.getLast? = some 0) :
    encodeCobsDel st win 1 = .ok ⟨{ ctx := 0, done := pre.length, scratch := 0 }, win, pre.length⟩ ∧
    EncInvM v { ctx := 0, done := pre.length, scratch := 0 } win pre [] :=
  encodeCobsDel_abort v st win pre ms h hctx hpre

example : (encodeCobsDel { ctx := 4, done := 7, scratch := 2 } [3, 0x61, 0x61, 0, 3, 0x62, 0x62, 2, 0x63] 1).toOption.map
    (fun o => o.st.done) = some 4 := by decide

/-- deleting a finished frame (no message in progress) restores the state in front of that frame -/
theorem delete_frame (st : EncState) (win pre body : List Byte) (hs : st.scratch = 0) (hc : st.ctx = 0)
    (hd : st.done = (pre ++ body ++ [0]).length) (hw : win.take st.done = pre ++ body ++ [0])
    (hl : st.done ≤ win.length) (hnz : ∀ x ∈ body, x ≠ 0) (hpre : pre = [] ∨ pre.getLast? = some 0) :
    encodeCobsDel st win 1 = .ok ⟨{ ctx := 0, done := pre.length, scratch := 0 }, win, pre.length⟩ :=
  encodeCobsDel_frame st win pre body hs hc hd hw hl hnz hpre

example : (encodeCobsDel { done := 8 } [3, 0x61, 0x61, 0, 3, 0x62, 0x62, 0] 1).toOption.map (fun o => o.st.done) = some 4 := by decide

/-- with an uninitialized window (NULL base, length 0) every encoder refuses and stores nothing.  `encodeNull`
    has no successful branch, so this holds by construction of the model; that the C encoders behave like
    `encodeNull` (which refusal, no store through the NULL pointer) is established by the `enc nullwin` op of
    the run under ASan -/
theorem null_window_refuses (c : Codec) (st : EncState) (src : Option (List Byte)) (o : EncOut) :
    encodeNull c st src ≠ .ok o := by
  unfold encodeNull
  cases c with
  | cobs v => simp only; split <;> simp
  | command =>
    simp only
    split
    · simp
    · split
      · simp
      · cases src with
        | none => simp
        | some b => simp only; split <;> simp

/-! ### the coding number -> function pairing (encoder.c, decoder.c) and the name table (encoding.c) -/

/-- the framing a coding number stands for (convert.h) -/
def specFraming (code : Nat) : Option Codec :=
  if code = 1 then some .command else (Variant.ofCoding code).map .cobs

/-- For every coding number the encoder and the decoder the library hands out implement the same framing,
    namely the one the number stands for (the tables are regenerated from encoder.c / decoder.c on every
    run: a swapped or missing `case` breaks this theorem). -/
theorem pairing_consistent : ∀ code, code < 128 →
    encoderOf code = specFraming code ∧ decoderOf code = specFraming code := by decide

/-- character codes of the name a framing has in the op lines and in the library's name table -/
def variantNameCodes : Variant → List Nat
  | .cobs => [99, 111, 98, 115]                                   -- "cobs"
  | .cobsR => [99, 111, 98, 115, 47, 114]                         -- "cobs/r"
  | .zpe => [99, 111, 98, 115, 47, 122, 112, 101]                 -- "cobs/zpe"
  | .zpeR => [99, 111, 98, 115, 47, 122, 112, 101, 43, 114]       -- "cobs/zpe+r"

/-- the name table: every framing is found under its name (without regard to letter case) and its coding
    number is reported under a name that stands for the same number; unknown names are refused -/
theorem names_consistent :
    (∀ v : Variant, encodingValue (variantNameCodes v) = v.coding ∧
      (encodingType v.coding).map encodingValue = some (v.coding : Int)) ∧
    encodingValue [99, 111, 109, 109, 97, 110, 100] = 1 ∧ (encodingType 1).map encodingValue = some 1 ∧
    encodingValue [67, 79, 66, 83, 47, 82] = 3 ∧ encodingValue [99, 111, 98, 115, 47, 120] = -2 := by
  refine ⟨?_, by decide, by decide, by decide, by decide⟩
  intro v
  cases v <;> exact ⟨by decide, by decide⟩

example : Variant.cobsR.name.toList.map Char.toNat = variantNameCodes .cobsR := by decide

/-! ### command text: the models of mpt_encode_string / mpt_decode_command -/

/-- the model of `mpt_encode_string` produces the reference frame `m ++ [0]` (one push and the termination
    on a window with room) … -/
theorem cmd_encoder_refines (win m : List Byte) (hm : m ≠ []) (hz : (0 : Byte) ∉ m) (hw : m.length + 1 ≤ win.length) :
    ∃ o1 o2, encodeString {} win (some m) = .ok o1 ∧ o1.ret = m.length ∧
      encodeString o1.st o1.win none = .ok o2 ∧ o2.win.take o2.st.done = m ++ [0] ∧ some (m ++ [0]) = encStr m :=
  encodeString_frame win m hm hz hw

/-- … and refuses a zero byte in the part it would copy -/
theorem cmd_encoder_refuses (st : EncState) (win m : List Byte) (hs : st.scratch = 0 ∧ st.ctx = 0)
    (hz : (0 : Byte) ∈ m.take (min m.length (win.length - st.done))) (hd : st.done < win.length) (hm : m ≠ []) :
    encodeString st win (some m) = .err .BadEncoding :=
  encodeString_refuses st win m hs hz hd hm

/-- Command text under every split into push calls and every growth schedule, behind finished data `pre`: a
    finished run has appended exactly the reference frame (the bytes handed over and the delimiter, which is
    `encStr` of the message and decodes to header ++ message), and no zero byte got in. -/
theorem cmd_encoder_sched_refines (fill : Byte) (fuel : Nat) (st : EncState) (win pre : List Byte)
    (chunks : List (List Byte)) (caps : List Nat) (o : EncOut)
    (hs : st.scratch = 0 ∧ st.ctx = 0) (hw : win.take st.done = pre) (hl : st.done ≤ win.length)
    (h : encodeSched .command fill fuel st win chunks caps = .ok o) :
    o.win.take o.st.done = pre ++ (chunks.flatten ++ [0]) ∧ encStr chunks.flatten = some (chunks.flatten ++ [0]) ∧
    decCmd (chunks.flatten ++ [0]) = some (cmdHeader ++ chunks.flatten) ∧ o.st.scratch = 0 ∧ o.st.ctx = 0 := by
  have hinv : CmdInv st win pre [] := ⟨hs.1, hs.2, hl, by simpa using hw, by simp⟩
  obtain ⟨a, b, _, d, e⟩ := cmd_sched_refines fill fuel st win chunks caps pre [] o hinv h
  simp only [List.nil_append] at d e
  exact ⟨d, by simp [encStr, e], by simp [decCmd, e], a, b⟩

/-- Command text: no schedule makes the encoder fault, and it finishes as soon as the space granted in total
    (start window and all portions, of whatever size) holds the message and the delimiter. -/
theorem cmd_encoder_sched_total (fill : Byte) (fuel : Nat) (st : EncState) (win pre : List Byte)
    (chunks : List (List Byte)) (caps : List Nat)
    (hs : st.scratch = 0 ∧ st.ctx = 0) (hw : win.take st.done = pre) (hl : st.done ≤ win.length) :
    encodeSched .command fill fuel st win chunks caps ≠ .oob ∧
    encodeSched .command fill fuel st win chunks caps ≠ .unmodelled ∧
    ((∀ c ∈ chunks, c ≠ []) → (0 : Byte) ∉ chunks.flatten → chunks.length + caps.length + 1 ≤ fuel →
      st.done + chunks.flatten.length + 1 ≤ win.length + caps.sum →
      ∃ o, encodeSched .command fill fuel st win chunks caps = .ok o) := by
  have hinv : CmdInv st win pre [] := ⟨hs.1, hs.2, hl, by simpa using hw, by simp⟩
  obtain ⟨a, b⟩ := cmd_sched_safe fill fuel st win chunks caps pre [] hinv
  exact ⟨a, b, fun h1 h2 h3 h4 => cmd_sched_total fill fuel st win chunks caps pre [] hinv h1 h2 h3 h4⟩

example : (encodeSched .command 0xEE 9 {} [] [[0x68, 0x69], [0x21]] [1, 0, 1, 1, 1]).toOption.map
    (fun o => o.win.take o.st.done) = some [0x68, 0x69, 0x21, 0] := by decide

/-- Command text through `mpt_array_push` (retry loop, +64 growth), behind earlier frames `pre`: every call
    returns, every piece is taken completely, and the finished data is `pre`, the message and the delimiter. -/
theorem cmd_array_push_refines (fill : Byte) (a : EncArray) (pre : List Byte) (chunks : List (List Byte))
    (h : CmdArrInv a pre []) (hne : ∀ c ∈ chunks, c ≠ []) (hz : (0 : Byte) ∉ chunks.flatten) :
    ∃ a' buf', arrayMessage .command fill a chunks = .ok a' ∧ a'.buf = some buf' ∧
      buf'.take a'.st.done = pre ++ (chunks.flatten ++ [0]) ∧ encStr chunks.flatten = some (chunks.flatten ++ [0]) ∧
      CmdArrInv a' (pre ++ (chunks.flatten ++ [0])) [] := by
  obtain ⟨a', buf', e1, e2, e3, e4⟩ := cmd_arrayMessage_spec fill chunks a pre [] h hne hz
  simp only [List.nil_append] at e3 e4
  exact ⟨a', buf', e1, e2, e3, by simp [encStr, hz], e4⟩

set_option maxRecDepth 8000 in
example : (arrayMessage .command 0xBE {} [[0x68], [0x69, 0x21]]).toOption.map
    (fun a => (a.buf.getD []).take a.st.done) = some [0x68, 0x69, 0x21, 0] := by decide

/-- The separator-pattern mode of `mpt_encode_string` (`scratch != 0`) and other delimiters (`_ctx != 0`) are
    not reachable through the library: reset clears both fields and no call of the encoder sets them, so from
    the reset state every successful call is the zero-delimiter mode the model covers. -/
theorem cmd_encoder_closed (st : EncState) (win : List Byte) (src : Option (List Byte)) (o : EncOut)
    (h : encodeString st win src = .ok o) :
    st.scratch = 0 ∧ st.ctx = 0 ∧ o.st.scratch = 0 ∧ o.st.ctx = 0 := by
  unfold encodeString at h
  by_cases hs : st.scratch ≠ 0 ∨ st.ctx ≠ 0
  · rw [if_pos hs] at h; simp at h
  · rw [if_neg hs] at h
    have h0 : st.scratch = 0 ∧ st.ctx = 0 := by
      constructor <;> (apply Classical.byContradiction; intro hc; exact hs (by simp [hc]))
    refine ⟨h0.1, h0.2, ?_⟩
    simp only at h
    split at h
    · simp at h
    cases src with
    | none =>
      simp only at h
      split at h
      · simp at h
      · unfold wr at h
        split at h
        · simp only [CRes.bind_ok, CRes.pure_eq, CRes.ok.injEq] at h
          rw [← h]; exact h0
        · simp [Bind.bind, CRes.bind] at h
    | some bytes =>
      simp only at h
      repeat' split at h
      all_goals first
        | (simp at h; done)
        | (simp only [CRes.ok.injEq] at h; rw [← h]; exact h0)

/-- the model of `mpt_decode_command`, on a state between two messages with the two bytes of head room the
    header needs and a complete frame `body ++ [0]` at the input position: it delivers (return 1) exactly
    the reference decoding (header ++ text), consumes the frame, and its two stores lie behind the input
    position -/
theorem cmd_decoder_refines (st : DecState) (segs : List Seg) (body junk : List Byte)
    (hlen : st.len - st.msg.getD 0 = 0) (hpos : 2 ≤ st.curr)
    (hin : (flat segs).drop st.curr = body ++ 0 :: junk) (hnz : ∀ x ∈ body, x ≠ 0) :
    (decodeCommand st segs false).ret = .val 1 ∧
    decCmd (body ++ [0]) = some (decodeCommand st segs false).region ∧
    (decodeCommand st segs false).st.curr = st.curr + body.length + 1 ∧
    (∀ x ∈ (decodeCommand st segs false).writes, x.1 < x.2 ∧ x.2 ≤ (flat segs).length) :=
  decodeCommand_honest st segs body junk hlen hpos hin hnz

example : (decodeCommand { curr := 2 } [(0, [0xdd, 0xdd, 0x68, 0x69, 0, 7])] false).region = [0x04, 0x20, 0x68, 0x69] := by decide

/-! ### model encoder into model decoder -/

/-- Round trip between the two implementation models, all four COBS framings: whatever the pieces and the
    growth schedule the encoder model was driven with, its finished frame — placed behind the input position
    of a decoder between two messages, in any segments, followed by anything — makes the decoder model
    (`mpt_decode_cobs*`) deliver exactly the message, given head room of the frame length plus the alignment
    margin; without that head room the only other answer is the request for work area (never "wait", never
    "broken", never another message). -/
theorem model_roundtrip (v : Variant) (fill : Byte) (fuel : Nat) (win : List Byte) (chunks : List (List Byte))
    (caps : List Nat) (o : EncOut) (h : encodeSched (.cobs v) fill fuel {} win chunks caps = .ok o)
    (st : DecState) (segs : List Seg) (junk : List Byte) (hb : Bnd (flat segs).length st) (hf : Fresh st)
    (hin : (flat segs).drop st.curr = o.win.take o.st.done ++ junk) :
    (((decodeV v st segs false).ret = .val 1 ∧ (decodeV v st segs false).region = chunks.flatten) ∨
      (decodeV v st segs false).ret = .err .MissingBuffer) ∧
    (st.pos + st.len + (o.win.take o.st.done).length + 14 ≤ st.curr →
      (decodeV v st segs false).ret = .val 1 ∧ (decodeV v st segs false).region = chunks.flatten) := by
  obtain ⟨hd, _, _, ms, _, e4⟩ := encoder_refines v fill fuel win chunks caps o h
  have hnz : ∀ x ∈ encB v [] false ms, x ≠ 0 := encB_nz v ms [] false (Inv.nil v)
  rw [e4] at hd hin ⊢
  have hin' : (flat segs).drop st.curr = encB v [] false ms ++ 0 :: junk := by simpa using hin
  constructor
  · rcases decodeV_accepts v st segs _ junk _ hb hf hin' hnz hd with ⟨a, b, _⟩ | a
    · exact Or.inl ⟨a, b⟩
    · exact Or.inr a
  · intro hroom
    simp only [List.length_append, List.length_cons, List.length_nil] at hroom
    obtain ⟨a, b, _⟩ := decodeV_delivers v st segs _ junk _ hb hf hin' hnz hd (by omega)
    exact ⟨a, b⟩

example : (decodeV .zpe { curr := 32 } [(0, List.replicate 32 0xdd ++ enc .zpe [7, 0, 0, 9] ++ [5])] false).region = [7, 0, 0, 9] := by
  decide

/-- the same for command text: the frame of the encoder model, whatever the schedule, makes the model of
    `mpt_decode_command` deliver header ++ message -/
theorem cmd_model_roundtrip (fill : Byte) (fuel : Nat) (win : List Byte) (chunks : List (List Byte)) (caps : List Nat)
    (o : EncOut) (h : encodeSched .command fill fuel {} win chunks caps = .ok o)
    (st : DecState) (segs : List Seg) (junk : List Byte)
    (hlen : st.len - st.msg.getD 0 = 0) (hpos : 2 ≤ st.curr)
    (hin : (flat segs).drop st.curr = o.win.take o.st.done ++ junk) :
    (decodeCommand st segs false).ret = .val 1 ∧ (decodeCommand st segs false).region = cmdHeader ++ chunks.flatten := by
  obtain ⟨e, _, _, _, _⟩ := cmd_encoder_sched_refines fill fuel {} win [] chunks caps o ⟨rfl, rfl⟩ (by simp) (by simp) h
  obtain ⟨a, b, c, d, z⟩ := cmd_sched_refines fill fuel {} win chunks caps [] [] o ⟨rfl, rfl, by simp, by simp, by simp⟩ h
  simp only [List.nil_append] at e z
  rw [e] at hin
  have hin' : (flat segs).drop st.curr = chunks.flatten ++ 0 :: junk := by simpa using hin
  obtain ⟨r1, r2, _, _⟩ := cmd_decoder_refines st segs chunks.flatten junk hlen hpos hin' (fun x hx h0 => z (h0 ▸ hx))
  refine ⟨r1, ?_⟩
  have : decCmd (chunks.flatten ++ [0]) = some (cmdHeader ++ chunks.flatten) := by simp [decCmd, z]
  rw [this] at r2
  exact (Option.some.inj r2).symm

end Mpt.C01
