/-
  C14 — node trees stay structurally sound.

  M = `Impl/Nodes.lean` (pointer store mirroring mptcore/node/*.c), S = `Spec/Forest.lean` (ordered forests).
  The abstraction is the relation `Realises s tops` (`Lemmas/NodesOps.lean`): the store `s` lays out the
  top-level sibling lists `tops` — `Real` fixes all four link fields, name and value of every node from the
  forest, no handle occurs twice, every live record belongs to the forest, and the `free` log lists exactly
  the dead records, each once.  `WF s := ∃ tops, Realises s tops`.

  Shape of the refinement theorems (`abs_*`): on a store that realises the lists (given in decomposed form:
  the lists the call talks about first, `rest` arbitrary; `Realises.perm` makes the order irrelevant) the C
  function's model succeeds and the new store realises the lists changed by the forest operation.  Each of
  them therefore also shows that `WF` is preserved (`wf_preserved`).

  Proved here: after, before, add/insert by position (incl. the position search of gnode_pos.c and the first
  child of a childless parent) and by name (the search loops of node_locate.c, `abs_locate`), unlink, clear,
  destroy (incl. refusal), node/tree/list clone, move/merge (`abs_move`: mpt_node_move incl. the re-parenting of
  handed-over children, the recursion into namesakes and the update of the caller's list reference); the link
  invariants in pointer terms; release exactly once; a clone realises the relabelled source (same shape, names
  and values at every depth); the walk the drivers print is the abstraction.
  `history_wf`: for any history of new/after/before/add/insert/unlink/move/clone/clear/destroy from the empty store
  (`runOp`, the function the model driver executes) the model never fails and the store realises the specification
  state.
  `abs_ops` states add/insert/clone/move through the spec state `Forest.St` (which also searches the operands in
  `tops`): proved (`Lemmas/NodesSt.lean` ties `sibsOf?`/`detached?`/`topOf?`/`find?` to the located form).
  gnode_swap.c (children of two nodes exchanged) and gnode_relink.c (parent/predecessor
  links below a node restored from the child/successor links) are modelled (`Store.swap`, `Store.relink`) and
  compared with the specification (`St.swap`, `St.relink`) by the correspondence run, incl. relink on wiped links;
  no theorem about them.
-/
import MptModel.Lemmas.NodesHistory
namespace Mpt.C14
open Mpt Mpt.Nodes Mpt.Forest

/-! ### example store: `0:a(1:b)` and the detached root `2:a=v` -/

def exStore : Store :=
  { nodes := [ { children := some 1, name := some "a" },
               { parent := some 0, name := some "b" },
               { name := some "a", value := some "v" } ],
    freed := [] }

def exTops : List Forest := [[.node 2 (some "a") (some "v") []], [.node 0 (some "a") none [.node 1 (some "b") none []]]]

theorem exRealises : Realises exStore exTops := by
  refine ⟨?_, by simp [exTops], ?_, by simp [exStore], ?_⟩
  · intro l hl
    simp only [exTops, List.mem_cons, List.not_mem_nil, or_false] at hl
    rcases hl with rfl | rfl
    · exact ⟨by simp, by simp [Real_cons, exStore, headId]⟩
    · exact ⟨by simp, by simp [Real_cons, exStore, headId, Tree.id]⟩
  · intro i n hn _
    match i with
    | 0 | 1 | 2 => simp [exTops]
    | i + 3 => simp [exStore] at hn
  · intro i
    match i with
    | 0 | 1 | 2 => simp [exStore]
    | i + 3 => simp [exStore]

/-! ### the link invariants in pointer terms -/

/-- On a well-formed store every live record satisfies the invariants the property names: next/prev agree
    and siblings share the parent, the first-child link leads to a node without predecessor that names this
    node as parent, the parent is alive and its first-child link is the head of the sibling list.
    ("No cycles, no node reachable from two places" is the existence of the finite forest with
    duplicate-free handles inside `WF`.) -/
theorem wf_links {s : Store} (h : WF s) : ∀ i n, s.Live i n → LinksAt s i n := by
  obtain ⟨tops, hR⟩ := h
  exact hR.links

example : LinksAt exStore 1 { parent := some 0, name := some "b" } :=
  wf_links ⟨exTops, exRealises⟩ 1 _ ⟨rfl, rfl⟩

/-- The walk both drivers perform after every op (every list head = live node without parent and predecessor,
    `prev`/`parent` of every element checked, nothing reached twice, nothing live left over) returns on a
    well-formed store exactly the realised lists, when these are listed in the order of creation of their heads:
    what the model driver prints in its `C` section is the abstraction the theorems speak about. -/
theorem walk_is_abstraction {s : Store} {tops : List Forest} (h : Realises s tops)
    (hord : tops.filterMap headId = s.heads) : s.walk = .ok tops :=
  walk_realises h hord

/-- the walk's starting points are exactly the heads of the realised top-level lists -/
theorem heads_are_roots {s : Store} {tops : List Forest} (h : Realises s tops) (i : Nat) :
    i ∈ s.heads ↔ ∃ l ∈ tops, headId l = some i :=
  h.mem_heads i

example : exStore.walk = .ok [[.node 0 (some "a") none [.node 1 (some "b") none []]], [.node 2 (some "a") (some "v") []]] :=
  walk_is_abstraction (exRealises.perm (List.Perm.swap _ _ _)) (by decide)

/-- the abstraction relation does not depend on the order in which the top-level lists are given -/
theorem realises_perm {s : Store} {tops tops' : List Forest} (h : Realises s tops) (hp : tops'.Perm tops) :
    Realises s tops' := h.perm hp

/-- every node has a sibling list (so the `SibsAt` hypothesis of the theorems below can always be met) -/
theorem sibs_exist {p : Nat} {l : Forest} (hnd : (ids l).Nodup) (hp : p ∈ ids l) : ∃ L j par, SibsAt p l L j par :=
  sibsAt_exists hnd hp

/-! ### abs_ops: the functions act on the abstraction as the forest operations -/

/-- `mpt_gnode_after(p, x)`, `x` a detached root outside the structure of `p`: `x` is inserted behind `p` -/
theorem abs_after {s : Store} {p x j : Nat} {n' : Name} {v' : Val} {cs' l0 L : Forest} {rest : List Forest}
    {par : Option Nat}
    (hR : Realises s ([.node x n' v' cs'] :: l0 :: rest)) (hat : SibsAt p l0 L j par) :
    ∃ s', s.gnodeAfter (some p) x = .ok s' ∧
      Realises s' (applyAt par (fun L => L.insertIdx (j + 1) (.node x n' v' cs')) l0 :: rest) :=
  after_refines hR hat

example : ∃ s', exStore.gnodeAfter (some 1) 2 = .ok s' ∧
    Realises s' [[.node 0 (some "a") none [.node 1 (some "b") none [], .node 2 (some "a") (some "v") []]]] :=
  by simpa [applyAt, modKids, Tree.children] using
    abs_after (p := 1) (rest := []) exRealises (SibsAt.kids (q := 0) (tq := .node 0 (some "a") none [.node 1 (some "b") none []])
      (j := 0) (by simp [find?]) (by rfl))

/-- `mpt_gnode_before(p, x)`: `x` is inserted in front of `p` (and becomes the parent's first child when `p` was) -/
theorem abs_before {s : Store} {p x j : Nat} {n' : Name} {v' : Val} {cs' l0 L : Forest} {rest : List Forest}
    {par : Option Nat}
    (hR : Realises s ([.node x n' v' cs'] :: l0 :: rest)) (hat : SibsAt p l0 L j par) :
    ∃ s', s.gnodeBefore (some p) x = .ok s' ∧
      Realises s' (applyAt par (fun L => L.insertIdx j (.node x n' v' cs')) l0 :: rest) :=
  before_refines hR hat

example : ∃ s', exStore.gnodeBefore (some 1) 2 = .ok s' ∧
    Realises s' [[.node 0 (some "a") none [.node 2 (some "a") (some "v") [], .node 1 (some "b") none []]]] :=
  by simpa [applyAt, modKids, Tree.children] using
    abs_before (p := 1) (rest := []) exRealises (SibsAt.kids (q := 0) (tq := .node 0 (some "a") none [.node 1 (some "b") none []])
      (j := 0) (by simp [find?]) (by rfl))

/-- `mpt_gnode_add(first, pos, x)` by position: `x` is placed into the sibling list of `first` at the index the
    position denotes — `addIdx`: 0 = end, k > 0 = in front of the k-th element counted from `first` (end when there is
    none), -k = so that k elements follow (in front of `first` when the list is shorter) -/
theorem abs_add {s : Store} {first x f : Nat} {n' : Name} {v' : Val} {cs' l0 L : Forest} {rest : List Forest}
    {par : Option Nat} (pos : Int)
    (hR : Realises s ([.node x n' v' cs'] :: l0 :: rest)) (hat : SibsAt first l0 L f par) :
    ∃ s', s.add first pos x false = .ok s' ∧
      Realises s' (applyAt par (fun L' => L'.insertIdx (addIdx L.length f pos) (.node x n' v' cs')) l0 :: rest) :=
  add_refines pos hR hat

/-- `mpt_gnode_insert(parent, pos, x)` by position, parent with children -/
theorem abs_insert {s : Store} {parent x : Nat} {n' : Name} {v' : Val} {cs' l0 : Forest} {rest : List Forest}
    {tp : Tree} (pos : Int)
    (hR : Realises s ([.node x n' v' cs'] :: l0 :: rest)) (hf : find? parent l0 = some tp) (hne : tp.children ≠ []) :
    ∃ s', s.insert parent pos x false = .ok s' ∧
      Realises s' (modKids parent (fun L' => L'.insertIdx (addIdx tp.children.length 0 pos) (.node x n' v' cs')) l0 :: rest) :=
  insert_refines pos hR hf hne

/-- `mpt_gnode_insert`/`mpt_node_insert(parent, pos, x)`, parent without children: `x` becomes the only child -/
theorem abs_insert_first_child {s : Store} {parent x : Nat} {n' : Name} {v' : Val} {cs' l0 : Forest} {rest : List Forest}
    {tp : Tree} (pos : Int) (byName : Bool)
    (hR : Realises s ([.node x n' v' cs'] :: l0 :: rest)) (hf : find? parent l0 = some tp) (hempty : tp.children = []) :
    ∃ s', s.insert parent pos x byName = .ok s' ∧
      Realises s' (modKids parent (fun _ => [.node x n' v' cs']) l0 :: rest) :=
  insert_empty_refines pos byName hR hf hempty

example : ∃ s', exStore.insert 0 (-1) 2 false = .ok s' ∧
    Realises s' [[.node 0 (some "a") none [.node 2 (some "a") (some "v") [], .node 1 (some "b") none []]]] := by
  simpa [modKids, addIdx, Tree.children] using
    abs_insert (rest := []) (parent := 0) (tp := .node 0 (some "a") none [.node 1 (some "b") none []]) (-1) exRealises
      (by simp [find?]) (by simp [Tree.children])

/-- `mpt_node_locate(first, pos, name)`: the element `locIdx` names — pos > 0: the pos-th namesake from `first`
    on, pos < 0: the |pos|-th namesake before `first` counted backwards, 0: the last element if it is a namesake -/
theorem abs_locate {s : Store} {first f : Nat} {l0 L : Forest} {rest : List Forest} {par : Option Nat}
    (key : Name) (pos : Int) (hR : Realises s (l0 :: rest)) (hat : SibsAt first l0 L f par) :
    s.locate (some first) pos key = .ok ((locIdx L f key pos).bind fun i => (L[i]?).map Tree.id) :=
  locate_refines key pos hR hat

example : exStore.locate (some 1) 1 (some "b") = .ok (some 1) := by
  have hk : locIdx [Tree.node 1 (some "b") none []] 0 (some "b") 1 = some 0 := by decide
  simpa [Tree.children, hk, Tree.id] using
    abs_locate (first := 1) (l0 := [.node 0 (some "a") none [.node 1 (some "b") none []]]) (rest := [[.node 2 (some "a") (some "v") []]])
      (some "b") 1 (exRealises.perm (List.Perm.swap _ _ _))
      (SibsAt.kids (q := 0) (tq := .node 0 (some "a") none [.node 1 (some "b") none []]) (j := 0) (by simp [find?]) (by rfl))

/-- `mpt_node_add(first, pos, x)` by name (the namesakes of `x` are searched with node_locate.c): `x` is placed at
    the index `nameIdx` names (behind the last / in front of the pos-th namesake, …); nothing changes where
    `nameIdx` is `none` -/
theorem abs_add_by_name {s : Store} {first x f : Nat} {n' : Name} {v' : Val} {cs' l0 L : Forest} {rest : List Forest}
    {par : Option Nat} (pos : Int)
    (hR : Realises s ([.node x n' v' cs'] :: l0 :: rest)) (hat : SibsAt first l0 L f par) :
    ∃ s', s.add first pos x true = .ok s' ∧
      Realises s' (match nameIdx L f n' pos with
        | some k => applyAt par (fun L' => L'.insertIdx k (.node x n' v' cs')) l0 :: rest
        | none => [.node x n' v' cs'] :: l0 :: rest) :=
  add_name_refines pos hR hat

/-- `mpt_node_insert(parent, pos, x)` by name, parent with children -/
theorem abs_insert_by_name {s : Store} {parent x : Nat} {n' : Name} {v' : Val} {cs' l0 : Forest} {rest : List Forest}
    {tp : Tree} (pos : Int)
    (hR : Realises s ([.node x n' v' cs'] :: l0 :: rest)) (hf : find? parent l0 = some tp) (hne : tp.children ≠ []) :
    ∃ s', s.insert parent pos x true = .ok s' ∧
      Realises s' (match nameIdx tp.children 0 n' pos with
        | some k => modKids parent (fun L' => L'.insertIdx k (.node x n' v' cs')) l0 :: rest
        | none => [.node x n' v' cs'] :: l0 :: rest) :=
  insert_name_refines pos hR hf hne

example : ∃ s', exStore.add 0 0 2 true = .ok s' ∧
    Realises s' [[.node 0 (some "a") none [.node 1 (some "b") none []], .node 2 (some "a") (some "v") []]] := by
  have h := abs_add_by_name (rest := []) (first := 0) (f := 0) (par := none)
    (L := [.node 0 (some "a") none [.node 1 (some "b") none []]]) 0 exRealises (SibsAt.top (by rfl))
  have hk : nameIdx [.node 0 (some "a") none [.node 1 (some "b") none []]] 0 (some "a") 0 = some 1 := by decide
  rw [hk] at h
  simpa [applyAt] using h

/-- `mpt_node_unlink(x)`: `x` and everything below it leaves its sibling list and becomes a list of its own;
    the result is the old successor.  (For a detached root nothing is linked and nothing changes.) -/
theorem abs_unlink {s : Store} {x j : Nat} {l0 L : Forest} {rest : List Forest} {par : Option Nat} {t : Tree}
    (hR : Realises s (l0 :: rest)) (hat : SibsAt x l0 L j par) (ht : L[j]? = some t)
    (hne : applyAt par (fun L => L.eraseIdx j) l0 ≠ []) :
    ∃ s', s.unlink x = .ok (s', headId (L.drop (j + 1))) ∧
      Realises s' ([t] :: applyAt par (fun L => L.eraseIdx j) l0 :: rest) :=
  unlink_refines hR hat ht hne

example : ∃ s', exStore.unlink 1 = .ok (s', none) ∧
    Realises s' [[.node 1 (some "b") none []], [.node 0 (some "a") none []], [.node 2 (some "a") (some "v") []]] :=
  by simpa [applyAt, modKids, Tree.children, headId] using
    abs_unlink (x := 1) (t := .node 1 (some "b") none []) (l0 := [.node 0 (some "a") none [.node 1 (some "b") none []]]) (rest := [[.node 2 (some "a") (some "v") []]])
      (exRealises.perm (List.Perm.swap _ _ _))
      (SibsAt.kids (q := 0) (tq := .node 0 (some "a") none [.node 1 (some "b") none []])
        (j := 0) (by simp [find?]) (by rfl))
      (by simp [Tree.children]) (by simp [applyAt, modKids])

/-- `mpt_node_unlink(x)` of a node that is a list of its own: nothing changes -/
theorem abs_unlink_lone {s : Store} {x : Nat} {n : Name} {v : Val} {cs : Forest} {rest : List Forest}
    (hR : Realises s ([.node x n v cs] :: rest)) : s.unlink x = .ok (s, none) :=
  unlink_lone hR

example : exStore.unlink 2 = .ok (exStore, none) := abs_unlink_lone exRealises

/-- `mpt_node_move(&from, to)`, `from` = `a` (the `ia`-th element of its sibling list `S`), `to` = `b` (the `d`-th
    element of `D`), the two in different top-level structures: the list from `a` on is merged into `D` as
    `Forest.merge` says — an element without namesake (searched from `b` on) moves to the end of `D` with everything
    below it, an element with namesake stays (emptied) and its children are merged into the namesake's children
    (handed over and re-parented when the namesake has none); the result is the number of moved nodes.
    `slot` is where the caller keeps `from`: the child link of the parent (possible only when there is one) or a
    variable; a source list that became empty disappears from the top-level lists. -/
theorem abs_move {s : Store} {a b ia d : Nat} {lsrc ldst S D : Forest} {rest : List Forest} {ps pd : Option Nat}
    {slot : Store.Slot}
    (hR : Realises s (lsrc :: ldst :: rest)) (hsa : SibsAt a lsrc S ia ps) (hsb : SibsAt b ldst D d pd)
    (hslot : ∀ p, slot = .kids p → ps = some p) :
    ∃ s', s.move s.fuel slot (some a) b = .ok (s', (merge (S.drop ia) D d).2.2) ∧
      Realises s' ((if (applyAt ps (fun _ => S.take ia ++ (merge (S.drop ia) D d).1) lsrc).isEmpty then []
          else [applyAt ps (fun _ => S.take ia ++ (merge (S.drop ia) D d).1) lsrc]) ++
        applyAt pd (fun _ => (merge (S.drop ia) D d).2.1) ldst :: rest) :=
  move_refines hR hsa hsb hslot

/-- moving the detached `2:a=v` onto `0:a(1:b)`: namesake, no children on the source side — nothing moves -/
example : ∃ s', exStore.move exStore.fuel .loc (some 2) 0 = .ok (s', 0) ∧ Realises s' exTops := by
  have h := abs_move (slot := .loc) (rest := []) exRealises (SibsAt.top (p := 2) (j := 0) (by rfl))
    (SibsAt.top (p := 0) (j := 0) (by rfl)) (by simp)
  have hm : merge ([Tree.node 2 (some "a") (some "v") []].drop 0) [.node 0 (some "a") none [.node 1 (some "b") none []]] 0 =
      ([.node 2 (some "a") (some "v") []], [.node 0 (some "a") none [.node 1 (some "b") none []]], 0) := by
    simp [merge, findName, namesakes, midx, Tree.name]
  simp only [hm] at h
  simpa [applyAt, exTops] using h

/-- moving the child `1:b` of `0:a` (list reference = the parent's child link) to the list of `2:a`: no namesake,
    the node moves, the parent's child link is cleared -/
example : ∃ s', exStore.move exStore.fuel (.kids 0) (some 1) 2 = .ok (s', 1) ∧
    Realises s' [[.node 0 (some "a") none []], [.node 2 (some "a") (some "v") [], .node 1 (some "b") none []]] := by
  have h := abs_move (slot := .kids 0) (rest := []) (exRealises.perm (List.Perm.swap _ _ _))
    (SibsAt.kids (p := 1) (q := 0) (tq := .node 0 (some "a") none [.node 1 (some "b") none []]) (j := 0) (by simp [find?]) (by rfl))
    (SibsAt.top (p := 2) (j := 0) (by rfl)) (by simp)
  have hm : merge ([Tree.node 1 (some "b") none []].drop 0) [.node 2 (some "a") (some "v") []] 0 =
      ([], [.node 2 (some "a") (some "v") [], .node 1 (some "b") none []], 1) := by
    simp [merge, findName, namesakes, midx, Tree.name]
  simp only [Tree.children, hm] at h
  simpa [applyAt, modKids] using h

/-- `mpt_node_clear(x)`: the children of `x` are gone, everything else keeps its place -/
theorem abs_clear {s : Store} {x : Nat} {l0 : Forest} {tx : Tree} {rest : List Forest} {fuel : Nat}
    (hR : Realises s (l0 :: rest)) (hfx : find? x l0 = some tx) (hf : cost tx.children + 1 ≤ fuel) :
    ∃ s', s.clear fuel x = .ok s' ∧ Realises s' (modKids x (fun _ => []) l0 :: rest) :=
  let ⟨s', h1, h2, _⟩ := clear_refines hR hfx hf
  ⟨s', h1, h2⟩

/-- `mpt_node_destroy(x)` of a detached root: the tree is gone -/
theorem abs_destroy {s : Store} {x : Nat} {n : Name} {v : Val} {cs : Forest} {rest : List Forest} {fuel : Nat}
    (hR : Realises s ([.node x n v cs] :: rest)) (hf : cost cs + 2 ≤ fuel) :
    ∃ s', s.destroy fuel x = .ok (s', true) ∧ Realises s' rest :=
  let ⟨s', h1, h2, _⟩ := destroy_refines hR hf
  ⟨s', h1, h2⟩

/-- `mpt_node_destroy` refuses a node that still has a parent, a predecessor or a successor -/
theorem destroy_linked_refused {s : Store} {x : Nat} {xn : Node} {fuel : Nat} (hx : s.Live x xn)
    (hl : xn.parent.isSome ∨ xn.next.isSome ∨ xn.prev.isSome) : s.destroy (fuel + 1) x = .ok (s, false) :=
  destroy_refused hx hl

example : exStore.destroy exStore.fuel 1 = .ok (exStore, false) :=
  destroy_linked_refused (xn := { parent := some 0, name := some "b" }) ⟨rfl, rfl⟩ (Or.inl rfl)

/-- `mpt_node_clone(x)`: a new detached root with the same name and value -/
theorem abs_node_clone {s : Store} {tops : List Forest} {x : Nat} {xn : Node}
    (hR : Realises s tops) (hx : s.Live x xn) :
    ∃ s', s.nodeClone x = .ok (s', s.nodes.length) ∧
      Realises s' (tops ++ [[.node s.nodes.length xn.name xn.value []]]) :=
  nodeClone_refines hR hx

/-- `mpt_tree_clone(x)`: the copy is a new detached root realising the relabelled source tree -/
theorem abs_tree_clone {s : Store} {x : Nat} {l0 : Forest} {rest : List Forest} {n : Name} {v : Val} {cs : Forest}
    (hR : Realises s (l0 :: rest)) (hfx : find? x l0 = some (.node x n v cs)) :
    ∃ s', s.treeClone x = .ok (s', s.nodes.length) ∧
      Realises s' ((l0 :: rest) ++ [(relabel [.node x n v cs] s.nodes.length).1]) :=
  treeClone_refines hR hfx

/-- `mpt_list_clone(x)`: the copy of the sibling list from `x` on is a new top-level list realising the
    relabelled source list -/
theorem abs_list_clone {s : Store} {x j : Nat} {l0 L : Forest} {rest : List Forest} {par : Option Nat}
    (hR : Realises s (l0 :: rest)) (hat : SibsAt x l0 L j par) :
    ∃ s', s.listClone s.fuel (some x) = .ok (s', some s.nodes.length) ∧
      Realises s' ((l0 :: rest) ++ [(relabel (L.drop j) s.nodes.length).1]) :=
  listClone_refines hR hat

example : ∃ s', exStore.treeClone 0 = .ok (s', 3) ∧
    Realises s' [[.node 0 (some "a") none [.node 1 (some "b") none []]], [.node 2 (some "a") (some "v") []],
      [.node 3 (some "a") none [.node 4 (some "b") none []]]] := by
  simpa [relabel, exStore] using
    abs_tree_clone (x := 0) (n := some "a") (v := none) (cs := [.node 1 (some "b") none []])
      (exRealises.perm (List.Perm.swap _ _ _)) (by simp [find?])

/-- the fuel both drivers pass to `clear`/`destroy` (`Store.fuel`) suffices on every well-formed store -/
theorem fuel_suffices {s : Store} {tops : List Forest} (h : Realises s tops) {l : Forest} (hl : l ∈ tops) :
    cost l + 2 ≤ s.fuel := by
  have := h.cost_le hl
  simp only [Store.fuel]
  omega

/-! ### wf_preserved -/

/-- Every operation of the property keeps the store well-formed (and succeeds), in every situation the C
    preconditions allow: `x` a detached root outside the structure of the target for after/before/add/insert
    (by position and by name), any node for unlink/clear/clone, a detached root for destroy (a linked node is
    refused and the store unchanged, `destroy_linked_refused`), two nodes of different structures for move. -/
theorem wf_preserved {s : Store} {tops : List Forest} (hR : Realises s tops) :
    -- after / before
    (∀ p x j n' v' cs' l0 L rest par, tops.Perm ([.node x n' v' cs'] :: l0 :: rest) → SibsAt p l0 L j par →
        (∃ s', s.gnodeAfter (some p) x = .ok s' ∧ WF s') ∧ (∃ s', s.gnodeBefore (some p) x = .ok s' ∧ WF s')) ∧
    -- add / insert by position and by name
    (∀ first x f n' v' cs' l0 L rest par (pos : Int) (byName : Bool), tops.Perm ([.node x n' v' cs'] :: l0 :: rest) →
        SibsAt first l0 L f par → ∃ s', s.add first pos x byName = .ok s' ∧ WF s') ∧
    (∀ parent x n' v' cs' l0 rest tp (pos : Int) (byName : Bool), tops.Perm ([.node x n' v' cs'] :: l0 :: rest) →
        find? parent l0 = some tp → ∃ s', s.insert parent pos x byName = .ok s' ∧ WF s') ∧
    -- unlink of any node
    (∀ x j l0 L rest par, tops.Perm (l0 :: rest) → SibsAt x l0 L j par → ∃ r, s.unlink x = .ok r ∧ WF r.1) ∧
    -- clear of any node
    (∀ x l0 tx rest, tops.Perm (l0 :: rest) → find? x l0 = some tx → ∃ s', s.clear s.fuel x = .ok s' ∧ WF s') ∧
    -- destroy of a detached root
    (∀ x n v cs rest, tops.Perm ([.node x n v cs] :: rest) → ∃ s', s.destroy s.fuel x = .ok (s', true) ∧ WF s') ∧
    -- clones
    (∀ x xn, s.Live x xn → ∃ r, s.nodeClone x = .ok r ∧ WF r.1) ∧
    (∀ x n v cs l0 rest, tops.Perm (l0 :: rest) → find? x l0 = some (.node x n v cs) → ∃ r, s.treeClone x = .ok r ∧ WF r.1) ∧
    (∀ x j l0 L rest par, tops.Perm (l0 :: rest) → SibsAt x l0 L j par → ∃ r, s.listClone s.fuel (some x) = .ok r ∧ WF r.1) ∧
    -- move / merge
    (∀ a b ia d lsrc ldst S D rest ps pd slot, tops.Perm (lsrc :: ldst :: rest) → SibsAt a lsrc S ia ps →
        SibsAt b ldst D d pd → (∀ p, slot = Store.Slot.kids p → ps = some p) →
        ∃ r, s.move s.fuel slot (some a) b = .ok r ∧ WF r.1) := by
  refine ⟨?_, ?_, ?_, ?_, ?_, ?_, ?_, ?_, ?_, ?_⟩
  · intro p x j n' v' cs' l0 L rest par hp hat
    have hR' := hR.perm hp.symm
    obtain ⟨s1, h1, r1⟩ := after_refines hR' hat
    obtain ⟨s2, h2, r2⟩ := before_refines hR' hat
    exact ⟨⟨s1, h1, _, r1⟩, ⟨s2, h2, _, r2⟩⟩
  · intro first x f n' v' cs' l0 L rest par pos byName hp hat
    cases byName with
    | false =>
      obtain ⟨s1, h1, r1⟩ := add_refines pos (hR.perm hp.symm) hat
      exact ⟨s1, h1, _, r1⟩
    | true =>
      obtain ⟨s1, h1, r1⟩ := add_name_refines pos (hR.perm hp.symm) hat
      exact ⟨s1, h1, _, r1⟩
  · intro parent x n' v' cs' l0 rest tp pos byName hp hf
    by_cases hc : tp.children = []
    · obtain ⟨s1, h1, r1⟩ := insert_empty_refines pos byName (hR.perm hp.symm) hf hc
      exact ⟨s1, h1, _, r1⟩
    · cases byName with
      | false =>
        obtain ⟨s1, h1, r1⟩ := insert_refines pos (hR.perm hp.symm) hf hc
        exact ⟨s1, h1, _, r1⟩
      | true =>
        obtain ⟨s1, h1, r1⟩ := insert_name_refines pos (hR.perm hp.symm) hf hc
        exact ⟨s1, h1, _, r1⟩
  · intro x j l0 L rest par hp hat
    have hR' := hR.perm hp.symm
    obtain ⟨t, ht, htid⟩ := getElem?_of_idx? hat.idx
    by_cases hne : applyAt par (fun L => L.eraseIdx j) l0 = []
    · -- `x` is a list of its own
      have hl0 := (hR'.real l0 (by simp)).1
      cases hat with
      | @kids q tq _ hf hi =>
        exfalso
        have hh := headId_modKids (q := q) (g := fun L => L.eraseIdx j) l0
        simp only [applyAt] at hne
        rw [hne] at hh
        cases l0 with
        | nil => exact hl0 rfl
        | cons t0 ts => cases t0; simp [headId] at hh
      | top hi =>
        simp only [applyAt] at hne
        have hlen : l0.length = 1 := by
          have h1 := (List.getElem?_eq_some_iff.1 ht).1
          have h2 : (l0.eraseIdx j).length = 0 := by rw [hne]; rfl
          rw [List.length_eraseIdx] at h2
          split at h2 <;> omega
        have hj : j = 0 := by have := (List.getElem?_eq_some_iff.1 ht).1; omega
        subst hj
        obtain ⟨t0, hl⟩ : ∃ t0, l0 = [t0] := List.length_eq_one_iff.1 hlen
        subst hl
        simp at ht; subst ht
        cases t0 with
        | node i n v cs =>
          simp only [Tree.id] at htid; subst htid
          exact ⟨_, unlink_lone hR', _, hR'⟩
    · obtain ⟨s1, h1, r1⟩ := unlink_refines hR' hat ht hne
      exact ⟨_, h1, _, r1⟩
  · intro x l0 tx rest hp hfx
    have hR' := hR.perm hp.symm
    have hfu := fuel_suffices hR' (l := l0) (by simp)
    have hsub : cost tx.children ≤ cost l0 := by
      rw [cost_eq, cost_eq]
      have hnd : (ids l0).Nodup := by
        have := hR'.nodup
        simp only [List.flatMap_cons] at this
        exact (List.nodup_append.1 this).1
      obtain ⟨A, B, h1, _⟩ := ids_modKids_split hnd hfx
      rw [h1]
      simp only [List.length_append]
      omega
    obtain ⟨s1, h1, r1, _⟩ := clear_refines (fuel := s.fuel) hR' hfx (by omega)
    exact ⟨s1, h1, _, r1⟩
  · intro x n v cs rest hp
    have hR' := hR.perm hp.symm
    have hfu := fuel_suffices hR' (l := [.node x n v cs]) (by simp)
    obtain ⟨s1, h1, r1, _⟩ := destroy_refines (fuel := s.fuel) hR' (by simp only [cost] at hfu; omega)
    exact ⟨s1, h1, _, r1⟩
  · intro x xn hx
    obtain ⟨s1, h1, r1⟩ := nodeClone_refines hR hx
    exact ⟨_, h1, _, r1⟩
  · intro x n v cs l0 rest hp hfx
    obtain ⟨s1, h1, r1⟩ := treeClone_refines (hR.perm hp.symm) hfx
    exact ⟨_, h1, _, r1⟩
  · intro x j l0 L rest par hp hat
    obtain ⟨s1, h1, r1⟩ := listClone_refines (hR.perm hp.symm) hat
    exact ⟨_, h1, _, r1⟩
  · intro a b ia d lsrc ldst S D rest ps pd slot hp hsa hsb hslot
    obtain ⟨s1, h1, r1⟩ := move_refines (hR.perm hp.symm) hsa hsb hslot
    exact ⟨_, h1, _, r1⟩

example : ∃ s', exStore.destroy exStore.fuel 2 = .ok (s', true) ∧ WF s' :=
  (wf_preserved exRealises).2.2.2.2.2.1 2 _ _ _ _ (List.Perm.refl _)

/-! ### abs_ops (summary statement) -/

/-- `abs_ops` through the specification state `Forest.St`, whose operations first search their operands in `tops`
    (`sibsOf?`, `detached?`, `topOf?`, `find?`) and then change the lists: whenever the specification accepts
    add / insert (by position or by name), tree clone, list clone or move, the C function's model succeeds on every
    store that realises `sp.tops` and the new store realises the new `tops` (move: with the same count). -/
theorem abs_ops (s : Store) (sp : Forest.St) (hR : Realises s sp.tops) (hn : sp.next = s.nodes.length) :
    (∀ p pos x byName sp', sp.add p pos x byName = some sp' → ∃ s', s.add p pos x byName = .ok s' ∧ Realises s' sp'.tops) ∧
    (∀ p pos x byName sp', sp.insert p pos x byName = some sp' → ∃ s', s.insert p pos x byName = .ok s' ∧ Realises s' sp'.tops) ∧
    (∀ x sp', sp.clone x 1 = some sp' → ∃ r, s.treeClone x = .ok r ∧ Realises r.1 sp'.tops) ∧
    (∀ x sp', sp.clone x 2 = some sp' → ∃ r, s.listClone s.fuel (some x) = .ok r ∧ Realises r.1 sp'.tops) ∧
    (∀ a b sp' m, sp.move a b = some (sp', m) →
      ∃ slot r, s.move s.fuel slot (some a) b = .ok r ∧ r.2 = m ∧ Realises r.1 sp'.tops) :=
  ⟨fun _ _ _ _ _ h => st_add_refines hR h, fun _ _ _ _ _ h => st_insert_refines hR h,
   fun _ _ h => (st_clone_refines hR hn).1 h, fun _ _ h => (st_clone_refines hR hn).2 h,
   fun _ _ _ _ h => st_move_refines hR h⟩

/-- the spec state of the example store; `add 0 0 2 byname` puts `2:a=v` behind its namesake `0:a` -/
example : ∃ s', exStore.add 0 0 2 true = .ok s' ∧
    ∀ sp', ({ tops := exTops, next := 3 } : Forest.St).add 0 0 2 true = some sp' → Realises s' sp'.tops := by
  obtain ⟨s0, h0, _⟩ := abs_add_by_name (rest := []) (first := 0) (f := 0) (par := none)
    (L := [.node 0 (some "a") none [.node 1 (some "b") none []]]) 0 exRealises (SibsAt.top (by rfl))
  refine ⟨s0, h0, fun sp' h => ?_⟩
  obtain ⟨s1, h1, r1⟩ := (abs_ops exStore { tops := exTops, next := 3 } exRealises rfl).1 0 0 2 true sp' h
  rw [h0] at h1
  cases h1
  exact r1

/-- `abs_ops` for operands given in located form (`SibsAt`/`find?` in a list of `tops`): insert/add by position and
    by name, tree/list clone and move act on the abstraction as the forest operations (`insertIdx` at
    `addIdx`/`nameIdx`, `relabel`, `merge`) say; `abs_ops` connects it to the operand search of `Forest.St`. -/
theorem abs_ops_located {s : Store} {tops : List Forest} (hR : Realises s tops) :
    -- add by position / by name
    (∀ first x f n' v' cs' l0 L rest par (pos : Int), tops.Perm ([.node x n' v' cs'] :: l0 :: rest) → SibsAt first l0 L f par →
      (∃ s', s.add first pos x false = .ok s' ∧
        Realises s' (applyAt par (fun L' => L'.insertIdx (addIdx L.length f pos) (.node x n' v' cs')) l0 :: rest)) ∧
      (∃ s', s.add first pos x true = .ok s' ∧
        Realises s' (match nameIdx L f n' pos with
          | some k => applyAt par (fun L' => L'.insertIdx k (.node x n' v' cs')) l0 :: rest
          | none => [.node x n' v' cs'] :: l0 :: rest))) ∧
    -- insert by position / by name
    (∀ parent x n' v' cs' l0 rest tp (pos : Int), tops.Perm ([.node x n' v' cs'] :: l0 :: rest) → find? parent l0 = some tp →
      tp.children ≠ [] →
      (∃ s', s.insert parent pos x false = .ok s' ∧
        Realises s' (modKids parent (fun L' => L'.insertIdx (addIdx tp.children.length 0 pos) (.node x n' v' cs')) l0 :: rest)) ∧
      (∃ s', s.insert parent pos x true = .ok s' ∧
        Realises s' (match nameIdx tp.children 0 n' pos with
          | some k => modKids parent (fun L' => L'.insertIdx k (.node x n' v' cs')) l0 :: rest
          | none => [.node x n' v' cs'] :: l0 :: rest))) ∧
    (∀ parent x n' v' cs' l0 rest tp (pos : Int) (byName : Bool), tops.Perm ([.node x n' v' cs'] :: l0 :: rest) →
      find? parent l0 = some tp → tp.children = [] →
      ∃ s', s.insert parent pos x byName = .ok s' ∧ Realises s' (modKids parent (fun _ => [.node x n' v' cs']) l0 :: rest)) ∧
    -- tree / list clone
    (∀ x n v cs l0 rest, tops.Perm (l0 :: rest) → find? x l0 = some (.node x n v cs) →
      ∃ s', s.treeClone x = .ok (s', s.nodes.length) ∧
        Realises s' ((l0 :: rest) ++ [(relabel [.node x n v cs] s.nodes.length).1])) ∧
    (∀ x j l0 L rest par, tops.Perm (l0 :: rest) → SibsAt x l0 L j par →
      ∃ s', s.listClone s.fuel (some x) = .ok (s', some s.nodes.length) ∧
        Realises s' ((l0 :: rest) ++ [(relabel (L.drop j) s.nodes.length).1])) ∧
    -- move
    (∀ a b ia d lsrc ldst S D rest ps pd slot, tops.Perm (lsrc :: ldst :: rest) → SibsAt a lsrc S ia ps →
      SibsAt b ldst D d pd → (∀ p, slot = Store.Slot.kids p → ps = some p) →
      ∃ s', s.move s.fuel slot (some a) b = .ok (s', (merge (S.drop ia) D d).2.2) ∧
        Realises s' ((if (applyAt ps (fun _ => S.take ia ++ (merge (S.drop ia) D d).1) lsrc).isEmpty then []
            else [applyAt ps (fun _ => S.take ia ++ (merge (S.drop ia) D d).1) lsrc]) ++
          applyAt pd (fun _ => (merge (S.drop ia) D d).2.1) ldst :: rest)) := by
  refine ⟨?_, ?_, ?_, ?_, ?_, ?_⟩
  · intro first x f n' v' cs' l0 L rest par pos hp hat
    exact ⟨add_refines pos (hR.perm hp.symm) hat, add_name_refines pos (hR.perm hp.symm) hat⟩
  · intro parent x n' v' cs' l0 rest tp pos hp hf hc
    exact ⟨insert_refines pos (hR.perm hp.symm) hf hc, insert_name_refines pos (hR.perm hp.symm) hf hc⟩
  · intro parent x n' v' cs' l0 rest tp pos byName hp hf hc
    exact insert_empty_refines pos byName (hR.perm hp.symm) hf hc
  · intro x n v cs l0 rest hp hfx
    exact treeClone_refines (hR.perm hp.symm) hfx
  · intro x j l0 L rest par hp hat
    exact listClone_refines (hR.perm hp.symm) hat
  · intro a b ia d lsrc ldst S D rest ps pd slot hp hsa hsb hslot
    exact move_refines (hR.perm hp.symm) hsa hsb hslot

example : ∃ s', exStore.move exStore.fuel .loc (some 2) 0 = .ok (s', 0) ∧ WF s' := by
  obtain ⟨s', h, r⟩ := (abs_ops_located exRealises).2.2.2.2.2 2 0 0 0 _ _ _ _ [] none none .loc (List.Perm.refl _)
    (SibsAt.top (p := 2) (j := 0) (by rfl)) (SibsAt.top (p := 0) (j := 0) (by rfl)) (by simp)
  have hm : (merge ([Tree.node 2 (some "a") (some "v") []].drop 0) [.node 0 (some "a") none [.node 1 (some "b") none []]] 0).2.2 = 0 := by
    simp [merge, findName, namesakes, midx, Tree.name]
  exact ⟨s', by rw [h, hm], _, r⟩

/-! ### histories -/

/-- creating a node (`mpt_node_new` + name + value): a new detached root, everything else as before -/
theorem created_wf {s : Store} {tops : List Forest} (hR : Realises s tops) (n : Name) (v : Val) :
    Realises (s.alloc n v).1 (tops ++ [[.node s.nodes.length n v []]]) :=
  alloc_refines hR n v

example : WF (({} : Store).alloc (some "a") none).1 := ⟨_, created_wf realises_empty (some "a") none⟩

/-- one operation of a history (`runOp`: new, after, before, add, insert, unlink, move, clone, clear, destroy; the call is
    skipped when the specification says its precondition does not hold, the model executes the C function otherwise):
    the model does not fail and the new store realises the new specification state -/
theorem step_wf {s : NSt} (hR : Realises s.m s.sp.tops) (op : NOp) :
    ∃ s', runOp s op = .ok s' ∧ Realises s'.m s'.sp.tops :=
  runOp_inv hR op

/-- For ANY history of these operations from the empty store: no call of the model fails, and after every history the
    store realises the specification state — hence it is well-formed (all link invariants of `wf_links` hold) and its
    `free` log lists exactly the released records, each once (`released_log`).  `runOp` is what the model driver
    executes for these operations; it takes the next handle from the store's record count. -/
theorem history_wf (ops : List NOp) :
    ∃ s, runOps {} ops = .ok s ∧ Realises s.m s.sp.tops ∧ WF s.m :=
  let ⟨s, h1, h2⟩ := runOps_inv ops (s := {}) realises_empty
  ⟨s, h1, h2, _, h2⟩

example : ∃ s, runOps {} [.new (some "a") none, .new (some "b") none, .insert 0 0 1 false, .clone 0 1, .move 2 0,
    .destroy 2, .unlink 1] = .ok s ∧ WF s.m :=
  let ⟨s, h1, _, h3⟩ := history_wf _
  ⟨s, h1, h3⟩

/-! ### released_once -/

/-- On a well-formed store the `free` log has no duplicates and lists exactly the dead records:
    nothing is released twice, and nothing dead is missing from the log. -/
theorem released_log {s : Store} (h : WF s) :
    s.freed.Nodup ∧ ∀ i, i ∈ s.freed ↔ ∃ n, s.nodes[i]? = some n ∧ n.alive = false := by
  obtain ⟨tops, hR⟩ := h
  exact ⟨hR.freedNodup, hR.freedIff⟩

/-- `destroy` of a detached root and `clear` of any node release every node of the tree (resp. below the node)
    exactly once: the log grows by a duplicate-free enumeration (post-order) of exactly those handles, the
    call does not fault (a second `free` of a record is a fault in the model), and the result is well-formed. -/
theorem released_once {s : Store} :
    (∀ x n v cs rest fuel, Realises s ([.node x n v cs] :: rest) → cost cs + 2 ≤ fuel →
      ∃ s', s.destroy fuel x = .ok (s', true) ∧ Realises s' rest ∧
        s'.freed = s.freed ++ post [.node x n v cs] ∧ (post [.node x n v cs]).Perm (ids [.node x n v cs]) ∧
        (post [.node x n v cs]).Nodup) ∧
    (∀ x l0 tx rest fuel, Realises s (l0 :: rest) → find? x l0 = some tx → cost tx.children + 1 ≤ fuel →
      ∃ s', s.clear fuel x = .ok s' ∧ Realises s' (modKids x (fun _ => []) l0 :: rest) ∧
        s'.freed = s.freed ++ post tx.children ∧ (post tx.children).Perm (ids tx.children) ∧
        (post tx.children).Nodup) := by
  refine ⟨?_, ?_⟩
  · intro x n v cs rest fuel hR hf
    obtain ⟨s', h1, h2, h3⟩ := destroy_refines hR hf
    refine ⟨s', h1, h2, h3, post_perm _, ?_⟩
    have hnd := hR.nodup
    simp only [List.flatMap_cons] at hnd
    exact (post_perm _).nodup_iff.2 (List.nodup_append.1 hnd).1
  · intro x l0 tx rest fuel hR hfx hf
    obtain ⟨s', h1, h2, h3⟩ := clear_refines hR hfx hf
    refine ⟨s', h1, h2, h3, post_perm _, ?_⟩
    have hnd := hR.nodup
    simp only [List.flatMap_cons] at hnd
    exact (post_perm _).nodup_iff.2 (find?_children_nodup (List.nodup_append.1 hnd).1 hfx)

example : ∃ s', exStore.clear exStore.fuel 0 = .ok s' ∧
    Realises s' (modKids 0 (fun _ => []) [.node 0 (some "a") none [.node 1 (some "b") none []]] :: [[.node 2 (some "a") (some "v") []]]) ∧
    s'.freed = [] ++ post [.node 1 (some "b") none []] ∧
    (post [.node 1 (some "b") none []]).Perm (ids [.node 1 (some "b") none []]) ∧ (post [.node 1 (some "b") none []]).Nodup :=
  released_once.2 0 _ (.node 0 (some "a") none [.node 1 (some "b") none []]) _ exStore.fuel
    (exRealises.perm (List.Perm.swap _ _ _)) (by simp [find?]) (by simp [cost, Tree.children, Store.fuel, exStore])

/-! ### clone_equal -/

/-- A relabelled copy (what `clone tree`/`clone list` produce in S) has the same shape, names and values as its
    source at every depth, and fresh consecutive handles. -/
theorem clone_equal (l : Forest) (k : Nat) :
    shape (relabel l k).1 = shape l ∧ ids (relabel l k).1 = List.range' k (ids l).length :=
  ⟨shape_relabel l k, (ids_relabel l k).1⟩

example : shape (relabel [.node 0 (some "a") none [.node 1 (some "b") none []]] 7).1 =
    shape [.node 0 (some "a") none [.node 1 (some "b") none []]] := (clone_equal _ 7).1

/-- `clone_equal` on the pointer store: `mpt_tree_clone` and `mpt_list_clone` succeed on a well-formed store, the
    new store is well-formed again with the copy as an additional top-level list, and the copy has the same shape,
    names and values as its source at every depth (handles: the fresh consecutive record numbers). -/
theorem clone_equal_store {s : Store} {l0 : Forest} {rest : List Forest} (hR : Realises s (l0 :: rest)) :
    (∀ x n v cs, find? x l0 = some (.node x n v cs) →
      ∃ s' copy, s.treeClone x = .ok (s', s.nodes.length) ∧ Realises s' ((l0 :: rest) ++ [copy]) ∧
        shape copy = shape [.node x n v cs]) ∧
    (∀ x j L par, SibsAt x l0 L j par →
      ∃ s' copy, s.listClone s.fuel (some x) = .ok (s', some s.nodes.length) ∧ Realises s' ((l0 :: rest) ++ [copy]) ∧
        shape copy = shape (L.drop j)) := by
  refine ⟨?_, ?_⟩
  · intro x n v cs hfx
    obtain ⟨s', h1, h2⟩ := treeClone_refines hR hfx
    exact ⟨s', _, h1, h2, shape_relabel _ _⟩
  · intro x j L par hat
    obtain ⟨s', h1, h2⟩ := listClone_refines hR hat
    exact ⟨s', _, h1, h2, shape_relabel _ _⟩

end Mpt.C14
