import MptModel.Impl.Nodes
import MptModel.Spec.Forest
namespace Mpt.C14
theorem placeholder : True := trivial
end Mpt.C14
