/-
  C20 — Layout object properties round-trip and do not interfere.   PROPERTY THEOREMS ONLY.

  M = `Mpt.Layout` (MptModel/Impl/Layout.lean): interpreter of the tables that translate/layout_extract.py
  regenerates from mptplot/layout/*_property.c, layout.h, color_parse.c, lattr_set.c into
  MptModel/Generated/LayoutTables.lean on every run (`Gen.kinds`, `Gen.colors`).
  S = `Mpt.Record` (MptModel/Spec/Record.lean): a record of the listed properties; `Record.denote` says which
  values a text denotes for a property type.

  Theorems quantified over `Gen.kinds` use the Boolean table check `tablesOk`, which is DECIDED on the
  generated tables (`tables_ok`, by kernel evaluation): an edit of a table, of a setter chain or of a
  default that breaks one of the side conditions makes that proof — and every theorem that names `kinds` — fail.
  `tablesOk` includes `docOk`: the generated tables agree with the HAND-WRITTEN documentation `Record.docs` (which
  names set which listed property, with what kind of value).  Theorems that hold for any table (`prefix_match*`,
  `colour_roundtrip`, `frame`, `refuse_pure`, `reset_default`) do not depend on it.

  By name (5 kinds, 45 handlers, 10 handler shapes): `doc_linked`, `get_listed`, `get_alias`, `set_get_named`,
  `frame_named`, `reset_named`, `set_get_record` (whole record, M ⊑ S for non-blank text).  Per handler/row: `set_get_partial` (38 of the 45 handlers), `set_get_clip`,
  `set_get_point`, `set_get_intervals`, `set_get_coord`, `handlers_covered`, `null_resets`.  Stated only:
  `set_get_statement` (the whole-record equation also for blank/NULL text, NULL source and the coordinate names; typed
  sources have no theorem).

  NOT in any theorem (S and M share the functions): what number a numeral text is (`convScalar`), what colour a colour
  text is (`colorParse`), what point a point text is (`fpointText`); `Record.denote` calls the model's converters, so
  "reads back the value the text denotes" means: the value the shared converter assigns.  The conversions are the
  subject of the conversion properties; here only examples pin them (`"0x1f"` is 31, ...).
-/
import MptModel.Lemmas.Layout

namespace Mpt.C20
open Mpt Mpt.Layout Mpt.Layout.Gen Mpt.Record

/-! ### the table check -/

/-- rows of the getter table whose shown value depends on a member handler `a` may write -/
def affected (k : Kind) (a : Act) : List Nat :=
  (List.range k.gets.length).filter fun i => (k.reads i).any fun f => a.touched.contains f

/-- the handler stores one member and its row shows that member as it is -/
def isPlain (k : Kind) (a : Act) : Bool :=
  match a.plainField with
  | some f => (affected k a).all (k.plainRow · f)
  | none => false

def entryOk (k : Kind) (e : SetEntry) : Bool :=
  (affected k e.act).length == 1 &&          -- every handler belongs to exactly one listed property
  e.act.nullOK k &&                          -- its "no source" branch stores the documented default
  e.act.touched.all (· < k.fields.length)    -- it names members of the struct

/-- a text-alias table the getter PRINTS from must be the inverse of what the setter PARSES: entry `v` is the
    axis letters of mask `v` (`Record.clipText`, defined from the letters, not from the table), the parser's
    letter loop maps it back to `v`, and the clip handler's row shows its own member through that table -/
def clipOk (k : Kind) : Bool :=
  match k.clipAlias with
  | none => k.sets.all fun e => match e.act with | .clip _ => false | _ => true
  | some (_, names) =>
    names == (List.range 8).map clipText &&
    (List.range names.length).all (fun v => clipLetters (names.getD v []) 0 == v) &&
    k.sets.all fun e => match e.act with
      | .clip f => (affected k e.act).all (k.clipRow · f)
      | _ => true

/-- the handlers that are neither plain nor the clip handler belong to rows of the matching shape: a point
    handler to the row showing its two members, a coordinate handler (`conv 'f'` into a point member) to the
    point row that contains the member, the intervals handler to the row with the `log` alias of its flag -/
def restOk (k : Kind) (e : SetEntry) : Bool :=
  match e.act with
  | .fpoint f _ _ _ => (affected k e.act).all (k.pointRow · f)
  | .intervals f g bit _ => (affected k e.act).all (k.logRow · f g bit) && bit != 0
  | .conv ty f =>
    isPlain k e.act ||
      (ty == 'f' && (affected k e.act).all fun i =>
        match k.gets[i]? with
        | some r => (r.field == f || r.field + 1 == f) && k.pointRow i r.field && r.field + 1 < k.fields.length
        | none => false)
  | .clip _ => true
  | a => isPlain k a

def baseOk (k : Kind) : Bool :=
  k.sets.all (entryOk k) && k.copyOwnType && k.selfGuard && k.strsDuplicated && clipOk k && k.sets.all (restOk k)

/-- one documented way to set a property (`Record.docs`, written by hand): the listed name is a row of the getter
    and reading by it finds that row; every documented name selects — in the generated setter chain — a handler
    that writes the members of THAT row and of no other, with the documented meaning of a value; reading by such
    a name finds the same row, the coordinate the handler writes, or is refused — never another property -/
def docPropOk (k : Kind) (p : DocProp) : Bool :=
  match k.gets.findIdx? (·.name == p.listed) with
  | none => false
  | some i =>
    k.lookup p.listed == .row i &&
    p.names.all fun n =>
      match findSet k.sets n with
      | none => false
      | some e =>
        affected k e.act == [i] && k.ptyOf e.act i == p.ty &&
        (match k.lookup n with
         | .row j => j == i
         | .single g => g.name == n && e.act.touched == [g.field] && g.ty != -2
         | .refused => true)

/-- the generated tables against the documentation: same abbreviation length, every documented property checks,
    every row of the getter and every name of the setter chain is documented, no two rows share a name -/
def docOk (k : Kind) : Bool :=
  match docOf k.name with
  | none => false
  | some d =>
    d.abbr == k.matchLen && d.props.all (docPropOk k) &&
    k.gets.all (fun g => d.props.any (·.listed == g.name)) &&
    k.sets.all (fun e => e.names.all fun n => d.props.any (·.names.contains n.1)) &&
    decide (k.gets.map (·.name)).Nodup

/-- reading by a listed name finds the row of that name -/
def lookupOk (k : Kind) : Bool :=
  (List.range k.gets.length).all fun i =>
    match k.gets[i]? with
    | some g => k.lookup g.name == .row i
    | none => false

def kindOk (k : Kind) : Bool := baseOk k && docOk k && lookupOk k

def tablesOk : Bool := kinds.all kindOk

set_option maxRecDepth 100000 in
/-- the generated tables satisfy the side conditions (kernel evaluation over the finite tables) -/
theorem tables_ok : tablesOk = true := by decide +kernel

/-- the helper functions that are modelled by hand (`setPosition` of axis and line, `lattr_pset`) still have
    the source text the model was written from -/
theorem helpers_current : staleHelpers = [] := by decide

theorem kind_ok (k : Kind) (hk : k ∈ kinds) : kindOk k = true := by
  have := tables_ok
  unfold tablesOk at this
  exact List.all_eq_true.mp this k hk

theorem base_ok (k : Kind) (hk : k ∈ kinds) : baseOk k = true := by
  have := kind_ok k hk
  unfold kindOk at this
  simp only [Bool.and_eq_true] at this
  exact this.1.1

theorem entry_ok (k : Kind) (hk : k ∈ kinds) (e : SetEntry) (he : e ∈ k.sets) : entryOk k e = true := by
  have := base_ok k hk
  unfold baseOk at this
  simp only [Bool.and_eq_true] at this
  exact List.all_eq_true.mp this.1.1.1.1.1 e he

/-- members present -/
abbrev WF (k : Kind) (o : Obj) : Prop := o.vals.length = k.fields.length

/-! ### prefix_match — `mpt_property_match` for ALL name tables -/

/-- **matching on a fixed number of characters** (`mlen ≥ 0`; the getters pass the constants 3 and 2, NOT the length
    of the requested name — this is not "unique prefix" matching: `in` does not find `intervals`, `intxyz` does), as
    one equation for every name list: the first name that agrees with the requested name on `n` characters (case
    ignored; a shorter name must end there too) decides.  It is the answer unless a later name agrees as well and
    `n` does not exceed its length — then the request is ambiguous (BadType).  No such name: missing (BadValue).
    A closed form of the loop of property_match.c; what it means for the listed names is `get_listed`/`get_alias`. -/
theorem prefix_match (m : Str) (n : Nat) (names : List Str) :
    propertyMatch m (some n) names 0 =
      match names.findIdx? (fun c => eqNoCaseN m c n) with
      | none => .missing
      | some i =>
        if n ≤ (names.getD i []).length ∧ (names.drop (i + 1)).any (fun c => eqNoCaseN m c n) then .ambiguous
        else .found i := by
  have := propertyMatch_some m n names 0
  simp only [Nat.zero_add] at this
  exact this

/-- **full matching** (`mlen < 0`): the first name equal up to case, never ambiguous -/
theorem full_match (m : Str) (names : List Str) :
    propertyMatch m none names 0 =
      match names.findIdx? (fun c => eqNoCase m c) with
      | none => .missing
      | some i => .found i := by
  have := propertyMatch_none m names 0
  simp only [Nat.zero_add] at this
  exact this

/-- a name that no table entry agrees with is refused -/
theorem prefix_match_missing (m : Str) (mlen : Option Nat) (names : List Str)
    (h : ∀ c ∈ names, (match mlen with | some n => eqNoCaseN m c n | none => eqNoCase m c) = false) :
    propertyMatch m mlen names 0 = .missing := by
  cases mlen with
  | none =>
    rw [full_match]
    have : names.findIdx? (fun c => eqNoCase m c) = none := by
      rw [List.findIdx?_eq_none_iff]; intro c hc; simpa using h c hc
    rw [this]
  | some n =>
    rw [prefix_match]
    have : names.findIdx? (fun c => eqNoCaseN m c n) = none := by
      rw [List.findIdx?_eq_none_iff]; intro c hc; simpa using h c hc
    rw [this]

/-- a result is always an index whose name agrees with the request (exactness of `found`) -/
theorem prefix_match_sound (m : Str) (mlen : Option Nat) (names : List Str) (i : Nat)
    (h : propertyMatch m mlen names 0 = .found i) :
    ∃ c, names[i]? = some c ∧ (match mlen with | some n => eqNoCaseN m c n | none => eqNoCase m c) = true := by
  cases mlen with
  | none =>
    rw [full_match] at h
    cases hf : names.findIdx? (fun c => eqNoCase m c) with
    | none => rw [hf] at h; cases h
    | some j =>
      rw [hf] at h
      simp only [Match.found.injEq] at h
      subst h
      obtain ⟨hlt, hp, _⟩ := List.findIdx?_eq_some_iff_getElem.mp hf
      exact ⟨names[j], by simp [hlt], hp⟩
  | some n =>
    rw [prefix_match] at h
    cases hf : names.findIdx? (fun c => eqNoCaseN m c n) with
    | none => rw [hf] at h; cases h
    | some j =>
      rw [hf] at h
      simp only [] at h
      split at h
      · cases h
      · simp only [Match.found.injEq] at h
        subst h
        obtain ⟨hlt, hp, _⟩ := List.findIdx?_eq_some_iff_getElem.mp hf
        exact ⟨names[j], by simp [hlt], hp⟩

/-- two table entries that agree with the request on `n` characters, the first of them at least `n` long:
    the request is ambiguous and refused -/
theorem prefix_match_ambiguous (m : Str) (n : Nat) (names : List Str) (i j : Nat) (ci cj : Str)
    (hi : names[i]? = some ci) (hj : names[j]? = some cj) (hij : i < j)
    (hfirst : ∀ l c, l < i → names[l]? = some c → eqNoCaseN m c n = false)
    (hmi : eqNoCaseN m ci n = true) (hmj : eqNoCaseN m cj n = true) (hlen : n ≤ ci.length) :
    propertyMatch m (some n) names 0 = .ambiguous := by
  rw [prefix_match]
  have hlt : i < names.length := by
    rcases Nat.lt_or_ge i names.length with h | h
    · exact h
    · rw [List.getElem?_eq_none h] at hi; cases hi
  have hci : names[i] = ci := by
    have := List.getElem?_eq_getElem hlt; rw [this] at hi; exact Option.some.inj hi
  have hf : names.findIdx? (fun c => eqNoCaseN m c n) = some i := by
    rw [List.findIdx?_eq_some_iff_getElem]
    refine ⟨hlt, by rw [hci]; exact hmi, ?_⟩
    intro l hl
    have := hfirst l names[l] hl (List.getElem?_eq_getElem (by omega))
    simp [this]
  rw [hf]
  simp only []
  have h1 : (names.getD i []).length = ci.length := by
    simp [List.getD_eq_getElem?_getD, hi]
  have h2 : (names.drop (i + 1)).any (fun c => eqNoCaseN m c n) = true := by
    rw [List.any_eq_true]
    refine ⟨cj, ?_, hmj⟩
    rw [List.mem_iff_getElem?]
    refine ⟨j - (i + 1), ?_⟩
    rw [List.getElem?_drop]
    have : i + 1 + (j - (i + 1)) = j := by omega
    rw [this]; exact hj
  rw [if_pos ⟨by rw [h1]; exact hlen, h2⟩]

-- the axis table: `int` names `intervals` (row 5), `tit` names `title`, a two-letter request names nothing
example : propertyMatch [105, 110, 116] axis.matchLen (axis.gets.map (·.name)) 0 = .found 5 := by decide
example : propertyMatch [116, 105] axis.matchLen (axis.gets.map (·.name)) 0 = .missing := by decide
-- an ambiguous request on a two-entry table
example : propertyMatch [97, 98] (some 2) [[97, 98, 99], [97, 98, 100]] 0 = .ambiguous := by decide

/-! ### colour_roundtrip -/

/-- **colour text round-trip**: the printed form of any colour (`#rrggbb`, `#rrggbbaa` when not opaque, as
    mpt++/color.cpp prints it) is accepted by `mpt_color_parse` and denotes the same colour, for every
    name table -/
theorem colour_roundtrip (tab : List NamedColor) (c : Color)
    (hr : c.r < 256) (hg : c.g < 256) (hb : c.b < 256) (ha : c.a < 256) :
    (colorParse tab (colorPrint c)).map (·.1) = some c := by
  rw [colorParse_print tab c hr hg hb ha]; rfl

example : colorPrint ⟨16, 32, 48, 64⟩ = [35, 49, 48, 50, 48, 51, 48, 52, 48] := by decide
example : colorParse colors [35, 49, 48, 50, 48, 51, 48, 52, 48] = some (⟨16, 32, 48, 64⟩, 9) := by decide

/-! ### frame — no other property changes -/

/-- **non-interference**: a set (any name, any source, accepted or not) leaves every listed property
    unchanged whose row does not read a member the selected handler may write.  With `one_property` below
    these are all rows but exactly one. -/
theorem frame (k : Kind) (tab : List NamedColor) (o : Obj) (name : Str) (src : Src) (tok : Nat) (i : Nat)
    (h : ∀ e, findSet k.sets name = some e → i ∉ affected k e.act) (hlt : i < k.gets.length) :
    k.getAt (k.setProp tab o name src tok).obj i = k.getAt o i := by
  unfold Kind.setProp
  cases he : findSet k.sets name with
  | none => rfl
  | some e =>
    simp only []
    apply Kind.getAt_congr
    intro f hf
    apply Act.run_untouched
    intro ht
    apply h e he
    unfold affected
    simp only [List.mem_filter, List.mem_range, List.any_eq_true, List.contains_iff_mem]
    exact ⟨hlt, f, hf, ht⟩

/-- in the generated tables every handler of every setter chain affects exactly one listed property -/
theorem one_property (k : Kind) (hk : k ∈ kinds) (e : SetEntry) (he : e ∈ k.sets) :
    ∃ c, affected k e.act = [c] := by
  have := entry_ok k hk e he
  unfold entryOk at this
  simp only [Bool.and_eq_true, beq_iff_eq] at this
  obtain ⟨⟨h1, _⟩, _⟩ := this
  match hl : affected k e.act, h1 with
  | [c], _ => exact ⟨c, rfl⟩

-- setting the axis title: row 0 is affected, the other nine rows are not
example : affected axis (.string 0) = [0] := by decide
example : (axis.setProp colors axis.defaults [116, 105, 116, 108, 101] (.text (some [97])) 1).ret = .ok 0 ∧
    axis.dump (axis.setProp colors axis.defaults [116, 105, 116, 108, 101] (.text (some [97])) 1).obj
      = (axis.dump axis.defaults).set 0 ([116, 105, 116, 108, 101], .str (some [97])) := by decide

/-! ### refuse_pure -/

/-- **refusal leaves the object unchanged**: whenever a setter does not return success (unknown name,
    conversion error, range error) the object is exactly what it was -/
theorem refuse_pure (k : Kind) (tab : List NamedColor) (o : Obj) (name : Str) (src : Src) (tok : Nat)
    (h : (k.setProp tab o name src tok).ret.isOk = false) : (k.setProp tab o name src tok).obj = o := by
  unfold Kind.setProp at h ⊢
  cases he : findSet k.sets name with
  | none => rfl
  | some e =>
    simp only [he] at h ⊢
    exact Act.run_refuse_pure k tab e.act o src tok h

example : (line.setProp colors line.defaults [119, 105, 100, 116, 104] (.text (some [49, 49])) 1).ret = .err .BadValue := by
  decide

/-! ### reset_default -/

/-- **reset of the whole object** (`set "" NULL`) gives the `def_<kind>` values.  True by the definition of
    `Kind.reset` (the model of that branch IS the assignment of the defaults); see `reset_named` for what ties it to
    the code.  The "documented default" is the `def_<kind>` initialiser. -/
theorem reset_default (k : Kind) (o : Obj) : k.dump (k.reset o) = k.dump k.defaults := rfl

/-- **reset of one property** (`set name NULL`), for every kind and handler of the generated tables: success,
    and every member of the property holds its `def_<kind>` value (the flags byte of axis `intervals` has its
    `log` bit cleared instead) -/
theorem null_resets (k : Kind) (hk : k ∈ kinds) (e : SetEntry) (he : e ∈ k.sets) (tab : List NamedColor)
    (o : Obj) (hw : WF k o) (tok : Nat) :
    (e.act.run k tab o .null tok).ret = .ok 0 ∧
    ∀ f ∈ e.act.resetFields, (e.act.run k tab o .null tok).obj.get f = k.dflt f := by
  have := entry_ok k hk e he
  unfold entryOk at this
  simp only [Bool.and_eq_true, List.all_eq_true, decide_eq_true_eq] at this
  obtain ⟨⟨_, h2⟩, h3⟩ := this
  exact Act.null_resets k tab e.act h2 o tok (fun f hf => by rw [hw]; exact h3 f hf)

/-- the `log` alias of axis `intervals` is gone after the reset -/
theorem null_clears_log (tab : List NamedColor) (o : Obj) (tok : Nat) (hw : WF axis o) :
    ∀ f g bit cn, Act.intervals f g bit cn ∈ axis.sets.map (·.act) →
      hasBit ((Act.run axis tab (.intervals f g bit cn) o .null tok).obj.get g).toInt bit = false := by
  intro f g bit cn hmem
  have hm : f = 5 ∧ g = 7 ∧ bit = 32 := by
    revert hmem; simp only [axis]; simp; intro a b c _; exact ⟨a, b, c⟩
  obtain ⟨rfl, rfl, rfl⟩ := hm
  unfold Act.run
  simp only []
  rw [Obj.get_put _ _ _ (by rw [Obj.put_length, hw]; decide)]
  exact hasBit_clearBit _ _ (by decide)

example : world.dump (world.setProp colors (world.setProp colors world.defaults [99, 111, 108, 111, 114] (.text (some [114, 101, 100])) 1).obj
    [99, 111, 108, 111, 114] .null 2).obj = world.dump world.defaults := by decide

/-! ### set_get -/

-- handlers covered by `set_get_partial` in the tables as generated at the time of writing, per kind
-- (axis, line, text, graph, world): 9 of 10, 9 of 9, 6 of 9, 7 of 10 (+ clip by `set_get_clip`), 7 of 7 = 38 of 45
/-- **set then get** for the handlers that store one member shown as it is (numbers, characters, strings,
    colours, line attributes, axis and line positions; 38 of the 45 handlers): when the setter accepts the
    text `v`, the listed property of that handler reads back as a value that `v` DENOTES for the property's
    type (`Record.denote`: the number of a numeral prefix after blanks, the first visible character, the
    string itself with "" = NULL, the colour of a colour text, a count within the attribute's limits) — or
    `v` is blank and the property shows the handler's "no value" result (`Act.blankVal`: the default, for a
    colour the unchanged value).  Canonicalisation: what is read back is the denoted value, not the text. -/
theorem set_get_partial (k : Kind) (hk : k ∈ kinds) (e : SetEntry) (he : e ∈ k.sets) (hp : isPlain k e.act = true)
    (tab : List NamedColor) (o : Obj) (hw : WF k o) (v : Str) (tok : Nat)
    (hok : (e.act.run k tab o (.text (some v)) tok).ret.isOk = true) :
    ∃ row g f, affected k e.act = [row] ∧ k.gets[row]? = some g ∧ e.act.plainField = some f ∧
      ((∃ x, x ∈ denote tab e.act.pty (o.get f) v ∧
          k.getAt (e.act.run k tab o (.text (some v)) tok).obj row = some (g.name, x)) ∨
       (blank (some v) = true ∧
          k.getAt (e.act.run k tab o (.text (some v)) tok).obj row = some (g.name, e.act.blankVal k o))) := by
  obtain ⟨row, hrow⟩ := one_property k hk e he
  unfold isPlain at hp
  cases hpf : e.act.plainField with
  | none => simp [hpf] at hp
  | some f =>
    simp only [hpf, hrow, List.all_cons, List.all_nil, Bool.and_true] at hp
    obtain ⟨g, hg, hget⟩ := Kind.getAt_plain k (e.act.run k tab o (.text (some v)) tok).obj row f hp
    have hok' := entry_ok k hk e he
    unfold entryOk at hok'
    simp only [Bool.and_eq_true, List.all_eq_true, decide_eq_true_eq] at hok'
    have hf : f < o.vals.length := by
      rw [hw]; apply hok'.2
      cases ha : e.act <;> simp only [ha, Act.plainField, Option.some.injEq, reduceCtorEq] at hpf <;>
        simp [Act.touched, hpf]
    refine ⟨row, g, f, hrow, hg, rfl, ?_⟩
    rw [hget]
    rcases Act.set_get k tab e.act f hpf o v tok hf hok with ⟨x, hx, hgx⟩ | ⟨hb, hgx⟩
    · left; exact ⟨x, hx, by rw [hgx]⟩
    · right; exact ⟨hb, by rw [hgx]⟩

-- "0x1f" for the subtick count of an axis reads back as the number 31
example : (axis.setProp colors axis.defaults [115, 117, 98] (.text (some [48, 120, 49, 102])) 1).ret = .ok 0 ∧
    axis.getProp (axis.setProp colors axis.defaults [115, 117, 98] (.text (some [48, 120, 49, 102])) 1).obj [115, 117, 98]
      = some ([115, 117, 98, 116, 105, 99, 107], .int 31) := by decide

/-- **print and parse of the clip text are inverse** on the generated table: for every kind with a text-alias
    table and every mask `v` the table covers, the printed text is the axis letters of `v` and the setter's
    letter loop reads it back as `v` -/
theorem clip_print_parse (k : Kind) (hk : k ∈ kinds) (nm : Str) (names : List Str)
    (hc : k.clipAlias = some (nm, names)) (v : Nat) (hv : v < names.length) :
    names.getD v [] = clipText v ∧ clipLetters (names.getD v []) 0 = v ∧ clipMask (clipText v) = v := by
  have hk' := base_ok k hk
  unfold baseOk at hk'
  simp only [Bool.and_eq_true] at hk'
  have hco := hk'.1.2
  unfold clipOk at hco
  simp only [hc, Bool.and_eq_true, beq_iff_eq, List.all_eq_true, List.mem_range] at hco
  obtain ⟨⟨hn, hp⟩, _⟩ := hco
  have hl : names.length = 8 := by rw [hn]; simp
  have h1 : names.getD v [] = clipText v := by
    rw [hn]; rw [hl] at hv
    simp [List.getD_eq_getElem?_getD, hv]
  have h2 := hp v hv
  refine ⟨h1, h2, ?_⟩
  rw [← clipLetters_eq, ← h1]; exact h2

/-- **set then get, graph clip**: when the setter accepts the text `v`, the `clip` row reads back as the value
    `v` denotes in S — for a numeral its number, otherwise the set of axis letters it names — SHOWN as axis
    letters (`Record.clipText`, from the letters themselves) whenever the mask holds axes only; or `v` is
    blank and the default is stored.  This is the theorem a permuted print table breaks. -/
theorem set_get_clip (k : Kind) (hk : k ∈ kinds) (e : SetEntry) (he : e ∈ k.sets) (f : Nat) (ha : e.act = .clip f)
    (tab : List NamedColor) (o : Obj) (hw : WF k o) (v : Str) (tok : Nat)
    (hok : (e.act.run k tab o (.text (some v)) tok).ret.isOk = true) :
    ∃ row g, affected k e.act = [row] ∧ k.gets[row]? = some g ∧
      ((∃ x, x ∈ denote tab .clipAxes (o.get f) v ∧
          k.getAt (e.act.run k tab o (.text (some v)) tok).obj row = some (g.name, x)) ∨
       (blank (some v) = true ∧ (e.act.run k tab o (.text (some v)) tok).obj.get f = k.dflt f)) := by
  obtain ⟨row, hrow⟩ := one_property k hk e he
  have hk' := base_ok k hk
  unfold baseOk at hk'
  simp only [Bool.and_eq_true] at hk'
  have hco := hk'.1.2
  have heo := entry_ok k hk e he
  unfold entryOk at heo
  simp only [Bool.and_eq_true, List.all_eq_true, decide_eq_true_eq] at heo
  have hf : f < o.vals.length := by rw [hw]; apply heo.2; rw [ha]; simp [Act.touched]
  have hcr : k.clipRow row f = true := by
    unfold clipOk at hco
    cases hc : k.clipAlias with
    | none =>
      simp only [hc, List.all_eq_true] at hco
      have := hco e he; rw [ha] at this; cases this
    | some t =>
      obtain ⟨nm, names⟩ := t
      simp only [hc, Bool.and_eq_true, List.all_eq_true] at hco
      have := hco.2 e he
      rw [ha] at this
      simp only [List.all_eq_true] at this
      rw [← ha] at this
      exact this row (by rw [hrow]; simp)
  rw [ha] at hok ⊢
  rcases Act.set_get_clip k tab f o v tok hf hok with ⟨n, hx, hg⟩ | ⟨hb, hg⟩
  · obtain ⟨g, hgr, hget⟩ := Kind.getAt_clip k _ row f n hcr hg
    rw [ha] at hrow
    exact ⟨row, g, hrow, hgr, Or.inl ⟨showClip n, hx, hget⟩⟩
  · cases hgr : k.gets[row]? with
    | none => unfold Kind.clipRow at hcr; simp [hgr] at hcr
    | some g => rw [ha] at hrow; exact ⟨row, g, hrow, hgr, Or.inr ⟨hb, hg⟩⟩

-- "zx" for the graph clip reads back as the letters "xz", the number 6 as "yz"
example : graph.getProp (graph.setProp colors graph.defaults [99, 108, 105, 112] (.text (some [122, 120])) 1).obj [99, 108, 105, 112]
      = some ([99, 108, 105, 112], .str (some [120, 122])) ∧
    graph.getProp (graph.setProp colors graph.defaults [99, 108, 105, 112] (.text (some [54])) 1).obj [99, 108, 105, 112]
      = some ([99, 108, 105, 112], .str (some [121, 122])) := by decide

theorem rest_ok (k : Kind) (hk : k ∈ kinds) (e : SetEntry) (he : e ∈ k.sets) : restOk k e = true := by
  have := base_ok k hk
  unfold baseOk at this
  simp only [Bool.and_eq_true] at this
  exact List.all_eq_true.mp this.2 e he

/-- **set then get, point properties** (text/graph `pos`, graph `scale`): an accepted text reads back as the point
    it denotes (one number: both coordinates; two numbers; both inside the property's limits); a blank text
    restores the default point -/
theorem set_get_point (k : Kind) (hk : k ∈ kinds) (e : SetEntry) (he : e ∈ k.sets) (f : Nat) (lo hi : Fl) (rl : Bool)
    (ha : e.act = .fpoint f lo hi rl) (tab : List NamedColor) (o : Obj) (hw : WF k o) (v : Str) (tok : Nat)
    (hok : (e.act.run k tab o (.text (some v)) tok).ret.isOk = true) :
    ∃ row g, affected k e.act = [row] ∧ k.gets[row]? = some g ∧
      ((∃ x, x ∈ denote tab (.point lo hi) (o.get f) v ∧
          k.getAt (e.act.run k tab o (.text (some v)) tok).obj row = some (g.name, x)) ∨
       (blank (some v) = true ∧
          k.getAt (e.act.run k tab o (.text (some v)) tok).obj row = some (g.name, .pt (k.dflt f).toFl (k.dflt (f + 1)).toFl))) := by
  obtain ⟨row, hrow⟩ := one_property k hk e he
  have hr := rest_ok k hk e he
  have heo := entry_ok k hk e he
  unfold entryOk at heo
  simp only [Bool.and_eq_true, List.all_eq_true, decide_eq_true_eq] at heo
  have hf : f + 1 < o.vals.length := by rw [hw]; apply heo.2; rw [ha]; simp [Act.touched]
  unfold restOk at hr
  rw [ha] at hr hok hrow ⊢
  simp only [hrow, List.all_cons, List.all_nil, Bool.and_true] at hr
  rcases Act.set_get_point k tab f lo hi rl o v tok hf hok with ⟨x, y, hx, h1, h2⟩ | ⟨hb, h1, h2⟩
  · obtain ⟨g, hg, hget⟩ := Kind.getAt_point k ((Act.fpoint f lo hi rl).run k tab o (.text (some v)) tok).obj row f hr
    refine ⟨row, g, hrow, hg, Or.inl ⟨.pt x y, hx, ?_⟩⟩
    rw [hget, h1, h2]; rfl
  · obtain ⟨g, hg, hget⟩ := Kind.getAt_point k ((Act.fpoint f lo hi rl).run k tab o (.text (some v)) tok).obj row f hr
    refine ⟨row, g, hrow, hg, Or.inr ⟨hb, ?_⟩⟩
    rw [hget, h1, h2]

/-- **set then get, axis intervals**: an accepted text reads back as the count it denotes or, for the keyword, as
    `log`; a blank text restores the default count (log mode off) -/
theorem set_get_intervals (k : Kind) (hk : k ∈ kinds) (e : SetEntry) (he : e ∈ k.sets) (f g bit : Nat) (cn : Bool)
    (ha : e.act = .intervals f g bit cn) (tab : List NamedColor) (o : Obj) (hw : WF k o) (v : Str) (tok : Nat)
    (hok : (e.act.run k tab o (.text (some v)) tok).ret.isOk = true) :
    ∃ row r, affected k e.act = [row] ∧ k.gets[row]? = some r ∧
      ((∃ x, x ∈ denote tab .countOrLog (o.get f) v ∧
          k.getAt (e.act.run k tab o (.text (some v)) tok).obj row = some (r.name, x)) ∨
       (blank (some v) = true ∧ k.getAt (e.act.run k tab o (.text (some v)) tok).obj row = some (r.name, k.dflt f))) := by
  obtain ⟨row, hrow⟩ := one_property k hk e he
  have hr := rest_ok k hk e he
  have heo := entry_ok k hk e he
  unfold entryOk at heo
  simp only [Bool.and_eq_true, List.all_eq_true, decide_eq_true_eq] at heo
  rw [ha] at heo
  have hn := heo.1.2
  simp only [Act.nullOK, Bool.and_eq_true, beq_iff_eq, bne_iff_ne, ne_eq] at hn
  obtain ⟨⟨hcl, hfg⟩, hcn⟩ := hn
  subst hcn
  have hf : f < o.vals.length := by rw [hw]; apply heo.2; simp [Act.touched]
  have hg : g < o.vals.length := by rw [hw]; apply heo.2; simp [Act.touched]
  unfold restOk at hr
  rw [ha] at hr hok hrow ⊢
  simp only [hrow, List.all_cons, List.all_nil, Bool.and_true, Bool.and_eq_true, bne_iff_ne, ne_eq] at hr
  obtain ⟨r, hgr, hget⟩ := Kind.getAt_log k ((Act.intervals f g bit true).run k tab o (.text (some v)) tok).obj row f g bit hr.1
  refine ⟨row, r, hrow, hgr, ?_⟩
  rw [hget]
  rcases Act.set_get_intervals k tab f g bit o v tok hf hg hfg hr.2 (Nat.and_self bit) hcl hok with hx | ⟨hb, hd⟩
  · exact Or.inl ⟨_, hx, rfl⟩
  · exact Or.inr ⟨hb, by rw [hd]⟩

/-- **set then get, one coordinate of a point** (text `x`, `y`): an accepted text puts the number it denotes into
    that coordinate of the point property and keeps the other one; a blank text restores that coordinate's default -/
theorem set_get_coord (k : Kind) (hk : k ∈ kinds) (e : SetEntry) (he : e ∈ k.sets) (f : Nat)
    (ha : e.act = .conv 'f' f) (hnp : isPlain k e.act = false)
    (tab : List NamedColor) (o : Obj) (hw : WF k o) (v : Str) (tok : Nat)
    (hok : (e.act.run k tab o (.text (some v)) tok).ret.isOk = true) :
    ∃ row r, affected k e.act = [row] ∧ k.gets[row]? = some r ∧ (r.field = f ∨ r.field + 1 = f) ∧
      ∃ px py, k.getAt (e.act.run k tab o (.text (some v)) tok).obj row = some (r.name, .pt px py) ∧
        ((∃ x u, convScalar 'f' (skipSpaces v) = .val (.flt x) u ∧
            (r.field = f → px = x ∧ py = (o.get (r.field + 1)).toFl) ∧
            (r.field + 1 = f → py = x ∧ px = (o.get r.field).toFl)) ∨
         blank (some v) = true) := by
  obtain ⟨row, hrow⟩ := one_property k hk e he
  have hr := rest_ok k hk e he
  have heo := entry_ok k hk e he
  unfold entryOk at heo
  simp only [Bool.and_eq_true, List.all_eq_true, decide_eq_true_eq] at heo
  have hf : f < o.vals.length := by rw [hw]; apply heo.2; rw [ha]; simp [Act.touched]
  unfold restOk at hr
  rw [ha] at hr hnp hok hrow ⊢
  simp only [hnp, Bool.false_or, hrow, List.all_cons, List.all_nil, Bool.and_true, Bool.and_eq_true, beq_iff_eq] at hr
  cases hgr : k.gets[row]? with
  | none => simp [hgr] at hr
  | some r =>
    simp only [hgr, Bool.and_eq_true, Bool.or_eq_true, beq_iff_eq, decide_eq_true_eq] at hr
    obtain ⟨_, ⟨hfld, hpr⟩, _⟩ := hr
    obtain ⟨g', hg', hget⟩ := Kind.getAt_point k ((Act.conv 'f' f).run k tab o (.text (some v)) tok).obj row r.field hpr
    rw [hgr] at hg'
    cases hg'
    refine ⟨row, r, hrow, hgr, hfld, _, _, hget, ?_⟩
    rcases Act.set_get_coord k tab f o v tok hf hok with ⟨x, u, hs, hx⟩ | ⟨hb, _⟩
    · left
      refine ⟨x, u, hs, ?_, ?_⟩
      · intro e1
        subst e1
        refine ⟨by rw [hx]; rfl, ?_⟩
        exact congrArg Val.toFl (Obj.get_congr _ _ _
          (Act.run_untouched k tab (.conv 'f' r.field) o _ tok (r.field + 1) (by simp [Act.touched])))
      · intro e1
        refine ⟨by rw [e1, hx]; rfl, ?_⟩
        exact congrArg Val.toFl (Obj.get_congr _ _ _
          (Act.run_untouched k tab (.conv 'f' f) o _ tok r.field (by simp only [Act.touched, List.mem_singleton]; omega)))
    · exact Or.inr hb

/-- **coverage**: every handler of every setter chain of the generated tables falls under one of the set-then-get
    theorems: `set_get_partial` (plain), `set_get_clip`, `set_get_point`, `set_get_intervals`, `set_get_coord` -/
theorem handlers_covered (k : Kind) (hk : k ∈ kinds) (e : SetEntry) (he : e ∈ k.sets) :
    isPlain k e.act = true ∨ (∃ f, e.act = .clip f) ∨ (∃ f lo hi rl, e.act = .fpoint f lo hi rl) ∨
    (∃ f g bit cn, e.act = .intervals f g bit cn) ∨ (∃ f, e.act = .conv 'f' f) := by
  have hr := rest_ok k hk e he
  unfold restOk at hr
  cases ha : e.act with
  | conv ty f =>
    rw [ha] at hr
    simp only [Bool.or_eq_true, Bool.and_eq_true, beq_iff_eq] at hr
    rcases hr with h | ⟨h, _⟩
    · left; rw [← ha]; rw [ha]; exact h
    · right; right; right; right; exact ⟨f, by rw [h]⟩
  | clip f => right; left; exact ⟨f, rfl⟩
  | fpoint f lo hi rl => right; right; left; exact ⟨f, lo, hi, rl, rfl⟩
  | intervals f g bit cn => right; right; right; left; exact ⟨f, g, bit, cn, rfl⟩
  | string f => left; rw [ha] at hr; exact hr
  | colour f r => left; rw [ha] at hr; exact hr
  | lattr f d lo hi r => left; rw [ha] at hr; exact hr
  | axisPos f => left; rw [ha] at hr; exact hr
  | linePos f => left; rw [ha] at hr; exact hr
  | align f => left; rw [ha] at hr; exact hr

/-! ### by NAME: the documented names (hand-written `Record.docs`) against the generated tables -/

theorem doc_ok (k : Kind) (hk : k ∈ kinds) : docOk k = true := by
  have := kind_ok k hk
  unfold kindOk at this
  simp only [Bool.and_eq_true] at this
  exact this.1.2

/-- **a documented name selects the handler of its own property**: for every kind of the generated tables, every
    documented property `p` (`Record.docs`) and every name `n` documented for setting it, `p.listed` is row `i` of
    the getter, reading by `p.listed` finds row `i`, and `n` selects in the setter chain a handler that writes
    members of row `i` only, whose value type is the documented one.  Tables in which `begin` and `end` (handlers or
    rows) are exchanged fail this check. -/
theorem doc_linked (k : Kind) (hk : k ∈ kinds) (d : DocKind) (hd : docOf k.name = some d)
    (p : DocProp) (hp : p ∈ d.props) (n : Str) (hn : n ∈ p.names) :
    ∃ i g e, k.gets[i]? = some g ∧ g.name = p.listed ∧ k.lookup p.listed = .row i ∧
      findSet k.sets n = some e ∧ e ∈ k.sets ∧ affected k e.act = [i] ∧ k.ptyOf e.act i = p.ty := by
  have h := doc_ok k hk
  unfold docOk at h
  rw [hd] at h
  simp only [Bool.and_eq_true, List.all_eq_true] at h
  have hp' := h.1.1.1.2 p hp
  unfold docPropOk at hp'
  cases hi : k.gets.findIdx? (·.name == p.listed) with
  | none => rw [hi] at hp'; cases hp'
  | some i =>
    rw [hi] at hp'
    simp only [Bool.and_eq_true, List.all_eq_true, beq_iff_eq] at hp'
    obtain ⟨hl, hnames⟩ := hp'
    have hn' := hnames n hn
    cases he : findSet k.sets n with
    | none => rw [he] at hn'; cases hn'
    | some e =>
      rw [he] at hn'
      simp only [Bool.and_eq_true, beq_iff_eq] at hn'
      obtain ⟨hlt, hname, _⟩ := List.findIdx?_eq_some_iff_getElem.mp hi
      refine ⟨i, k.gets[i], e, List.getElem?_eq_getElem hlt, by simpa using hname, hl, rfl, ?_, hn'.1.1, hn'.1.2⟩
      unfold findSet at he
      exact List.mem_of_find?_eq_some he

-- the documentation of the axis says `begin` is row 1 and is written by the handler `conv 'd' 1`
example : (docOf "axis").map (fun d => d.props.map (docPropOk axis)) = some (List.replicate 10 true) := by decide +kernel

/-- **reading by a listed name finds its own row** (`mpt_<kind>_get` with the name of row `i`, through
    `mpt_property_match` with the getter's length or the single-character table) -/
theorem get_listed (k : Kind) (hk : k ∈ kinds) (i : Nat) (g : GetEntry) (hg : k.gets[i]? = some g) (o : Obj) :
    k.getProp o g.name = k.getAt o i := by
  have := kind_ok k hk
  unfold kindOk at this
  simp only [Bool.and_eq_true] at this
  have hl := this.2
  unfold lookupOk at hl
  rw [List.all_eq_true] at hl
  have hlt : i < k.gets.length := by
    rcases Nat.lt_or_ge i k.gets.length with h | h
    · exact h
    · rw [List.getElem?_eq_none h] at hg; cases hg
  have := hl i (List.mem_range.mpr hlt)
  rw [hg] at this
  exact Kind.getProp_row k o g.name i (by simpa using this)

/-- **reading by a name the setter takes** gives the value of that name's own property, the coordinate it writes
    (single-character table), or is refused — never the value of another property -/
theorem get_alias (k : Kind) (hk : k ∈ kinds) (d : DocKind) (hd : docOf k.name = some d)
    (p : DocProp) (hp : p ∈ d.props) (n : Str) (hn : n ∈ p.names) (o : Obj) :
    k.getProp o n = none ∨ k.getProp o n = k.getProp o p.listed ∨
    ∃ (g : GetEntry) (e : SetEntry), findSet k.sets n = some e ∧ e.act.touched = [g.field] ∧ k.getProp o n = some (n, o.get g.field) := by
  have h := doc_ok k hk
  unfold docOk at h
  rw [hd] at h
  simp only [Bool.and_eq_true, List.all_eq_true] at h
  have hp' := h.1.1.1.2 p hp
  unfold docPropOk at hp'
  cases hi : k.gets.findIdx? (·.name == p.listed) with
  | none => rw [hi] at hp'; cases hp'
  | some i =>
    rw [hi] at hp'
    simp only [Bool.and_eq_true, List.all_eq_true, beq_iff_eq] at hp'
    obtain ⟨hl, hnames⟩ := hp'
    have hn' := hnames n hn
    cases he : findSet k.sets n with
    | none => rw [he] at hn'; cases hn'
    | some e =>
      rw [he] at hn'
      simp only [Bool.and_eq_true, beq_iff_eq] at hn'
      have h3 := hn'.2
      unfold Kind.getProp
      cases hlk : k.lookup n with
      | refused => left; rfl
      | row j =>
        rw [hlk] at h3
        simp only [beq_iff_eq] at h3
        right; left
        rw [hl, h3]
      | single g =>
        rw [hlk] at h3
        simp only [Bool.and_eq_true, beq_iff_eq, bne_iff_ne, ne_eq] at h3
        right; right
        refine ⟨g, e, rfl, h3.1.2, ?_⟩
        simp only [Kind.readEntry, h3.2, ↓reduceIte, h3.1.1]

/-- **set then get BY NAME** — the central clause with the identity of the property in it: for every kind, every
    documented property `p` and every name `n` documented for setting it (aliases included), when
    `mpt_<kind>_set(o, n, text v)` accepts, reading `p.listed` back gives a value that `v` denotes for the DOCUMENTED
    type of `p` (for a coordinate name: the point with that coordinate replaced) — or `v` is blank.
    Name, row and type come from the hand-written documentation; the generated tables enter through `tables_ok`. -/
theorem set_get_named (k : Kind) (hk : k ∈ kinds) (d : DocKind) (hd : docOf k.name = some d)
    (p : DocProp) (hp : p ∈ d.props) (n : Str) (hn : n ∈ p.names)
    (tab : List NamedColor) (o : Obj) (hw : WF k o) (v : Str) (tok : Nat)
    (hok : (k.setProp tab o n (.text (some v)) tok).ret.isOk = true) :
    ∃ old x, k.getProp o p.listed = some (p.listed, old) ∧
      k.getProp (k.setProp tab o n (.text (some v)) tok).obj p.listed = some (p.listed, x) ∧
      (x ∈ denote tab p.ty old v ∨ blank (some v) = true) := by
  obtain ⟨i, g, e, hg, hgn, hl, hfs, he, haff, hty⟩ := doc_linked k hk d hd p hp n hn
  have hsp : k.setProp tab o n (.text (some v)) tok = e.act.run k tab o (.text (some v)) tok := by
    unfold Kind.setProp; rw [hfs]
  rw [hsp] at hok ⊢
  rw [Kind.getProp_row k _ _ i hl, Kind.getProp_row k _ _ i hl, ← hgn, ← hty]
  obtain ⟨old, hold⟩ := Kind.getAt_name k o i g hg
  rcases handlers_covered k hk e he with hpl | ⟨f, ha⟩ | ⟨f, lo, hi, rl, ha⟩ | ⟨f, g', bit, cn, ha⟩ | ⟨f, ha⟩
  · -- one member shown as it is
    obtain ⟨row, g2, f, hrow, hg2, hpf, hres⟩ := set_get_partial k hk e he hpl tab o hw v tok hok
    rw [haff] at hrow
    have hri : row = i := by simpa using hrow.symm
    subst hri
    rw [hg] at hg2
    cases hg2
    have hpr : k.plainRow row f = true := by
      unfold isPlain at hpl
      simp only [hpf, haff, List.all_cons, List.all_nil, Bool.and_true] at hpl
      exact hpl
    have hpt : k.ptyOf e.act row = e.act.pty := by
      unfold Kind.ptyOf
      cases hact : e.act with
      | conv ty f' =>
        simp only [hg]
        unfold Kind.plainRow at hpr
        simp only [hg, Bool.and_eq_true, bne_iff_ne, ne_eq] at hpr
        simp only [hpr.1.1.2, ↓reduceIte, Act.pty]
      | _ => rfl
    obtain ⟨g3, hg3, hget⟩ := Kind.getAt_plain k o row f hpr
    rw [hg] at hg3
    cases hg3
    refine ⟨o.get f, ?_⟩
    rcases hres with ⟨x, hx, hgx⟩ | ⟨hb, hgx⟩
    · exact ⟨x, hget, hgx, Or.inl (by rw [hpt]; exact hx)⟩
    · exact ⟨_, hget, hgx, Or.inr hb⟩
  · -- graph clip
    obtain ⟨row, g2, hrow, hg2, hres⟩ := set_get_clip k hk e he f ha tab o hw v tok hok
    rw [haff] at hrow
    have hri : row = i := by simpa using hrow.symm
    subst hri
    rw [hg] at hg2
    cases hg2
    have hpt : k.ptyOf e.act row = .clipAxes := by rw [ha]; rfl
    rcases hres with ⟨x, hx, hgx⟩ | ⟨hb, _⟩
    · refine ⟨old, x, hold, hgx, Or.inl ?_⟩
      rw [hpt, denote_old tab .clipAxes old (o.get f) v (by simp) (by simp)]; exact hx
    · obtain ⟨x, hx⟩ := Kind.getAt_name k (e.act.run k tab o (.text (some v)) tok).obj row g hg
      exact ⟨old, x, hold, hx, Or.inr hb⟩
  · -- point
    obtain ⟨row, g2, hrow, hg2, hres⟩ := set_get_point k hk e he f lo hi rl ha tab o hw v tok hok
    rw [haff] at hrow
    have hri : row = i := by simpa using hrow.symm
    subst hri
    rw [hg] at hg2
    cases hg2
    have hpt : k.ptyOf e.act row = .point lo hi := by rw [ha]; rfl
    rcases hres with ⟨x, hx, hgx⟩ | ⟨hb, hgx⟩
    · refine ⟨old, x, hold, hgx, Or.inl ?_⟩
      rw [hpt, denote_old tab (.point lo hi) old (o.get f) v (by simp) (by simp)]; exact hx
    · exact ⟨old, _, hold, hgx, Or.inr hb⟩
  · -- axis intervals
    obtain ⟨row, g2, hrow, hg2, hres⟩ := set_get_intervals k hk e he f g' bit cn ha tab o hw v tok hok
    rw [haff] at hrow
    have hri : row = i := by simpa using hrow.symm
    subst hri
    rw [hg] at hg2
    cases hg2
    have hpt : k.ptyOf e.act row = .countOrLog := by rw [ha]; rfl
    rcases hres with ⟨x, hx, hgx⟩ | ⟨hb, hgx⟩
    · refine ⟨old, x, hold, hgx, Or.inl ?_⟩
      rw [hpt, denote_old tab .countOrLog old (o.get f) v (by simp) (by simp)]; exact hx
    · exact ⟨old, _, hold, hgx, Or.inr hb⟩
  · -- a conversion to float: plain member or one coordinate of a point
    cases hpl : isPlain k e.act with
    | true =>
      -- (same as the first case)
      obtain ⟨row, g2, f2, hrow, hg2, hpf, hres⟩ := set_get_partial k hk e he hpl tab o hw v tok hok
      rw [haff] at hrow
      have hri : row = i := by simpa using hrow.symm
      subst hri
      rw [hg] at hg2
      cases hg2
      have hpr : k.plainRow row f2 = true := by
        unfold isPlain at hpl
        simp only [hpf, haff, List.all_cons, List.all_nil, Bool.and_true] at hpl
        exact hpl
      have hpt : k.ptyOf e.act row = e.act.pty := by
        unfold Kind.ptyOf
        rw [ha]
        simp only [hg]
        unfold Kind.plainRow at hpr
        simp only [hg, Bool.and_eq_true, bne_iff_ne, ne_eq] at hpr
        simp only [hpr.1.1.2, ↓reduceIte, Act.pty]
      obtain ⟨g3, hg3, hget⟩ := Kind.getAt_plain k o row f2 hpr
      rw [hg] at hg3
      cases hg3
      refine ⟨o.get f2, ?_⟩
      rcases hres with ⟨x, hx, hgx⟩ | ⟨hb, hgx⟩
      · exact ⟨x, hget, hgx, Or.inl (by rw [hpt]; exact hx)⟩
      · exact ⟨_, hget, hgx, Or.inr hb⟩
    | false =>
      obtain ⟨row, r, hrow, hr, hfld, px, py, hget, hres⟩ := set_get_coord k hk e he f ha hpl tab o hw v tok hok
      rw [haff] at hrow
      have hri : row = i := by simpa using hrow.symm
      subst hri
      rw [hg] at hr
      cases hr
      -- the row is a point row
      have hro := rest_ok k hk e he
      unfold restOk at hro
      have haff' := haff
      rw [ha] at hro hpl haff'
      simp only [hpl, Bool.false_or, haff', List.all_cons, List.all_nil, Bool.and_true, Bool.and_eq_true, hg] at hro
      have hprow : k.pointRow row g.field = true := hro.2.1.2
      obtain ⟨g3, hg3, hgo⟩ := Kind.getAt_point k o row g.field hprow
      rw [hg] at hg3
      cases hg3
      have hty2 : g.ty = -2 := by
        unfold Kind.pointRow at hprow
        simp only [hg, Bool.and_eq_true, beq_iff_eq] at hprow
        exact hprow.1.1.2
      refine ⟨_, _, hgo, hget, ?_⟩
      rcases hres with ⟨x, u, hs, h1, h2⟩ | hb
      · left
        rw [ha]
        unfold Kind.ptyOf
        simp only [hg, hty2, ↓reduceIte]
        rcases hfld with hf1 | hf2
        · obtain ⟨e1, e2⟩ := h1 hf1
          simp only [hf1, ↓reduceIte, denote, hs, List.mem_singleton, e1, e2]
        · obtain ⟨e1, e2⟩ := h2 hf2
          have hne : ¬ f = g.field := by omega
          simp only [hne, ↓reduceIte, denote, hs, List.mem_singleton, e1, e2]
      · exact Or.inr hb

-- hypotheses are satisfiable: `titlepos` is documented for `tpos`; setting "t" through it reads back through `tpos`
-- and through `titlepos` itself, and the title keeps its value
example : (axis.setProp colors axis.defaults (str "titlepos") (.text (some (str "t"))) 1).ret = .ok 0 ∧
    axis.getProp (axis.setProp colors axis.defaults (str "titlepos") (.text (some (str "t"))) 1).obj (str "tpos")
      = some (str "tpos", .chr 116) ∧
    axis.getProp (axis.setProp colors axis.defaults (str "titlepos") (.text (some (str "t"))) 1).obj (str "titlepos")
      = some (str "tpos", .chr 116) ∧
    axis.getProp (axis.setProp colors axis.defaults (str "titlepos") (.text (some (str "t"))) 1).obj (str "title")
      = some (str "title", .str none) := by decide +kernel

/-- the axis tables with the handlers of `begin` and `end` exchanged / with the two getter rows exchanged -/
def axisSwapSet : Kind :=
  { axis with sets := (axis.sets.set 1 ⟨[(str "begin", true)], .conv 'd' 2⟩).set 2 ⟨[(str "end", true)], .conv 'd' 1⟩ }
def axisSwapGet : Kind :=
  { axis with gets := (axis.gets.set 1 ⟨str "begin", 100, 2⟩).set 2 ⟨str "end", 100, 1⟩ }

-- both pass every per-handler condition and are rejected by the comparison with the documentation
example : baseOk axisSwapSet = true ∧ docOk axisSwapSet = false := by decide +kernel
example : baseOk axisSwapGet = true ∧ docOk axisSwapGet = false := by decide +kernel

/-- **no other property changes, by name**: setting through a documented name leaves every other row of the getter
    as it was (any source, accepted or not) -/
theorem frame_named (k : Kind) (hk : k ∈ kinds) (d : DocKind) (hd : docOf k.name = some d)
    (p : DocProp) (hp : p ∈ d.props) (n : Str) (hn : n ∈ p.names)
    (tab : List NamedColor) (o : Obj) (src : Src) (tok : Nat) (j : Nat) (g : GetEntry)
    (hg : k.gets[j]? = some g) (hne : g.name ≠ p.listed) :
    k.getProp (k.setProp tab o n src tok).obj g.name = k.getProp o g.name := by
  obtain ⟨i, gi, e, hgi, hgn, _, hfs, _, haff, _⟩ := doc_linked k hk d hd p hp n hn
  rw [get_listed k hk j g hg, get_listed k hk j g hg]
  have hlt : j < k.gets.length := by
    rcases Nat.lt_or_ge j k.gets.length with h | h
    · exact h
    · rw [List.getElem?_eq_none h] at hg; cases hg
  apply frame k tab o n src tok j _ hlt
  intro e' he'
  rw [hfs] at he'
  cases he'
  rw [haff]
  simp only [List.mem_singleton]
  intro hji
  subst hji
  rw [hg] at hgi
  cases hgi
  exact hne hgn

/-- **reset by name**: after `set "" NULL` every listed name reads the value of the `def_<kind>` initialiser.
    (`Kind.reset` IS the assignment of the defaults: that `mpt_<kind>_set(o, "", 0)` does `fini` + `*o = def_<kind>` is
    pinned by the translator's template for that branch and by the correspondence run, not by this theorem.) -/
theorem reset_named (k : Kind) (hk : k ∈ kinds) (i : Nat) (g : GetEntry) (hg : k.gets[i]? = some g) (o : Obj) :
    k.getProp (k.reset o) g.name = k.getAt k.defaults i := by
  rw [get_listed k hk i g hg]; rfl

theorem names_nodup (k : Kind) (hk : k ∈ kinds) : (k.gets.map (·.name)).Nodup := by
  have h := doc_ok k hk
  unfold docOk at h
  cases hd : docOf k.name with
  | none => rw [hd] at h; cases h
  | some d =>
    rw [hd] at h
    simp only [Bool.and_eq_true, decide_eq_true_eq] at h
    exact h.2

/-- **the whole record after a set, M ⊑ S**: for every kind, documented property `p` (coordinates of a point aside) and
    documented name `n`, when the setter accepts a text `v` that is not blank, the record of ALL listed properties
    afterwards is one of the records S allows (`Record.setOutcomes`, the list the driver prints in the S column of
    `y set`): the named property holds a value `v` denotes for the documented type, every other listed property
    holds what it held -/
theorem set_get_record (k : Kind) (hk : k ∈ kinds) (d : DocKind) (hd : docOf k.name = some d)
    (p : DocProp) (hp : p ∈ d.props) (n : Str) (hn : n ∈ p.names) (hx : p.ty ≠ .pointX) (hy : p.ty ≠ .pointY)
    (tab : List NamedColor) (o : Obj) (hw : WF k o) (v : Str) (tok : Nat) (hnb : blank (some v) = false)
    (hok : (k.setProp tab o n (.text (some v)) tok).ret.isOk = true) :
    k.dump (k.setProp tab o n (.text (some v)) tok).obj ∈
      setOutcomes tab (k.dump o) (k.dump k.defaults) p.listed p.ty (some (some v)) := by
  obtain ⟨old, x, _, hnew, hden⟩ := set_get_named k hk d hd p hp n hn tab o hw v tok hok
  obtain ⟨i, g, e, hg, hgn, hl, _, _, _, _⟩ := doc_linked k hk d hd p hp n hn
  have hden' : x ∈ denote tab p.ty old v := by
    rcases hden with h | h
    · exact h
    · rw [hnb] at h; cases h
  rw [Kind.getProp_row k _ _ i hl] at hnew
  have hdump : k.dump (k.setProp tab o n (.text (some v)) tok).obj = Record.set (k.dump o) p.listed x := by
    rw [← hgn]
    apply Kind.dump_set k o _ i g x hg (names_nodup k hk) (by rw [hgn]; exact hnew)
    intro j hj hji
    have hgj : k.gets[j]? = some k.gets[j] := List.getElem?_eq_getElem hj
    have hne : k.gets[j].name ≠ p.listed := by
      rw [← hgn]
      intro hc
      have hnd := List.pairwise_iff_getElem.mp (names_nodup k hk)
      have hil : i < k.gets.length := by
        rcases Nat.lt_or_ge i k.gets.length with h | h
        · exact h
        · rw [List.getElem?_eq_none h] at hg; cases hg
      have hgi : k.gets[i] = g := by
        have := List.getElem?_eq_getElem hil; rw [this] at hg; exact Option.some.inj hg
      rw [← hgi] at hc
      rcases Nat.lt_or_gt_of_ne hji with hlt | hgt
      · exact hnd j i (by simpa using hj) (by simpa using hil) hlt (by simp only [List.getElem_map]; exact hc)
      · exact hnd i j (by simpa using hil) (by simpa using hj) hgt (by simp only [List.getElem_map]; exact hc.symm)
    have := frame_named k hk d hd p hp n hn tab o (.text (some v)) tok j _ hgj hne
    rw [get_listed k hk j _ hgj, get_listed k hk j _ hgj] at this
    exact this
  rw [hdump]
  unfold setOutcomes
  simp only [Option.getD_some]
  have hmem : ∀ old', Record.set (k.dump o) p.listed x ∈ (denote tab p.ty old' v).map (Record.set (k.dump o) p.listed) := by
    intro old'
    rw [denote_old tab p.ty old' old v hx hy]
    exact List.mem_map.mpr ⟨x, hden', rfl⟩
  cases hty : p.ty <;> simp only [hnb, Bool.false_eq_true, ↓reduceIte] <;> rw [← hty] <;> exact hmem _

-- hypotheses satisfiable: "4.5" for the axis `begin` is accepted and not blank
example : (axis.setProp colors axis.defaults (str "begin") (.text (some (str "4.5"))) 1).ret.isOk = true ∧
    blank (some (str "4.5")) = false := by decide +kernel

/-- the whole-record form for EVERY text/NULL source.  Proved: `set_get_record` (non-blank text, every documented name
    but the two coordinate names of text `pos`).  STATED ONLY, tied by the correspondence run: blank and NULL text and
    the NULL source as one list equation (per handler: `null_resets`, the blank disjuncts of the `set_get_*` theorems),
    the coordinate names `x`, `y` (per name: `set_get_named`), typed sources (`y setv`: no theorem). -/
def set_get_statement : Prop :=
  ∀ (k : Kind), k ∈ kinds → ∀ (d : DocKind), docOf k.name = some d → ∀ p ∈ d.props, ∀ n ∈ p.names,
    ∀ (o : Obj), WF k o → ∀ (src : Src) (tok : Nat), (∀ t x, src ≠ .typed t x) →
    (k.setProp colors o n src tok).ret.isOk = true →
      k.dump (k.setProp colors o n src tok).obj ∈
        setOutcomes colors (k.dump o) (k.dump k.defaults) p.listed p.ty (match src with | .text t => some t | _ => none)

/-! ### copy_owns -/

/-- **copy through the generic assignment**, for every kind of the generated tables: the copy succeeds, has
    the members (hence all properties) of the source, and every heap block it owns afterwards is a fresh one —
    none is a block of the source -/
theorem copy_owns (k : Kind) (hk : k ∈ kinds) (o src : Obj) (base : Nat)
    (ht : k.Typed src) (hb : ∀ t ∈ src.toks, t < base) :
    (k.copy o k.name src false base).ret = .ok 0 ∧
    k.dump (k.copy o k.name src false base).obj = k.dump src ∧
    ∀ t ∈ (k.copy o k.name src false base).obj.toks, t ≠ 0 → t ∉ src.toks := by
  have hk' := base_ok k hk
  unfold baseOk at hk'
  simp only [Bool.and_eq_true] at hk'
  obtain ⟨⟨⟨⟨⟨_, hown⟩, _⟩, hdup⟩, _⟩, _⟩ := hk'
  have hc : k.copy o k.name src false base = ⟨k.copyFrom src base, .ok 0⟩ := by
    unfold Kind.copy; simp [hown]
  rw [hc]
  refine ⟨rfl, Kind.dump_congr k src _ rfl, ?_⟩
  apply copyToks_fresh k.dups src base hb
  intro i s hi
  obtain ⟨fd, hfd, hty⟩ := ht i s hi
  unfold Kind.strsDuplicated at hdup
  rw [List.all_eq_true] at hdup
  have hlt : i < k.fields.length := by
    rcases Nat.lt_or_ge i k.fields.length with h | h
    · exact h
    · rw [List.getElem?_eq_none h] at hfd; cases hfd
  have := hdup i (List.mem_range.mpr hlt)
  simpa [hfd, hty] using this

/-- assigning an object to itself keeps it -/
theorem copy_self (k : Kind) (hk : k ∈ kinds) (o : Obj) (base : Nat) :
    (k.copy o k.name o true base) = ⟨o, .ok 0⟩ := by
  have hk' := base_ok k hk
  unfold baseOk at hk'
  simp only [Bool.and_eq_true] at hk'
  obtain ⟨⟨⟨⟨⟨_, hown⟩, hself⟩, _⟩, _⟩, _⟩ := hk'
  unfold Kind.copy; simp [hown, hself]

-- a text with value and font: the copy owns tokens 100 and 101, the source 7 and 8
example : (text.copy text.defaults "text" ⟨(text.defaults.vals.set 0 (.str (some [97]))).set 1 (.str (some [98])),
      (text.defaults.toks.set 0 7).set 1 8⟩ false 100).obj.toks = [100, 101, 0, 0, 0, 0, 0, 0, 0, 0] := by decide

end Mpt.C20
