/-
  C03 — decoders are safe and honest on arbitrary bytes.  Property theorems only
  (helper lemmas: Lemmas/DecodeSafe.lean, Decode.lean, DecodeResume.lean, DecodeArrive.lean, DecodeSegs.lean,
  DecodeCommand*.lean, DecodePeek.lean, DecodeDeliver.lean, DecodeFrames.lean; the last two build on the call
  lemmas of C02: Lemmas/DecodeCall.lean, DecodeLiveCall.lean, CodedQueueDec.lean).
  The storage of a call is the concatenation of the segments (`flat`): the theorems speak about indices into
  that one buffer.  Segment cursors of the C code (`mpt_message_read`, the `dvec` walk) and the termination
  of the C loops are tied to the model by the correspondence run (guards, sanitizers, alarm), not by proof.
  `decodeV v st segs peek` is the model of mpt_decode_cobs / _r / _zpe / _zpe_r (Impl/Decode.lean):
  `segs` = the iovec array as (address mod 16, bytes), `peek` = (sourcelen == 0).
-/
import MptModel.Lemmas.Decode
import MptModel.Lemmas.DecodeArrive
import MptModel.Lemmas.DecodeSegs
import MptModel.Lemmas.DecodeCommandArrive
import MptModel.Lemmas.DecodePeek
import MptModel.Lemmas.DecodeCommandSafe
import MptModel.Lemmas.DecodeFrames
namespace Mpt.C03
open Mpt.Cobs Mpt.Codec

/-- states the decoders themselves produce: a waiting message is exactly the decoded data -/
def WF (st : DecState) : Prop := ∀ m, st.msg = some m → m = st.len

/-- the storage the call may touch -/
def total (segs : List Seg) (peek : Bool) : Nat := (flat (if peek then segs.take 1 else segs)).length

/-- Termination: the block loop is structurally recursive on the number of unread bytes (no fuel, no
    `partial`); in every call, for every state and every input, the loads happen at strictly increasing
    indices inside the storage — each byte is read at most once per call. -/
theorem terminates (v : Variant) (st : DecState) (segs : List Seg) (peek : Bool) (hwf : WF st) :
    (decodeV v st segs peek).reads.Pairwise (· < ·) ∧
    ∀ x ∈ (decodeV v st segs peek).reads, x < total segs peek :=
  (decodeV_safe v st segs peek hwf).reads

example : (decodeV .cobs {} [(3, [3, 0x61, 0x62, 0])] false).reads = [0, 1, 2, 3] := by decide

/-- Memory safety of the model: for every state, every byte string, every segmentation, alignment and
    mode, no load leaves the storage (`.oob`), every store goes to an index strictly below the current
    read index which itself is inside the storage (never `.clobber`), and the storage keeps its size. -/
theorem write_behind_read (v : Variant) (st : DecState) (segs : List Seg) (peek : Bool) (hwf : WF st) :
    (decodeV v st segs peek).ret ≠ .oob ∧ (decodeV v st segs peek).ret ≠ .clobber ∧
    (decodeV v st segs peek).store.length = total segs peek ∧
    ∀ x ∈ (decodeV v st segs peek).writes, x.1 < x.2 ∧ x.2 ≤ total segs peek :=
  let h := decodeV_safe v st segs peek hwf
  ⟨h.nofault.1, h.nofault.2, h.len, h.writes⟩

example : (decodeV .cobsR {} [(0, [5, 1, 2, 0])] false).writes = [(0, 2), (1, 3), (2, 4)] := by decide

/-- Honesty over every segmentation in time: from the reset state, however the byte stream arrives in
    pieces (`arrive`: the pieces are appended to the receive segment at any base alignment `a`, the
    decoder is called after every arrival and resumes after every `0`), the first delivered message is the
    reference decoding of the first frame `pre ++ [0]` of the stream — for all four framings and
    arbitrary bytes `junk` behind the frame. -/
theorem honest (v : Variant) (a : Nat) (pieces : List (List Byte)) (pre junk : List Byte) (o : DecOut)
    (hS : pieces.flatten = pre ++ 0 :: junk) (hnz : ∀ x ∈ pre, x ≠ 0)
    (h : arrive v a {} [] pieces = some o) (h1 : o.ret = .val 1) : dec v (pre ++ [0]) = some o.region :=
  arrive_honest v a pieces pre junk o hS hnz h h1

example : (arrive .cobsR 0 {} [] [[3], [0x61], [], [0x62, 0, 9]]).map (fun o => (o.ret, o.region))
    = some (.val 1, [0x61, 0x62]) := by decide

/-- Honesty, one call, any segment structure: on a state between two messages (reset state, head room
    state, or after a delivered message) whose unread input — spread over any number of segments with
    any base alignments — starts with the bytes `pre ++ [0]` (`pre` without zero), a delivered message
    is the reference decoding of that frame. -/
theorem honest_call (v : Variant) (st : DecState) (segs : List Seg) (pre junk : List Byte) (hf : Fresh st)
    (hin : (flat segs).drop st.curr = pre ++ 0 :: junk) (hnz : ∀ x ∈ pre, x ≠ 0)
    (h1 : (decodeV v st segs false).ret = .val 1) :
    dec v (pre ++ [0]) = some (decodeV v st segs false).region ∧
    (decodeV v st segs false).st.msg = some (decodeV v st segs false).st.len :=
  decodeV_honest v st segs pre junk hf hin hnz h1

example : (decodeV .zpe { curr := 2 } [(0, [0xdd, 0xdd, 0xe1, 7, 1, 0])] false).region = [7, 0, 0] := by decide

/-- Honesty for every frame of a stream: from any state between two messages (after earlier deliveries
    or skipped delimiters), with part of the frame possibly in the segment already and the rest arriving
    in arbitrary pieces, a delivered message is the reference decoding of the frame at the input position. -/
theorem honest_stream (v : Variant) (a : Nat) (st : DecState) (store : List Byte) (pieces : List (List Byte))
    (pre junk : List Byte) (o : DecOut) (hf : Fresh st) (hc : st.curr ≤ store.length)
    (hS : store.drop st.curr ++ pieces.flatten = pre ++ 0 :: junk) (hnz : ∀ x ∈ pre, x ≠ 0)
    (h : arrive v a st store pieces = some o) (h1 : o.ret = .val 1) : dec v (pre ++ [0]) = some o.region :=
  arrive_honest' v a st store pieces pre junk o hf hc hS hnz h h1

/-- Honesty over every segmentation in time and space (`arriveSegs`): the stream arrives in arbitrary
    pieces, each appended to the last segment of the iovec array or put into a further segment (empty
    segments included, any base alignments), the decoder is called on the whole array after every
    arrival; from any state between two messages a delivered message is the reference decoding of the
    frame at the input position. -/
theorem honest_segments (v : Variant) (st : DecState) (segs : List Seg) (xs : List Arrival)
    (pre junk : List Byte) (o : DecOut) (hf : Fresh st) (hc : st.curr ≤ (flat segs).length)
    (hS : (flat segs).drop st.curr ++ arrBytes xs = pre ++ 0 :: junk) (hnz : ∀ x ∈ pre, x ≠ 0)
    (h : arriveSegs v st segs xs = some o) (h1 : o.ret = .val 1) : dec v (pre ++ [0]) = some o.region :=
  arriveSegs_honest v st segs xs pre junk o hf hc hS hnz h h1

example : (arriveSegs .cobs {} [] [⟨true, 3, [3, 0x11]⟩, ⟨true, 0, []⟩, ⟨true, 9, [0x22, 2]⟩, ⟨false, 0, [0x33, 0]⟩]).map
    (fun o => (o.ret, o.region)) = some (.val 1, [0x11, 0x22, 0, 0x33]) := by decide

/-- The command text decoder (`mpt_decode_command`) over every arrival pattern: from a state between two
    messages with the two bytes of head room its header needs, whatever the pieces in which the text arrives
    (a call after every arrival, resuming after `0`), the first delivered message is the reference decoding
    (header ++ text) of the frame at the input position. -/
theorem cmd_honest (a : Nat) (pieces : List (List Byte)) (st : DecState) (store body junk : List Byte) (o : DecOut)
    (hlen : st.len - st.msg.getD 0 = 0) (hpos : 2 ≤ st.curr) (hle : st.curr ≤ store.length)
    (hS : store.drop st.curr ++ pieces.flatten = body ++ 0 :: junk) (hnz : ∀ x ∈ body, x ≠ 0)
    (h : arriveCmd a st store pieces = some o) (h1 : o.ret = .val 1) : decCmd (body ++ [0]) = some o.region :=
  arriveCmd_honest a pieces st store body junk o hlen hpos hle hS hnz h h1

example : (arriveCmd 0 { curr := 2 } [0xdd, 0xdd] [[0x68], [], [0x69, 0, 7]]).map (fun o => (o.ret, o.region))
    = some (.val 1, [0x04, 0x20, 0x68, 0x69]) := by decide

/-- malformed input is never turned into a message: when the reference decoder rejects the frame (zero
    inside a block for the plain framings, leading or doubled delimiter, …) the call does not deliver -/
theorem no_invention (v : Variant) (st : DecState) (segs : List Seg) (pre junk : List Byte) (hf : Fresh st)
    (hin : (flat segs).drop st.curr = pre ++ 0 :: junk) (hnz : ∀ x ∈ pre, x ≠ 0)
    (hbad : dec v (pre ++ [0]) = none) : (decodeV v st segs false).ret ≠ .val 1 := by
  intro h1
  have := (honest_call v st segs pre junk hf hin hnz h1).1
  rw [hbad] at this
  simp at this

example : dec .cobs [3, 0x61, 0] = none ∧ (decodeV .cobs {} [(0, [3, 0x61, 0, 0x62, 0])] false).ret = .err .MissingData := by decide
example : dec .cobs [0] = none ∧ (decodeV .cobs {} [(0, [0, 2, 0x61, 0])] false).ret = .err .BadValue := by decide

/-! ### the states the decoders reach -/

/-- The set of decoder states with consistent offsets (`pos + len ≤ curr ≤ storage size`, a waiting message
    is exactly the decoded data — this contains `WF`) is closed under every call, whatever it returns: the
    states reached by resuming after any return code — 0, 1, MissingData, MissingBuffer, BadValue, … — are
    all covered by `terminates` and `write_behind_read`. -/
theorem state_closed (v : Variant) (st : DecState) (segs : List Seg) (peek : Bool)
    (h : Bnd (total segs peek) st) : Bnd (total segs peek) (decodeV v st segs peek).st ∧ WF (decodeV v st segs peek).st :=
  ⟨decodeV_bnd v st segs peek h, (decodeV_bnd v st segs peek h).msg⟩

example : Bnd 4 ({} : DecState) := ⟨by decide, by decide, by simp⟩

/-- A complete well-formed frame at the input position of a decoder between two messages is delivered, and
    the message is the reference decoding, provided the head room in front of the input position exceeds
    the frame body by the alignment margin; without that head room the only other answer is the request for
    work area — never "wait for data", never "broken", never another message. -/
theorem delivers (v : Variant) (st : DecState) (segs : List Seg) (pre junk msg : List Byte)
    (hb : Bnd (flat segs).length st) (hf : Fresh st)
    (hin : (flat segs).drop st.curr = pre ++ 0 :: junk) (hnz : ∀ x ∈ pre, x ≠ 0)
    (hdec : dec v (pre ++ [0]) = some msg) :
    (((decodeV v st segs false).ret = .val 1 ∧ (decodeV v st segs false).region = msg) ∨
      (decodeV v st segs false).ret = .err .MissingBuffer) ∧
    (st.pos + st.len + pre.length + 15 ≤ st.curr →
      (decodeV v st segs false).ret = .val 1 ∧ (decodeV v st segs false).region = msg) := by
  constructor
  · rcases decodeV_accepts v st segs pre junk msg hb hf hin hnz hdec with ⟨a, b, _⟩ | a
    · exact Or.inl ⟨a, b⟩
    · exact Or.inr a
  · intro hroom
    obtain ⟨a, b, _⟩ := decodeV_delivers v st segs pre junk msg hb hf hin hnz hdec hroom
    exact ⟨a, b⟩

example : (decodeV .zpe {} [(0, [0xe0, 0])] false).ret = .err .MissingBuffer ∧
    (decodeV .zpe { curr := 18 } [(0, List.replicate 18 7 ++ [0xe0, 0])] false).region = [0, 0] := by decide

/-- After a delivery the decoder stands between two messages again (`Fresh`), its input position is exactly
    behind the delimiter of the delivered frame, the unread input is untouched and the storage keeps its
    size: the next call starts with the next frame. -/
theorem after_delivery (v : Variant) (st : DecState) (segs : List Seg) (pre junk : List Byte)
    (hb : Bnd (flat segs).length st) (hf : Fresh st)
    (hin : (flat segs).drop st.curr = pre ++ 0 :: junk) (hnz : ∀ x ∈ pre, x ≠ 0)
    (h1 : (decodeV v st segs false).ret = .val 1) :
    Fresh (decodeV v st segs false).st ∧ (decodeV v st segs false).st.curr = st.curr + pre.length + 1 ∧
    (decodeV v st segs false).store.drop (decodeV v st segs false).st.curr = junk ∧
    (decodeV v st segs false).store.length = (flat segs).length ∧
    dec v (pre ++ [0]) = some (decodeV v st segs false).region :=
  decodeV_next v st segs pre junk hb hf hin hnz h1

/-- A delimiter where a frame should start (leading or doubled delimiter) is answered with BadValue, exactly
    that byte is consumed, nothing is stored, and the decoder stands between two messages again. -/
theorem after_refusal (v : Variant) (st : DecState) (segs : List Seg) (tl : List Byte)
    (hb : Bnd (flat segs).length st) (hf : Fresh st) (hin : (flat segs).drop st.curr = 0 :: tl) :
    (decodeV v st segs false).ret = .err .BadValue ∧ Fresh (decodeV v st segs false).st ∧
    (decodeV v st segs false).st.curr = st.curr + 1 ∧ (decodeV v st segs false).store = flat segs :=
  decodeV_skip v st segs tl hb hf hin

/-- Honesty for every frame of a stream, not only the first: calling the decoder again and again on the same
    storage (`decodeAll`), the k-th delivered message is the reference decoding of the k-th frame — no frame
    is skipped, merged or delivered twice, whatever follows the frames. -/
theorem honest_frames (v : Variant) (a : Nat) (frames : List (List Byte)) (n : Nat) (st : DecState)
    (store junk : List Byte) (hb : Bnd store.length st) (hf : Fresh st)
    (hin : store.drop st.curr = (frames.map (· ++ [0])).flatten ++ junk) (hnz : ∀ p ∈ frames, ∀ x ∈ p, x ≠ 0)
    (k : Nat) (hk : k ≤ frames.length) (hk2 : k ≤ (decodeAll v a n st store).length) :
    ((decodeAll v a n st store).take k).map some = (frames.take k).map (fun p => dec v (p ++ [0])) :=
  decodeAll_honest v a frames n st store junk hb hf hin hnz k hk hk2

example : decodeAll .cobs 0 5 {} [2, 0x61, 0, 1, 0, 3, 0x62, 0x63, 0] = [[0x61], [], [0x62, 0x63]] := by decide

/-! ### the command text decoder (`mpt_decode_command`) -/

/-- Safety of the command decoder model for every state, every byte string, every segmentation and both
    modes: it never faults; the storage keeps its size; every store hits an index inside the storage and in
    front of the input position `curr` (the two header bytes — the already-consumed part), and only when a new
    message starts; the loads happen at strictly increasing indices from `curr` on, inside the storage (so the
    scan ends); every byte not stored to is unchanged; in peek mode, and while a message is continued, nothing
    is stored at all. -/
theorem cmd_safe (st : DecState) (segs : List Seg) (peek : Bool) :
    (decodeCommand st segs peek).ret ≠ .oob ∧ (decodeCommand st segs peek).ret ≠ .clobber ∧
    (decodeCommand st segs peek).store.length = total segs peek ∧
    (∀ x ∈ (decodeCommand st segs peek).writes, x.1 < x.2 ∧ x.2 = st.curr ∧ x.1 < total segs peek) ∧
    ((decodeCommand st segs peek).reads.Pairwise (· < ·) ∧
      ∀ x ∈ (decodeCommand st segs peek).reads, st.curr ≤ x ∧ x < total segs peek) ∧
    (∀ i, (∀ x ∈ (decodeCommand st segs peek).writes, x.1 ≠ i) →
      (decodeCommand st segs peek).store[i]? = (flat (if peek then segs.take 1 else segs))[i]?) ∧
    ((peek = true ∨ st.len - st.msg.getD 0 ≠ 0) →
      (decodeCommand st segs peek).writes = [] ∧
      (decodeCommand st segs peek).store = flat (if peek then segs.take 1 else segs)) :=
  let h := decodeCommand_safe st segs peek
  ⟨h.nofault.1, h.nofault.2, h.len, h.writes, h.reads, h.keep, h.pure⟩

example : (decodeCommand { curr := 2 } [(0, [9, 9]), (0, [0x68, 0, 7])] false).writes = [(0, 2), (1, 2)] ∧
    (decodeCommand { curr := 3 } [(0, [0x61, 0])] false).writes = [(1, 3)] := by decide

/-- the size query (`source == NULL`, `sourcelen != 0`) changes nothing (there is no storage argument); the
    model returns the state unchanged in that branch, so this restates the definition — the tie to the code
    is the `dec size n` op of the run -/
theorem query_pure (v : Variant) (st : DecState) (n : Nat) (h : n ≠ 0) : (decodeQuery v st n).2 = st := by
  simp [decodeQuery, h]

example : (decodeQuery .zpe { len := 2 } 5).1 = .val 12 := by decide

/-- The reset (`source == NULL`, `sourcelen == 0`) leaves a decoder between two messages, whatever state it
    was in — stuck on an inline zero, inside a block, asking for work area: the open block and the partial
    message are dropped (a delivered message that is still waiting stays), input position and offsets stay
    consistent.  All statements about `Fresh` states (`honest_call`, `delivers`, `after_delivery`,
    `honest_frames`, …) therefore apply to what arrives after a reset: bytes of an abandoned frame never get
    into a later message. -/
theorem reset_fresh (v : Variant) (st : DecState) (hwf : WF st) :
    Fresh (decodeQuery v st 0).2 ∧ (decodeQuery v st 0).2.curr = st.curr ∧ (decodeQuery v st 0).2.pos = st.pos ∧
    (decodeQuery v st 0).2.msg = st.msg ∧ ∀ total, Bnd total st → Bnd total (decodeQuery v st 0).2 := by
  simp only [decodeQuery, if_true]
  refine ⟨⟨rfl, ?_, ?_⟩, trivial, trivial, trivial, ?_⟩
  · intro hn; simp only at hn ⊢; simp [hn]
  · intro m hm; simp only at hm ⊢; simp [hm]; exact hwf m hm
  · intro total hb
    refine ⟨?_, hb.tot, ?_⟩
    · have := hb.le; simp only; split <;> omega
    · intro m hm; simp only at hm ⊢; simp [hm]; exact hb.msg m hm

example : (decodeQuery .cobs { ctx := 0x205, curr := 3, pos := 0, len := 2 } 0).2 = { curr := 3 } := by decide

/-- full statement of the header comment "Pass sourcelen = 0 … No data change is performed":
    peek mode returns the storage unchanged -/
def peek_pure_statement : Prop :=
  ∀ (v : Variant) (st : DecState) (seg : Seg), WF st → (decodeV v st [seg] true).store = seg.2

/-- it does not hold for the code as written: peek mode decodes the rest of the open block in place -/
theorem peek_pure_counterexample : ¬ peek_pure_statement := by
  intro h
  have := h .cobs { ctx := 3, curr := 2, pos := 0, len := 1 } (0, [0x61, 0xdd, 0x62, 0]) (by simp [WF])
  revert this
  decide

/-- what does hold in peek mode: no message is started or dropped — with a delivered message waiting, or
    no message in progress, the call is refused and neither state nor storage change -/
theorem peek_pure_partial (v : Variant) (st : DecState) (seg : Seg)
    (h : st.msg.isSome ∨ st.len = 0) :
    (decodeV v st [seg] true).store = seg.2 ∧
    ((decodeV v st [seg] true).ret = .err .BadOperation ∨ (decodeV v st [seg] true).ret = .err .BadArgument) := by
  have hflat : flat [seg] = seg.2 := by simp [flat]
  have hprep : ∃ e st', decPrep st [seg] (flat [seg]) true = .inl (e, st') ∧ (e = .BadOperation ∨ e = .BadArgument) := by
    unfold decPrep
    simp only
    split
    · exact ⟨_, _, rfl, Or.inr rfl⟩
    split
    · exact ⟨_, _, rfl, Or.inl rfl⟩
    · rename_i _ hm
      have hnone : st.msg = none := by
        cases hs : st.msg with
        | none => rfl
        | some m => simp [hs] at hm
      have hl : st.len = 0 := by
        rcases h with h | h
        · simp [hnone] at h
        · exact h
      have : (decPrev st).2.2 = 0 := by simp [decPrev, hnone, hl]
      rw [if_pos this]
      exact ⟨_, _, rfl, Or.inl rfl⟩
  obtain ⟨e, st', he, hor⟩ := hprep
  have hcobs : decodeCobs v st [seg] true = { ret := .err e, st := st', store := flat [seg] } := by
    unfold decodeCobs
    simp only [if_true, List.take_one, List.head?_cons, Option.toList_some, he]
  unfold decodeV
  cases ht : v.tail
  · simp only [Bool.false_eq_true, if_false, hcobs, hflat]
    rcases hor with rfl | rfl <;> simp
  · simp only [if_true]
    unfold decodeCobsR
    simp only [hcobs]
    rw [if_neg (by simp; intro h; exact absurd h (by rcases hor with rfl | rfl <;> simp))]
    simp only [hflat]
    rcases hor with rfl | rfl <;> simp


/-- What a peek call may change, for a decoder in the middle of a frame (`Hist`: the state stands for a
    machine run over the bytes `c0 :: U` of the frame consumed so far; `store` is the first segment — peek
    looks at one segment only).  The call never delivers; `data.pos` and `data.msg` keep their values; the
    storage keeps its size and everything in front of the end of the decoded data (`pos + len`) — in
    particular the bytes decoded so far — is untouched; and when it returns 0 it has only moved on inside the
    open block: `curr` and `len` have grown, the unread input from the new `curr` on is untouched, and the
    new state stands for the *same* machine run (`Hist` again), so a later normal call continues exactly as
    if the peek had not happened.  (Stores happen only in `[pos+len, curr_new)`: see `write_behind_read`.) -/
theorem peek_effect (v : Variant) (c0 : Nat) (U : List Byte) (st : DecState) (store : List Byte) (segs : List Seg)
    (hflat : flat (segs.take 1) = store) (h : Hist v c0 U st store) :
    (decodeV v st segs true).ret ≠ .val 1 ∧
    (decodeV v st segs true).store.length = store.length ∧
    (decodeV v st segs true).st.pos = st.pos ∧ (decodeV v st segs true).st.msg = st.msg ∧
    (decodeV v st segs true).store.take (st.pos + st.len) = store.take (st.pos + st.len) ∧
    ((decodeV v st segs true).ret = .val 0 →
      Hist v c0 U (decodeV v st segs true).st (decodeV v st segs true).store ∧
      st.curr ≤ (decodeV v st segs true).st.curr ∧ st.len ≤ (decodeV v st segs true).st.len ∧
      (decodeV v st segs true).store.drop (decodeV v st segs true).st.curr = store.drop (decodeV v st segs true).st.curr) :=
  peek_histV v c0 U st store segs hflat h

example : ((decodeV .cobs { ctx := 260, curr := 2, pos := 0, len := 1 } [(0, [0x61, 0xdd, 0x62, 0x63, 0])] true).st,
           (decodeV .cobs { ctx := 260, curr := 2, pos := 0, len := 1 } [(0, [0x61, 0xdd, 0x62, 0x63, 0])] true).store)
    = ({ ctx := 3 * 256 + 4, curr := 4, pos := 0, len := 3 }, [0x61, 0x62, 0x63, 0x63, 0]) := by decide

end Mpt.C03
