/-
  C03 — decoders are safe and honest on arbitrary bytes.  Property theorems only
  (helper lemmas: Lemmas/Decode.lean).
-/
import MptModel.Impl.Decode
namespace Mpt.C03
open Mpt.Cobs Mpt.Codec

/-- the size query (`source == NULL`, `sourcelen != 0`) changes nothing (there is no storage argument) -/
theorem query_pure (v : Variant) (st : DecState) (n : Nat) (h : n ≠ 0) : (decodeQuery v st n).2 = st := by
  simp [decodeQuery, h]

example : (decodeQuery .zpe { len := 2 } 5).1 = .val 12 := by decide

end Mpt.C03
