/-
  C05 — managed elements in typed buffers are finalised exactly once.

  The model is `Impl/Heap.lean` with element callbacks (those of the harness: a constructor takes the next
  token, writes it into the element and logs it, and may be refused by a schedule; a destructor logs the token
  it finds and scribbles over the element).  S = `Spec/Tokens.lean`: a set of live tokens; `replay` below is
  its transition function on callback events.

  Proved here, bottom-up, one lemma per loop of the C code (`Lemmas/Tok*.lean`): the destructor loop, the three
  loops of `mpt_buffer_set` (overwritten elements, gap construction, copy construction with fallback), the gap loop
  and memmove of `mpt_buffer_insert`, the memmove of `mpt_buffer_cut`, the grow loop of `mpt_array_slice`, the
  element-wise copy and the move of `detach`, the copy / clear / retype paths of `mpt_array_reserve` — each for
  all element sizes ≥ 4, counts, positions and EVERY constructor-failure schedule.  On top of these:
  `exactly_once` (one operation of `EOp`: reserve, slice, insert, set with/without sources, cut, clone, drop, detach,
  reduce, buffer-level set with/without sources), `exactly_once_history` (whole histories; nothing is alive after the
  last handle is dropped), `ctor_failure`, `cxx_exactly_once` (every C++ operation of `XEOp`: resize, trim, skip,
  insert by default / placement / copy of a caller's element, reserve, detach, assignment, destruction) and
  `exactly_once_history_cxx` (histories mixing both alphabets).

  Scope, stated honestly: the theorems speak about heaps in which EVERY live buffer holds managed elements of the
  harness token type (constructor, destructor, ≥ 4 bytes), about `slice`/`insert` on handles that hold a buffer, and
  about runs whose token counter stays below 2^32 (tokens are 32 bit in the elements).  Not covered by any theorem
  (correspondence run only): heaps that also hold plain buffers, destructor-only element types (`f8`,
  `reference_array<T>`), the library's own element types (arrays of arrays, metatype references: model
  `Impl/Refs.lean`), `buffer::copy` / `buffer::move` (not modelled, not driven).  The judgement the model driver
  applies in the run (`Driver/Array.lean` `judge`) is `replay` plus "live set = stored tokens", i.e. the objects of
  these theorems.
-/
import MptModel.Lemmas.HeapElem
import MptModel.Lemmas.HeapHist
import MptModel.Lemmas.TokHist
import MptModel.Lemmas.TokXX
import MptModel.Impl.HeapXX
import MptModel.Impl.Refs
import MptModel.Spec.Tokens
namespace Mpt.C05
open Mpt Mpt.Heap

/-- destroying exactly the tokens `toks` (each alive, pairwise distinct, apart from `rest`) is legal and
    leaves exactly `rest` alive -/
theorem replay_fini (toks rest : List Nat) (nd : (toks ++ rest).Nodup) :
    replay (toks ++ rest) (toks.map Ev.fini) = some rest := by
  induction toks with
  | nil => rfl
  | cons t ts ih =>
    simp only [List.map_cons, replay, List.cons_append]
    have live : Tokens.isLive (t :: (ts ++ rest)) t = true := by simp [Tokens.isLive]
    rw [if_pos live]
    have : Tokens.destroy (t :: (ts ++ rest)) t = ts ++ rest := by simp [Tokens.destroy]
    rw [this]
    exact ih (List.nodup_cons.mp nd).2

example : replay [1, 2, 3, 9] ([1, 2, 3].map Ev.fini) = some [9] := by decide

/-- every argument of the destructor loop is an element slot of the range it was given: the tokens logged are
    those stored in the `n` elements from `pos` on, each once, in order; memory outside is untouched -/
theorem fini_only_elements (n : Nat) (s : State) (b pos sz : Nat) (x : Buf) (hb : s.buf? b = some x)
    (fit : pos + n * sz ≤ x.size) :
    ∃ s' d', finiLoop n s b pos sz = .ok s' () ∧ OnlyBuf s s' b ∧
      s'.log = s.log ++ (toksAt x.data pos sz n).map Ev.fini ∧
      s'.buf? b = some { x with data := d' } ∧
      (∀ i, i < pos ∨ pos + n * sz ≤ i → d'.getD i 0 = x.data.getD i 0) := by
  obtain ⟨s', d', h1, h2, h3, h4, _, h6⟩ := finiLoop_spec n s b pos sz x hb fit
  exact ⟨s', d', h1, h2, h3, h4, h6⟩

/-- exactly once, release: when the last handle of a buffer with destructor is dropped, the new events are
    the destruction of exactly its stored tokens; replayed on a live set that consists of these tokens and
    others, exactly the others stay alive (so after the last handle nothing of the buffer is alive, nothing
    is destroyed twice and no other element is touched); the buffer is freed -/
theorem exactly_once_partial {s : State} {h b : Nat} {x : Buf} {t : Traits} (hh : s.handle h = some b)
    (hb : s.buf? b = some x) (hr : x.ref = 1) (ht : x.traits = some t) (hf : t.fini.isSome = true)
    (hsz : t.size ≠ 0) (hu : x.used ≤ x.size) (rest : List Nat) (nd : (x.toks ++ rest).Nodup) :
    ∃ s', arrayClone s h none = .ok s' 2 ∧ s'.buf? b = none ∧ s'.handle h = none ∧
      (∀ c, c ≠ b → s'.buf? c = s.buf? c) ∧
      s'.log = s.log ++ x.toks.map Ev.fini ∧
      replay (x.toks ++ rest) (s'.log.drop s.log.length) = some rest := by
  have hlt := State.handle_lt hh
  unfold arrayClone replaceBuf
  simp only [hh]
  have hb0 : (s.setHandle h none).buf? b = some x := hb
  obtain ⟨s', hu', hnone, hoth, hhs, _, _, hlog⟩ := unref_last_managed hb0 hr ht hf hsz hu
  rw [hu']
  refine ⟨s', rfl, hnone, ?_, hoth, hlog, ?_⟩
  · have := State.handle_setHandle s h h none hlt
    simp only [State.handle] at this ⊢
    rw [hhs]; simpa using this
  · rw [hlog]
    have : (s.setHandle h none).log = s.log := rfl
    rw [this, List.drop_left]
    exact replay_fini _ _ nd

/-- copy construction: detaching a shared typed buffer (no refused constructor) copy-constructs every element:
    the source buffer keeps its elements and loses one reference, the new private buffer stores the fresh
    tokens `next .. next+k-1`, one per element, each logged as a copy of the token in the corresponding
    source element — no token exists twice, nothing is duplicated as raw bytes; no other buffer changes -/
theorem copy_constructs {s : State} {b : Nat} {x : Buf} {t : Traits} (hb : s.buf? b = some x)
    (xt : x.traits = some t) (ti : t.init = true) (tf : t.fini.isSome = true) (h4 : 4 ≤ t.size)
    (shared : 2 ≤ x.ref) (nc : x.nocopy = false) (k : Nat) (xu : x.used = k * t.size) (hu : x.used ≤ x.size)
    (n : Nat) (hn : x.used ≤ n) (ho : s.oracle = []) (small : s.next + k < 4294967296) :
    ∃ s' z, detach s b n = .ok s' s.bufs.length ∧
      s'.buf? b = some { x with ref := x.ref - 1 } ∧
      s'.buf? s.bufs.length = some z ∧ z.ref = 1 ∧ z.traits = some t ∧ z.used = x.used ∧
      toksAt z.data 0 t.size k = seqFrom s.next k ∧
      (∀ c, c ≠ b → c ≠ s.bufs.length → s'.buf? c = s.buf? c) ∧ s'.hs = s.hs ∧
      s'.next = s.next + k ∧
      s'.log = s.log ++ copyEvs s.next x.content 0 t.size k :=
  detach_copy_constructs hb xt ti tf h4 shared nc k xu hu n hn ho small

/-- the same at the level of `mpt_buffer_set`: copying `k` source elements into an empty typed buffer creates
    `k` fresh tokens `next .. next+k-1`, one per element and stored in that element, each logged as a copy of
    the token in the corresponding source element; nothing is duplicated as raw bytes; no other buffer
    changes -/
theorem copy_constructs_set {s : State} {nb : Nat} {z : Buf} {t : Traits} (hz : s.buf? nb = some z)
    (zt : z.traits = some t) (zu : z.used = 0) (ti : t.init = true) (tf : t.fini.isSome = true) (h4 : 4 ≤ t.size)
    (k : Nat) (bytes : List Byte) (bl : bytes.length = k * t.size) (fit : k * t.size ≤ z.size)
    (ho : s.oracle = []) (small : s.next + k < 4294967296) :
    ∃ s' d', bufferSet s nb (some t) 0 bytes true = .ok s' (Int.ofNat k) ∧ Frame s s' nb ∧ s'.next = s.next + k ∧
      s'.log = s.log ++ copyEvs s.next bytes 0 t.size k ∧
      s'.buf? nb = some { z with data := d', used := k * t.size } ∧
      toksAt d' 0 t.size k = seqFrom s.next k := by
  obtain ⟨s', d', h1, h2, h3, _, h5, h6, h7⟩ := bufferSet_copy_fresh hz zt zu ti tf h4 k bytes bl fit ho small
  exact ⟨s', d', h1, h2, h3, h5, h6, h7⟩

/-- constructor failure, grow loop of `mpt_array_slice`, for EVERY failure schedule: a prefix of `m ≤ n`
    elements is constructed with fresh tokens; if a constructor is refused the used size ends exactly behind
    that prefix (no unconstructed memory inside the used data) and the call fails -/
theorem ctor_failure_partial (n : Nat) (s : State) (b pos sz : Nat) (x : Buf) (hb : s.buf? b = some x)
    (h4 : 4 ≤ sz) (fit : pos + n * sz ≤ x.size) (small : s.next + n < 4294967296) :
    ∃ s' d' m, m ≤ n ∧ Frame s s' b ∧ s'.next = s.next + m ∧
      toksAt d' pos sz m = seqFrom s.next m ∧
      s'.log = s.log ++ (seqFrom s.next m).map Ev.init ++ (if m < n then [Ev.fail] else []) ∧
      ((m = n ∧ initLoopStop n s b pos sz = .ok s' () ∧ s'.buf? b = some { x with data := d' }) ∨
       (m < n ∧ initLoopStop n s b pos sz = .fail s' .null ∧ s'.buf? b = some { x with data := d', used := pos + m * sz })) := by
  obtain ⟨s', d', m, h1, h2, h3, _, h5, _, h7, h8⟩ := initLoopStop_spec n s b pos sz x hb h4 fit small
  exact ⟨s', d', m, h1, h2, h3, h5, h7, h8⟩

/-! ### concrete instances (the hypotheses of the theorems above are met by real runs of the model) -/

/-- harness traits: 4-byte elements with constructor and destructor -/
def m4 : Traits := { id := 6, size := 4, init := true, fini := some 1 }

/-- two elements are constructed, the handle is dropped: both are finalised once, in order -/
example :
    (match arrayReserve { hs := [none], wins := [none] } 0 0 (some m4) with
     | .ok s1 _ => (match arraySlice s1 0 0 8 with
       | .ok s2 _ => (match arrayClone s2 0 none with
         | .ok s3 _ => s3.log
         | _ => [])
       | _ => [])
     | _ => []) = [Ev.init 1, Ev.init 2, Ev.fini 1, Ev.fini 2] := by decide

/-- a shared buffer of two elements is detached: two copy constructions with fresh tokens -/
example :
    (match arrayReserve { hs := [none, none], wins := [none, none] } 0 0 (some m4) with
     | .ok s1 _ => (match arraySlice s1 0 0 8 with
       | .ok s2 _ => (match arrayClone s2 1 (some 0) with
         | .ok s3 _ => (match detachOp s3 1 8 with
           | .ok s4 _ => (s4.log, s4.abs 0, s4.abs 1)
           | _ => ([], [], []))
         | _ => ([], [], []))
       | _ => ([], [], []))
     | _ => ([], [], [])) = ([Ev.init 1, Ev.init 2, Ev.copy 3 1, Ev.copy 4 2], [1, 0, 0, 0, 2, 0, 0, 0], [3, 0, 0, 0, 4, 0, 0, 0]) := by
  decide

/-- the second constructor of a grow by two elements is refused: one element is kept, the call fails -/
example :
    (match arrayReserve { hs := [none], wins := [none], oracle := [false, true] } 0 0 (some m4) with
     | .ok s1 _ => (match arraySlice s1 0 0 8 with
       | .fail s2 _ => (s2.log, s2.abs 0)
       | _ => ([], []))
     | _ => ([], [])) = ([Ev.init 1, Ev.fail], [1, 0, 0, 0]) := by decide

/-! ### the invariant over single operations and whole histories

  Vocabulary (`Lemmas/TokState.lean`, `Lemmas/TokHist.lean`):
  * `Managed t`: the element type has constructor, destructor and at least 4 bytes (room for the token);
  * `InvM s`: handles name live buffers, reference count = number of handles ≥ 1, every live buffer holds
    managed elements, `used ≤ size`, `used` a multiple of the element size;
  * `stored s`: the tokens found in the element slots `[0, used)` of all live buffers;
  * `TokInv s live`: `live` is a permutation of `stored s`, without duplicates, below the token counter;
  * `EOp` / `execE` / `EOp.pre`: the array operations as a caller that handles elements correctly performs
    them, and what that caller has to respect.
  Tokens are 32 bit in the elements: everything about tokens is stated for runs whose token counter stays
  within `tokLimit = 2^32`.  The state `s` is arbitrary, in particular its constructor-failure schedule
  (`s.oracle`): every statement holds under every schedule. -/

/-- exactly once, one operation, every schedule: no fault; the structural invariant is kept; the callback events
    of the operation are legal for the live set (every destructor argument is alive, every copy source is alive,
    every created token is new) and lead to a live set that again is exactly what the buffers store -/
theorem exactly_once (s : State) (live : Tokens.Live) (op : EOp) (inv : InvM s) (ti : TokInv s live) (pre : op.pre s) :
    match execE s op with
    | .fault _ => False
    | .ok s' _ => InvM s' ∧ (s'.next ≤ tokLimit →
        ∃ live', replay live (s'.log.drop s.log.length) = some live' ∧ TokInv s' live')
    | .fail s' _ => InvM s' ∧ (s'.next ≤ tokLimit →
        ∃ live', replay live (s'.log.drop s.log.length) = some live' ∧ TokInv s' live') := by
  have ok := execE_ok (GoodS.of_inv inv ti) op pre
  generalize execE s op = r at ok
  cases r with
  | fault w => exact ok
  | ok s' v => exact ⟨Step.inv ok, fun small => Step.replay ok ti small⟩
  | fail s' e => exact ⟨Step.inv ok, fun small => Step.replay ok ti small⟩

/-- exactly once over whole histories (failed operations included), every schedule: the events of the history
    are legal from the initial live set and end in the live set the buffers store; when the last handle has
    been dropped nothing is alive: every element ever created was destroyed, exactly once -/
theorem exactly_once_history (s s' : State) (live : Tokens.Live) (ops : List EOp) (inv : InvM s) (ti : TokInv s live)
    (hi : Hist s ops s') :
    InvM s' ∧ (s'.next ≤ tokLimit →
      ∃ live', replay live (s'.log.drop s.log.length) = some live' ∧ TokInv s' live' ∧
        ((∀ h, s'.handle h = none) → live' = [])) := by
  have st := hi.step (GoodS.of_inv inv ti)
  refine ⟨st.inv, fun small => ?_⟩
  obtain ⟨live', h1, h2⟩ := st.replay ti small
  refine ⟨live', h1, h2, fun hn => ?_⟩
  have := h2.1
  rw [stored_nil_of_no_handle st.inv hn] at this
  exact List.perm_nil.mp this

/-- constructor failure, every schedule: `detach` (the element-wise copy of a shared buffer; a refused copy
    constructor falls back to default construction, a refused fallback ends the copy) never faults and keeps the
    invariants — no element is lost, duplicated as bytes, or left unconstructed inside the used size.  The same
    holds for `slice`, `insert`, `set` and `reserve` by `exactly_once`. -/
theorem ctor_failure (s : State) (live : Tokens.Live) (h n : Nat) (inv : InvM s) (ti : TokInv s live) :
    match detachOp s h n with
    | .fault _ => False
    | .ok s' _ => InvM s' ∧ (s'.next ≤ tokLimit →
        ∃ live', replay live (s'.log.drop s.log.length) = some live' ∧ TokInv s' live')
    | .fail s' _ => InvM s' ∧ (s'.next ≤ tokLimit →
        ∃ live', replay live (s'.log.drop s.log.length) = some live' ∧ TokInv s' live') := by
  have ok := detachOp_ok (GoodS.of_inv inv ti) h n
  generalize detachOp s h n = r at ok
  cases r with
  | fault w => exact ok
  | ok s' v => exact ⟨Step.inv ok, fun small => Step.replay ok ti small⟩
  | fail s' e => exact ⟨Step.inv ok, fun small => Step.replay ok ti small⟩

/-- the hypotheses are met by a real run: empty heap, one handle -/
example : InvM { hs := [none], wins := [none] } ∧ TokInv { hs := [none], wins := [none] } [] := by
  refine ⟨⟨fun h b e => ?_, fun b x e => ?_, fun b x e => ?_⟩, ?_, List.nodup_nil, fun t ht => by cases ht⟩
  · cases h with
    | zero => simp [State.handle] at e
    | succ h => simp [State.handle] at e
  · simp [State.buf?] at e
  · simp [State.buf?] at e
  · exact List.Perm.refl _

/-! ### C++ layer -/

/-- token element type of the C++ harness (`Elem`, 4 bytes) -/
def xe : Traits := { id := 13, size := 4, init := true, fini := some 3 }

/-- `resize(6); resize(2)` on a `typed_array<Elem>`: `buffer::trim` destroys exactly the four removed elements
    (the input on which the doubled offset of `buffer::trim` was found) -/
example :
    (match uResize { hs := [none], wins := [none] } 0 { t := xe, unique := false } 6 with
     | .ok s1 _ => (match uResize s1 0 { t := xe, unique := false } 2 with
       | .ok s2 _ => s2.log.drop 6
       | _ => [])
     | _ => []) = [Ev.fini 3, Ev.fini 4, Ev.fini 5, Ev.fini 6] := by decide

/-- exactly-once for the C++ layer, every schedule: every operation the harness performs on `typed_array<T>` /
    `unique_array<T>` with a managed element type (`XEOp`: resize, detach + `buffer::trim` / `buffer::skip`,
    insert with default / placement construction, `T val; insert(pos, val)` with its temporary source element,
    reserve, detach, assignment / copy construction, destruction) on an array whose buffer (if any) has the array's
    element type never faults, keeps the structural invariant, and its callback events are legal for the live set
    and lead to the live set the buffers store -/
theorem cxx_exactly_once (s : State) (live : Tokens.Live) (k : XKind) (op : XEOp) (inv : InvM s) (ti : TokInv s live)
    (pre : op.pre s k) :
    match execXE s k op with
    | .fault _ => False
    | .ok s' _ => InvM s' ∧ (s'.next ≤ tokLimit →
        ∃ live', replay live (s'.log.drop s.log.length) = some live' ∧ TokInv s' live')
    | .fail s' _ => InvM s' ∧ (s'.next ≤ tokLimit →
        ∃ live', replay live (s'.log.drop s.log.length) = some live' ∧ TokInv s' live') := by
  have ok := execXE_ok (GoodS.of_inv inv ti) k op pre
  generalize execXE s k op = r at ok
  cases r with
  | fault w => exact ok
  | ok s' v => exact ⟨Step.inv ok, fun small => Step.replay ok ti small⟩
  | fail s' e => exact ⟨Step.inv ok, fun small => Step.replay ok ti small⟩

/-- histories that mix the C operations and the C++ operations (failed ones included): the events of the whole history
    are legal and end in the live set the buffers store; nothing is alive once no handle holds a buffer -/
theorem exactly_once_history_cxx (s s' : State) (live : Tokens.Live) (ops : List (EOp ⊕ (XKind × XEOp))) (inv : InvM s)
    (ti : TokInv s live) (hi : HistX s ops s') :
    InvM s' ∧ (s'.next ≤ tokLimit →
      ∃ live', replay live (s'.log.drop s.log.length) = some live' ∧ TokInv s' live' ∧
        ((∀ h, s'.handle h = none) → live' = [])) := by
  have st := hi.step (GoodS.of_inv inv ti)
  refine ⟨st.inv, fun small => ?_⟩
  obtain ⟨live', h1, h2⟩ := st.replay ti small
  refine ⟨live', h1, h2, fun hn => ?_⟩
  have := h2.1
  rw [stored_nil_of_no_handle st.inv hn] at this
  exact List.perm_nil.mp this

/-- a history of the model that reaches a non-empty state (the hypotheses of the theorems are met along real runs):
    three elements, a shared copy, then a detach under a schedule that refuses the first copy constructor — the
    refused copy falls back to default construction (token 4), the others are copies -/
example : ∃ s', Hist { hs := [none, none], wins := [none, none], oracle := [false, false, false, true] }
    [.reserve 0 0 m4, .slice 0 0 12, .clone 1 0, .detach 1 12] s' ∧
    s'.log = [.init 1, .init 2, .init 3, .fail, .init 4, .copy 5 2, .copy 6 3] := by
  refine ⟨_, .ok ?_ rfl (.ok ?_ rfl (.ok ?_ rfl (.ok ?_ rfl (.nil _)))), by decide⟩
  · exact ⟨by decide, by decide, by decide, by decide⟩
  · show State.handle _ 0 ≠ none; decide
  · show 1 < List.length _; decide
  · trivial

/-! ### buffers of references (arrays of arrays, metatype references; model `Impl/Refs.lean`)

  No general theorem here: the model is tied to array_traits.c / meta_reference_traits.c / array_clone.c by the third
  part of the correspondence (harness/drv_refs.c), where the harness checks after every operation that the reference
  counts of buffers and instances equal the references that exist and that nothing is released twice.  Instances: -/

/-- `mpt_array_clone(&P, &P[0])` with `P -> B -> C(3 tokens)` and `P` the only owner: the handle gets `B`, `P`'s
    buffer is destroyed, `B` and the tokens of `C` stay alive, nothing is finalised (the new reference is taken before
    the old buffer is released) -/
example :
    (let s : Refs.State := { bufs := [some { ref := 1, kind := .tok, elems := [.tok 1, .tok 2, .tok 3] },
                                      some { ref := 1, kind := .arr, elems := [.arr (some 0)] },
                                      some { ref := 1, kind := .arr, elems := [.arr (some 1)] }],
                             hs := [some 2], next := 4 }
     let r := Refs.arrayClone s 0 (some 1) false
     (r.2, r.1.handle 0, (r.1.buf? 2).isSome, (r.1.buf? 1).map (·.ref), (r.1.buf? 0).map (·.ref), r.1.log)) =
      (3, some 1, false, some 1, some 1, []) := by decide

/-- copying references to a sharable and a single-owner instance: the sharable one gets a second reference, the
    single-owner one refuses and the copy holds an empty element instead (it is released once, by its only owner) -/
example :
    (let s : Refs.State := { objs := [{ refs := 1, sharable := true }, { refs := 1, sharable := false }] }
     let r := Refs.copyElems s [.mref (some 1), .mref (some 2)]
     (r.2, r.1.objs.map (·.refs), r.1.log)) =
      ([.mref (some 1), .mref none], [2, 1], [.addref 1, .refuse 2]) := by decide

end Mpt.C05
