/-
  C05 — managed elements in typed buffers are finalised exactly once.

  The model is `Impl/Heap.lean` with element callbacks (those of the harness: a constructor takes the next
  token, writes it into the element and logs it, and may be refused by a schedule; a destructor logs the token
  it finds and scribbles over the element).  S = `Spec/Tokens.lean`: a set of live tokens; `replay` below is
  its transition function on callback events.

  Proved here (for all states, element sizes ≥ 4, element counts, positions and — where stated — all
  constructor-failure schedules): the destructor loops hand exactly the stored elements to the destructor;
  releasing the last reference finalises every stored element exactly once and nothing else; an element-wise
  copy creates one fresh token per element; a refused constructor in the grow loop leaves exactly the
  constructed elements inside the used size.  The invariant over whole histories is stated
  (`exactly_once_statement`) but not proved; it is checked on every script by the correspondence harness
  (both drivers evaluate `replay` and the stored-token comparison after every operation).
-/
import MptModel.Lemmas.HeapElem
import MptModel.Lemmas.HeapHist
import MptModel.Impl.HeapXX
import MptModel.Spec.Tokens
namespace Mpt.C05
open Mpt Mpt.Heap

/-- destroying exactly the tokens `toks` (each alive, pairwise distinct, apart from `rest`) is legal and
    leaves exactly `rest` alive -/
theorem replay_fini (toks rest : List Nat) (nd : (toks ++ rest).Nodup) :
    replay (toks ++ rest) (toks.map Ev.fini) = some rest := by
  induction toks with
  | nil => rfl
  | cons t ts ih =>
    simp only [List.map_cons, replay, List.cons_append]
    have live : Tokens.isLive (t :: (ts ++ rest)) t = true := by simp [Tokens.isLive]
    rw [if_pos live]
    have : Tokens.destroy (t :: (ts ++ rest)) t = ts ++ rest := by simp [Tokens.destroy]
    rw [this]
    exact ih (List.nodup_cons.mp nd).2

example : replay [1, 2, 3, 9] ([1, 2, 3].map Ev.fini) = some [9] := by decide

/-- every argument of the destructor loop is an element slot of the range it was given: the tokens logged are
    those stored in the `n` elements from `pos` on, each once, in order; memory outside is untouched -/
theorem fini_only_elements (n : Nat) (s : State) (b pos sz : Nat) (x : Buf) (hb : s.buf? b = some x)
    (fit : pos + n * sz ≤ x.size) :
    ∃ s' d', finiLoop n s b pos sz = .ok s' () ∧ OnlyBuf s s' b ∧
      s'.log = s.log ++ (toksAt x.data pos sz n).map Ev.fini ∧
      s'.buf? b = some { x with data := d' } ∧
      (∀ i, i < pos ∨ pos + n * sz ≤ i → d'.getD i 0 = x.data.getD i 0) := by
  obtain ⟨s', d', h1, h2, h3, h4, _, h6⟩ := finiLoop_spec n s b pos sz x hb fit
  exact ⟨s', d', h1, h2, h3, h4, h6⟩

/-- exactly once, release: when the last handle of a buffer with destructor is dropped, the new events are
    the destruction of exactly its stored tokens; replayed on a live set that consists of these tokens and
    others, exactly the others stay alive (so after the last handle nothing of the buffer is alive, nothing
    is destroyed twice and no other element is touched); the buffer is freed -/
theorem exactly_once_partial {s : State} {h b : Nat} {x : Buf} {t : Traits} (hh : s.handle h = some b)
    (hb : s.buf? b = some x) (hr : x.ref = 1) (ht : x.traits = some t) (hf : t.fini.isSome = true)
    (hsz : t.size ≠ 0) (hu : x.used ≤ x.size) (rest : List Nat) (nd : (x.toks ++ rest).Nodup) :
    ∃ s', arrayClone s h none = .ok s' 2 ∧ s'.buf? b = none ∧ s'.handle h = none ∧
      (∀ c, c ≠ b → s'.buf? c = s.buf? c) ∧
      s'.log = s.log ++ x.toks.map Ev.fini ∧
      replay (x.toks ++ rest) (s'.log.drop s.log.length) = some rest := by
  have hlt := State.handle_lt hh
  unfold arrayClone replaceBuf
  simp only [hh]
  have hb0 : (s.setHandle h none).buf? b = some x := hb
  obtain ⟨s', hu', hnone, hoth, hhs, _, _, hlog⟩ := unref_last_managed hb0 hr ht hf hsz hu
  rw [hu']
  refine ⟨s', rfl, hnone, ?_, hoth, hlog, ?_⟩
  · have := State.handle_setHandle s h h none hlt
    simp only [State.handle] at this ⊢
    rw [hhs]; simpa using this
  · rw [hlog]
    have : (s.setHandle h none).log = s.log := rfl
    rw [this, List.drop_left]
    exact replay_fini _ _ nd

/-- copy construction: detaching a shared typed buffer (no refused constructor) copy-constructs every element:
    the source buffer keeps its elements and loses one reference, the new private buffer stores the fresh
    tokens `next .. next+k-1`, one per element, each logged as a copy of the token in the corresponding
    source element — no token exists twice, nothing is duplicated as raw bytes; no other buffer changes -/
theorem copy_constructs {s : State} {b : Nat} {x : Buf} {t : Traits} (hb : s.buf? b = some x)
    (xt : x.traits = some t) (ti : t.init = true) (tf : t.fini.isSome = true) (h4 : 4 ≤ t.size)
    (shared : 2 ≤ x.ref) (nc : x.nocopy = false) (k : Nat) (xu : x.used = k * t.size) (hu : x.used ≤ x.size)
    (n : Nat) (hn : x.used ≤ n) (ho : s.oracle = []) (small : s.next + k < 4294967296) :
    ∃ s' z, detach s b n = .ok s' s.bufs.length ∧
      s'.buf? b = some { x with ref := x.ref - 1 } ∧
      s'.buf? s.bufs.length = some z ∧ z.ref = 1 ∧ z.traits = some t ∧ z.used = x.used ∧
      toksAt z.data 0 t.size k = seqFrom s.next k ∧
      (∀ c, c ≠ b → c ≠ s.bufs.length → s'.buf? c = s.buf? c) ∧ s'.hs = s.hs ∧
      s'.next = s.next + k ∧
      s'.log = s.log ++ copyEvs s.next x.content 0 t.size k :=
  detach_copy_constructs hb xt ti tf h4 shared nc k xu hu n hn ho small

/-- the same at the level of `mpt_buffer_set`: copying `k` source elements into an empty typed buffer creates
    `k` fresh tokens `next .. next+k-1`, one per element and stored in that element, each logged as a copy of
    the token in the corresponding source element; nothing is duplicated as raw bytes; no other buffer
    changes -/
theorem copy_constructs_set {s : State} {nb : Nat} {z : Buf} {t : Traits} (hz : s.buf? nb = some z)
    (zt : z.traits = some t) (zu : z.used = 0) (ti : t.init = true) (tf : t.fini.isSome = true) (h4 : 4 ≤ t.size)
    (k : Nat) (bytes : List Byte) (bl : bytes.length = k * t.size) (fit : k * t.size ≤ z.size)
    (ho : s.oracle = []) (small : s.next + k < 4294967296) :
    ∃ s' d', bufferSet s nb (some t) 0 bytes true = .ok s' (Int.ofNat k) ∧ Frame s s' nb ∧ s'.next = s.next + k ∧
      s'.log = s.log ++ copyEvs s.next bytes 0 t.size k ∧
      s'.buf? nb = some { z with data := d', used := k * t.size } ∧
      toksAt d' 0 t.size k = seqFrom s.next k := by
  obtain ⟨s', d', h1, h2, h3, _, h5, h6, h7⟩ := bufferSet_copy_fresh hz zt zu ti tf h4 k bytes bl fit ho small
  exact ⟨s', d', h1, h2, h3, h5, h6, h7⟩

/-- constructor failure, grow loop of `mpt_array_slice`, for EVERY failure schedule: a prefix of `m ≤ n`
    elements is constructed with fresh tokens; if a constructor is refused the used size ends exactly behind
    that prefix (no unconstructed memory inside the used data) and the call fails -/
theorem ctor_failure_partial (n : Nat) (s : State) (b pos sz : Nat) (x : Buf) (hb : s.buf? b = some x)
    (h4 : 4 ≤ sz) (fit : pos + n * sz ≤ x.size) (small : s.next + n < 4294967296) :
    ∃ s' d' m, m ≤ n ∧ Frame s s' b ∧ s'.next = s.next + m ∧
      toksAt d' pos sz m = seqFrom s.next m ∧
      s'.log = s.log ++ (seqFrom s.next m).map Ev.init ++ (if m < n then [Ev.fail] else []) ∧
      ((m = n ∧ initLoopStop n s b pos sz = .ok s' () ∧ s'.buf? b = some { x with data := d' }) ∨
       (m < n ∧ initLoopStop n s b pos sz = .fail s' .null ∧ s'.buf? b = some { x with data := d', used := pos + m * sz })) := by
  obtain ⟨s', d', m, h1, h2, h3, _, h5, _, h7, h8⟩ := initLoopStop_spec n s b pos sz x hb h4 fit small
  exact ⟨s', d', m, h1, h2, h3, h5, h7, h8⟩

/-! ### concrete instances (the hypotheses of the theorems above are met by real runs of the model) -/

/-- harness traits: 4-byte elements with constructor and destructor -/
def m4 : Traits := { id := 6, size := 4, init := true, fini := some 1 }

/-- two elements are constructed, the handle is dropped: both are finalised once, in order -/
example :
    (match arrayReserve { hs := [none], wins := [none] } 0 0 (some m4) with
     | .ok s1 _ => (match arraySlice s1 0 0 8 with
       | .ok s2 _ => (match arrayClone s2 0 none with
         | .ok s3 _ => s3.log
         | _ => [])
       | _ => [])
     | _ => []) = [Ev.init 1, Ev.init 2, Ev.fini 1, Ev.fini 2] := by decide

/-- a shared buffer of two elements is detached: two copy constructions with fresh tokens -/
example :
    (match arrayReserve { hs := [none, none], wins := [none, none] } 0 0 (some m4) with
     | .ok s1 _ => (match arraySlice s1 0 0 8 with
       | .ok s2 _ => (match arrayClone s2 1 (some 0) with
         | .ok s3 _ => (match detachOp s3 1 8 with
           | .ok s4 _ => (s4.log, s4.abs 0, s4.abs 1)
           | _ => ([], [], []))
         | _ => ([], [], []))
       | _ => ([], [], []))
     | _ => ([], [], [])) = ([Ev.init 1, Ev.init 2, Ev.copy 3 1, Ev.copy 4 2], [1, 0, 0, 0, 2, 0, 0, 0], [3, 0, 0, 0, 4, 0, 0, 0]) := by
  decide

/-- the second constructor of a grow by two elements is refused: one element is kept, the call fails -/
example :
    (match arrayReserve { hs := [none], wins := [none], oracle := [false, true] } 0 0 (some m4) with
     | .ok s1 _ => (match arraySlice s1 0 0 8 with
       | .fail s2 _ => (s2.log, s2.abs 0)
       | _ => ([], []))
     | _ => ([], [])) = ([Ev.init 1, Ev.fail], [1, 0, 0, 0]) := by decide

/-! ### the invariant over histories (stated, not proved) -/

/-- tokens stored in all live buffers -/
def stored (s : State) : List Nat := (s.bufs.filterMap id).flatMap Buf.toks

/-- the live set is exactly what the live buffers store, without duplicates, and below the token counter -/
def TokInv (s : State) (live : Tokens.Live) : Prop :=
  live.Perm (stored s) ∧ live.Nodup ∧ ∀ t ∈ live, t < s.next

/-- structural invariant without the restriction to plain traits -/
def InvE (s : State) : Prop :=
  (∀ h b, s.handle h = some b → ∃ x, s.buf? b = some x) ∧
  (∀ b x, s.buf? b = some x → x.ref = s.hs.count (some b) ∧ 1 ≤ x.ref ∧ x.used ≤ x.size ∧ x.used % esize x.traits = 0)

/-- exactly once over histories, for every constructor-failure schedule: each operation's new events are legal
    for the live set and lead to a live set that again equals what the buffers store -/
def exactly_once_statement : Prop :=
  ∀ (s : State) (live : Tokens.Live) (op : Op), InvE s → TokInv s live → op.handle < s.hs.length →
    match exec s op with
    | .fault _ => False
    | .ok s' _ => InvE s' ∧ ∃ live', replay live (s'.log.drop s.log.length) = some live' ∧ TokInv s' live'
    | .fail s' _ => InvE s' ∧ ∃ live', replay live (s'.log.drop s.log.length) = some live' ∧ TokInv s' live'

/-- constructor failure for every schedule (here for detach; `exactly_once_statement` covers all operations):
    stated only; `ctor_failure_partial` above proves the grow loop, `copy_constructs` assumes no refusal -/
def ctor_failure_statement : Prop :=
  ∀ (s : State) (live : Tokens.Live) (h n : Nat), InvE s → TokInv s live → h < s.hs.length →
    match detachOp s h n with
    | .fault _ => False
    | .ok s' _ => ∃ live', replay live (s'.log.drop s.log.length) = some live' ∧ TokInv s' live'
    | .fail s' _ => ∃ live', replay live (s'.log.drop s.log.length) = some live' ∧ TokInv s' live'

/-! ### C++ layer -/

/-- token element type of the C++ harness (`Elem`, 4 bytes) -/
def xe : Traits := { id := 13, size := 4, init := true, fini := some 3 }

/-- `resize(6); resize(2)` on a `typed_array<Elem>`: `buffer::trim` destroys exactly the four removed elements
    (the input on which the doubled offset of `buffer::trim` was found) -/
example :
    (match uResize { hs := [none], wins := [none] } 0 { t := xe, unique := false } 6 with
     | .ok s1 _ => (match uResize s1 0 { t := xe, unique := false } 2 with
       | .ok s2 _ => s2.log.drop 6
       | _ => [])
     | _ => []) = [Ev.fini 3, Ev.fini 4, Ev.fini 5, Ev.fini 6] := by decide

/-- exactly-once for `buffer::trim` / `buffer::skip` / `content<T>::set_length` and the typed wrappers: stated
    only; the C++ part of the correspondence (kinds te, ue) checks legality of the log after every call -/
def cxx_exactly_once_statement : Prop :=
  ∀ (s : State) (live : Tokens.Live) (h n : Nat) (k : XKind), InvE s → TokInv s live → h < s.hs.length →
    k.t.init = true → k.t.fini.isSome = true →
    ∀ r, (r = uResize s h k n ∨ r = xTrim s h k n ∨ r = xSkip s h k n ∨ r = uInsert s h k (Int.ofNat n) none none) →
    match r with
    | .fault _ => False
    | .ok s' _ => ∃ live', replay live (s'.log.drop s.log.length) = some live' ∧ TokInv s' live'
    | .fail s' _ => ∃ live', replay live (s'.log.drop s.log.length) = some live' ∧ TokInv s' live'

end Mpt.C05
