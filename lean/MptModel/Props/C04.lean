import MptModel.Impl.Heap
import MptModel.Spec.Vec
namespace Mpt.C04
theorem placeholder : True := trivial
end Mpt.C04
