/-
  C04 — copy-on-write arrays behave as independent values.

  Theorems about the implementation model `Impl/Heap.lean` (tied to mptcore/array/*.c by the
  correspondence harness) and the vector spec `Spec/Vec.lean`.  All statements are for every state that
  satisfies the heap invariant, every handle, every operand value and every history; nothing is bounded.

  Scope: buffers without element callbacks (raw data and plain-old-data element types); the operations of
  `Heap.Op`: append, insert, set, slice, cut, buffer-set, clone, drop, detach, reduce, reserve; format-print
  (`printf`) and slice-write (`slice_write`); the C++ wrappers `mpt::array` (`cxx_value_semantics`) and
  `unique_array<T>` / `typed_array<T>` with plain element types (`cxx_typed`).
-/
import MptModel.Lemmas.HeapHist
import MptModel.Lemmas.HeapXX
import MptModel.Lemmas.HeapPrintf
import MptModel.Lemmas.HeapSlice
import MptModel.Lemmas.HeapTyped
import MptModel.Lemmas.HeapValues
import MptModel.Lemmas.HeapSuccess
namespace Mpt.C04
open Mpt Mpt.Heap

/-! ### the heap invariant -/

/-- the initial state (any number of empty handles) satisfies the invariant -/
theorem inv_init (n : Nat) : Inv { hs := List.replicate n none, wins := List.replicate n none } := by
  have hn : ∀ h b, ({ hs := List.replicate n none, wins := List.replicate n none } : State).handle h ≠ some b := by
    intro h b e
    have := State.handle_eq_some.mp e
    simp [List.getElem?_replicate] at this
  have bn : ∀ b x, ({ hs := List.replicate n none, wins := List.replicate n none } : State).buf? b ≠ some x := by
    intro b x e
    simp [State.buf?] at e
  exact ⟨fun h b e => absurd e (hn h b), fun b x e => absurd e (bn b x), fun b x e => absurd e (bn b x),
    fun b x e => absurd e (bn b x), fun b x e => absurd e (bn b x)⟩

example : Inv { hs := List.replicate 3 none, wins := List.replicate 3 none } := inv_init 3

/-- `Inv` (reference count = number of handles naming the buffer, no unreachable buffer, `used ≤ size`,
    whole elements) is preserved by every operation, whether it succeeds or refuses, and no operation
    leaves the buffer memory or touches a freed buffer (`fault`) -/
theorem inv {s : State} (hinv : Inv s) (op : Op) (wf : op.wf s.hs.length) :
    (∀ w, exec s op ≠ .fault w) ∧
    (∀ s' v, exec s op = .ok s' v → Inv s' ∧ s'.hs.length = s.hs.length) ∧
    (∀ s' e, exec s op = .fail s' e → Inv s' ∧ s'.hs.length = s.hs.length) := by
  have sem := exec_sem hinv op wf
  refine ⟨?_, ?_, ?_⟩
  · intro w e; rw [e] at sem; exact sem
  · intro s' v e; rw [e] at sem; exact ⟨sem.1, sem.2.1⟩
  · intro s' e' e; rw [e] at sem; exact ⟨sem.1, sem.2.1⟩

/-- value semantics: a successful operation through handle `h` makes `h` read exactly what the vector
    spec says and leaves what every other handle reads unchanged — whatever buffers are shared -/
theorem value_semantics {s s' : State} (hinv : Inv s) (op : Op) (wf : op.wf s.hs.length) (v : Unit)
    (e : exec s op = .ok s' v) :
    specRel s op (s.abs op.handle) (s'.abs op.handle) ∧ ∀ h', h' ≠ op.handle → s'.abs h' = s.abs h' := by
  have sem := exec_sem hinv op wf
  rw [e] at sem
  exact ⟨sem.2.2.1, sem.2.2.2⟩

/-- the relation proved above is the S column of the correspondence run: the model driver prints, for every
    operation of this alphabet, exactly the alternatives `specAlts` (Spec/ArrayOps.lean) plus "refused, nothing
    changed", and the real code is judged against that list -/
theorem spec_alternatives (s : State) (op : Op) (v v' : Vec.Vec) : specRel s op v v' ↔ v' ∈ specAlts s op v :=
  specRel_iff_alts s op v v'

/-- `reserve` and `detach` keep the value: no truncation, no emptying (state without typed or immutable buffers) -/
example : ¬ specRel {} (.reserve 0 0 none) [1, 2, 3] [] ∧ ¬ specRel {} (.reserve 0 0 none) [1, 2, 3] [1] ∧
    ¬ specRel {} (.detach 0 1) [1, 2, 3] [1] ∧ specRel {} (.reserve 0 0 none) [1, 2, 3] [1, 2, 3] := by
  simp [specRel, typeDiffers, ownerImmutable, State.handle]

/-- success: `Sem` alone would be satisfied by a model that refuses everything.  On a handle that is empty or owns a
    private, mutable buffer of the matching kind (`Free`), append and insert (raw data, any position) and set (plain
    element type, whole elements, position not in front of the data) are NOT refused: they succeed with exactly the
    value of the vector spec.  (Slice: `slice_struct`; on shared buffers success additionally needs a copyable
    buffer.) -/
theorem success {s : State} (hinv : Inv s) {h : Nat} (hlt : h < s.hs.length) :
    (∀ bytes, Free s h none → ∃ s' v, arrayAppend s h bytes = .ok s' v ∧ s'.abs h = Vec.append (s.abs h) bytes) ∧
    (∀ pos bytes, Free s h none → ∃ s' v, insertOp s h pos bytes = .ok s' v ∧ s'.abs h = Vec.insert (s.abs h) pos bytes) ∧
    (∀ t bytes hasSrc off, PlainT (some t) → Free s h (some t) → bytes.length % t.size = 0 →
      Vec.setAt (s.abs h) t.size off bytes ≠ none →
      ∃ s' v, arraySet s h (some t) bytes hasSrc off = .ok s' v ∧ Vec.setAt (s.abs h) t.size off bytes = some (s'.abs h)) := by
  refine ⟨fun bytes fr => ?_, fun pos bytes fr => ?_, fun t bytes hasSrc off pt fr whole inr => ?_⟩
  · obtain ⟨s', v, e, _, a, _⟩ := append_succeeds hinv hlt fr bytes
    exact ⟨s', v, e, a⟩
  · obtain ⟨s', v, e, _, a, _⟩ := insert_succeeds hinv hlt fr pos bytes
    exact ⟨s', v, e, a⟩
  · obtain ⟨s', v, e, _, a, _⟩ := set_succeeds hinv hlt t pt fr bytes hasSrc off whole inr
    exact ⟨s', v, e, a⟩

/-- the operations the run treats as "may not be refused" (`mustSucceed`, Spec/ArrayOps.lean: the decidable form of
    the conditions of `success`, plus a cut inside the data of an own, writable, untyped buffer) are not refused by the
    model; for these the S column of the run has no "refused" alternative -/
theorem must_succeed {s : State} (hinv : Inv s) (op : Op) (wf : op.wf s.hs.length)
    (m : mustSucceed s op (s.abs op.handle) = true) : ∃ s', exec s op = .ok s' () :=
  mustSucceed_ok hinv op wf m

example : mustSucceed { hs := [none], wins := [none] } (.append 0 [1, 2]) [] = true := by decide

/-- the empty handle of the initial state is `Free` for every kind -/
example : Free { hs := [none], wins := [none] } 0 none := Or.inl rfl

/-- refusal: a refused operation changes what no handle reads; and when the arguments fall outside the data
    (the spec relates the current value to no result) the operation is refused -/
theorem refusal {s : State} (hinv : Inv s) (op : Op) (wf : op.wf s.hs.length) :
    (∀ s' e, exec s op = .fail s' e → ∀ h', s'.abs h' = s.abs h') ∧
    ((∀ v', ¬ specRel s op (s.abs op.handle) v') → ∃ s' e, exec s op = .fail s' e) := by
  have sem := exec_sem hinv op wf
  refine ⟨?_, ?_⟩
  · intro s' e' e; rw [e] at sem; exact sem.2.2
  · intro none
    cases e : exec s op with
    | fault w => rw [e] at sem; exact absurd sem id
    | fail s' e' => exact ⟨s', e', rfl⟩
    | ok s' v => rw [e] at sem; exact absurd sem.2.2.1 (none _)

/-- a cut beyond the data and an assignment before the start are such out-of-range arguments -/
theorem refusal_cut_set {s : State} (hinv : Inv s) :
    (∀ h off len, h < s.hs.length → (s.abs h).length < off + len → ∃ s' e, exec s (.cut h off len) = .fail s' e) ∧
    (∀ h t off bytes hasSrc, h < s.hs.length → PlainT (some t) →
      Int.ofNat (s.abs h).length + off * Int.ofNat t.size < 0 → ∃ s' e, exec s (.set h t off bytes hasSrc) = .fail s' e) := by
  refine ⟨?_, ?_⟩
  · intro h off len hlt big
    apply (refusal hinv (.cut h off len) hlt).2
    intro v' hv
    have hv' : Vec.cut (s.abs h) off len = some v' := hv
    unfold Vec.cut at hv'
    by_cases l0 : len = 0
    · subst l0
      rw [if_pos rfl, if_neg (by omega)] at hv'
      cases hv'
    · rw [if_neg l0, if_neg (by omega)] at hv'
      cases hv'
  · intro h t off bytes hasSrc hlt pt neg
    apply (refusal hinv (.set h t off bytes hasSrc) ⟨hlt, pt⟩).2
    intro v' hv
    have hv' : Vec.setAt (s.abs h) t.size off bytes = some v' := hv
    unfold Vec.setAt at hv'
    have offneg : off < 0 := by
      rcases Int.lt_or_le off 0 with l | g
      · exact l
      · have : 0 ≤ off * Int.ofNat t.size := Int.mul_nonneg g (Int.natCast_nonneg _)
        have : (0 : Int) ≤ Int.ofNat (s.abs h).length := Int.natCast_nonneg _
        omega
    simp only [offneg, if_true] at hv'
    rw [if_pos neg] at hv'
    cases hv'

/-- every history of operations over any number of handles: no fault, the invariant holds at the end, and
    the values read through the handles evolve step by step as the vector spec allows (each operation
    either changes nothing — refusal — or rewrites the value of its own handle only) -/
theorem history {s : State} (hinv : Inv s) (ops : List Op) (wf : ∀ op ∈ ops, op.wf s.hs.length) :
    ∃ s', run s ops = some s' ∧ Inv s' ∧ s'.hs.length = s.hs.length ∧ Explained s ops s' := by
  induction ops generalizing s with
  | nil => exact ⟨s, rfl, hinv, rfl, .nil s⟩
  | cons op rest ih =>
    have wop := wf op (List.mem_cons_self)
    have sem := exec_sem hinv op wop
    have hlt := Op.handle_lt wop
    unfold run
    cases e : exec s op with
    | fault w => rw [e] at sem; exact absurd sem id
    | fail s1 e1 =>
      rw [e] at sem
      simp only
      obtain ⟨s2, r2, i2, l2, x2⟩ := ih sem.1 (by intro o ho; rw [sem.2.1]; exact wf o (List.mem_cons_of_mem _ ho))
      refine ⟨s2, r2, i2, by rw [l2, sem.2.1], .cons ?_ x2⟩
      exact Or.inl (absAll_same sem.2.1 sem.2.2)
    | ok s1 v1 =>
      rw [e] at sem
      simp only
      obtain ⟨s2, r2, i2, l2, x2⟩ := ih sem.1 (by intro o ho; rw [sem.2.1]; exact wf o (List.mem_cons_of_mem _ ho))
      refine ⟨s2, r2, i2, by rw [l2, sem.2.1], .cons ?_ x2⟩
      refine Or.inr ⟨s1.abs op.handle, ?_, absAll_set op.handle sem.2.1 hlt sem.2.2.2⟩
      rw [absAll_getD s op.handle hlt]
      exact sem.2.2.1

/-- instance: `b = a; append(a, "de")` on shared data — `a` reads the appended value, `b` the old one -/
example : ∃ s', run { hs := [none, none], wins := [none, none] }
      [.append 0 [0x61, 0x62, 0x63], .clone 1 0, .append 0 [0x64, 0x65]] = some s' ∧
    s'.abs 0 = [0x61, 0x62, 0x63, 0x64, 0x65] ∧ s'.abs 1 = [0x61, 0x62, 0x63] := by
  refine ⟨_, rfl, ?_, ?_⟩ <;> decide

/-! ### `mpt_printf` and `mpt_slice_write`

  `arrayPrintf` runs one or two `arraySlice` calls with lengths computed from the free space, `vsnprintf` into the
  region and an adjustment of the used size; `sliceWrite` has three paths (in place, move to front, fresh buffer) on a
  window of the buffer. -/

/-- format-print (`"%s"`, character buffers): the text is appended, lengths exact; every other handle keeps its
    value; a buffer of another type is refused without a change; nothing faults.  (The second slice can not fail
    once the first one succeeded: the handle then owns a private buffer.) -/
theorem printf (s : State) (h : Nat) (ct : Traits) (text : List Byte) (inv : Inv s) (hlt : h < s.hs.length)
    (pt : PlainT (some ct)) (c1 : ct.size = 1) :
    Sem s h (fun v v' => v' = Vec.append v text) (arrayPrintf s h ct text) :=
  printf_sem inv hlt ct pt c1 text

/-- slice-write: whole blocks are appended to the window of the slice handle — `k ≤ nblk` of them, at least one when
    blocks were offered (all of them when a new buffer is needed); every array handle other than the slice's own keeps
    its value (the window is `s.wins[h]` on the buffer of `h`; what `h` reads as an array is its buffer, which the
    move-to-front path cuts down to the window; what the array holds behind the window is scratch space: afterwards
    it is the old rest minus the written bytes, or nothing — an array that ended with its window still does); a refused call (typed buffer) changes no handle at all; nothing
    faults.  Windows inside the data only (`wfit`); element size 0 ("prepare") is not modelled. -/
theorem slice_write (s : State) (h nblk esz : Nat) (bytes : List Byte) (w : Win) (inv : Inv s) (hlt : h < s.hs.length)
    (e0 : esz ≠ 0) (bl : bytes.length = nblk * esz) (hw : s.win h = some w) (wfit : w.off + w.len ≤ (s.abs h).length) :
    match sliceWrite s h nblk esz bytes with
    | .fault _ => False
    | .fail s' _ => Inv s' ∧ ∀ h', s'.abs h' = s.abs h'
    | .ok s' k => Inv s' ∧ k ≤ nblk ∧ (nblk ≠ 0 → 1 ≤ k) ∧ (∀ h', h' ≠ h → s'.abs h' = s.abs h') ∧
        ∃ w', s'.win h = some w' ∧
          Vec.sub (s'.abs h) w'.off w'.len = Vec.sub (s.abs h) w.off w.len ++ Vec.blocks bytes k esz ∧
          ((s'.abs h).length - (w'.off + w'.len) = 0 ∨
            (s'.abs h).length - (w'.off + w'.len) = (s.abs h).length - (w.off + w.len) - k * esz) :=
  sliceWrite_sem s h nblk esz bytes w inv hlt e0 bl hw wfit

/-- `mpt_values_prepare` (mptplot/values, a caller of the buffer's detach): `len ≥ 0` appends `len` zeroed doubles,
    `len < 0` appends a copy of the last `-len` doubles and is refused without a change when the array holds fewer;
    whatever is shared, every other handle keeps its value; an array of another element type is refused -/
theorem values_prepare (s : State) (h : Nat) (dt : Traits) (len : Int) (inv : Inv s) (hlt : h < s.hs.length)
    (pt : PlainT (some dt)) (d8 : dt.size = 8) :
    Sem s h (fun v v' => v' = if len < 0 then v ++ v.drop (v.length - len.natAbs * 8) else v ++ zeros (len.natAbs * 8))
      (valuesPrepare s h dt len) :=
  valuesPrepare_sem inv hlt dt pt d8 len

/-! ### C++ layer (mpt++/array.cpp, templates of mptcore/array.h; model `Impl/HeapXX.lean`) -/

/-- operations of `mpt::array` covered by a theorem -/
inductive XOp where
  | set (h : Nat) (bytes : List Byte)                 -- array::set(len, data)
  | insert (h off : Nat) (bytes : List Byte)          -- array::insert(off, len, data)
  | append (h : Nat) (bytes : List Byte)              -- array::append(len, data)
  | assign (dst src : Nat)                            -- operator= / copy construction
  | drop (h : Nat)                                    -- destruction

def XOp.handle : XOp → Nat
  | .set h _ | .insert h _ _ | .append h _ | .assign h _ | .drop h => h

def xexec (s : State) : XOp → Out Unit
  | .set h bytes => Out.mapv (fun _ => ()) (arraySetX s h bytes)
  | .insert h off bytes => Out.mapv (fun _ => ()) (arrayInsertX s h off bytes)
  | .append h bytes => Out.mapv (fun _ => ()) (arrayAppendX s h bytes)
  | .assign d src => refAssign s d src
  | .drop h => refDrop s h

def xspecRel (s : State) : XOp → Vec.Vec → Vec.Vec → Prop
  | .set _ bytes, _, v' => v' = bytes
  | .insert _ off bytes, v, v' => v' = Vec.insert v off bytes
  | .append _ bytes, v, v' => v' = Vec.append v bytes
  | .assign _ src, _, v' => v' = s.abs src
  | .drop _, _, v' => v' = []

/-- value semantics of the C++ array wrapper: `set`, `insert`, `append`, assignment/copy and destruction
    through one handle never change what another handle reads — whatever is shared —, the handle itself reads
    what the vector spec says, refusals change nothing, the invariant is kept and nothing faults -/
theorem cxx_value_semantics {s : State} (hinv : Inv s) (op : XOp) (hlt : op.handle < s.hs.length) :
    Sem s op.handle (xspecRel s op) (xexec s op) := by
  cases op with
  | set h bytes => exact (arraySetX_sem hinv hlt bytes).mapv _
  | insert h off bytes => exact (arrayInsertX_sem hinv hlt off bytes).mapv _
  | append h bytes => exact (arrayAppendX_sem hinv hlt bytes).mapv _
  | assign d src => exact refAssign_sem hinv hlt src
  | drop h => exact refDrop_sem hinv hlt

/-- instance: `b = a; b.set("X")` on shared data with a shorter value — `b` reads `X`, `a` the old bytes
    (the input on which a seeded in-place `set` was caught) -/
example :
    (match arraySetX { hs := [none, none], wins := [none, none] } 0 [0x61, 0x62, 0x63] with
     | .ok s1 _ => (match refAssign s1 1 0 with
       | .ok s2 _ => (match arraySetX s2 1 [0x58] with
         | .ok s3 _ => (s3.abs 0, s3.abs 1)
         | _ => ([], []))
       | _ => ([], []))
     | _ => ([], [])) = ([0x61, 0x62, 0x63], [0x58]) := by decide

/-- typed wrappers (`unique_array<T>` / `typed_array<T>` with plain element types; `k.t` is the element type of the
    buffer of the handle): `insert(pos, val)` inserts one element (negative positions count from the end, a position
    behind the end zero-fills the gap), `resize(n)` leaves exactly `n` elements (new ones zero), `reserve(n)` keeps
    the content (an immutable private buffer is replaced by one that holds at least `n` elements of it), `detach()`
    keeps it; other handles never change, refusals change nothing, nothing faults -/
theorem cxx_typed (s : State) (h : Nat) (k : XKind) (pos : Int) (val : List Byte) (n : Nat) (inv : Inv s) (hlt : h < s.hs.length)
    (pt : PlainT (some k.t)) (vl : val.length = k.t.size)
    (hk : ∀ b x, s.handle h = some b → s.buf? b = some x → x.traits = some k.t) :
    Sem s h (fun v v' => ∃ p need, insertPos (v.length / k.t.size) pos = some (p, need) ∧
        v' = Vec.insert v (p * k.t.size) val) (uInsert s h k pos (some val) none) ∧
    Sem s h (fun v v' => v' = if n * k.t.size ≤ v.length then v.take (n * k.t.size) else Vec.padTo v (n * k.t.size))
      (uResize s h k n) ∧
    Sem s h (fun v v' => ∃ m, n * k.t.size ≤ m ∧ v' = v.take m) (uReserve s h k n) ∧
    Sem s h (fun v v' => v' = v) (uDetach s h k) :=
  ⟨uInsert_sem inv hlt k pt hk pos val vl, uResize_sem inv hlt k pt hk n, uReserve_sem inv hlt k pt hk n,
    uDetach_sem inv hlt k pt hk⟩

/-- out-of-range arguments of the typed C++ wrappers are refused without any change: `pointer_array::swap` with an
    index outside the elements, `typed_array::set(pos, v)` with a position outside `[-length, length)` -/
theorem cxx_refusal (s : State) (h : Nat) (k : XKind) :
    (∀ p1 p2 : Int, (p1 < 0 ∨ p2 < 0 ∨ p1.toNat ≥ xLength s h k ∨ p2.toNat ≥ xLength s h k) →
      swapX s h k p1 p2 = .fail s .null) ∧
    (∀ (pos : Int) (val : List Byte), (pos + Int.ofNat (xLength s h k) < 0 ∨ pos ≥ Int.ofNat (xLength s h k)) →
      uSet s h k pos val = .fail s .null) := by
  refine ⟨fun p1 p2 c => ?_, fun pos val c => ?_⟩
  · unfold swapX
    simp only
    rw [if_pos c]
  · unfold uSet
    simp only
    have nn : (0 : Int) ≤ Int.ofNat (xLength s h k) := Int.natCast_nonneg _
    by_cases neg : pos < 0
    · rcases c with c | c
      · rw [if_pos neg, if_pos c]
      · omega
    · rcases c with c | c
      · omega
      · rw [if_neg neg, if_pos c]

end Mpt.C04
