/-
  C15 — Reference counts track handles exactly.   PROPERTY THEOREMS ONLY.

  M = `Mpt.Refcount` (MptModel/Impl/Refcount.lean): `raise/lower` = `mpt_refcount_raise/lower` on naturals with
  the explicit 2^64 wrap, the vtable pair `addref/unref` (destroy at 0) shared by the harness objects, the
  library heap buffer and rawdata, and the generic operations on handles (`take/copy` = traits init, `drop` =
  traits fini, `assignMeta` = `_mpt_metatype_wrap`, `assignArr` = `mpt_array_clone`, external references).
  S = `Mpt.Refs` (MptModel/Spec/Refs.lean): no counters, the reference total is derived from the handles.

  All theorems are for ALL states satisfying the invariant, all objects/handles (any number), all histories.
  The history machine (`Op`, `St.valid`, `St.exec`, `step`, `run`) is part of M (Impl/Refcount.lean) and is what the
  driver part `r` executes; `Refs.alts` is what it prints as the S column.  `refines`/`run_refines` prove that
  M's outcome is one of S's for every operation of `Op` and every history.  Not proved against S: the C++ handle
  part (`XOp`, `Refs.xassign/xmove/settle`), `unique_array`, reply contexts, notifier, `output_local` — there the
  invariant theorems hold for M and S is compared by the correspondence run only.
-/
import MptModel.Lemmas.RefcountRefine

namespace Mpt.C15
open Mpt Mpt.Refcount

/-- example state: two harness metatypes with one external reference each, three empty handles -/
def exTwo : St :=
  { objs := [{ kind := .hmeta, count := 1, alive := true, ext := 1 }, { kind := .hmeta, count := 1, alive := true, ext := 1 }],
    hnd := [none, none, none], ev := [{}, {}] }

/-- example state: object 0 with its counter at the maximum, handle 0 names object 1 -/
def exMax : St :=
  { objs := [{ kind := .hmeta, count := MAXV, alive := true, ext := MAXV }, { kind := .hmeta, count := 2, alive := true, ext := 1 }],
    hnd := [some 1, none, none], ev := [{}, {}] }

/-- example state: a library heap buffer with ten elements, held by its creator -/
def exBuf : St :=
  { objs := [{ kind := .rbuf, count := 1, alive := true, ext := 1, elems := [10, 11, 12, 13, 14, 15, 16, 17, 18, 19], cap := 192 }],
    hnd := [none, none, none], ev := [{}] }

/-! ### the counter -/

/-- **raise**: at 0 and at the largest value it fails (returns 0) WITHOUT changing the counter — it does not
    wrap; everywhere else it returns the incremented value -/
theorem raise_spec (v : Nat) (h : v ≤ MAXV) :
    raise v = if v = 0 ∨ v = MAXV then (v, 0) else (v + 1, v + 1) := raise_eq v h

/-- **lower**: returns the remaining count; on 0 it reports UINTPTR_MAX and leaves the counter at 0 -/
theorem lower_spec (v : Nat) (h : v ≤ MAXV) :
    lower v = if v = 0 then (0, MAXV) else (v - 1, v - 1) := lower_eq v h

/-- raise then lower gives the count back whenever raise succeeded -/
theorem raise_lower (v : Nat) (h : v ≤ MAXV) (hr : (raise v).2 ≠ 0) : (lower (raise v).1).1 = v := by
  rw [raise_eq v h] at hr ⊢
  by_cases hc : v = 0 ∨ v = MAXV
  · simp [hc] at hr
  · simp only [hc, ↓reduceIte]
    rw [lower_eq _ (by simp only [MAXV] at *; omega)]
    simp

example : raise MAXV = (MAXV, 0) ∧ raise 0 = (0, 0) ∧ raise (MAXV - 1) = (MAXV, MAXV) ∧ lower 0 = (0, MAXV) := by decide

/-! ### exact: count = number of references, over all histories -/

/-- the invariant holds when objects are created: counter = preset = external references, no handles -/
theorem inv_init (objs : List RObj) (h : ∀ o ∈ objs, o.count = o.ext ∧ o.count ≤ MAXV ∧ (o.alive = false → o.count = 0))
    (n : Nat) : Inv { objs := objs, hnd := List.replicate n none } := by
  intro o
  have hz : hrefs (List.replicate n none) o = 0 := by
    unfold hrefs
    rw [List.length_eq_zero_iff, List.filter_eq_nil_iff]
    intro a ha
    rw [List.mem_replicate] at ha
    simp [ha.2]
  simp only [St.obj, hz]
  rcases Nat.lt_or_ge o objs.length with hl | hl
  · have hm : objs.getD o default ∈ objs := by
      rw [List.getD_eq_getElem?_getD, List.getElem?_eq_getElem hl]; simp
    obtain ⟨a, b, c⟩ := h _ hm
    exact ⟨by omega, b, c⟩
  · rw [List.getD_eq_getElem?_getD, List.getElem?_eq_none hl]
    exact ⟨by decide, by decide, fun _ => by decide⟩

theorem step_inv (s : St) (op : Op) (hI : Inv s) : Inv (step s op) := by
  unfold step St.exec
  cases hv : s.valid op with
  | false => exact hI
  | true =>
    simp only [Bool.not_true, Bool.false_eq_true, ↓reduceIte]
    cases op <;> simp only [St.valid, decide_eq_true_eq] at hv <;> simp only []
    case create k n els => exact create_inv s _ _ hI ⟨rfl, hv, rfl⟩
    case take h o => exact take_inv s h o hI hv.1 hv.2.1
    case copy h g => exact copy_inv s h g hI hv.1 hv.2.1
    case drop h => exact drop_inv s h hI hv
    case assignMeta h src => exact assignMeta_inv s h src hI hv.1
    case assignArr h src => exact assignArr_inv s h src hI hv.1
    case extAdd o => exact extAdd_inv s o hI
    case extUnref o => exact extUnref_inv s o hI hv
    case detach h len => exact detach_inv s h len hI hv
    case reserve h len => exact reserve_inv s h len hI hv

/-- **exact** — for every history of take/copy/drop/assign (both forms)/external addref and unref/detach from a state
    where it holds, after every operation and for every object: the counter equals the number of references
    to the object (external ones plus the handles naming it), it never passes the largest value (no wrap),
    and a destroyed object has no reference left -/
theorem exact (ops : List Op) (s : St) (hI : Inv s) : Inv (run s ops) := by
  induction ops generalizing s with
  | nil => exact hI
  | cons op ops ih => exact ih _ (step_inv s op hI)

/-- readable form of the invariant -/
theorem exact_count (ops : List Op) (s : St) (hI : Inv s) (o : Nat) :
    ((run s ops).obj o).count = ((run s ops).obj o).ext + hrefs (run s ops).hnd o ∧
    ((run s ops).obj o).count ≤ MAXV := by
  have h := (exact ops s hI) o
  simp only [Int.add_zero] at h
  exact ⟨by omega, h.2.1⟩

-- the hypotheses are satisfiable: the two objects of `exTwo` with three empty handles satisfy the invariant, and so
-- does every state a history leads to
example : Inv { objs := exTwo.objs, hnd := List.replicate 3 none } := inv_init exTwo.objs (by decide) 3
example : Inv (run { objs := exTwo.objs, hnd := List.replicate 3 none } [.create .hmeta 1 [], .take 0 2, .copy 1 0, .drop 0]) :=
  exact _ _ (inv_init exTwo.objs (by decide) 3)

/-- **never earlier**: an object a handle names is alive (for external references: `referenced_alive_ext`) -/
theorem referenced_alive (ops : List Op) (s : St) (hI : Inv s) (h o : Nat)
    (hn : (run s ops).hnd.getD h none = some o) : ((run s ops).obj o).alive = true := by
  have hi := (exact ops s hI) o
  simp only [Int.add_zero] at hi
  have hp := hrefs_pos _ h o hn
  cases ha : ((run s ops).obj o).alive with
  | true => rfl
  | false => have := hi.2.2 ha; omega

/-- **never earlier, external references**: an object its creator (or anyone outside the handles) still holds a
    reference to is alive -/
theorem referenced_alive_ext (ops : List Op) (s : St) (hI : Inv s) (o : Nat)
    (he : 1 ≤ ((run s ops).obj o).ext) : ((run s ops).obj o).alive = true := by
  have hi := (exact ops s hI) o
  simp only [Int.add_zero] at hi
  cases ha : ((run s ops).obj o).alive with
  | true => rfl
  | false => have := hi.2.2 ha; omega

/-- **exactly at the last drop**, one `unref` call (the history form is `never_later`/`alive_iff_referenced`): releasing a reference of a living object destroys it iff it was the last
    one (`count = 1`); with `exact_count`, `count = 1` means exactly one reference exists -/
theorem destroy_at_last (s : St) (o : Nat) (hc : (s.obj o).count ≤ MAXV) (ha : (s.obj o).alive = true) :
    ((s.unref o).obj o).alive = false ↔ (s.obj o).count = 1 := by
  rw [unref_obj]
  simp only [ha, and_self, ↓reduceIte]
  rw [lower_eq _ hc]
  by_cases h0 : (s.obj o).count = 0
  · simp only [h0, ↓reduceIte]; simp [MAXV]
  · simp only [h0, ↓reduceIte]
    constructor
    · intro h; simp at h; omega
    · intro h; simp; omega

/-- **never later, over histories**: an object that had a reference (a positive counter) and has none left after
    any history (counter 0 — by `exact_count`: no external reference and no handle) IS destroyed, and a destroyed
    object stays destroyed.  Every operation of `Op`, accepted or not, any start state. -/
theorem never_later (ops : List Op) (s : St) (o : Nat) (ho : o < s.objs.length) :
    ((s.obj o).alive = false → ((run s ops).obj o).alive = false) ∧
    (0 < (s.obj o).count → ((run s ops).obj o).count = 0 → ((run s ops).obj o).alive = false) :=
  (run_mono ops s).2 o ho

/-- the two directions together: after any history an object that was referenced at the start is alive IF AND ONLY
    IF a reference to it is left (external or a handle) -/
theorem alive_iff_referenced (ops : List Op) (s : St) (hI : Inv s) (o : Nat) (ho : o < s.objs.length)
    (hp : 0 < (s.obj o).count) :
    ((run s ops).obj o).alive = true ↔ 0 < ((run s ops).obj o).ext + hrefs (run s ops).hnd o := by
  have hc := (exact_count ops s hI o).1
  have hi := (exact ops s hI) o
  constructor
  · intro ha
    rcases Nat.eq_zero_or_pos (((run s ops).obj o).ext + hrefs (run s ops).hnd o) with hz | hz
    · have := (never_later ops s o ho).2 hp (by omega)
      rw [ha] at this; cases this
    · exact hz
  · intro hr
    cases ha : ((run s ops).obj o).alive with
    | true => rfl
    | false => have := hi.2.2 ha; omega

-- hypotheses satisfiable: o0 of `exTwo` is referenced, the history drops everything: destroyed at that point
example : let s := run exTwo [.take 0 0, .extUnref 0, .drop 0]
    0 < (exTwo.obj 0).count ∧ (s.obj 0).count = 0 ∧ (s.obj 0).alive = false := by decide

/-! ### M refines S: the outcome of the model is one of the outcomes the spec allows -/

/-- **one operation**: for every state satisfying the invariant and every request the drivers accept, the result of
    M (`St.exec`: state and accepted/refused) is — after forgetting the counters (`abs`) — one of the alternatives
    `Refs.alts` lists for the S state `abs s`.  S has no counters: it derives the reference totals from the handles
    and destroys at total 0. -/
theorem refines (s : St) (op : Op) (hI : Inv s) (hv : s.valid op = true) :
    ∃ a ∈ Refs.alts (abs s) op, a.ok = (s.exec op).2 ∧ a.st = abs (s.exec op).1 := by
  unfold St.exec
  simp only [hv, Bool.not_true, Bool.false_eq_true, ↓reduceIte]
  cases op <;> simp only [St.valid, decide_eq_true_eq] at hv <;> unfold Refs.alts <;> simp only []
  case create k n els =>
    exact ⟨_, List.mem_singleton.mpr rfl, rfl, (create_refines s k n els _ _).symm⟩
  case take h o => exact take_refines s h o hI hv.2.2
  case copy h g => exact copy_refines s h g hI
  case drop h => exact drop_refines s h hI hv
  case assignMeta h src => exact assignMeta_refines s h src hI hv.1 hv.2
  case assignArr h src => exact assignArr_refines s h src hI hv.1 hv.2
  case extAdd o => exact extAdd_refines s o hI hv
  case extUnref o => exact extUnref_refines s o hI hv
  case detach h len => exact detach_refines s h len hI
  case reserve h len => exact reserve_refines s h len hI

/-- **every history**: after any history from a state satisfying the invariant, the next operation's result is
    again one of S's alternatives for the abstracted state — M ⊑ S along the whole run -/
theorem run_refines (ops : List Op) (s : St) (hI : Inv s) (op : Op) (hv : (run s ops).valid op = true) :
    ∃ a ∈ Refs.alts (abs (run s ops)) op, a.ok = ((run s ops).exec op).2 ∧ a.st = abs ((run s ops).exec op).1 :=
  refines (run s ops) op (exact ops s hI) hv

-- non-vacuous: the drop of the last handle is accepted and S's only alternative has the object dead
example : let s := run exTwo [.take 0 0, .extUnref 0]
    s.valid (.drop 0) = true ∧ (Refs.alts (abs s) (.drop 0)).map (fun a => (a.ok, (a.st.objs.getD 0 default).dead)) = [(true, true)] := by
  decide

-- two objects, three handles: o0 is shared by two handles, dropped twice, destroyed at the second drop
example : let s := run exTwo [.take 0 0, .copy 1 0, .extUnref 0, .drop 0]
    (s.obj 0).count = 1 ∧ (s.obj 0).alive = true ∧ ((run s [.drop 1]).obj 0).alive = false := by decide

/-- **refused detach** (the private copy of a shared heap buffer cannot take the content): nothing changes —
    in particular the caller's reference to the shared buffer is still counted, so dropping the OTHER holders
    cannot destroy the buffer under it (`referenced_alive` applies to the unchanged state) -/
theorem detach_refused_pure (s : St) (h len : Nat) (hr : (s.detach h len).2 = false) : (s.detach h len).1 = s :=
  detach_refused s h len hr

-- a library buffer with 10 elements shared by two handles (and the creator): detach to 1 element is refused
-- and nothing changes; detach to 10 elements hands out a private copy, the shared buffer keeps 2 references
example : let s := run exBuf [.take 0 0, .copy 1 0]
    (s.obj 0).count = 3 ∧ s.detach 0 1 = (s, false) ∧
    ((s.detach 0 10).1.obj 0).count = 2 ∧ (s.detach 0 10).1.hnd = [some 1, some 0, none] ∧
    ((s.detach 0 10).1.obj 1).count = 1 := by decide

/-! ### assign_balanced -/

/-- **assignment through conversion** (`_mpt_metatype_wrap`, TypeMetaRef): on success the handle names the new
    referent, the new referent has exactly one reference more and the replaced one exactly one less (both at
    once for a self-assignment: unchanged), every other object keeps its count; when the new referent cannot
    be retained (counter at 0 or at the maximum, or destroyed) nothing changes at all -/
theorem assign_balanced (s : St) (h : Nat) (src : Option Nat) (hI : Inv s) (hh : h < s.hnd.length) :
    ((s.assignMeta h src).2 = .ok 8 →
        (s.assignMeta h src).1.hnd = s.hnd.set h src ∧
        ∀ x, (((s.assignMeta h src).1.obj x).count : Int) = (s.obj x).count + ind src x - ind (s.hnd.getD h none) x) ∧
    ((s.assignMeta h src).2 ≠ .ok 8 →
        (s.assignMeta h src).1.hnd = s.hnd ∧ ∀ x, ((s.assignMeta h src).1.obj x).count = (s.obj x).count) := by
  have hI' := assignMeta_inv s h src hI hh
  have hext : ∀ x, ((s.assignMeta h src).1.obj x).ext = (s.obj x).ext := by
    intro x; unfold St.assignMeta; split
    · exact retain_ext s src x
    · show ((((s.retain src).1.release (s.hnd.getD h none))).obj x).ext = _
      rw [release_ext, retain_ext]
  have hhnd : (s.assignMeta h src).1.hnd = if (s.assignMeta h src).2 = .ok 8 then s.hnd.set h src else s.hnd := by
    unfold St.assignMeta; split
    · simp [retain_hnd]
    · simp [release_hnd, retain_hnd]
  constructor
  · intro hok
    rw [hok] at hhnd
    simp only [↓reduceIte] at hhnd
    refine ⟨hhnd, fun x => ?_⟩
    have c1 := count_of_inv _ hI' x
    have c0 := count_of_inv _ hI x
    rw [hext x, hhnd] at c1
    have hs := hrefs_set s.hnd h src x hh
    simp only [ind]
    by_cases e1 : s.hnd.getD h none = some x <;> by_cases e2 : src = some x <;>
      simp only [e1, e2, ↓reduceIte] at hs c1 ⊢ <;> omega
  · intro hno
    simp only [hno, ↓reduceIte] at hhnd
    refine ⟨hhnd, fun x => ?_⟩
    have c1 := count_of_inv _ hI' x
    have c0 := count_of_inv _ hI x
    rw [hext x, hhnd] at c1
    omega

/-- the same for `mpt_array_clone` (array handles): accepted ⇒ the handle names the new referent (for the same referent
    nothing happens), the new referent has one reference more, the replaced one one less; refused (different content
    types, or the new referent cannot be retained) ⇒ the handles and every counter are what they were -/
theorem assign_balanced_array (s : St) (h : Nat) (src : Option Nat) (hI : Inv s) (hh : h < s.hnd.length) :
    ((s.assignArr h src).2.isOk = true →
        (s.assignArr h src).1.hnd = s.hnd.set h src ∧
        ∀ x, (((s.assignArr h src).1.obj x).count : Int) = (s.obj x).count + ind src x - ind (s.hnd.getD h none) x) ∧
    ((s.assignArr h src).2.isOk = false →
        (s.assignArr h src).1.hnd = s.hnd ∧ ∀ x, ((s.assignArr h src).1.obj x).count = (s.obj x).count) := by
  have hI' := assignArr_inv s h src hI hh
  have hext : ∀ x, ((s.assignArr h src).1.obj x).ext = (s.obj x).ext := by
    intro x
    unfold St.assignArr; split
    · rfl
    · split
      · rfl
      · split
        · exact retain_ext s src x
        · rw [release_ext]; exact retain_ext s src x
  have hhnd : (s.assignArr h src).1.hnd = if (s.assignArr h src).2.isOk = true then s.hnd.set h src else s.hnd := by
    rw [assignArr_eq]
    split
    · rename_i e; simp only [RRet.isOk, ↓reduceIte]; rw [e, set_getD_self]
    · split
      · simp [RRet.isOk]
      · split
        · simp [RRet.isOk, retain_hnd]
        · simp [RRet.isOk, assignCore]
  constructor
  · intro hok
    rw [hok] at hhnd
    simp only [↓reduceIte] at hhnd
    refine ⟨hhnd, fun x => ?_⟩
    have c1 := count_of_inv _ hI' x
    have c0 := count_of_inv _ hI x
    rw [hext x, hhnd] at c1
    have hs := hrefs_set s.hnd h src x hh
    simp only [ind]
    by_cases e1 : s.hnd.getD h none = some x <;> by_cases e2 : src = some x <;>
      simp only [e1, e2, ↓reduceIte] at hs c1 ⊢ <;> omega
  · intro hno
    rw [hno] at hhnd
    simp only [Bool.false_eq_true, ↓reduceIte] at hhnd
    refine ⟨hhnd, fun x => ?_⟩
    have c1 := count_of_inv _ hI' x
    have c0 := count_of_inv _ hI x
    rw [hext x, hhnd] at c1
    omega

/-- **once … once, as call counts** (`_mpt_metatype_wrap` replacing the referent `o` of handle `h` by another
    object `n`, event counters cleared before): on success the new referent's `addref` was called exactly once and
    nothing else on it, the old referent's `unref` exactly once (and it was destroyed iff that was its last
    reference), no other object was touched -/
theorem assign_calls (s : St) (h n o : Nat) (hI : Inv s) (hev : s.ev = s.objs.map (fun _ => {}))
    (hold : s.hnd.getD h none = some o) (hno : n ≠ o)
    (hok : (s.assignMeta h (some n)).2 = .ok 8) :
    (s.assignMeta h (some n)).1.evOf n = { add := 1 } ∧
    (s.assignMeta h (some n)).1.evOf o = { unref := 1, destroyed := decide ((s.obj o).count = 1) } ∧
    ∀ x, x ≠ n → x ≠ o → (s.assignMeta h (some n)).1.evOf x = {} := by
  have hclean : ∀ x, s.evOf x = {} := by
    intro x; unfold St.evOf; rw [hev]
    simp only [List.getD_eq_getElem?_getD, List.getElem?_map]
    cases s.objs[x]? <;> rfl
  have hevl : s.ev.length = s.objs.length := by rw [hev]; simp
  rw [assignMeta_eq] at hok ⊢
  cases hr : (s.retain (some n)).2 with
  | false => simp [hr] at hok
  | true =>
    simp only [hr, Bool.not_true, Bool.false_eq_true, ↓reduceIte]
    have hadd : (s.addref n).2 ≠ 0 := by simpa [St.retain] using hr
    have han : (s.obj n).alive = true := by
      rw [addref_ret] at hadd
      cases ha : (s.obj n).alive with
      | true => rfl
      | false => simp [ha] at hadd
    have hnl := obj_alive_lt s n han
    have hoa := inv_referenced_alive s hI h o hold
    have hol := obj_alive_lt s o hoa
    have e0 : (s.addref n).1.obj o = s.obj o := by
      rw [addref_obj]; split
      · rename_i hc; exact absurd hc.1.symm hno
      · rfl
    have hcore : ∀ x, (assignCore s h (some n)).evOf x = ((s.addref n).1.unref o).evOf x := by
      intro x; unfold assignCore St.retain St.release; rw [hold]; rfl
    have hu := fun x => unref_ev (s.addref n).1 o x (by rw [e0]; exact hoa) (by rw [addref_evlen, hevl]; exact hol)
    have ha := fun x => addref_ev s n x han (by rw [hevl]; exact hnl)
    have hb := (hI o).2.1
    have hp := hrefs_pos s.hnd h o hold
    have hc := count_of_inv s hI o
    refine ⟨?_, ?_, ?_⟩
    · rw [hcore, hu, if_neg hno, ha, if_pos rfl, hclean]
    · rw [hcore, hu, if_pos rfl, ha, if_neg (Ne.symm hno), hclean, e0, lower_eq _ hb]
      have h0 : ¬ (s.obj o).count = 0 := by omega
      simp only [h0, ↓reduceIte, Bool.false_or]
      congr 1
      by_cases h1 : (s.obj o).count = 1
      · simp [h1]
      · have : ¬ (s.obj o).count - 1 = 0 := by omega
        simp [h1, this]
    · intro x hxn hxo
      rw [hcore, hu, if_neg hxo, ha, if_neg hxn, hclean]

-- h0 holds o0: assigning o1 calls addref(o1) once and unref(o0) once, and nothing else
example : let s := (run exTwo [.take 0 0]).clearEv
    (s.assignMeta 0 (some 1)).2 = .ok 8 ∧ (s.assignMeta 0 (some 1)).1.ev = [{ unref := 1 }, { add := 1 }] := by decide

-- h0 holds o0, h1 holds o1 (one external reference each): assigning h1 to h0 moves one reference
example : let s := run exTwo [.take 0 0, .take 1 1]
    ((s.obj 0).count, (s.obj 1).count) = (2, 2) ∧
    (((s.assignMeta 0 (some 1)).1.obj 0).count, ((s.assignMeta 0 (some 1)).1.obj 1).count) = (1, 3) ∧
    -- self-assignment: unchanged
    (((s.assignMeta 0 (some 0)).1.obj 0).count) = 2 := by decide

-- a referent whose counter is at the maximum cannot be retained: refused, nothing changes
example : let s := exMax
    (s.assignMeta 0 (some 0)).2 = .err .BadOperation ∧ (s.assignMeta 0 (some 0)).1.objs = s.objs ∧
    (s.assignMeta 0 (some 0)).1.hnd = s.hnd := by decide

/-! ### the C++ handle class `mpt::reference<T>` with objects that own handles -/

/-- operations on handle slots; slot `nroot + o` is the handle object `o` owns, so `assign h (nroot + o)` is the
    assignment FROM an owned handle (`it = it->next`) and `assign (nroot + o) g` the assignment TO one -/
inductive XOp where
  | assign (h g : Nat)        -- copy assignment / copy construction into an empty slot
  | move (h g : Nat)          -- move assignment
  | drop (h : Nat)            -- `set_instance(0)`, destructor
  | detach (h : Nat)          -- the reference leaves the handle
  | extUnref (o : Nat)        -- an outside reference is given back
  deriving Repr

/-- one operation, followed by the destruction of the handles of every object it destroyed -/
def xstep (nroot fuel : Nat) (s : St) : XOp → St
  | .assign h g => if h < s.hnd.length then (s.assignRef h (s.hnd.getD g none)).cascade nroot fuel else s
  | .move h g => if h < s.hnd.length ∧ g < s.hnd.length then (s.moveRef h g).cascade nroot fuel else s
  | .drop h => if h < s.hnd.length then (s.drop h).cascade nroot fuel else s
  | .detach h => if h < s.hnd.length then s.detachRef h else s
  | .extUnref o => if 1 ≤ (s.obj o).ext then (s.extUnref o).cascade nroot fuel else s

def xrun (nroot fuel : Nat) (s : St) : List XOp → St
  | [] => s
  | op :: ops => xrun nroot fuel (xstep nroot fuel s op) ops

theorem xstep_inv (nroot fuel : Nat) (s : St) (op : XOp) (hI : Inv s) (hs : Slots s nroot) :
    Inv (xstep nroot fuel s op) ∧ Slots (xstep nroot fuel s op) nroot := by
  cases op <;> simp only [xstep]
  case assign h g =>
    split
    next hc =>
      have sh := assignRef_shape s h (s.hnd.getD g none)
      exact ⟨cascade_inv _ nroot fuel (assignRef_inv s h _ hI hc) (slots_of_shape s _ nroot sh hs),
             slots_of_shape s _ nroot (by rw [cascade_shape, sh]) hs⟩
    next => exact ⟨hI, hs⟩
  case move h g =>
    split
    next hc =>
      have sh := moveRef_shape s h g
      exact ⟨cascade_inv _ nroot fuel (moveRef_inv s h g hI hc.1 hc.2) (slots_of_shape s _ nroot sh hs),
             slots_of_shape s _ nroot (by rw [cascade_shape, sh]) hs⟩
    next => exact ⟨hI, hs⟩
  case drop h =>
    split
    next hc =>
      have sh := drop_shape s h
      exact ⟨cascade_inv _ nroot fuel (drop_inv s h hI hc) (slots_of_shape s _ nroot sh hs),
             slots_of_shape s _ nroot (by rw [cascade_shape, sh]) hs⟩
    next => exact ⟨hI, hs⟩
  case detach h =>
    split
    next hc => exact ⟨detachRef_inv s h hI hc, slots_of_shape s _ nroot (detachRef_shape s h) hs⟩
    next => exact ⟨hI, hs⟩
  case extUnref o =>
    split
    next hc =>
      have sh := extUnref_shape s o
      exact ⟨cascade_inv _ nroot fuel (extUnref_inv s o hI hc) (slots_of_shape s _ nroot sh hs),
             slots_of_shape s _ nroot (by rw [cascade_shape, sh]) hs⟩
    next => exact ⟨hI, hs⟩

/-- **exact, C++ handles**: for every history of copy/move assignment (from and to handles owned by objects),
    drop, detach and outside release — each followed by the destruction of the handles of destroyed objects —
    the counter of every object equals the number of references to it: outside ones, free-standing handles and
    handles owned by other objects -/
theorem exact_cxx (nroot fuel : Nat) (ops : List XOp) (s : St) (hI : Inv s) (hs : Slots s nroot) :
    Inv (xrun nroot fuel s ops) := by
  induction ops generalizing s with
  | nil => exact hI
  | cons op ops ih =>
    obtain ⟨a, b⟩ := xstep_inv nroot fuel s op hI hs
    exact ih _ a b

/-- **never earlier, C++ handles** — in particular for `it = it->next` where `it` holds the last reference to
    the owner of `next`: whatever a handle (free-standing or owned) names after any history is alive -/
theorem referenced_alive_cxx (nroot fuel : Nat) (ops : List XOp) (s : St) (hI : Inv s) (hs : Slots s nroot) (h o : Nat)
    (hn : (xrun nroot fuel s ops).hnd.getD h none = some o) : ((xrun nroot fuel s ops).obj o).alive = true :=
  inv_referenced_alive _ (exact_cxx nroot fuel ops s hI hs) h o hn

/-- **assign_balanced, C++ handle**: `operator=` on slot `h` with a source naming `src` (possibly a handle
    owned by the old referent): nothing for the same referent; otherwise the slot names the new referent — or
    nothing when it could not be retained — the new referent has one reference more and the replaced one one
    less (before the handles of destroyed objects are destroyed in turn) -/
theorem assign_balanced_cxx (s : St) (h : Nat) (src : Option Nat) (hI : Inv s) (hh : h < s.hnd.length) :
    ∃ src', (src' = src ∨ src' = none) ∧ (s.assignRef h src).hnd = s.hnd.set h src' ∧
      ∀ x, (((s.assignRef h src).obj x).count : Int) = (s.obj x).count + ind src' x - ind (s.hnd.getD h none) x := by
  have hI' := assignRef_inv s h src hI hh
  by_cases he : src = s.hnd.getD h none
  · refine ⟨src, Or.inl rfl, ?_, fun x => ?_⟩
    · unfold St.assignRef; simp only [he, ↓reduceIte]
      apply List.ext_getElem?
      intro i
      rw [List.getElem?_set]
      split
      · rename_i e; subst e; simp [List.getD_eq_getElem?_getD, hh]
      · rfl
    · unfold St.assignRef; simp only [he, ↓reduceIte]; omega
  · have hhnd : (s.assignRef h src).hnd = s.hnd.set h (if (s.retain src).2 then src else none) := by
      unfold St.assignRef; simp only [he, ↓reduceIte, release_hnd, retain_hnd]
    have hext : ∀ x, ((s.assignRef h src).obj x).ext = (s.obj x).ext := by
      intro x; unfold St.assignRef; simp only [he, ↓reduceIte]
      show (((s.retain src).1.release (s.hnd.getD h none)).obj x).ext = _
      rw [release_ext, retain_ext]
    refine ⟨if (s.retain src).2 then src else none, by split <;> simp, hhnd, fun x => ?_⟩
    have c1 := count_of_inv _ hI' x
    have c0 := count_of_inv _ hI x
    rw [hext x, hhnd] at c1
    have hs := hrefs_set s.hnd h (if (s.retain src).2 then src else none) x hh
    simp only [ind]
    by_cases e1 : s.hnd.getD h none = some x <;> by_cases e2 : (if (s.retain src).2 then src else none) = some x <;>
      simp only [e1, e2, ↓reduceIte] at hs c1 ⊢ <;> omega

theorem xstep_mono (nroot fuel : Nat) (s : St) (op : XOp) : Mono s (xstep nroot fuel s op) := by
  cases op <;> simp only [xstep] <;> split <;> first
    | exact Mono.refl s
    | exact (assignRef_mono s _ _).trans (cascade_mono _ _ _)
    | exact (moveRef_mono s _ _).trans (cascade_mono _ _ _)
    | exact (drop_mono s _).trans (cascade_mono _ _ _)
    | exact detachRef_mono s _
    | exact (extUnref_mono s _).trans (cascade_mono _ _ _)

theorem xrun_mono (nroot fuel : Nat) (ops : List XOp) (s : St) : Mono s (xrun nroot fuel s ops) := by
  induction ops generalizing s with
  | nil => exact Mono.refl s
  | cons op ops ih => exact (xstep_mono nroot fuel s op).trans (ih _)

/-- **never later, C++ handles**: after any history an object that had a reference and has none left is destroyed
    (any fuel) … -/
theorem never_later_cxx (nroot fuel : Nat) (ops : List XOp) (s : St) (o : Nat) (ho : o < s.objs.length)
    (hp : 0 < (s.obj o).count) (hz : ((xrun nroot fuel s ops).obj o).count = 0) :
    ((xrun nroot fuel s ops).obj o).alive = false :=
  ((xrun_mono nroot fuel ops s).2 o ho).2 hp hz

/-- … and **the cascade finishes**: with fuel for every object (the driver passes `objs.length + 1`), after every
    operation no destroyed object still owns a handle that refers to something — so no object is kept alive by the
    handle of a dead owner (`it = it->next` chains of any length are released completely) -/
theorem cascade_settles (nroot fuel : Nat) (s : St) (op : XOp) (hf : s.objs.length ≤ fuel)
    (hp : s.pendingOwner nroot = none) : (xstep nroot fuel s op).pendingOwner nroot = none := by
  have fin : ∀ t : St, t.shape = s.shape → (t.cascade nroot fuel).pendingOwner nroot = none := by
    intro t ht
    apply cascade_complete
    have := filled_le t nroot
    simp only [St.shape, Prod.mk.injEq] at ht
    omega
  cases op <;> simp only [xstep] <;> split <;> first
    | exact hp
    | exact fin _ (assignRef_shape s _ _)
    | exact fin _ (moveRef_shape s _ _)
    | exact fin _ (drop_shape s _)
    | exact detachRef_pending s nroot _ hp
    | exact fin _ (extUnref_shape s _)

theorem xstep_shape (nroot fuel : Nat) (s : St) (op : XOp) : (xstep nroot fuel s op).shape = s.shape := by
  cases op <;> simp only [xstep] <;> split <;> first
    | rfl
    | (rw [cascade_shape]; first
        | exact assignRef_shape _ _ _ | exact moveRef_shape _ _ _ | exact drop_shape _ _ | exact extUnref_shape _ _)
    | exact detachRef_shape _ _

theorem xrun_settles (nroot fuel : Nat) (ops : List XOp) (s : St) (hf : s.objs.length ≤ fuel)
    (hp : s.pendingOwner nroot = none) : (xrun nroot fuel s ops).pendingOwner nroot = none := by
  induction ops generalizing s with
  | nil => exact hp
  | cons op ops ih =>
    have hsh : (xstep nroot fuel s op).objs.length = s.objs.length := by
      have := xstep_shape nroot fuel s op; simp only [St.shape, Prod.mk.injEq] at this; exact this.1
    exact ih _ (by rw [hsh]; exact hf) (cascade_settles nroot fuel s op hf hp)

/-- example state: o0 -> o1 through the handle o0 owns (slot 3), only handle 0 holds o0 -/
def exChain : St :=
  { objs := [{ kind := .hmeta, count := 1, alive := true, ext := 0 }, { kind := .hmeta, count := 1, alive := true, ext := 0 }],
    hnd := [some 0, none, none, some 1, none], ev := [{}, {}] }

-- `it = it->next`: o0 is destroyed (and with it the handle it owns), o1 lives on with exactly one reference
example : let s := xstep 3 3 exChain (.assign 0 3)
    s.hnd = [some 1, none, none, none, none] ∧ (s.obj 0).alive = false ∧ (s.obj 1).alive = true ∧ (s.obj 1).count = 1 := by
  decide

-- a chain o0 -> o1 -> o2 held by handle 0 only: dropping the handle destroys all three (fuel 3 = number of objects);
-- with too little fuel (1) o2 would be kept alive by the handle of the dead o1 — excluded by `cascade_settles`
example : let s : St := { objs := [{ kind := .hmeta, count := 1, alive := true, ext := 0 }, { kind := .hmeta, count := 1, alive := true, ext := 0 },
                                     { kind := .hmeta, count := 1, alive := true, ext := 0 }],
                          hnd := [some 0, none, none, some 1, some 2, none], ev := [{}, {}, {}] }
    ((xstep 3 3 s (.drop 0)).objs.map (·.alive)) = [false, false, false] ∧ (xstep 3 3 s (.drop 0)).pendingOwner 3 = none ∧
    ((xstep 3 1 s (.drop 0)).objs.map (·.alive)) = [false, false, true] := by decide

/-! ### `unique_array<T>::reserve()` on shared buffers that refuse a private copy -/

/-- **insert/resize through a unique_array handle** keep the invariant, and a refused one (the buffer is shared
    and holds elements: BufferNoCopy) changes NOTHING — the handle still names the shared buffer and is still
    counted, so the buffer is destroyed when, and only when, the last handle goes -/
theorem unique_array_reserve (s : St) (a n : Nat) (hI : Inv s) (hh : a < s.hnd.length) :
    Inv (s.uaInsert a).1 ∧ Inv (s.uaResize a n).1 ∧
    ((s.uaInsert a).2 = false → (s.uaInsert a).1 = s) ∧ ((s.uaResize a n).2 = false → (s.uaResize a n).1 = s) := by
  have hp := uaPrivate_inv s a hI hh
  refine ⟨?_, ?_, ?_, ?_⟩
  · unfold St.uaInsert; split
    · exact uaSetLen_inv _ _ _ hp
    · exact hp
  · unfold St.uaResize; split
    · exact uaSetLen_inv _ _ _ hp
    · exact hp
  · unfold St.uaInsert; split
    · intro h; cases h
    · rename_i hr; intro _; exact uaPrivate_refused s a (by simpa using hr)
  · unfold St.uaResize; split
    · intro h; cases h
    · rename_i hr; intro _; exact uaPrivate_refused s a (by simpa using hr)

end Mpt.C15
