/-
  C15 — Reference counts track handles exactly.   PROPERTY THEOREMS ONLY.

  M = `Mpt.Refcount` (MptModel/Impl/Refcount.lean): `raise/lower` = `mpt_refcount_raise/lower` on naturals with
  the explicit 2^64 wrap, the vtable pair `addref/unref` (destroy at 0) shared by the harness objects, the
  library heap buffer and rawdata, and the generic operations on handles (`take/copy` = traits init, `drop` =
  traits fini, `assignMeta` = `_mpt_metatype_wrap`, `assignArr` = `mpt_array_clone`, external references).
  S = `Mpt.Refs` (MptModel/Spec/Refs.lean): no counters, the reference total is derived from the handles.

  All theorems are for ALL states satisfying the invariant, all objects/handles (any number), all histories.
-/
import MptModel.Lemmas.Refcount

namespace Mpt.C15
open Mpt Mpt.Refcount

/-- example state: two harness metatypes with one external reference each, three empty handles -/
def exTwo : St :=
  { objs := [{ kind := .hmeta, count := 1, alive := true, ext := 1 }, { kind := .hmeta, count := 1, alive := true, ext := 1 }],
    hnd := [none, none, none], ev := [{}, {}] }

/-- example state: object 0 with its counter at the maximum, handle 0 names object 1 -/
def exMax : St :=
  { objs := [{ kind := .hmeta, count := MAXV, alive := true, ext := MAXV }, { kind := .hmeta, count := 2, alive := true, ext := 1 }],
    hnd := [some 1, none, none], ev := [{}, {}] }

/-- example state: a library heap buffer with ten elements, held by its creator -/
def exBuf : St :=
  { objs := [{ kind := .rbuf, count := 1, alive := true, ext := 1, elems := [10, 11, 12, 13, 14, 15, 16, 17, 18, 19], cap := 192 }],
    hnd := [none, none, none], ev := [{}] }

/-! ### the counter -/

/-- **raise**: at 0 and at the largest value it fails (returns 0) WITHOUT changing the counter — it does not
    wrap; everywhere else it returns the incremented value -/
theorem raise_spec (v : Nat) (h : v ≤ MAXV) :
    raise v = if v = 0 ∨ v = MAXV then (v, 0) else (v + 1, v + 1) := raise_eq v h

/-- **lower**: returns the remaining count; on 0 it reports UINTPTR_MAX and leaves the counter at 0 -/
theorem lower_spec (v : Nat) (h : v ≤ MAXV) :
    lower v = if v = 0 then (0, MAXV) else (v - 1, v - 1) := lower_eq v h

/-- raise then lower gives the count back whenever raise succeeded -/
theorem raise_lower (v : Nat) (h : v ≤ MAXV) (hr : (raise v).2 ≠ 0) : (lower (raise v).1).1 = v := by
  rw [raise_eq v h] at hr ⊢
  by_cases hc : v = 0 ∨ v = MAXV
  · simp [hc] at hr
  · simp only [hc, ↓reduceIte]
    rw [lower_eq _ (by simp only [MAXV] at *; omega)]
    simp

example : raise MAXV = (MAXV, 0) ∧ raise 0 = (0, 0) ∧ raise (MAXV - 1) = (MAXV, MAXV) ∧ lower 0 = (0, MAXV) := by decide

/-! ### exact: count = number of references, over all histories -/

/-- operations of a history (any mix of pointer handles and array handles) -/
inductive Op where
  | take (h o : Nat)                          -- empty handle := reference to object o
  | copy (h g : Nat)                          -- empty handle := copy of handle g
  | drop (h : Nat)
  | assignMeta (h : Nat) (src : Option Nat)   -- through `_mpt_metatype_wrap`
  | assignArr (h : Nat) (src : Option Nat)    -- through `mpt_array_clone`
  | extAdd (o : Nat)                          -- external reference taken
  | extUnref (o : Nat)                        -- external reference given back (only if one is held)
  | detach (h len : Nat)                      -- private copy of the heap buffer behind handle h (`buffer::detach`)
  deriving Repr

/-- one operation; requests the drivers reject (`bad-op`) leave the state as it is -/
def step (s : St) : Op → St
  | .take h o => if h < s.hnd.length ∧ s.hnd.getD h none = none then (s.take h o).1 else s
  | .copy h g => if h < s.hnd.length ∧ s.hnd.getD h none = none then (s.copy h g).1 else s
  | .drop h => if h < s.hnd.length then s.drop h else s
  | .assignMeta h src => if h < s.hnd.length then (s.assignMeta h src).1 else s
  | .assignArr h src => if h < s.hnd.length then (s.assignArr h src).1 else s
  | .extAdd o => (s.extAdd o).1
  | .extUnref o => if 1 ≤ (s.obj o).ext then s.extUnref o else s
  | .detach h len => if h < s.hnd.length then (s.detach h len).1 else s

def run (s : St) : List Op → St
  | [] => s
  | op :: ops => run (step s op) ops

/-- the invariant holds when objects are created: counter = preset = external references, no handles -/
theorem inv_init (objs : List RObj) (h : ∀ o ∈ objs, o.count = o.ext ∧ o.count ≤ MAXV ∧ (o.alive = false → o.count = 0))
    (n : Nat) : Inv { objs := objs, hnd := List.replicate n none } := by
  intro o
  have hz : hrefs (List.replicate n none) o = 0 := by
    unfold hrefs
    rw [List.length_eq_zero_iff, List.filter_eq_nil_iff]
    intro a ha
    rw [List.mem_replicate] at ha
    simp [ha.2]
  simp only [St.obj, hz]
  rcases Nat.lt_or_ge o objs.length with hl | hl
  · have hm : objs.getD o default ∈ objs := by
      rw [List.getD_eq_getElem?_getD, List.getElem?_eq_getElem hl]; simp
    obtain ⟨a, b, c⟩ := h _ hm
    exact ⟨by omega, b, c⟩
  · rw [List.getD_eq_getElem?_getD, List.getElem?_eq_none hl]
    exact ⟨by decide, by decide, fun _ => by decide⟩

theorem step_inv (s : St) (op : Op) (hI : Inv s) : Inv (step s op) := by
  cases op <;> simp only [step]
  case take h o => split; next hc => exact take_inv s h o hI hc.1 hc.2
                   next => exact hI
  case copy h g => split; next hc => exact copy_inv s h g hI hc.1 hc.2
                   next => exact hI
  case drop h => split; next hc => exact drop_inv s h hI hc
                 next => exact hI
  case assignMeta h src => split; next hc => exact assignMeta_inv s h src hI hc
                           next => exact hI
  case assignArr h src => split; next hc => exact assignArr_inv s h src hI hc
                          next => exact hI
  case extAdd o => exact extAdd_inv s o hI
  case extUnref o => split; next hc => exact extUnref_inv s o hI hc
                     next => exact hI
  case detach h len => split; next hc => exact detach_inv s h len hI hc
                       next => exact hI

/-- **exact** — for every history of take/copy/drop/assign (both forms)/external addref and unref/detach from a state
    where it holds, after every operation and for every object: the counter equals the number of references
    to the object (external ones plus the handles naming it), it never passes the largest value (no wrap),
    and a destroyed object has no reference left -/
theorem exact (ops : List Op) (s : St) (hI : Inv s) : Inv (run s ops) := by
  induction ops generalizing s with
  | nil => exact hI
  | cons op ops ih => exact ih _ (step_inv s op hI)

/-- readable form of the invariant -/
theorem exact_count (ops : List Op) (s : St) (hI : Inv s) (o : Nat) :
    ((run s ops).obj o).count = ((run s ops).obj o).ext + hrefs (run s ops).hnd o ∧
    ((run s ops).obj o).count ≤ MAXV := by
  have h := (exact ops s hI) o
  simp only [Int.add_zero] at h
  exact ⟨by omega, h.2.1⟩

/-- **never earlier**: an object a handle names (or that is referenced externally) is alive -/
theorem referenced_alive (ops : List Op) (s : St) (hI : Inv s) (h o : Nat)
    (hn : (run s ops).hnd.getD h none = some o) : ((run s ops).obj o).alive = true := by
  have hi := (exact ops s hI) o
  simp only [Int.add_zero] at hi
  have hp := hrefs_pos _ h o hn
  cases ha : ((run s ops).obj o).alive with
  | true => rfl
  | false => have := hi.2.2 ha; omega

/-- **exactly at the last drop**: releasing a reference of a living object destroys it iff it was the last
    one (`count = 1`); with `exact_count`, `count = 1` means exactly one reference exists -/
theorem destroy_at_last (s : St) (o : Nat) (hc : (s.obj o).count ≤ MAXV) (ha : (s.obj o).alive = true) :
    ((s.unref o).obj o).alive = false ↔ (s.obj o).count = 1 := by
  rw [unref_obj]
  simp only [ha, and_self, ↓reduceIte]
  rw [lower_eq _ hc]
  by_cases h0 : (s.obj o).count = 0
  · simp only [h0, ↓reduceIte]; simp [MAXV]
  · simp only [h0, ↓reduceIte]
    constructor
    · intro h; simp at h; omega
    · intro h; simp; omega

-- two objects, three handles: o0 is shared by two handles, dropped twice, destroyed at the second drop
example : let s := run exTwo [.take 0 0, .copy 1 0, .extUnref 0, .drop 0]
    (s.obj 0).count = 1 ∧ (s.obj 0).alive = true ∧ ((run s [.drop 1]).obj 0).alive = false := by decide

/-- **refused detach** (the private copy of a shared heap buffer cannot take the content): nothing changes —
    in particular the caller's reference to the shared buffer is still counted, so dropping the OTHER holders
    cannot destroy the buffer under it (`referenced_alive` applies to the unchanged state) -/
theorem detach_refused_pure (s : St) (h len : Nat) (hr : (s.detach h len).2 = false) : (s.detach h len).1 = s :=
  detach_refused s h len hr

-- a library buffer with 10 elements shared by two handles (and the creator): detach to 1 element is refused
-- and nothing changes; detach to 10 elements hands out a private copy, the shared buffer keeps 2 references
example : let s := run exBuf [.take 0 0, .copy 1 0]
    (s.obj 0).count = 3 ∧ s.detach 0 1 = (s, false) ∧
    ((s.detach 0 10).1.obj 0).count = 2 ∧ (s.detach 0 10).1.hnd = [some 1, some 0, none] ∧
    ((s.detach 0 10).1.obj 1).count = 1 := by decide

/-! ### assign_balanced -/

/-- **assignment through conversion** (`_mpt_metatype_wrap`, TypeMetaRef): on success the handle names the new
    referent, the new referent has exactly one reference more and the replaced one exactly one less (both at
    once for a self-assignment: unchanged), every other object keeps its count; when the new referent cannot
    be retained (counter at 0 or at the maximum, or destroyed) nothing changes at all -/
theorem assign_balanced (s : St) (h : Nat) (src : Option Nat) (hI : Inv s) (hh : h < s.hnd.length) :
    ((s.assignMeta h src).2 = .ok 8 →
        (s.assignMeta h src).1.hnd = s.hnd.set h src ∧
        ∀ x, (((s.assignMeta h src).1.obj x).count : Int) = (s.obj x).count + ind src x - ind (s.hnd.getD h none) x) ∧
    ((s.assignMeta h src).2 ≠ .ok 8 →
        (s.assignMeta h src).1.hnd = s.hnd ∧ ∀ x, ((s.assignMeta h src).1.obj x).count = (s.obj x).count) := by
  have hI' := assignMeta_inv s h src hI hh
  have hext : ∀ x, ((s.assignMeta h src).1.obj x).ext = (s.obj x).ext := by
    intro x; unfold St.assignMeta; split
    · exact retain_ext s src x
    · show ((((s.retain src).1.release (s.hnd.getD h none))).obj x).ext = _
      rw [release_ext, retain_ext]
  have hhnd : (s.assignMeta h src).1.hnd = if (s.assignMeta h src).2 = .ok 8 then s.hnd.set h src else s.hnd := by
    unfold St.assignMeta; split
    · simp [retain_hnd]
    · simp [release_hnd, retain_hnd]
  constructor
  · intro hok
    rw [hok] at hhnd
    simp only [↓reduceIte] at hhnd
    refine ⟨hhnd, fun x => ?_⟩
    have c1 := count_of_inv _ hI' x
    have c0 := count_of_inv _ hI x
    rw [hext x, hhnd] at c1
    have hs := hrefs_set s.hnd h src x hh
    simp only [ind]
    by_cases e1 : s.hnd.getD h none = some x <;> by_cases e2 : src = some x <;>
      simp only [e1, e2, ↓reduceIte] at hs c1 ⊢ <;> omega
  · intro hno
    simp only [hno, ↓reduceIte] at hhnd
    refine ⟨hhnd, fun x => ?_⟩
    have c1 := count_of_inv _ hI' x
    have c0 := count_of_inv _ hI x
    rw [hext x, hhnd] at c1
    omega

/-- the same for `mpt_array_clone` (array handles): accepted with a changed handle ⇒ balanced; refused ⇒ nothing
    changes -/
theorem assign_balanced_array (s : St) (h : Nat) (src : Option Nat) (hI : Inv s) (hh : h < s.hnd.length) :
    (s.assignArr h src).1.hnd = s.hnd.set h src ∨ (s.assignArr h src).1.hnd = s.hnd →
    ∀ x, (((s.assignArr h src).1.obj x).count : Int) =
      (s.obj x).count + hrefs (s.assignArr h src).1.hnd x - hrefs s.hnd x := by
  intro _ x
  have hI' := assignArr_inv s h src hI hh
  have hext : ((s.assignArr h src).1.obj x).ext = (s.obj x).ext := by
    unfold St.assignArr; split
    · rfl
    · split
      · rfl
      · split
        · exact retain_ext s src x
        · rw [release_ext]; exact retain_ext s src x
  have c1 := count_of_inv _ hI' x
  have c0 := count_of_inv _ hI x
  rw [hext] at c1
  omega

-- h0 holds o0, h1 holds o1 (one external reference each): assigning h1 to h0 moves one reference
example : let s := run exTwo [.take 0 0, .take 1 1]
    ((s.obj 0).count, (s.obj 1).count) = (2, 2) ∧
    (((s.assignMeta 0 (some 1)).1.obj 0).count, ((s.assignMeta 0 (some 1)).1.obj 1).count) = (1, 3) ∧
    -- self-assignment: unchanged
    (((s.assignMeta 0 (some 0)).1.obj 0).count) = 2 := by decide

-- a referent whose counter is at the maximum cannot be retained: refused, nothing changes
example : let s := exMax
    (s.assignMeta 0 (some 0)).2 = .err .BadOperation ∧ (s.assignMeta 0 (some 0)).1.objs = s.objs ∧
    (s.assignMeta 0 (some 0)).1.hnd = s.hnd := by decide

end Mpt.C15
