/-
  C06 — type registry: unique, stable, correctly described types.

  M = Impl/Registry.lean (registry of mptcore/types/type_traits.c over the constants, built-in tables and range
  tests that translate/cextract.py regenerates into Generated/TypeIds.lean and Generated/TypeTables.lean on every
  run).  S = Spec/Registry.lean (id ranges of types.h, C types behind the built-in ids, LP64 sizes).
  `runOps ops` is the registry after the history `ops` of registration requests, starting from the initial state.
-/
import MptModel.Lemmas.Registry
namespace Mpt.C06
open Mpt Mpt.Generated Mpt.Registry Mpt.RegSpec

/-- ranges of the id space that `mpt_type_traits` distinguishes, pairwise disjoint? -/
def disjointList : List (Nat × Nat) → Bool
  | [] => true
  | (lo, hi) :: rest => rest.all (fun (l, h) => decide (hi < l ∨ h < lo)) && disjointList rest

/-- The id ranges are disjoint: (1) the registration ranges of the four kinds (types.h) are pairwise disjoint and
    contain no built-in id; (2) the range tests `mpt_type_traits` performs (generated from the code, the null id
    aside) are pairwise disjoint, and the generic range starts above all of them. -/
theorem ranges_disjoint :
    (∀ k1 k2 : Kind, k1 ≠ k2 → k1.hi < k2.lo ∨ k2.hi < k1.lo) ∧
    (∀ k : Kind, ∀ b ∈ builtins, ¬ (k.lo ≤ b.1 ∧ b.1 ≤ k.hi)) ∧
    disjointList ((TypeTab.dispatch.filter (·.1 ≠ "null")).map (fun x => (if x.1 = "core" then 1 else x.2.1, x.2.2))) = true ∧
    (∀ x ∈ TypeTab.dispatch, x.2.2 < TypeTab.dispatchGenericBase) := by
  refine ⟨?_, ?_, by decide, by decide⟩
  · intro k1 k2 h; cases k1 <;> cases k2 <;> first | exact absurd rfl h | decide
  · intro k; cases k <;> decide

/-- Every id handed out lies in the range reserved for its kind (after any history). -/
theorem id_in_range (ops : List Op) (op : Op) (id : Nat) (h : (op.run (runOps ops)).2 = some id) :
    op.kind.lo ≤ id ∧ id ≤ op.kind.hi := by
  rcases run_result (runOps ops) op with ⟨id', hid, hbase, hmax, _⟩ | ⟨hnone, _⟩
  · rw [hid] at h; simp at h; subst h
    exact table_in_range (inv_runOps ops) op.kind id' hbase hmax
  · rw [hnone] at h; simp at h

example : (Op.run (runOps [.iface none, .basic 3]) (.mtype (some [97, 98, 99, 100]))).2 = some 257 := by decide

/-- Ids are unique for the life of the process: two accepted registrations of one history never return the
    same id (of whatever kinds). -/
theorem unique_ids (a b : List Op) (op1 op2 : Op) (id1 id2 : Nat)
    (h1 : (op1.run (runOps a)).2 = some id1)
    (h2 : (op2.run (runOps (a ++ op1 :: b))).2 = some id2) : id1 ≠ id2 := by
  have r1 := id_in_range a op1 id1 h1
  have r2 := id_in_range (a ++ op1 :: b) op2 id2 h2
  by_cases hk : op1.kind = op2.kind
  · -- same table: it has grown in between
    rcases run_result (runOps a) op1 with ⟨i1, hi1, hb1, _, hgrow⟩ | ⟨hn, _⟩
    · rcases run_result (runOps (a ++ op1 :: b)) op2 with ⟨i2, hi2, hb2, _, _⟩ | ⟨hn, _⟩
      · rw [hi1] at h1; rw [hi2] at h2; simp at h1 h2; subst h1; subst h2
        have hext : Ext (step (runOps a) op1) (runOps (a ++ op1 :: b)) := by
          have : runOps (a ++ op1 :: b) = b.foldl step (step (runOps a) op1) := by
            simp [runOps, List.foldl_append]
          rw [this]; exact foldl_ext b _
        have := tableLen_mono hext op1.kind
        rw [hk] at hb1 hgrow this
        omega
      · rw [hn] at h2; simp at h2
    · rw [hn] at h1; simp at h1
  · have hd := ranges_disjoint.1 op1.kind op2.kind hk
    omega

/-- Stability: whatever an id resolves to — description, interface entry, metatype entry (with its name) — it
    resolves to the same thing after any further history. -/
theorem stable (a b : List Op) (id : Nat) :
    (∀ t, traits (runOps a) id = some t → traits (runOps (a ++ b)) id = some t) ∧
    (∀ e, interfaceTraits (runOps a) id = some e → interfaceTraits (runOps (a ++ b)) id = some e) ∧
    (∀ e, metatypeTraits (runOps a) id = some e → metatypeTraits (runOps (a ++ b)) id = some e) :=
  ⟨fun _ h => traits_ext (runOps_ext a b) h, fun _ h => interfaceTraits_ext (runOps_ext a b) h,
   fun _ h => metatypeTraits_ext (runOps_ext a b) h⟩

/-- Name <-> id: in every reachable state a named entry (built-in or registered, interface or metatype) is what
    its name resolves to — by whole-string lookup and by length-limited lookup with its exact length — and what
    its id resolves to; and this stays so after any further history. -/
theorem unique_stable (a b : List Op) (e : Named) (n : Name) (he : e ∈ allNamed (runOps a)) (hn : e.name = some n) :
    namedTraits (runOps (a ++ b)) n (-1) = some e ∧
    namedTraits (runOps (a ++ b)) n n.length = some e ∧
    (e ∈ (runOps a).metas → metatypeTraits (runOps (a ++ b)) e.id = some e) ∧
    (some e ∈ (runOps a).ifaces → interfaceTraits (runOps (a ++ b)) e.id = some e) := by
  have hinv := inv_runOps (a ++ b)
  have hext := runOps_ext a b
  have he' := allNamed_mono hext e he
  obtain ⟨h1, h2⟩ := name_roundtrip hinv he' hn
  exact ⟨h1, h2, fun hm => meta_by_id hinv (hext.metas.subset hm), fun hi => iface_by_id hinv (hext.ifaces.subset hi)⟩

example : namedTraits (runOps [.mtype (some [97, 98, 99, 100])]) [97, 98, 99, 100, 58, 120] 4 =
    some { name := some [97, 98, 99, 100], id := 257, traits := .known { size := 8, init := false, fini := false } } := by decide

/-- Refusals leave the registry unchanged: too short a name; a name that is already registered (in either table,
    built-ins included); an exhausted range. -/
theorem refusals (ops : List Op) :
    let r := runOps ops
    (∀ n : Name, n.length < 4 → ifaceAdd r (some n) = (r, none) ∧ metaAdd r (some n) = (r, none)) ∧
    (∀ e ∈ allNamed r, ∀ n, e.name = some n → ifaceAdd r (some n) = (r, none) ∧ metaAdd r (some n) = (r, none)) ∧
    (∀ name, r.ifaces.length ≥ 64 → ifaceAdd r name = (r, none)) ∧
    (∀ name, r.metas.length ≥ 1792 → metaAdd r name = (r, none)) ∧
    (∀ size, r.dyn.length ≥ 64 → basicAdd r size = (r, .err .MissingBuffer)) ∧
    (∀ d, r.generics.length ≥ 1792 → ∃ e, genericAdd r d = (r, .err e)) := by
  intro r
  have hinv : Inv r := inv_runOps ops
  obtain ⟨hgf, hmf, hdi, hdm, _, _⟩ := table_facts
  refine ⟨?_, ?_, ?_, ?_, ?_, ?_⟩
  · intro n hn
    have h1 : nameRefused TypeTab.minNameLenIface TypeTab.dupLookupIface (ownIface r) r (some n) = true := by
      simp [nameRefused, TypeTab.minNameLenIface, hn]
    have h2 : nameRefused TypeTab.minNameLenMeta TypeTab.dupLookupMeta (ownMeta r) r (some n) = true := by
      simp [nameRefused, TypeTab.minNameLenMeta, hn]
    simp only [ifaceAdd, metaAdd, h1, h2, if_true]
    split <;> simp
  · intro e he n hn
    have hfound := (name_roundtrip hinv he hn).1
    have h1 : nameRefused TypeTab.minNameLenIface TypeTab.dupLookupIface (ownIface r) r (some n) = true := by
      rw [hdi]; simp [nameRefused, dupFound, hfound]
    have h2 : nameRefused TypeTab.minNameLenMeta TypeTab.dupLookupMeta (ownMeta r) r (some n) = true := by
      rw [hdm]; simp [nameRefused, dupFound, hfound]
    simp only [ifaceAdd, metaAdd, h1, h2, if_true]
    split <;> simp
  · intro name h
    have : r.ifaces.length ≥ TypeTab.interfaceCap := h
    simp [ifaceAdd, this]
  · intro name h
    have : rangeRefused TypeTab.metaBase TypeTab.metaChunk r.metas.length TypeTab.metaLoopMax TypeTab.metaFinalMax = true := by
      rw [hmf]; apply rangeRefused_over
      simp only [TypeTab.metaBase, TypeTab.metaMax]; omega
    simp only [metaAdd, this, if_true]
    split <;> simp
  · intro size h
    have : ¬ r.dyn.length < TypeTab.dynamicCap := by simp only [TypeTab.dynamicCap]; omega
    simp [basicAdd, this]
  · intro d h
    have : rangeRefused TypeTab.genericBase TypeTab.genericChunk r.generics.length TypeTab.genericLoopMax TypeTab.genericFinalMax = true := by
      rw [hgf]; apply rangeRefused_over
      simp only [TypeTab.genericBase, TypeTab.genericMax]; omega
    simp only [genericAdd, this, if_true]
    split
    · exact ⟨_, rfl⟩
    · exact ⟨_, rfl⟩

/-- the capacities in `refusals` are exactly those of the id ranges: after the built-in entries
    (16 interface slots, 1 metatype) the tables hold 48 / 1791 / 64 / 1792 registrations -/
example : Kind.capacity .iface = 64 - 16 ∧ Kind.capacity .mtype = 1792 - 1 ∧ Kind.capacity .basic = 64 ∧ Kind.capacity .generic = 1792 := by
  decide

/-- Every built-in type — the system, pointer and value types of `core_sizes` (buffer pointer included), every
    scalar of `scalar_sizes`, its vector and the generic vector, the built-in interfaces, the metatype pointer and
    the static managed types — reports, in every reachable state, exactly the description S gives: the LP64 size of
    the C type it stands for; init/fini only for the managed types. -/
theorem builtin_sizes (ops : List Op) (id : Nat) (d : Desc) (hd : builtinDesc id = some d) :
    traits (runOps ops) id = some (.known d) := by
  have hall : ∀ x ∈ builtins, traits init x.1 = (builtinDesc x.1).map .known := by decide
  have hmem : ∃ x ∈ builtins, x.1 = id := by
    unfold builtinDesc at hd
    cases hf : builtins.find? (·.1 = id) with
    | none => simp [hf] at hd
    | some x => exact ⟨x, List.mem_of_find?_eq_some hf, by simpa using List.find?_some hf⟩
  obtain ⟨x, hx, rfl⟩ := hmem
  have hinit : traits init x.1 = some (.known d) := by rw [hall x hx, hd]; rfl
  have hext : Ext init (runOps ops) := by
    have := runOps_ext [] ops
    simpa [runOps] using this
  exact traits_ext hext hinit

example : builtinDesc TypeId.TypeBufferPtr = some { size := 8, init := false, fini := false } ∧
    builtinDesc TypeId.TypeVector = some { size := 16, init := false, fini := false } := by decide

/-- the generated built-in tables are covered: none of their ids is one of the two excluded ones -/
example : ∀ x ∈ TypeTab.coreSizes ++ TypeTab.scalarSizes, (builtinDesc x.1).isSome := by
  decide

/-- Wire format codes of the scalar types (message/msgvalfmt.c): every numeric scalar type has a code; the code
    is the one message.h describes (size - 1, kind bits, native byte order); it is mapped back to the same type id
    and encodes the size of the C type; and no other format byte is mapped to a type. -/
theorem msgfmt_consistent :
    (∀ t ∈ [98, 110, 105, 120, 121, 113, 117, 116, 102, 100, 101], msgCode t = specMsgCode t ∧ (msgCode t).isSome = true) ∧
    (∀ x ∈ TypeTab.msgCodes, msgTypeid x.2 = .ok x.1 ∧
        some (msgSize x.2) = ((scalarCTypes.find? (·.1 = x.1)).bind fun y => abiSize y.2)) ∧
    (∀ fmt ∈ List.range 256, (match msgTypeid fmt with | .ok t => some t | _ => none) = specMsgType fmt) := by
  refine ⟨by decide, by decide, by decide +kernel⟩

end Mpt.C06
