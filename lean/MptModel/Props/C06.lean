/-
  C06 — type registry: unique, stable, correctly described types.

  M = Impl/Registry.lean (registry of mptcore/types/type_traits.c over the constants, built-in tables and range
  tests that translate/cextract.py regenerates into Generated/TypeIds.lean and Generated/TypeTables.lean on every
  run).  S = Spec/Registry.lean (id ranges of types.h, C types behind the built-in ids, LP64 sizes).
  `runOps ops` is the registry after the history `ops` of registration requests, starting from the initial state.
-/
import MptModel.Lemmas.Registry
import MptModel.Lemmas.RegistryLookup
namespace Mpt.C06
open Mpt Mpt.Generated Mpt.Registry Mpt.RegSpec

/-- ranges of the id space that `mpt_type_traits` distinguishes, pairwise disjoint? -/
def disjointList : List (Nat × Nat) → Bool
  | [] => true
  | (lo, hi) :: rest => rest.all (fun (l, h) => decide (hi < l ∨ h < lo)) && disjointList rest

/-- The id ranges are disjoint: (1) the registration ranges of the four kinds (types.h) are pairwise disjoint and
    contain no built-in id; (2) the range tests `mpt_type_traits` performs (generated from the code, the null id
    aside) are pairwise disjoint, and the generic range starts above all of them. -/
theorem ranges_disjoint :
    (∀ k1 k2 : Kind, k1 ≠ k2 → k1.hi < k2.lo ∨ k2.hi < k1.lo) ∧
    (∀ k : Kind, ∀ b ∈ builtins, ¬ (k.lo ≤ b.1 ∧ b.1 ≤ k.hi)) ∧
    disjointList ((TypeTab.dispatch.filter (·.1 ≠ "null")).map (fun x => (if x.1 = "core" then 1 else x.2.1, x.2.2))) = true ∧
    (∀ x ∈ TypeTab.dispatch, x.2.2 < TypeTab.dispatchGenericBase) := by
  refine ⟨?_, ?_, by decide, by decide⟩
  · intro k1 k2 h; cases k1 <;> cases k2 <;> first | exact absurd rfl h | decide
  · intro k; cases k <;> decide

/-- Every id handed out lies in the range reserved for its kind (after any history). -/
theorem id_in_range (ops : List Op) (op : Op) (id : Nat) (h : (op.run (runOps ops)).2 = some id) :
    op.kind.lo ≤ id ∧ id ≤ op.kind.hi := by
  rcases run_result (runOps ops) op with ⟨id', hid, hbase, hmax, _⟩ | ⟨hnone, _⟩
  · rw [hid] at h; simp at h; subst h
    exact table_in_range (inv_runOps ops) op.kind id' hbase hmax
  · rw [hnone] at h; simp at h

example : (Op.run (runOps [.iface none, .basic 3]) (.mtype (some [97, 98, 99, 100]))).2 = some 257 := by decide

/-- Ids are unique for the life of the process: two accepted registrations of one history never return the
    same id (of whatever kinds). -/
theorem unique_ids (a b : List Op) (op1 op2 : Op) (id1 id2 : Nat)
    (h1 : (op1.run (runOps a)).2 = some id1)
    (h2 : (op2.run (runOps (a ++ op1 :: b))).2 = some id2) : id1 ≠ id2 := by
  have r1 := id_in_range a op1 id1 h1
  have r2 := id_in_range (a ++ op1 :: b) op2 id2 h2
  by_cases hk : op1.kind = op2.kind
  · -- same table: it has grown in between
    rcases run_result (runOps a) op1 with ⟨i1, hi1, hb1, _, hgrow⟩ | ⟨hn, _⟩
    · rcases run_result (runOps (a ++ op1 :: b)) op2 with ⟨i2, hi2, hb2, _, _⟩ | ⟨hn, _⟩
      · rw [hi1] at h1; rw [hi2] at h2; simp at h1 h2; subst h1; subst h2
        have hext : Ext (step (runOps a) op1) (runOps (a ++ op1 :: b)) := by
          have : runOps (a ++ op1 :: b) = b.foldl step (step (runOps a) op1) := by
            simp [runOps, List.foldl_append]
          rw [this]; exact foldl_ext b _
        have := tableLen_mono hext op1.kind
        rw [hk] at hb1 hgrow this
        omega
      · rw [hn] at h2; simp at h2
    · rw [hn] at h1; simp at h1
  · have hd := ranges_disjoint.1 op1.kind op2.kind hk
    omega

/-- Stability: whatever an id resolves to — description, interface entry, metatype entry (with its name) — it
    resolves to the same thing after any further history. -/
theorem stable (a b : List Op) (id : Nat) :
    (∀ t, traits (runOps a) id = some t → traits (runOps (a ++ b)) id = some t) ∧
    (∀ e, interfaceTraits (runOps a) id = some e → interfaceTraits (runOps (a ++ b)) id = some e) ∧
    (∀ e, metatypeTraits (runOps a) id = some e → metatypeTraits (runOps (a ++ b)) id = some e) :=
  ⟨fun _ h => traits_ext (runOps_ext a b) h, fun _ h => interfaceTraits_ext (runOps_ext a b) h,
   fun _ h => metatypeTraits_ext (runOps_ext a b) h⟩

/-- Name <-> id: in every reachable state a named entry (built-in or registered, interface or metatype) is what
    its name resolves to — by whole-string lookup and by length-limited lookup with its exact length — and what
    its id resolves to; and this stays so after any further history. -/
theorem unique_stable (a b : List Op) (e : Named) (n : Name) (he : e ∈ allNamed (runOps a)) (hn : e.name = some n) :
    namedTraits (runOps (a ++ b)) n (-1) = some e ∧
    namedTraits (runOps (a ++ b)) n n.length = some e ∧
    (e ∈ (runOps a).metas → metatypeTraits (runOps (a ++ b)) e.id = some e) ∧
    (some e ∈ (runOps a).ifaces → interfaceTraits (runOps (a ++ b)) e.id = some e) := by
  have hinv := inv_runOps (a ++ b)
  have hext := runOps_ext a b
  have he' := allNamed_mono hext e he
  obtain ⟨h1, h2⟩ := name_roundtrip hinv he' hn
  exact ⟨h1, h2, fun hm => meta_by_id hinv (hext.metas.subset hm), fun hi => iface_by_id hinv (hext.ifaces.subset hi)⟩

example : namedTraits (runOps [.mtype (some [97, 98, 99, 100])]) [97, 98, 99, 100, 58, 120] 4 =
    some { name := some [97, 98, 99, 100], id := 257, traits := .known { size := 8, init := false, fini := false } } := by decide

/-- An id that was handed out resolves, from then on, to exactly what was registered: `mpt_type_traits` gives the
    requested description (`Op.desc`: the basic size — a pointer for size 0 —, the generic traits record, a pointer for
    interfaces and metatypes); `mpt_interface_traits` / `mpt_metatype_traits` give the entry with the requested name and
    this id; and a name that was given is found by whole-string lookup and by length-limited lookup in any text that
    starts with it.  `b` is any later history. -/
theorem issued_resolves (a b : List Op) (op : Op) (id : Nat) (h : (op.run (runOps a)).2 = some id) :
    traits (runOps (a ++ op :: b)) id = some (.known op.desc) ∧
    (∀ n, op = .iface n →
      interfaceTraits (runOps (a ++ op :: b)) id = some { name := n, id := id, traits := .known ptrDesc }) ∧
    (∀ n, op = .mtype n →
      metatypeTraits (runOps (a ++ op :: b)) id = some { name := n, id := id, traits := .known ptrDesc }) ∧
    (∀ n, op.name = some n →
      namedTraits (runOps (a ++ op :: b)) n (-1) = some { name := some n, id := id, traits := .known ptrDesc } ∧
      ∀ suffix, namedTraits (runOps (a ++ op :: b)) (n ++ suffix) n.length =
        some { name := some n, id := id, traits := .known ptrDesc }) := by
  have hrun : runOps (a ++ op :: b) = b.foldl step (step (runOps a) op) := by simp [runOps, List.foldl_append]
  have hext : Ext (step (runOps a) op) (runOps (a ++ op :: b)) := by rw [hrun]; exact foldl_ext b _
  have hinv := inv_runOps (a ++ op :: b)
  obtain ⟨ht, hi, hm⟩ := issued_step (runOps a) (inv_runOps a) op id h
  refine ⟨traits_ext hext ht, fun n hn => interfaceTraits_ext hext (hi n hn).1,
    fun n hn => metatypeTraits_ext hext (hm n hn).1, ?_⟩
  intro n hn
  have hmem : ({ name := some n, id := id, traits := .known ptrDesc } : Named) ∈ allNamed (runOps (a ++ op :: b)) := by
    rw [mem_allNamed]
    cases op with
    | basic size => simp [Op.name] at hn
    | generic d => simp [Op.name] at hn
    | iface nm => simp only [Op.name] at hn; subst hn; exact Or.inr (hext.ifaces.subset (hi _ rfl).2)
    | mtype nm => simp only [Op.name] at hn; subst hn; exact Or.inl (hext.metas.subset (hm _ rfl).2)
  exact ⟨(name_roundtrip hinv hmem rfl).1, fun suffix => named_prefix hinv hmem rfl suffix⟩

example : (Op.run (runOps [.basic 0]) (.generic { size := 7, init := true, fini := false })).2 = some 2304 ∧
    (Op.run (runOps []) (.mtype (some [97, 98, 99, 100]))).2 = some 257 := by decide

/-- Lookup by name is sound and complete in every reachable state.  Whole string (`len < 0`): the result is an entry
    whose name is the text after short-name expansion.  Length-limited: the result is an entry whose name is *exactly*
    the first `len` characters of the text — so a registered name is found in every text it starts (with its own
    length), never with a shorter or longer limit, and a name that is a proper prefix of another registered name does
    not shadow it.  If no entry carries the key, nothing is found. -/
theorem lookup_by_name (ops : List Op) :
    (∀ e ∈ allNamed (runOps ops), ∀ n, e.name = some n →
      namedTraits (runOps ops) n (-1) = some e ∧ ∀ suffix, namedTraits (runOps ops) (n ++ suffix) n.length = some e) ∧
    (∀ text e, namedTraits (runOps ops) text (-1) = some e →
      e ∈ allNamed (runOps ops) ∧ e.name = some (resolveShort text)) ∧
    (∀ text (len : Nat) e, namedTraits (runOps ops) text len = some e →
      len ≠ 0 ∧ len ≤ text.length ∧ e ∈ allNamed (runOps ops) ∧ e.name = some (text.take len)) ∧
    (∀ text (len : Nat) e n, namedTraits (runOps ops) text len = some e → e.name = some n → n.length = len) ∧
    (∀ text, (∀ e ∈ allNamed (runOps ops), e.name ≠ some (resolveShort text)) → namedTraits (runOps ops) text (-1) = none) ∧
    (∀ text (len : Nat), (∀ e ∈ allNamed (runOps ops), e.name ≠ some (text.take len)) →
      namedTraits (runOps ops) text len = none) := by
  have hinv := inv_runOps ops
  exact ⟨fun e he n hn => ⟨(name_roundtrip hinv he hn).1, named_prefix hinv he hn⟩,
    fun _ _ h => named_whole_sound h, fun _ _ _ h => named_len_sound h,
    fun _ _ _ _ h hn => (named_len_exact h hn).1, fun _ => named_none.1, fun _ => named_none.2⟩

/-- "abcd" and "abcde" registered: the text "abcde" with limit 4 finds "abcd", with limit 5 "abcde", with limit 3
    nothing -/
example :
    let r := runOps [.mtype (some [97, 98, 99, 100, 101]), .mtype (some [97, 98, 99, 100])]
    (namedTraits r [97, 98, 99, 100, 101] 4).map (·.id) = some 258 ∧
    (namedTraits r [97, 98, 99, 100, 101] 5).map (·.id) = some 257 ∧
    namedTraits r [97, 98, 99, 100, 101] 3 = none := by decide

/-- `mpt_alias_typeid(desc, &end)` in every reachable state.  (1) A registered name without `:` resolves to its id,
    `end` at the end of the text.  (2) `name ws* : ws* symbol` (the name has no `:` and does not end in white space)
    resolves to the id of that name, `end` at the symbol.  (3) Whatever is accepted is the id of the entry named by the
    name part: the whole text after short-name expansion, or the text in front of the first `:` without its trailing
    white space (never empty). -/
theorem alias_lookup (ops : List Op) :
    (∀ e ∈ allNamed (runOps ops), ∀ n, e.name = some n → 58 ∉ n → aliasTypeid (runOps ops) n = .ok (e.id, n.length)) ∧
    (∀ e ∈ allNamed (runOps ops), ∀ n, e.name = some n → 58 ∉ n → (∀ c, n.getLast? = some c → isSpaceC c = false) →
      ∀ ws ws2 sym : Name, (∀ c ∈ ws, isSpaceC c = true) → (∀ c ∈ ws2, isSpaceC c = true) →
        (∀ c, sym.head? = some c → isSpaceC c = false) →
        aliasTypeid (runOps ops) (n ++ ws ++ 58 :: (ws2 ++ sym)) = .ok (e.id, n.length + ws.length + 1 + ws2.length)) ∧
    (∀ desc id off, aliasTypeid (runOps ops) desc = .ok (id, off) →
      ∃ e ∈ allNamed (runOps ops), e.id = id ∧
        ((58 ∉ desc ∧ e.name = some (resolveShort desc)) ∨
         (∃ k, desc.findIdx? (· = 58) = some k ∧ aliasKey desc k ≠ [] ∧
            e.name = some (desc.take (aliasKey desc k).length)))) := by
  have hinv := inv_runOps ops
  refine ⟨?_, ?_, fun _ _ _ h => alias_sound h⟩
  · intro e he n hn hc
    rw [alias_plain _ _ hc, (name_roundtrip hinv he hn).1]
  · intro e he n hn hc hl ws ws2 sym h1 h2 h3
    exact alias_described hinv he hn ws ws2 sym hc hl h1 h2 h3

/-- The documented short forms (`log`, `iter`, `out`, `meta`; Spec `shortNames`) given as a description without `:`
    resolve, in every reachable state, to the id of the built-in type they stand for — the alias lookup agrees with
    the whole-string lookup of the registry. -/
theorem alias_short_forms (ops : List Op) :
    ∀ sf ∈ shortNames, ∃ e ∈ allNamed init, e.name = some sf.2 ∧
      namedTraits (runOps ops) sf.1 (-1) = some e ∧ aliasTypeid (runOps ops) sf.1 = .ok (e.id, sf.1.length) := by
  have hinv := inv_runOps ops
  have hshort : ∀ sf ∈ shortNames, resolveShort sf.1 = sf.2 ∧ sf.1 ≠ [] ∧ 58 ∉ sf.1 ∧
      ∃ e ∈ allNamed init, e.name = some sf.2 := by decide
  intro sf hsf
  obtain ⟨hres, hne, hcolon, e, he, hn⟩ := hshort sf hsf
  have he' := allNamed_mono hinv.ext e he
  have hfull := (name_roundtrip hinv he' hn).1
  obtain ⟨hfix, hne2⟩ := hinv.noShort e he' sf.2 hn
  have hlk : lookupKey (runOps ops) sf.2 = some e := by
    simpa [namedTraits, hne2, hfix] using hfull
  have hnt : namedTraits (runOps ops) sf.1 (-1) = some e := by
    simp [namedTraits, hne, hres, hlk]
  exact ⟨e, he, hn, hnt, by rw [alias_plain _ _ hcolon, hnt]⟩

/-- "my.type" registered: `my.type : lib.so` gives its id and the offset of `lib.so`; `my.typ:x` and `:x` are refused -/
example :
    let r := runOps [.mtype (some [109, 121, 46, 116, 121, 112, 101])]
    aliasTypeid r [109, 121, 46, 116, 121, 112, 101, 32, 58, 32, 108, 105, 98] = .ok (257, 10) ∧
    aliasTypeid r [109, 121, 46, 116, 121, 112, 58, 120] = .err .BadValue ∧
    aliasTypeid r [58, 120] = .err .BadValue ∧
    aliasTypeid r [108, 111, 103] = .ok (129, 3) := by decide

/-- `mpt_type_int` / `mpt_type_uint`: the integer type code of a byte size (b n i x / y q u t), 0 for every other
    size -/
theorem type_int_sizes :
    (∀ k ∈ List.range 64, typeInt k = (match k with | 1 => 98 | 2 => 110 | 4 => 105 | 8 => 120 | _ => 0)) ∧
    (∀ k ∈ List.range 64, typeUint k = (match k with | 1 => 121 | 2 => 113 | 4 => 117 | 8 => 116 | _ => 0)) ∧
    (∀ k, 8 < k → typeInt k = 0 ∧ typeUint k = 0) := by
  refine ⟨by decide, by decide, ?_⟩
  intro k hk
  have h : ∀ x ∈ TypeTab.typeInt ++ TypeTab.typeUint, x.1 ≤ 8 := by decide
  constructor
  · unfold typeInt
    cases hf : TypeTab.typeInt.find? (·.1 = k) with
    | none => rfl
    | some x =>
      have := h x (List.mem_append_left _ (List.mem_of_find?_eq_some hf))
      have hk' : x.1 = k := by simpa using List.find?_some hf
      omega
  · unfold typeUint
    cases hf : TypeTab.typeUint.find? (·.1 = k) with
    | none => rfl
    | some x =>
      have := h x (List.mem_append_right _ (List.mem_of_find?_eq_some hf))
      have hk' : x.1 = k := by simpa using List.find?_some hf
      omega

/-- Refusals leave the registry unchanged: too short a name; a name that is already registered (in either table,
    built-ins included); an exhausted range. -/
theorem refusals (ops : List Op) :
    let r := runOps ops
    (∀ n : Name, n.length < 4 → ifaceAdd r (some n) = (r, none) ∧ metaAdd r (some n) = (r, none)) ∧
    (∀ e ∈ allNamed r, ∀ n, e.name = some n → ifaceAdd r (some n) = (r, none) ∧ metaAdd r (some n) = (r, none)) ∧
    (∀ name, r.ifaces.length ≥ 64 → ifaceAdd r name = (r, none)) ∧
    (∀ name, r.metas.length ≥ 1792 → metaAdd r name = (r, none)) ∧
    (∀ size, r.dyn.length ≥ 64 → basicAdd r size = (r, .err .MissingBuffer)) ∧
    (∀ d, r.generics.length ≥ 1792 → ∃ e, genericAdd r d = (r, .err e)) := by
  intro r
  have hinv : Inv r := inv_runOps ops
  obtain ⟨hgf, hmf, hdi, hdm, _, _⟩ := table_facts
  refine ⟨?_, ?_, ?_, ?_, ?_, ?_⟩
  · intro n hn
    have h1 : nameRefused TypeTab.minNameLenIface TypeTab.dupLookupIface (ownIface r) r (some n) = true := by
      simp [nameRefused, TypeTab.minNameLenIface, hn]
    have h2 : nameRefused TypeTab.minNameLenMeta TypeTab.dupLookupMeta (ownMeta r) r (some n) = true := by
      simp [nameRefused, TypeTab.minNameLenMeta, hn]
    simp only [ifaceAdd, metaAdd, h1, h2, if_true]
    split <;> simp
  · intro e he n hn
    have hfound := (name_roundtrip hinv he hn).1
    have h1 : nameRefused TypeTab.minNameLenIface TypeTab.dupLookupIface (ownIface r) r (some n) = true := by
      rw [hdi]; simp [nameRefused, dupFound, hfound]
    have h2 : nameRefused TypeTab.minNameLenMeta TypeTab.dupLookupMeta (ownMeta r) r (some n) = true := by
      rw [hdm]; simp [nameRefused, dupFound, hfound]
    simp only [ifaceAdd, metaAdd, h1, h2, if_true]
    split <;> simp
  · intro name h
    have : r.ifaces.length ≥ TypeTab.interfaceCap := h
    simp [ifaceAdd, this]
  · intro name h
    have : rangeRefused TypeTab.metaBase TypeTab.metaChunk r.metas.length TypeTab.metaLoopMax TypeTab.metaFinalMax = true := by
      rw [hmf]; apply rangeRefused_over
      simp only [TypeTab.metaBase, TypeTab.metaMax]; omega
    simp only [metaAdd, this, if_true]
    split <;> simp
  · intro size h
    have : ¬ r.dyn.length < TypeTab.dynamicCap := by simp only [TypeTab.dynamicCap]; omega
    simp [basicAdd, this]
  · intro d h
    have : rangeRefused TypeTab.genericBase TypeTab.genericChunk r.generics.length TypeTab.genericLoopMax TypeTab.genericFinalMax = true := by
      rw [hgf]; apply rangeRefused_over
      simp only [TypeTab.genericBase, TypeTab.genericMax]; omega
    simp only [genericAdd, this, if_true]
    split
    · exact ⟨_, rfl⟩
    · exact ⟨_, rfl⟩

/-- the exhausted states of `refusals` are reachable: 48 interface registrations fill the 64 slots and the 49th is
    refused; 64 basic registrations fill the dynamic range (the metatype and generic ranges are filled by the `cap:`
    scripts of the differential run) -/
example : (runOps (List.replicate 48 (.iface none))).ifaces.length = 64 ∧
    (Op.run (runOps (List.replicate 48 (.iface none))) (.iface none)).2 = none ∧
    (runOps (List.replicate 64 (.basic 3))).dyn.length = 64 := by decide +kernel

/-- the capacities in `refusals` are exactly those of the id ranges: after the built-in entries
    (16 interface slots, 1 metatype) the tables hold 48 / 1791 / 64 / 1792 registrations -/
example : Kind.capacity .iface = 64 - 16 ∧ Kind.capacity .mtype = 1792 - 1 ∧ Kind.capacity .basic = 64 ∧ Kind.capacity .generic = 1792 := by
  decide

/-- Every built-in type — the system, pointer and value types of `core_sizes` (buffer pointer included), every
    scalar of `scalar_sizes`, its vector and the generic vector, the built-in interfaces, the metatype pointer and
    the static managed types — reports, in every reachable state, exactly the description S gives: the LP64 size of
    the C type it stands for; init/fini only for the managed types. -/
theorem builtin_sizes (ops : List Op) (id : Nat) (d : Desc) (hd : builtinDesc id = some d) :
    traits (runOps ops) id = some (.known d) := by
  have hall : ∀ x ∈ builtins, traits init x.1 = (builtinDesc x.1).map .known := by decide
  have hmem : ∃ x ∈ builtins, x.1 = id := by
    unfold builtinDesc at hd
    cases hf : builtins.find? (·.1 = id) with
    | none => simp [hf] at hd
    | some x => exact ⟨x, List.mem_of_find?_eq_some hf, by simpa using List.find?_some hf⟩
  obtain ⟨x, hx, rfl⟩ := hmem
  have hinit : traits init x.1 = some (.known d) := by rw [hall x hx, hd]; rfl
  have hext : Ext init (runOps ops) := by
    have := runOps_ext [] ops
    simpa [runOps] using this
  exact traits_ext hext hinit

/-- The fresh registry, every id: `mpt_type_traits` describes exactly the built-in ids, each the way S does (size of its
    C type — the number clang computed, `Generated.sizeofC`, against the LP64 table of S — and init/fini only for the
    managed types), and no other id resolves.  With `stable`, `issued_resolves` and `id_in_range` this determines
    `mpt_type_traits` on every id that is built in or was handed out. -/
theorem fresh_registry (id : Nat) : traits init id = (builtinDesc id).map .known := by
  have hnone : ∀ lo hi : Nat, (∀ b ∈ builtins, ¬ (lo ≤ b.1 ∧ b.1 ≤ hi)) → lo ≤ id → id ≤ hi → builtinDesc id = none := by
    intro lo hi h h1 h2
    unfold builtinDesc
    cases hf : builtins.find? (·.1 = id) with
    | none => rfl
    | some x =>
      have hx : x.1 = id := by simpa using List.find?_some hf
      exact absurd ⟨hx ▸ h1, hx ▸ h2⟩ (h x (List.mem_of_find?_eq_some hf))
  by_cases h0 : id < 192
  · have h : ∀ i ∈ List.range 192, traits init i = (builtinDesc i).map .known := by decide +kernel
    exact h id (List.mem_range.2 h0)
  by_cases h1 : id ≤ 255
  · rw [traits_dynamic init id ⟨by omega, h1⟩, hnone 192 255 (by decide) (by omega) h1]
    simp [init]
  by_cases h2 : id ≤ 2047
  · rw [traits_meta init id ⟨by omega, h2⟩]
    by_cases h256 : id = 256
    · subst h256; decide
    · rw [hnone 257 2047 (by decide) (by omega) h2]
      have : ¬ (id > TypeTab.metaLookup.2 ∨ id < TypeTab.metaLookup.1) := by
        simp only [TypeTab.metaLookup]; omega
      unfold metatypeTraits
      simp only [this, if_false]
      have hlen : init.metas.length = 1 := by decide
      have hk : init.metas.length ≤ id - TypeTab.metaBase := by
        simp only [hlen, TypeTab.metaBase]; omega
      rw [List.getElem?_eq_none hk]; rfl
  by_cases h3 : id < 2304
  · have h : ∀ i ∈ List.range' 2048 256, traits init i = (builtinDesc i).map .known := by decide +kernel
    exact h id (by rw [List.mem_range']; exact ⟨id - 2048, by omega, by omega⟩)
  · rw [traits_generic init id (by omega)]
    have hb : ∀ b ∈ builtins, b.1 < 2304 := by decide
    have : builtinDesc id = none := by
      unfold builtinDesc
      cases hf : builtins.find? (·.1 = id) with
      | none => rfl
      | some x =>
        have hx : x.1 = id := by simpa using List.find?_some hf
        have := hb x (List.mem_of_find?_eq_some hf)
        omega
    rw [this]; simp [init]

example : builtinDesc TypeId.TypeBufferPtr = some { size := 8, init := false, fini := false } ∧
    builtinDesc TypeId.TypeVector = some { size := 16, init := false, fini := false } := by decide

/-- the generated built-in tables are covered: none of their ids is one of the two excluded ones -/
example : ∀ x ∈ TypeTab.coreSizes ++ TypeTab.scalarSizes, (builtinDesc x.1).isSome := by
  decide

/-- Wire format codes of the scalar types (message/msgvalfmt.c): every numeric scalar type has a code; the code
    is the one message.h describes (size - 1, kind bits, native byte order); it is mapped back to the same type id
    and encodes the size of the C type; and no other format byte is mapped to a type. -/
theorem msgfmt_consistent :
    (∀ t ∈ [98, 110, 105, 120, 121, 113, 117, 116, 102, 100, 101], msgCode t = specMsgCode t ∧ (msgCode t).isSome = true) ∧
    (∀ x ∈ TypeTab.msgCodes, msgTypeid x.2 = .ok x.1 ∧
        some (msgSize x.2) = ((scalarCTypes.find? (·.1 = x.1)).bind fun y => abiSize y.2)) ∧
    (∀ fmt ∈ List.range 256, (match msgTypeid fmt with | .ok t => some t | _ => none) = specMsgType fmt) := by
  refine ⟨by decide, by decide, by decide +kernel⟩

end Mpt.C06
