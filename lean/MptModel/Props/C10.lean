import MptModel.Impl.Config
import MptModel.Spec.PathMap
namespace Mpt.C10
theorem placeholder : True := trivial
end Mpt.C10
