/-
  C10 — the configuration store behaves as a path -> value map.

  M = `Impl/Config.lean`: byte-level model of mpt_path_set/next/last/addchar/valid/add/del and the
  tree functions node_query/node_assign/meta_set/config_global assign·query·remove on ordered trees
  (`CNode`; the pointer operations behind them are the subject of C14).  S = `Spec/PathMap.lean`.

  Proved: `path_split` / `path_split_assign` (mpt_path_set + mpt_path_next visit exactly the separator-delimited
  components in front of the first assign character, for every text, separator and assign character, incl. first
  elements longer than the 8 bit `first` field), `path_last` (mpt_path_last after any number of consumed
  components reduces the path to the last component), `path_rebuild_sep`/`path_rebuild_bin`/`path_undo_sep`/
  `path_undo_bin`/`path_last_bin` (a path built with addchar/valid/add holds exactly its elements in separator and
  in binary length mode, del takes the last element off again and the rest can be walked and extended),
  `map_refinement` (for every history of assignments and removals with non-empty paths a query of the
  tree returns what the map holds: get-after-set, independence of different paths, remove = remove the
  prefix and nothing else), for the node tree of the global configuration, through sub-tree views
  (`map_refinement_view`: make_global never touches a value, a view with base `b` acts at `b ++ k`) and
  (`map_refinement_items`) for the item arrays of the private C++ configuration `mpt::config::root`
  (`Impl/ConfigItems.lean`).
  `assign_refused_pure`: a refused assignment (value without text form, over-long element) leaves the tree as it
  was, on every front end.
  `map_refinement_view_empty`: remove through a view with an empty / NULL path.
  Not proved (correspondence run only): mpt_path_set with an explicit length, paths with a non-zero offset handed to the builders.
-/
import MptModel.Lemmas.ConfigMap
import MptModel.Lemmas.ConfigPath
import MptModel.Lemmas.ConfigItemsMap
import MptModel.Lemmas.ConfigPathBuild
import MptModel.Lemmas.ConfigView
import MptModel.Lemmas.ConfigCursor
namespace Mpt.C10
open Mpt Mpt.Config Mpt.PathMap

/-! ### path_split -/

/-- Splitting a path text with `mpt_path_set(path, text, -1)` (separator `sep ≠ 0`, assign character 0) and
    consuming it with `mpt_path_next` until it is used up yields exactly the separator-delimited components
    of the text — also when the first element is longer than 255 bytes (`first` cannot hold its length). -/
theorem path_split (sep : Byte) (hs : sep ≠ 0) (text : List Byte) (h0 : (0 : Byte) ∉ text) :
    elems (pathSet sep 0 text).1 (text.length + 2) = .ok (splitOn sep text) :=
  elems_pathSet sep hs text h0

example : elems (pathSet 46 0 [97, 46, 46, 98, 99]).1 7 = .ok [[97], [], [98, 99]] := by
  simpa [splitOn] using path_split 46 (by decide) [97, 46, 46, 98, 99] (by decide)

/-- the components of a text are never none, and a text without separator is its only component -/
theorem split_basic (sep : Byte) (t : List Byte) :
    splitOn sep t ≠ [] ∧ (sep ∉ t → splitOn sep t = [t]) :=
  ⟨splitOn_ne_nil sep t, splitOn_no_sep sep t⟩

/-- `path_split` with any assign character: the walk yields the components of the text in front of the first assign
    character (`splitPath`) -/
theorem path_split_assign (sep assign : Byte) (hs : sep ≠ 0) (hsa : sep ≠ assign) (text : List Byte)
    (h0 : (0 : Byte) ∉ text) :
    elems (pathSet sep assign text).1 (text.length + 2) = .ok (splitPath sep assign text) :=
  elems_pathSet_assign sep assign hs hsa text h0

example : elems (pathSet 46 61 [97, 46, 98, 61, 99, 46, 100]).1 9 = .ok [[97], [98]] := by
  have := path_split_assign 46 61 (by decide) (by decide) [97, 46, 98, 61, 99, 46, 100] (by decide)
  simpa [splitPath, splitOn] using this

/-- `mpt_path_last` after `n` calls of `mpt_path_next` (fewer than there are components): the path is reduced to
    the last component of the text and its length is returned — whatever was consumed before and however long the
    components are (`first` only holds 8 bits) -/
theorem path_last (sep assign : Byte) (hs : sep ≠ 0) (hsa : sep ≠ assign) (text : List Byte)
    (h0 : (0 : Byte) ∉ text) (n : Nat) (hn : n < (splitPath sep assign text).length) :
    ∃ p q last, (splitPath sep assign text).getLast? = some last ∧
      nextN (pathSet sep assign text).1 n = .ok p ∧ pathLast p = .ok (q, last.length) ∧
      elems q (last.length + 2) = .ok [last] :=
  pathLast_after_next sep assign hs hsa text h0 n hn

example : ∃ p q, nextN (pathSet 46 0 [97, 46, 98, 46, 99, 100]).1 1 = .ok p ∧ pathLast p = .ok (q, 2) ∧
    elems q 4 = .ok [[99, 100]] := by
  obtain ⟨p, q, last, h1, h2, h3, h4⟩ := path_last 46 0 (by decide) (by decide) [97, 46, 98, 46, 99, 100] (by decide) 1
    (by simp [splitPath, splitOn])
  have : last = [99, 100] := by simpa [splitPath, splitOn] using h1.symm
  subst this
  exact ⟨p, q, h2, h3, h4⟩

/-- rebuilding in separator mode: a path built element by element (every character through `mpt_path_addchar` +
    `mpt_path_valid`, then `mpt_path_add`; elements without separator, empty ones included — also as the first one) is walked by
    `mpt_path_next` as exactly these elements -/
theorem path_rebuild_sep (sep assign : Byte) (e0 : List Byte) (es : List (List Byte))
    (hs : ∀ e ∈ e0 :: es, sep ∉ e) :
    ∃ p, pushElems (emptyPath sep assign false) (e0 :: es) = .ok p ∧
      elems p ((joinSep sep (e0 :: es)).length + 2) = .ok (e0 :: es) := by
  obtain ⟨p, h1, _, h3⟩ := build_sep sep assign e0 es hs
  exact ⟨p, h1, h3⟩

example : ∃ p, pushElems (emptyPath 47 0 false) [[97], [], [98, 99]] = .ok p ∧ elems p 7 = .ok [[97], [], [98, 99]] := by
  simpa [joinSep] using path_rebuild_sep 47 0 [97] [[], [98, 99]] (by simp)

-- the text `.a`: an empty first element
example : ∃ p, pushElems (emptyPath 46 0 false) [[], [97]] = .ok p ∧ elems p 4 = .ok [[], [97]] := by
  simpa [joinSep] using path_rebuild_sep 46 0 [] [[97]] (by simp)

/-- rebuilding in binary length mode (elements of at most 255 bytes, empty ones included) -/

theorem path_rebuild_bin (sep assign : Byte) (e0 : List Byte) (es : List (List Byte))
    (hs : ∀ e ∈ e0 :: es, e.length ≤ 255) :
    ∃ p, pushElems (emptyPath sep assign true) (e0 :: es) = .ok p ∧
      elems p ((e0 :: es).length + 1) = .ok (e0 :: es) := by
  obtain ⟨p, h1, _, h3⟩ := build_bin sep assign e0 es hs
  exact ⟨p, h1, h3⟩

example : ∃ p, pushElems (emptyPath 46 0 true) [[97, 46], [98]] = .ok p ∧ elems p 3 = .ok [[97, 46], [98]] :=
  path_rebuild_bin 46 0 [97, 46] [[98]] (by simp)

/-- undo in separator mode: `mpt_path_del` on the path built from `es ++ [e]` returns the length of `e`, and what is
    left is walked as `es` and can be extended again (`pushElem` of a new element succeeds and gives `es ++ [e']`) -/
theorem path_undo_sep (sep assign : Byte) (e0 : List Byte) (es : List (List Byte)) (e e' : List Byte)
    (hs : ∀ x ∈ e0 :: es ++ [e], sep ∉ x) (hs' : sep ∉ e') :
    ∃ p q r, pushElems (emptyPath sep assign false) (e0 :: es ++ [e]) = .ok p ∧ pathDel p = .ok (q, e.length) ∧
      elems q ((joinSep sep (e0 :: es)).length + 2) = .ok (e0 :: es) ∧
      pushElem q e' = .ok r ∧ elems r ((joinSep sep (e0 :: es ++ [e'])).length + 2) = .ok (e0 :: es ++ [e']) := by
  obtain ⟨p, h1, h2, _⟩ := build_sep sep assign e0 (es ++ [e]) (by simpa using hs)
  obtain ⟨q, hq, hQ, _⟩ := pathDel_sep (es := e0 :: es) (e := e) (by simpa using h2) (hs e (by simp))
  have hQ' := hQ (by simp)
  obtain ⟨x, hS⟩ := hQ'.sp
  have hse : ∀ x ∈ e0 :: es, sep ∉ x := fun x hx => hs x (by simp at hx ⊢; rcases hx with h | h <;> simp [h])
  obtain ⟨r, hr, hR⟩ := pushElem_sep hQ' (by simp) e' hs'
  obtain ⟨y, hS'⟩ := hR.sp
  have hall : ∀ x ∈ e0 :: es ++ [e'], sep ∉ x := by
    intro x hx
    rw [List.mem_append] at hx
    rcases hx with h | h
    · exact hse x h
    · simp at h; exact h ▸ hs'
  refine ⟨p, q, r, h1, hq, ?_, hr, ?_⟩
  · rw [elems_sepPath hS _ (Nat.le_refl _), splitOn_joinSep sep _ (by simp) hse]
  · rw [elems_sepPath hS' _ (Nat.le_refl _), splitOn_joinSep sep _ (by simp) hall]

example : ∃ p q r, pushElems (emptyPath 47 0 false) [[97], [98], [99]] = .ok p ∧ pathDel p = .ok (q, 1) ∧
    elems q 5 = .ok [[97], [98]] ∧ pushElem q [100, 101] = .ok r ∧ elems r 8 = .ok [[97], [98], [100, 101]] := by
  simpa [joinSep] using path_undo_sep 47 0 [97] [[98]] [99] [100, 101] (by simp) (by simp)

/-- undo in binary length mode -/
theorem path_undo_bin (sep assign : Byte) (e0 : List Byte) (es : List (List Byte)) (e e' : List Byte)
    (hs : ∀ x ∈ e0 :: es ++ [e], x.length ≤ 255) (hs' : e'.length ≤ 255) :
    ∃ p q r, pushElems (emptyPath sep assign true) (e0 :: es ++ [e]) = .ok p ∧ pathDel p = .ok (q, e.length) ∧
      elems q ((e0 :: es).length + 1) = .ok (e0 :: es) ∧
      pushElem q e' = .ok r ∧ elems r ((e0 :: es ++ [e']).length + 1) = .ok (e0 :: es ++ [e']) := by
  obtain ⟨p, h1, h2, _⟩ := build_bin sep assign e0 (es ++ [e]) (by simpa using hs)
  obtain ⟨q, hq, hQ, _⟩ := pathDel_bin (es := e0 :: es) (e := e) (by simpa using h2)
  have hQ' := hQ (by simp)
  obtain ⟨r, hr, hR⟩ := pushElem_bin hQ' (by simp) e' hs'
  exact ⟨p, q, r, h1, hq, elems_arrB hQ', hr, by simpa using elems_arrB hR⟩

example : ∃ p q r, pushElems (emptyPath 47 0 true) [[97], [47]] = .ok p ∧ pathDel p = .ok (q, 1) ∧
    elems q 2 = .ok [[97]] ∧ pushElem q [] = .ok r ∧ elems r 3 = .ok [[97], []] := by
  simpa using path_undo_bin 47 0 [97] [] [47] [] (by simp) (by simp)

/-- `mpt_path_last` on a binary-mode path built from `es ++ [e]`: the path is reduced to `e` -/
theorem path_last_bin (sep assign : Byte) (e0 : List Byte) (es : List (List Byte)) (e : List Byte)
    (hs : ∀ x ∈ e0 :: es ++ [e], x.length ≤ 255) :
    ∃ p q, pushElems (emptyPath sep assign true) (e0 :: es ++ [e]) = .ok p ∧ pathLast p = .ok (q, e.length) ∧
      elems q 2 = .ok [e] := by
  obtain ⟨p, h1, h2, _⟩ := build_bin sep assign e0 (es ++ [e]) (by simpa using hs)
  obtain ⟨q, hq, hq'⟩ := pathLast_bin (es := e0 :: es) (e := e) (by simpa using h2)
  exact ⟨p, q, h1, hq, hq'⟩

example : ∃ p q, pushElems (emptyPath 47 0 true) [[97], [98, 47]] = .ok p ∧ pathLast p = .ok (q, 2) ∧
    elems q 2 = .ok [[98, 47]] := by
  simpa using path_last_bin 47 0 [97] [] [98, 47] (by simp)

/-! ### map_refinement -/

/-- get-after-set and independence on the tree: after `mpt_node_assign` the assigned path reads the new
    value, every other path reads what it read before (no uniqueness assumption needed) -/
theorem get_after_set (k : Key) (l l' : List CNode) (v : Value) (h : nodeAssign l k v = some l') :
    valueAt l' k = some v ∧ ∀ k', k' ≠ k → valueAt l' k' = valueAt l k' := by
  refine ⟨by simp [valueAt_assign k l l' v h k], fun k' hk => ?_⟩
  rw [valueAt_assign k l l' v h k']
  simp [hk]

/-- remove = remove the prefix and nothing else (sibling names unique, as every reachable tree has them) -/
theorem remove_prefix_only (k : Key) (l l' : List CNode) (hu : Uniq l) (h : removeExact l k = some l') :
    (∀ k', k.isPrefixOf k' = true → valueAt l' k' = none) ∧
    (∀ k', k.isPrefixOf k' = false → valueAt l' k' = valueAt l k') := by
  refine ⟨fun k' hp => ?_, fun k' hp => ?_⟩
  · rw [valueAt_remove k l l' hu h k']; simp [hp]
  · rw [valueAt_remove k l l' hu h k']; simp [hp]

/-- For all histories of assignments and removals (non-empty paths) starting from the empty configuration:
    the tree keeps unique sibling names, and a query for any path returns exactly what the map
    `set`/`removePrefix` holds. -/
theorem map_refinement (ops : List Op) (hk : ∀ op ∈ ops, op.key ≠ []) :
    Uniq (ops.foldl stepM []) ∧ ∀ k, k ≠ [] → valueAt (ops.foldl stepM []) k = PathMap.get (ops.foldl stepS []) k :=
  agree_foldl ops [] [] (by simp [Uniq]) (by intro k _; simp [valueAt, findExact, locate, PathMap.get]; cases k <;> simp [findExact, locate]) hk

example : valueAt ([Op.set [[97], [98]] [1], Op.set [[97]] [2], Op.del [[97], [98]]].foldl stepM []) [[97]] = some [2] := by
  have := (map_refinement [Op.set [[97], [98]] [1], Op.set [[97]] [2], Op.del [[97], [98]]] (by simp [Op.key])).2 [[97]] (by simp)
  rw [this]
  decide

/-- the functions of the global configuration object (no view base) are the tree functions:
    assign = `mpt_node_assign`, query = exact lookup of a value, remove = unlink + destroy at the exact path -/
theorem config_global_ops (l : List CNode) (k : Key) (hk : k ≠ []) (v : Value) :
    (∀ l', configAssign l [] k v = .ok l' ↔ nodeAssign l k v = some l') ∧
    (∀ x, configQuery l [] k = .ok x ↔ valueAt l k = some x) ∧
    (∀ l' r, configRemove l [] k = .ok (l', r) → l' = (removeExact l k).getD l) := by
  cases k with
  | nil => exact absurd rfl hk
  | cons e es =>
    refine ⟨?_, ?_, ?_⟩
    · intro l'
      simp only [configAssign, ensure, List.nil_append]
      cases nodeAssign l (e :: es) v <;> simp
    · intro x
      simp only [configQuery, List.nil_append, valueAt]
      cases findExact l (e :: es) with
      | none => simp
      | some c =>
        cases hv : c.value <;> simp [hv]
    · intro l' r h
      simp only [configRemove, List.nil_append] at h
      by_cases hl : l.isEmpty
      · simp [hl] at h
      · simp only [hl, Bool.false_eq_true, ↓reduceIte, ne_eq, not_true_eq_false, false_and] at h
        cases hr : removeExact l (e :: es) with
        | none => simp [hr] at h; simp [h.1]
        | some l2 => simp [hr] at h; simp [h.1]

/-- The private C++ configuration (`config::root::assign/remove/query` on its item arrays): for all histories of
    assignments and removals (non-empty paths) from the empty object no slot is ever unused (so the slot re-use
    branch of `mpt_config_item_reserve` is never taken), and a value query for any path returns exactly what the
    map `set`/`removePrefix` holds: get-after-set, independence, remove = the prefix and nothing else. -/
theorem map_refinement_items (ops : List Op) (hk : ∀ op ∈ ops, op.key ≠ []) :
    AllUsed (ops.foldl stepI []) ∧
    ∀ k, k ≠ [] → ivalueAt (ops.foldl stepI []) k = PathMap.get (ops.foldl stepS []) k := by
  obtain ⟨hu, ha⟩ := agreeI_foldl ops [] [] (by simp [AllUsed])
    (by intro k _; simp [toC, valueAt_nil_list, PathMap.get]) hk
  exact ⟨hu, fun k hk' => by rw [ivalueAt_toC k _ hu]; exact ha k hk'⟩

example : ivalueAt ([Op.set [[97], [98]] [1], Op.set [[97], [99]] [2], Op.del [[97]], Op.set [[100]] [3]].foldl stepI []) [[100], [98]] = none := by
  have := (map_refinement_items [Op.set [[97], [98]] [1], Op.set [[97], [99]] [2], Op.del [[97]], Op.set [[100]] [3]]
    (by simp [Op.key])).2 [[100], [98]] (by simp)
  rw [this]
  decide

/-- `config::root::query` with a value handler returns the value found at exactly the path -/
theorem root_query_value (l : List Item) (k : Key) (x : Value) :
    rootQuery l k = .ok x ↔ ivalueAt l k = some x := by
  simp only [rootQuery, ivalueAt]
  cases itemFind l k with
  | none => simp
  | some c => cases hv : c.value <;> simp [hv]

/-- Sub-tree views (`mpt_config_global(&path)`): on any tree that agrees with a map, assign / query / remove through a
    view with base path `b` act on the map at `b ++ k` and keep the agreement — in particular `make_global` (which
    creates the missing part of the base) never changes what any path reads, whether the base exists completely
    (with or without children), partially or not at all. -/
theorem map_refinement_view (l : List CNode) (m : PMap) (b k : Key) (v : Value) (hu : Uniq l) (ha : Agree l m)
    (hne : b ++ k ≠ []) :
    (∀ l', configAssign l b k v = .ok l' → Uniq l' ∧ Agree l' (PathMap.set m (b ++ k) v)) ∧
    (∀ x, configQuery l b k = .ok x ↔ PathMap.get m (b ++ k) = some x) ∧
    (∀ l' r, k ≠ [] → configRemove l b k = .ok (l', r) → Uniq l' ∧ Agree l' (removePrefix m (b ++ k))) :=
  view_refinement l m b k v hu ha hne

/-- a view on a base that does not exist yet: the assignment creates `a.b` and nothing else is readable -/
example : ∀ l', configAssign [] [[97]] [[98]] [1] = .ok l' →
    (∀ k, k ≠ [] → valueAt l' k = PathMap.get [([[97], [98]], [1])] k) := by
  intro l' h
  have := (map_refinement_view [] [] [[97]] [[98]] [1] (by simp [Uniq])
    (by intro k _; cases k <;> simp [valueAt, findExact, locate, PathMap.get]) (by simp)).1 l' h
  simpa [PathMap.set, Agree] using this.2

/-- The empty-path forms through a view with base `b ≠ []`: remove with an empty path (`mpt_node_clear` of the base)
    removes everything strictly beneath `b` and nothing else, remove with a NULL path drops the value stored at exactly
    `b`; an empty path on the global object empties it.  (Assign and query with an empty path are the `k = []`
    instances of `map_refinement_view`: they act at `b` itself.) -/
theorem map_refinement_view_empty (l : List CNode) (m : PMap) (b : Key) (hu : Uniq l) (ha : Agree l m) :
    (∀ l' r, b ≠ [] → configRemoveP l b (some []) = .ok (l', r) → Uniq l' ∧ Agree l' (removeBelow m b)) ∧
    (∀ l' r, b ≠ [] → configRemoveP l b none = .ok (l', r) → Uniq l' ∧ Agree l' (PathMap.unset m b)) ∧
    (∀ l' r, configRemoveP l [] (some []) = .ok (l', r) → l' = []) :=
  view_refinement_empty l m b hu ha

/-- `s = v` with `s.o = f`: clearing through the view `s` removes `s.o` and keeps `s` -/
example : ∀ l' r, configRemoveP [.mk [115] (some [118]) [.mk [111] (some [102]) []]] [[115]] (some []) = .ok (l', r) →
    valueAt l' [[115]] = some [118] ∧ valueAt l' [[115], [111]] = none := by
  intro l' r h
  have hu : Uniq [CNode.mk [115] (some [118]) [.mk [111] (some [102]) []]] := by simp [Uniq]
  have ha : Agree [CNode.mk [115] (some [118]) [.mk [111] (some [102]) []]] [([[115]], [118]), ([[115], [111]], [102])] := by
    have := (map_refinement [Op.set [[115], [111]] [102], Op.set [[115]] [118]] (by simp [Op.key])).2
    intro k hk
    have h2 := this k hk
    simpa [stepM, stepS, nodeAssign, locate, chain, CNode.name, CNode.kids, CNode.value, PathMap.set] using h2
  obtain ⟨_, hA⟩ := (map_refinement_view_empty _ _ [[115]] hu ha).1 l' r (by simp) h
  exact ⟨by rw [hA _ (by simp)]; decide, by rw [hA _ (by simp)]; decide⟩

/-- `make_global(base)` alone: every path reads what it read before -/
theorem make_global_keeps_values (b : Key) (l : List CNode) (k : Key) : valueAt (ensure l b) k = valueAt l k :=
  valueAt_ensure b l k

/-- the situation of seeded change C10-2: the base `srv.opt` (here `s.o`) is a valued leaf; assigning `l` through the
    view keeps the value of the base -/
example : ∀ l', configAssign [.mk [115] none [.mk [111] (some [102]) []]] [[115], [111]] [[108]] [57] = .ok l' →
    valueAt l' [[115], [111]] = some [102] := by
  intro l' h
  have hk : nodeAssign (ensure [.mk [115] none [.mk [111] (some [102]) []]] [[115], [111]]) [[115], [111], [108]] [57] = some l' := by
    simp only [configAssign] at h
    cases hn : nodeAssign (ensure [.mk [115] none [.mk [111] (some [102]) []]] [[115], [111]]) [[115], [111], [108]] [57] with
    | none => simp [hn] at h
    | some l2 => simp [hn] at h; simp [h]
  rw [(get_after_set _ _ _ _ hk).2 [[115], [111]] (by decide), make_global_keeps_values]
  simp [valueAt, findExact, locate, CNode.name, CNode.kids, CNode.value]

/-! ### text level: the walk on the path cursor -/

/-- `mpt_node_assign` / `mpt_node_query` as written — they consume the path cursor with `mpt_path_next` while they walk
    the tree, a step to a missing element leaves the cursor where it was — applied to the path of a TEXT are the
    key-level functions of the map theorems applied to the separator-delimited components of that text. -/
theorem cursor_walk (sep : Byte) (hs : sep ≠ 0) (text : List Byte) (h0 : (0 : Byte) ∉ text) (l : List CNode) (v : Value) :
    nodeAssignP l (pathSet sep 0 text).1 v (text.length + 2) = .ok (nodeAssign l (splitOn sep text) v) ∧
    nodeGetP l (pathSet sep 0 text).1 (text.length + 2) = .ok (valueAt l (splitOn sep text)) :=
  ⟨nodeAssignP_eq v _ l _ _ (path_split sep hs text h0), nodeGetP_eq _ l _ _ (path_split sep hs text h0)⟩

example : nodeGetP [.mk [97] none [.mk [98] (some [1]) []]] (pathSet 46 0 [97, 46, 98]).1 5 = .ok (some [1]) := by
  have h := (cursor_walk 46 (by decide) [97, 46, 98] (by decide) [.mk [97] none [.mk [98] (some [1]) []]] []).2
  simp only [List.length_cons, List.length_nil] at h
  rw [h]
  simp [splitOn, valueAt, findExact, locate, CNode.name, CNode.kids, CNode.value]

/-! ### refused assignments -/

/-- A refused assignment changes nothing — `mpt_node_assign` (the value is made and the element lengths are checked
    before any node is linked), an assignment through the global configuration or a sub-tree view (value and path
    are checked before `make_global` creates the base) and `config::root::assign` on the item arrays: whenever the
    call does not succeed, the tree (hence every value and the set of existing elements) is the one before. -/
theorem assign_refused_pure :
    (∀ (l l' : List CNode) (k : Key) (v : AVal), nodeAssignE l k v = (l', false) → l' = l) ∧
    (∀ (l l' : List CNode) (b k : Key) (v : AVal) (r : Res Unit), configAssignE l b k v = (l', r) → r ≠ .ok () → l' = l) ∧
    (∀ (l l' : List Item) (k : Key) (v : Value), itemAssignE l k v = (l', false) → l' = l) := by
  refine ⟨?_, ?_, ?_⟩
  · intro l l' k v h
    simp only [nodeAssignE] at h
    cases v with
    | noText => simp at h; exact h.symm
    | text t =>
      simp only at h
      split at h
      · simp at h; exact h.symm
      · split at h
        · simp at h
        · simp at h; exact h.symm
  · intro l l' b k v r h hr
    simp only [configAssignE] at h
    cases k with
    | nil =>
      simp only at h
      split at h
      · simp at h; exact h.1.symm
      · split at h
        · simp at h; exact h.1.symm
        · cases v with
          | noText => simp at h; exact h.1.symm
          | text t =>
            simp only at h
            split at h
            · simp at h; exact absurd h.2.symm hr
            · simp at h; exact h.1.symm
    | cons e es =>
      simp only at h
      split at h
      · simp at h; exact h.1.symm
      · cases v with
        | noText => simp at h; exact h.1.symm
        | text t =>
          simp only at h
          split at h
          · simp at h; exact absurd h.2.symm hr
          · simp at h; exact h.1.symm
  · intro l l' k v h
    simp only [itemAssignE] at h
    split at h
    · simp at h; exact h.symm
    · split at h
      · simp at h
      · simp at h; exact h.symm

example : configAssignE [.mk [115] none []] [[113]] [[108], [109]] .noText = ([.mk [115] none []], .err .BadOperation) := by
  have h : ∃ r, configAssignE [.mk [115] none []] [[113]] [[108], [109]] .noText = ([.mk [115] none []], r) ∧ r = .err .BadOperation :=
    ⟨_, by simp [configAssignE], rfl⟩
  obtain ⟨r, h1, h2⟩ := h
  rw [h1, h2]

/-- an assignment of a text along a non-empty path whose elements all fit an identifier is accepted, and is the plain
    assignment -/
theorem assign_accepted (l : List CNode) (b k : Key) (t : Value) (hk : k ≠ []) (hf : (b ++ k).all elemFits = true) :
    (∃ l', nodeAssignE l k (.text t) = (l', true) ∧ nodeAssign l k t = some l') ∧
    (∃ l', configAssignE l b k (.text t) = (l', .ok ()) ∧ configAssign l b k t = .ok l') := by
  have hfk : k.all elemFits = true := by
    rw [List.all_append] at hf
    exact (Bool.and_eq_true _ _ ▸ hf).2
  obtain ⟨l1, h1⟩ := nodeAssign_some k l t hk
  obtain ⟨l2, h2⟩ := nodeAssign_some (b ++ k) (ensure l b) t (by simp [hk])
  refine ⟨⟨l1, by simp [nodeAssignE, hfk, h1], h1⟩, ⟨l2, ?_, ?_⟩⟩
  · cases k with
    | nil => exact absurd rfl hk
    | cons e es => simp [configAssignE, hf, h2]
  · cases k with
    | nil => exact absurd rfl hk
    | cons e es => simp [configAssign, h2]

example : ∃ l', nodeAssignE [] [[97], [98]] (.text [1]) = (l', true) :=
  let ⟨l', h, _⟩ := (assign_accepted [] [] [[97], [98]] [1] (by simp) (by decide)).1
  ⟨l', h⟩

end Mpt.C10
