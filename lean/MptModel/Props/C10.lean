/-
  C10 — the configuration store behaves as a path -> value map.

  M = `Impl/Config.lean`: byte-level model of mpt_path_set/next/last/addchar/valid/add/del and the
  tree functions node_query/node_assign/meta_set/config_global assign·query·remove on ordered trees
  (`CNode`; the pointer operations behind them are the subject of C14).  S = `Spec/PathMap.lean`.

  Proved: `path_split` (mpt_path_set + mpt_path_next visit exactly the separator-delimited components,
  for every text and separator, incl. first elements longer than the 8 bit `first` field), and
  `map_refinement` (for every history of assignments and removals with non-empty paths a query of the
  tree returns what the map holds: get-after-set, independence of different paths, remove = remove the
  prefix and nothing else), for the node tree of the global configuration and (`map_refinement_items`) for the
  item arrays of the private C++ configuration `mpt::config::root` (`Impl/ConfigItems.lean`).
  Statement only (checked by the correspondence run): sub-tree views, mpt_path_last, rebuilding with
  mpt_path_add/del, binary length mode, an assign character ≠ 0.
-/
import MptModel.Lemmas.ConfigMap
import MptModel.Lemmas.ConfigPath
import MptModel.Lemmas.ConfigItemsMap
namespace Mpt.C10
open Mpt Mpt.Config Mpt.PathMap

/-! ### path_split -/

/-- Splitting a path text with `mpt_path_set(path, text, -1)` (separator `sep ≠ 0`, assign character 0) and
    consuming it with `mpt_path_next` until it is used up yields exactly the separator-delimited components
    of the text — also when the first element is longer than 255 bytes (`first` cannot hold its length). -/
theorem path_split (sep : Byte) (hs : sep ≠ 0) (text : List Byte) (h0 : (0 : Byte) ∉ text) :
    elems (pathSet sep 0 text).1 (text.length + 2) = .ok (splitOn sep text) :=
  elems_pathSet sep hs text h0

example : elems (pathSet 46 0 [97, 46, 46, 98, 99]).1 7 = .ok [[97], [], [98, 99]] := by
  simpa [splitOn] using path_split 46 (by decide) [97, 46, 46, 98, 99] (by decide)

/-- the components of a text are never none, and a text without separator is its only component -/
theorem split_basic (sep : Byte) (t : List Byte) :
    splitOn sep t ≠ [] ∧ (sep ∉ t → splitOn sep t = [t]) :=
  ⟨splitOn_ne_nil sep t, splitOn_no_sep sep t⟩

/-- the full statement of the path clause: also with an assign character, for the last element
    (`mpt_path_last` after any number of consumed elements) and for rebuilding/undoing with
    `mpt_path_addchar`/`valid`/`add`/`del` in separator and binary mode -/
def path_split_statement : Prop :=
  (∀ (sep assign : Byte) (text : List Byte), sep ≠ 0 → sep ≠ assign → (0 : Byte) ∉ text →
      elems (pathSet sep assign text).1 (text.length + 2) = .ok (splitPath sep assign text)) ∧
  (∀ (sep : Byte) (text : List Byte) (p : Path) (done : List (List Byte)) (e : List Byte) (rest : List (List Byte)),
      sep ≠ 0 → (0 : Byte) ∉ text → splitOn sep text = done ++ e :: rest →
      -- `p` = the path after `done.length` calls of pathNext
      ∃ q, pathLast p = .ok (q, (rest.getLast?.getD e).length)) ∧
  (∀ (bin : Bool) (sep : Byte) (es : List (List Byte)), (∀ e ∈ es, sep ∉ e ∧ e.length ≤ 255) → es.head? ≠ some [] →
      ∃ p, elems p (es.length + 2) = .ok es ∧ p.binary = bin)

/-! ### map_refinement -/

/-- get-after-set and independence on the tree: after `mpt_node_assign` the assigned path reads the new
    value, every other path reads what it read before (no uniqueness assumption needed) -/
theorem get_after_set (k : Key) (l l' : List CNode) (v : Value) (h : nodeAssign l k v = some l') :
    valueAt l' k = some v ∧ ∀ k', k' ≠ k → valueAt l' k' = valueAt l k' := by
  refine ⟨by simp [valueAt_assign k l l' v h k], fun k' hk => ?_⟩
  rw [valueAt_assign k l l' v h k']
  simp [hk]

/-- remove = remove the prefix and nothing else (sibling names unique, as every reachable tree has them) -/
theorem remove_prefix_only (k : Key) (l l' : List CNode) (hu : Uniq l) (h : removeExact l k = some l') :
    (∀ k', k.isPrefixOf k' = true → valueAt l' k' = none) ∧
    (∀ k', k.isPrefixOf k' = false → valueAt l' k' = valueAt l k') := by
  refine ⟨fun k' hp => ?_, fun k' hp => ?_⟩
  · rw [valueAt_remove k l l' hu h k']; simp [hp]
  · rw [valueAt_remove k l l' hu h k']; simp [hp]

/-- For all histories of assignments and removals (non-empty paths) starting from the empty configuration:
    the tree keeps unique sibling names, and a query for any path returns exactly what the map
    `set`/`removePrefix` holds. -/
theorem map_refinement (ops : List Op) (hk : ∀ op ∈ ops, op.key ≠ []) :
    Uniq (ops.foldl stepM []) ∧ ∀ k, k ≠ [] → valueAt (ops.foldl stepM []) k = PathMap.get (ops.foldl stepS []) k :=
  agree_foldl ops [] [] (by simp [Uniq]) (by intro k _; simp [valueAt, findExact, locate, PathMap.get]; cases k <;> simp [findExact, locate]) hk

example : valueAt ([Op.set [[97], [98]] [1], Op.set [[97]] [2], Op.del [[97], [98]]].foldl stepM []) [[97]] = some [2] := by
  have := (map_refinement [Op.set [[97], [98]] [1], Op.set [[97]] [2], Op.del [[97], [98]]] (by simp [Op.key])).2 [[97]] (by simp)
  rw [this]
  decide

/-- the functions of the global configuration object (no view base) are the tree functions:
    assign = `mpt_node_assign`, query = exact lookup of a value, remove = unlink + destroy at the exact path -/
theorem config_global_ops (l : List CNode) (k : Key) (hk : k ≠ []) (v : Value) :
    (∀ l', configAssign l [] k v = .ok l' ↔ nodeAssign l k v = some l') ∧
    (∀ x, configQuery l [] k = .ok x ↔ valueAt l k = some x) ∧
    (∀ l' r, configRemove l [] k = .ok (l', r) → l' = (removeExact l k).getD l) := by
  cases k with
  | nil => exact absurd rfl hk
  | cons e es =>
    refine ⟨?_, ?_, ?_⟩
    · intro l'
      simp only [configAssign, ensure, List.nil_append]
      cases nodeAssign l (e :: es) v <;> simp
    · intro x
      simp only [configQuery, List.nil_append, valueAt]
      cases findExact l (e :: es) with
      | none => simp
      | some c =>
        cases hv : c.value <;> simp [hv]
    · intro l' r h
      simp only [configRemove, List.nil_append] at h
      by_cases hl : l.isEmpty
      · simp [hl] at h
      · simp only [hl, Bool.false_eq_true, ↓reduceIte, ne_eq, not_true_eq_false, false_and] at h
        cases hr : removeExact l (e :: es) with
        | none => simp [hr] at h; simp [h.1]
        | some l2 => simp [hr] at h; simp [h.1]

/-- The private C++ configuration (`config::root::assign/remove/query` on its item arrays): for all histories of
    assignments and removals (non-empty paths) from the empty object no slot is ever unused (so the slot re-use
    branch of `mpt_config_item_reserve` is never taken), and a value query for any path returns exactly what the
    map `set`/`removePrefix` holds: get-after-set, independence, remove = the prefix and nothing else. -/
theorem map_refinement_items (ops : List Op) (hk : ∀ op ∈ ops, op.key ≠ []) :
    AllUsed (ops.foldl stepI []) ∧
    ∀ k, k ≠ [] → ivalueAt (ops.foldl stepI []) k = PathMap.get (ops.foldl stepS []) k := by
  obtain ⟨hu, ha⟩ := agreeI_foldl ops [] [] (by simp [AllUsed])
    (by intro k _; simp [toC, valueAt_nil_list, PathMap.get]) hk
  exact ⟨hu, fun k hk' => by rw [ivalueAt_toC k _ hu]; exact ha k hk'⟩

example : ivalueAt ([Op.set [[97], [98]] [1], Op.set [[97], [99]] [2], Op.del [[97]], Op.set [[100]] [3]].foldl stepI []) [[100], [98]] = none := by
  have := (map_refinement_items [Op.set [[97], [98]] [1], Op.set [[97], [99]] [2], Op.del [[97]], Op.set [[100]] [3]]
    (by simp [Op.key])).2 [[100], [98]] (by simp)
  rw [this]
  decide

/-- `config::root::query` with a value handler returns the value found at exactly the path -/
theorem root_query_value (l : List Item) (k : Key) (x : Value) :
    rootQuery l k = .ok x ↔ ivalueAt l k = some x := by
  simp only [rootQuery, ivalueAt]
  cases itemFind l k with
  | none => simp
  | some c => cases hv : c.value <;> simp [hv]

/-- the full statement of the map clause incl. sub-tree views: a view with base path `b` acts on the map at `b ++ k` -/
def map_refinement_statement : Prop :=
  ∀ (l : List CNode) (m : PMap) (b k : Key) (v : Value), Uniq l → Agree l m → b ++ k ≠ [] →
    (∀ l', configAssign l b k v = .ok l' → Uniq l' ∧ Agree l' (PathMap.set m (b ++ k) v)) ∧
    (∀ x, configQuery l b k = .ok x ↔ PathMap.get m (b ++ k) = some x) ∧
    (∀ l' r, k ≠ [] → configRemove l b k = .ok (l', r) → Uniq l' ∧ Agree l' (removePrefix m (b ++ k)))

end Mpt.C10
