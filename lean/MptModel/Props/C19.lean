/-
  C19 — Value generators follow the iterator protocol and their formulas.   PROPERTY THEOREMS ONLY.

  M = `Mpt.Iter` (MptModel/Impl/Iter.lean: iterator_create.c, iterator_linear.c, iterator_factor.c,
  iterator_boundary.c, iterator_poly.c, iterator_values.c, iterator_profile.c and the scanners
  mpt_cdouble / mpt_cuint32 / mpt_string_nextvis), S = `Mpt.IterSpec` (Spec/Iterator.lean: sequences, the
  protocol automaton `Cur`, the documented loop `walk`; Spec/IterGrammar.lean: the canonical description
  grammar).  Numbers are exact rationals: rounding of `double`, overflow, inf/nan are outside the model.

  `Gen.all g` = all elements the generator state denotes, `Gen.rem g` = those still to come (current one
  first), `Gen.WF g` = representation invariant (holds for everything `create`/`profile` return, see
  `created_wf`), `Gen.abs g = ⟨all, rem⟩` the abstract cursor.

  Also modelled and tied by the correspondence run: the text argument iterator (Impl/IterString.lean,
  mptcore/meta/iterator_string.c), the buffer argument iterator over `char` arrays, `mpt_iterator_consume`,
  `mpt_range_set` and the iterator-argument forms of the linear/range/factor creators (Impl/IterArgs.lean).

  NOT modelled: `file` profiles, buffer iterators over non-`char` content, element types other than
  `double`/`uint32` in `mpt_iterator_consume`.
-/
import MptModel.Lemmas.IterProfile
import MptModel.Lemmas.IterMisc

namespace Mpt.C19
open Mpt Mpt.Iter Mpt.IterSpec

/-- calls a user can make -/
inductive Op where
  | value | advance | reset
  deriving Repr, DecidableEq

/-- what a call reports -/
inductive Out where
  | val (v : Option Rat)     -- `value()`: NULL or the number
  | adv (a : Adv)            -- `advance()`: more / last / error
  | rst (ok : Bool)          -- `reset()`: return value not negative
  deriving Repr, DecidableEq

/-- M: one call on the generator model -/
def stepM (g : Gen) : Op → Gen × Out
  | .value => (g.value.1, .val g.value.2)
  | .advance => (g.advance.1, .adv (advClass g.advance.2))
  | .reset => (g.reset.1, .rst (decide (0 ≤ g.reset.2)))

/-- S: the same call on the abstract cursor -/
def stepS (c : Cur) : Op → Cur × Out
  | .value => (c, .val c.value)
  | .advance => (c.advance.1, .adv c.advance.2)
  | .reset => (c.reset, .rst true)

def runM (g : Gen) : List Op → Gen × List Out
  | [] => (g, [])
  | op :: ops => ((runM (stepM g op).1 ops).1, (stepM g op).2 :: (runM (stepM g op).1 ops).2)

def runS (c : Cur) : List Op → Cur × List Out
  | [] => (c, [])
  | op :: ops => ((runS (stepS c op).1 ops).1, (stepS c op).2 :: (runS (stepS c op).1 ops).2)

/-- one call refines the cursor automaton and keeps the invariant -/
theorem step_refines (g : Gen) (h : g.WF) (op : Op) :
    (stepM g op).1.WF ∧ (stepM g op).1.abs = (stepS g.abs op).1 ∧ (stepM g op).2 = (stepS g.abs op).2 := by
  cases op with
  | value =>
    obtain ⟨a, b, c⟩ := value_sim g h
    exact ⟨c, b, by simp only [stepM, stepS]; rw [a]⟩
  | advance =>
    obtain ⟨a, b, c⟩ := advance_sim g h
    exact ⟨c, a, by simp only [stepM, stepS]; rw [b]⟩
  | reset =>
    obtain ⟨a, b, c⟩ := reset_sim g h
    exact ⟨c, a, by simp only [stepM, stepS]; simp [b]⟩

/-- **Protocol, for all interleavings**: from every well-formed generator state and for every finite
    sequence of `value / advance / reset` calls, the model reports exactly what the protocol automaton over
    the denoted sequence reports: `value` the current element or NULL past the end, `advance` "more" /
    "last" / an error past the end (nothing changes then), `reset` succeeds and restarts. -/
theorem protocol (ops : List Op) (g : Gen) (h : g.WF) :
    (runM g ops).1.WF ∧ (runM g ops).1.abs = (runS g.abs ops).1 ∧ (runM g ops).2 = (runS g.abs ops).2 := by
  induction ops generalizing g with
  | nil => exact ⟨h, rfl, rfl⟩
  | cons op ops ih =>
    obtain ⟨hw, ha, ho⟩ := step_refines g h op
    obtain ⟨iw, ia, io⟩ := ih (stepM g op).1 hw
    simp only [runM, runS]
    rw [← ha]
    exact ⟨iw, ia, by rw [ho, io]⟩

example : (runM (.linear 0 (1/2) 3 0) [.value, .advance, .advance, .value, .advance, .value, .advance]).2
    = [.val (some 0), .adv .more, .adv .more, .val (some 1), .adv .last, .val none, .adv .err] := by decide +kernel

/-- **The documented loop** (read the value, advance, stop when advance reports no further element) visits
    exactly the elements still to come, in order — from the start these are all elements the source denotes. -/
theorem walk_visits (g : Gen) (h : g.WF) (fuel : Nat) (hf : g.rem.length ≤ fuel) :
    IterSpec.walk mValue mAdvance fuel g = g.rem := by
  rw [walk_sim fuel g h]
  exact walk_cur fuel g.abs hf

/-- **Past the end**: with nothing left `value` returns NULL, `advance` reports an error and the state
    denotes the same (empty) rest — reported, never a fault. -/
theorem past_end (g : Gen) (h : g.WF) (he : g.rem = []) :
    g.value.2 = none ∧ advClass g.advance.2 = .err ∧ g.advance.1.rem = [] := by
  obtain ⟨a, _, _⟩ := value_sim g h
  obtain ⟨b1, b2, _⟩ := advance_sim g h
  have hc : g.abs = { all := g.all, rem := [] } := by simp [Gen.abs, he]
  refine ⟨by rw [a, hc]; rfl, by rw [b2, hc]; rfl, ?_⟩
  have : g.advance.1.abs.rem = [] := by rw [b1, hc]; rfl
  exact this

/-- **Reset replays**: after `reset` the elements to come are all elements again (and the denoted sequence
    is unchanged), so the documented loop yields the identical full sequence. -/
theorem reset_replays (g : Gen) (h : g.WF) :
    g.reset.1.rem = g.all ∧ g.reset.1.all = g.all ∧ 0 ≤ g.reset.2 ∧
    (∀ fuel, g.all.length ≤ fuel → IterSpec.walk mValue mAdvance fuel g.reset.1 = g.all) := by
  obtain ⟨a, b, c⟩ := reset_sim g h
  have h1 : g.reset.1.rem = g.all := congrArg Cur.rem a
  have h2 : g.reset.1.all = g.all := congrArg Cur.all a
  refine ⟨h1, h2, b, ?_⟩
  intro fuel hf
  rw [walk_visits _ c fuel (by rw [h1]; exact hf), h1]

/-- **Clone replays**: the state a clone is given equals the state of the original (taken at any point), hence
    every later call sequence reports on the clone what it reports on the original; after `reset` both replay
    the full sequence.  The model follows the C functions: the linear and factor generators copy their
    parameter block, the boundary generator and the value list build a new object through the public creator
    and transfer position and current value afterwards (`clone_defined`: that creator accepts what it is
    given).  The polynomial generator has no clone (`clone = none`).
    NOT expressible in this model: storage shared between original and clone (the model has values, not
    objects) — that later calls on one do not disturb the other is tied by the correspondence run only
    (clone, diverge, compare both). -/
theorem clone_replays (g g' : Gen) (h : g.clone = some g') :
    g' = g ∧ ∀ ops, (runM g' ops).2 = (runM g ops).2 := by
  have := clone_eq g g' h
  subst this
  exact ⟨rfl, fun _ => rfl⟩

/-- the public creators used by `clone` accept the parameters of every generator they have made -/
theorem clone_defined :
    (∀ (l i r : Rat) (elem pos : Nat), 2 ≤ elem →
      (Gen.boundary l i r elem pos).clone = some (.boundary l i r elem pos)) ∧
    (∀ (text : List Char) (next : Option (List Char)) (curr : Rat) (g0 : Gen), mkValues text = some g0 →
      (Gen.values text next curr).clone = some (.values text next curr)) := by
  refine ⟨clone_some_boundary, ?_⟩
  intro text next curr g0 h
  simp only [Gen.clone]
  unfold mkValues at h ⊢
  cases hc : cdouble text with
  | ok v rest => rfl
  | zero => rw [hc] at h; cases h
  | err e => rw [hc] at h; cases h

example : ((create "1 2 3".toList).bind fun g => g.advance.1.clone).map Gen.rem = some [2, 3] := by decide +kernel

/-- **Linear formula**: `n ≥ 1` steps from `a` to `b` give the `n + 1` values `a + i·(b−a)/n`. -/
theorem linear_formula (n : Nat) (a b : Rat) (hn : 1 ≤ n) :
    ∃ g, mkLinear (n + 1) a b = some g ∧ g.WF ∧ g.all = (IterSpec.linear n a b).elems ∧ g.rem = g.all
      ∧ g.all.length = n + 1 := by
  refine ⟨.linear a ((b - a) / ((n : Nat) : Rat)) (n + 1) 0, ?_, trivial, ?_, ?_, ?_⟩
  · unfold mkLinear
    rw [if_neg (by omega)]
    simp
  · simp [Gen.all, IterSpec.linear, Den.elems]
  · simp [Gen.rem]
  · simp [Gen.all]

example : (mkLinear 5 0 1).map Gen.all = some [0, 1/4, 1/2, 3/4, 1] := by decide +kernel

/-- the text form: whatever `lin( n : a b )` is accepted as, it is the linear generator of the count the
    integer scanner reads behind the opening parenthesis (`n`, giving `n + 1` elements, 32-bit wrap) between the
    bounds the number scanner reads behind the `:` (0 and 1 when that group is absent), and the closing
    parenthesis follows with nothing but white space behind it; for canonical texts `accepted` says which numbers these are -/
theorem linear_text (s : List Char) (g : Gen) (h : linArgs s = some g) :
    ∃ c s0 n s1 a b s2, nextvis s = .ok (c, s0) ∧ c = '(' ∧ cuint32 s0.tail = .ok n s1 ∧
      linRange s1 = some (a, b, s2) ∧ closeOk s2 = true ∧ 2 ≤ wrap32 (n + 1) ∧
      g = .linear a ((b - a) / ((wrap32 (n + 1) - 1 : Nat) : Rat)) (wrap32 (n + 1)) 0 := by
  unfold linArgs at h
  split at h
  · cases h
  · rename_i c s0 hv
    split at h
    · cases h
    · rename_i hc
      split at h
      · cases h
      · cases h
      · rename_i iv s1 hu
        split at h
        · cases h
        · rename_i mn mx s2 hr
          split at h
          · cases h
          · rename_i hp
            unfold mkLinear at h
            split at h
            · cases h
            · cases h
              exact ⟨c, s0, iv, s1, mn, mx, s2, hv, by simpa using hc, hu, hr, by simpa using hp, by omega, rfl⟩

example : linRange " : 0 1)".toList = some (0, 1, ")".toList) ∧
    (match cuint32 "4 : 0 1)".toList with | .ok n r => n == 4 && r == " : 0 1)".toList | _ => false) = true := by
  decide +kernel

example : (create "lin(4 : 0 1)".toList).map Gen.all = some [0, 1/4, 1/2, 3/4, 1] := by decide +kernel
example : (create "Linear( 2:-1 2 )".toList).map Gen.all = some [-1, 1/2, 2] := by decide +kernel

/-- **Factor formula**: the factor generator denotes `init, base, base·f, base·f², …` (`elem` values) -/
theorem factor_formula (base f init : Rat) (n : Nat) :
    (Gen.factor base f init (n + 1) 0 init).all = (IterSpec.factor n base f init).elems
    ∧ (Gen.factor base f init (n + 1) 0 init).WF := by
  refine ⟨?_, fun _ => by simp [facNth]⟩
  simp only [Gen.all, IterSpec.factor, Den.elems]
  rfl

example : (create "fac(4:2:0.5:1)".toList).map Gen.all = some [1, 2, 1, 1/2, 1/4] := by decide +kernel

/-- **Boundary formula**: `left, inter, …, inter, right` -/
theorem boundary_formula (l i r : Rat) (len : Nat) :
    (Gen.boundary l i r len 0).all = (IterSpec.boundary len l i r).elems := by
  simp only [Gen.all, IterSpec.boundary, Den.elems]
  apply List.map_congr_left
  intro k hk
  have : k < len := by simpa using hk
  unfold bndNth
  by_cases h0 : k = 0
  · simp [h0]
  · simp only [h0, ↓reduceIte]
    by_cases h1 : k < len - 1
    · rw [if_pos h1, if_pos (by omega)]
    · rw [if_neg h1, if_neg (by omega)]

/-- **Polynomial formula**: the generator denotes `Σ_j mult_j·(x + shift_j)^(nc−1−j)` at the grid points -/
theorem poly_formula (grid : List Rat) (coeff : List (Rat × Rat)) :
    (Gen.poly grid coeff 0 none).all = grid.map (IterSpec.polyAt coeff) := by
  simp only [Gen.all]
  apply List.map_congr_left
  intro x _
  exact polyEval_eq coeff x

/-- a polynomial source over an array without data evaluates the polynomial at the element index
    0, 1, 2, … (`UINT_MAX` elements); its reset restores the first element -/
theorem poly_index_formula (coeff : List (Rat × Rat)) (pos : Nat) (cache : Option Rat) :
    (Gen.polyN coeff pos cache).all = (List.range 4294967295).map (fun (i : Nat) => IterSpec.polyAt coeff (i : Rat)) ∧
    (Gen.polyN coeff pos cache).reset.1 = Gen.polyN coeff 0 none := by
  refine ⟨?_, rfl⟩
  simp only [Gen.all]
  apply List.map_congr_left
  intro i _
  exact polyEval_eq coeff _

/-- an infinity literal in a value list is an element of its own (the model's stand-in value `infVal` lies
    beyond every `double`); NaN is not a number and ends the well-formed part of the list -/
theorem values_inf : (create "1 inf -Infinity 3".toList).map Gen.all = some [1, infVal, -infVal, 3] ∧
    create "-nan 1".toList = none := by decide +kernel

example : (profile [-1, -1/2, 0, 1/2] "poly 1 0 0 : 1".toList).map Gen.all = some [0, 1/4, 1, 9/4] := by
  decide +kernel

/-- **Explicit value list**: the generator made from a text of numbers denotes those numbers, starting at
    the first -/
theorem values_formula (s : List Char) (g : Gen) (h : mkValues s = some g) : g.all = nums s ∧ g.rem = nums s := by
  unfold mkValues at h
  split at h
  · rename_i v rest hc
    cases h
    exact ⟨rfl, by simp [Gen.rem, (nums_step s v rest hc).1]⟩
  · cases h

example : (create "-1.25 +3 .5 5. 1e1 2.5e-1".toList).map Gen.all = some [-5/4, 3, 1/2, 5, 10, 1/4] := by
  decide +kernel

/-- **A malformed element of a value list is reported**: when the text continues with something that is
    not a number, `advance` returns the error code BadValue and changes nothing. -/
theorem values_malformed (text s : List Char) (curr : Rat) (e : Err) (hne : s.isEmpty = false)
    (h : cdouble s = .err e) :
    (Gen.values text (some s) curr).advance = (Gen.values text (some s) curr, .err .BadValue) := by
  simp only [Gen.advance, hne, h]
  rfl

/-- **Everything the creators return satisfies the invariant** the protocol theorems assume (for a value
    list: when the text consists of numbers only) -/
theorem created_wf (s : List Char) (grid : List Rat) (g : Gen) :
    (create s = some g → (∀ text next curr, g = .values text next curr → numsOk text = true) → g.WF) ∧
    (profile grid s = some g → g.WF) :=
  ⟨create_wf s g, profile_wf grid s g⟩

/-- **Malformed descriptions are refused**: every text the specification calls certainly malformed — an
    unknown keyword, a keyword without opening or without closing parenthesis, a list that does not start
    with a sign, digit or decimal point — is refused by `mpt_iterator_create` (result NULL), and a
    keyword's argument is accepted only if both parentheses are present. -/
theorem malformed_refused (s : List Char) :
    (IterSpec.certainlyMalformed s = true → create s = none) ∧
    (∀ g, linArgs s = some g ∨ facArgs s = some g ∨ rangeArgs s = some g → '(' ∈ s ∧ ')' ∈ s) := by
  refine ⟨create_refuses_malformed s, ?_⟩
  intro g h
  rcases h with h | h | h
  · exact ⟨(linArgs_parens s g h).1, (linArgs_parens s g h).2.1⟩
  · exact ⟨(facArgs_parens s g h).1, (facArgs_parens s g h).2.1⟩
  · exact ⟨(rangeArgs_parens s g h).1, (rangeArgs_parens s g h).2.1⟩

example : IterSpec.certainlyMalformed "linx(4 : 0 1)".toList = true ∧ create "lin(4 : 0 1".toList = none
    ∧ create "lin(4  : 0 1)".toList = none ∧ create "lin(0 : 0 1)".toList = none := by decide +kernel

/-! ### Canonical descriptions are accepted -/

/-- **Accepted**: every text of the canonical description grammar (Spec/IterGrammar.lean: `lin(n : a b)`,
    `range(a b : s)`, `fac(n:b:f:i)` with their optional fields and blanks, and blank-separated number
    lists) whose meaning the grammar fixes is accepted by `mpt_iterator_create` and the generator denotes
    exactly that sequence — count and values — from its first element on, and satisfies the invariant of the
    protocol theorems. -/
theorem accepted (s : List Char) (d : Desc) (den : Den) (h : recognise s = some d) (hd : d.den = some den) :
    ∃ g, create s = some g ∧ g.all = den.elems ∧ g.rem = g.all ∧ g.WF :=
  accept_any s d den h hd

example : recognise "Linear( 16 : 1 3 )".toList = some (.lin 16 1 3) ∧ recognise "fac(3:2::1)".toList = none := by
  decide +kernel

/-- a number token of the grammar is read by the `strtod` subset of the model to exactly its value, and the
    scan stops right behind it (the lemma behind `accepted`) -/
theorem number_scanned (t rest : List Char) (v : Rat) (h : strictNumber t = some v) (hs : Stops rest) :
    cdouble (t ++ rest) = .ok v rest :=
  cdouble_strict t rest v h hs

/-! ### Text argument iterator (mptcore/meta/iterator_string.c) -/

/-- **The documented loop on a text argument**: for a text of number tokens separated by single characters
    that cannot continue a number (blank, comma, semicolon, …), reading and advancing yields exactly the
    numbers, in order. -/
theorem string_walk (pairs : List (List Char × Char)) (last sep : List Char) (vs : List Rat) (vl : Rat)
    (hp : ∀ p ∈ pairs, SepChar p.2) (hv : pairs.map (fun p => strictNumber p.1) = vs.map some)
    (hl : strictNumber last = some vl) (fuel : Nat) (hf : pairs.length < fuel) :
    (strWalk fuel (StrIt.create (some (sepJoin pairs last)) (some sep))).1 = vs ++ [vl] :=
  strWalk_from pairs last vs vl hp hv hl [] sep fuel hf

example : (strWalk 9 (StrIt.create (some "1,2;3 4".toList) none)).1 = [1, 2, 3, 4] := by decide +kernel

/-- **Past the end of a text argument**: no value (NULL), a conversion of the retained element reports
    MissingData, and `advance` reports "no further element" once and an error from then on. -/
theorem string_past_end (s : StrIt) (h : s.pos = none) :
    s.hasValue = false ∧ s.conv.2 = .err .MissingData ∧
    (s.endNull = false → s.advance.2 = .last ∧ s.advance.1.advance.2 = .err .MissingData) ∧
    (s.endNull = true → s.advance.2 = .err .MissingData) := by
  refine ⟨by simp [StrIt.hasValue, h], by simp [StrIt.conv, StrIt.convWith, h], ?_, ?_⟩
  · intro he; simp [StrIt.advance, he, h]
  · intro he; simp [StrIt.advance, he]

/-- **Reset and clone of a text argument**: `reset` restores the state of a freshly created iterator (the
    replay of the whole text is part of `string_protocol`); the clone — a new iterator over a copy of text
    and separators, with position, end mark and element mark transferred — is an equal state (no field is
    lost; shared storage is not expressible, see `clone_replays`). -/
theorem string_reset_clone (s : StrIt) :
    s.reset.1 = { s with pos := some 0, endNull := false, restore := none, patched := false } ∧ s.clone = s := by
  refine ⟨rfl, ?_⟩
  cases s
  rfl

/-- **Protocol on a text argument, for all call sequences the protocol speaks about**: over a text of number
    tokens separated by single separator characters every sequence of `value` (read the element as a number) /
    `advance` / `reset` calls in which no element in the middle of the text is advanced over without having
    been read reports what the automaton over the numbers reports: the current number or NULL past the end,
    "more" / "last", past the end "last" once more or an error, and `reset` restarts the whole text. -/
theorem string_protocol (pairs : List (List Char × Char)) (last sep : List Char) (vs : List Rat) (vl : Rat)
    (hp : ∀ p ∈ pairs, SepChar p.2) (hv : pairs.map (fun p => strictNumber p.1) = vs.map some)
    (hl : strictNumber last = some vl) (ops : List Call) (outs : List TRes)
    (h : ({ all := vs ++ [vl], rem := vs ++ [vl], read := false } : TCur).run ops = some outs) :
    allOk outs ((StrIt.create (some (sepJoin pairs last)) (some sep)).run ops) := by
  have hrel : StrRel sep (sepJoin pairs last) last vl (vs ++ [vl])
      { all := vs ++ [vl], rem := vs ++ [vl], read := false } (atPos sep (sepJoin pairs last) ([] : List Char).length) :=
    StrRel.fresh _ [] pairs vs (by simp) hp hv rfl rfl (by simp)
  exact strRel_run sep last vl pairs vs hp hv hl ops _ _ hrel outs h

example : ((StrIt.create (some "1,2 3".toList) none).run [.value, .value, .advance, .reset, .value, .advance, .value,
    .advance, .value, .advance, .value, .advance, .advance])
    = [.val (some 1), .val (some 1), .adv .more, .rst, .val (some 1), .adv .more, .val (some 2), .adv .more,
       .val (some 3), .adv .last, .val none, .adv .last, .adv (.err .MissingData)] := by decide +kernel

/-- white space behind the last number is no further element -/
example : ((StrIt.create (some "1 2 ".toList) none).run [.value, .advance, .value, .advance, .value, .advance])
    = [.val (some 1), .adv .more, .val (some 2), .adv .last, .val none, .adv .last] := by decide +kernel

/-- **Key reads**: over a text of words separated by single characters of the separator set (words without
    white space and separator characters) the documented loop with key reads yields the words, in order. -/
theorem key_walk (sep : List Char) (pairs : List (List Char × Char)) (last : List Char)
    (hp : ∀ p ∈ pairs, KeyWord sep p.1 ∧ sep.contains p.2 = true ∧ isSpace p.2 = false)
    (hl : KeyWord sep last) (hsep : sep.isEmpty = false) (fuel : Nat) (hf : pairs.length < fuel) :
    keyWalk fuel (StrIt.create (some (sepJoin pairs last)) (some sep)) = pairs.map (·.1) ++ [last] :=
  keyWalk_from sep pairs last hp hl hsep [] fuel hf

example : keyWalk 9 (StrIt.create (some "abc,def;g".toList) none) = ["abc".toList, "def".toList, "g".toList] := by
  decide +kernel

/-- **Word reads** (`char` vector): the word up to the next white space; the element ends behind it -/
theorem word_read (sep pre w rest : List Char) (hne : w ≠ []) (hw : ∀ x ∈ w, isSpace x = false) :
    (atPos sep (pre ++ (w ++ ' ' :: rest)) pre.length).word =
      ({ atPos sep (pre ++ (w ++ ' ' :: rest)) pre.length with restore := some (pre.length + w.length), patched := true },
        .ok w) :=
  word_mid sep pre w rest hne hw

/-! ### `mpt_iterator_consume` and the iterator-argument forms of the creators -/

/-- **Consume**: on a value generator `mpt_iterator_consume(it, 'd', …)` delivers the current element and
    moves to the next one; past the end it reports MissingData and nothing is delivered. -/
theorem consume_gen (g : Gen) (h : g.WF) :
    (g.rem = [] → (Src.gen g).consumeD.2 = .err .MissingData) ∧
    (∀ v t, g.rem = v :: t → ∃ g', (Src.gen g).consumeD = (.gen g', .ok v) ∧ g'.rem = t) := by
  obtain ⟨a, b, c⟩ := value_sim g h
  constructor
  · intro he
    have : g.value.2 = none := by rw [a]; simp [Gen.abs, Cur.value, he]
    simp only [Src.consumeD]
    cases hq : g.value with
    | mk g1 r => rw [hq] at this; simp only [] at this; subst this; rfl
  · intro v t he
    have hv : g.value.2 = some v := by rw [a]; simp [Gen.abs, Cur.value, he]
    obtain ⟨d1, d2, _⟩ := advance_sim g.value.1 c
    have hb : g.value.1.abs = { all := g.all, rem := v :: t } := by rw [b]; simp [Gen.abs, he]
    rw [hb] at d1 d2
    simp only [Cur.advance] at d1 d2
    simp only [Src.consumeD]
    cases hq : g.value with
    | mk g1 r =>
      rw [hq] at hv d1 d2; simp only [] at hv d1 d2; subst hv
      cases hr : g1.advance with
      | mk g2 res =>
        rw [hr] at d1 d2; simp only [] at d1 d2
        have hrem : g2.rem = t := congrArg Cur.rem d1
        cases res with
        | err e => simp only [advClass] at d2; split at d2 <;> cases d2
        | more => exact ⟨g2, by simp only [hr], hrem⟩
        | last => exact ⟨g2, by simp only [hr], hrem⟩

/-- **Skip and unsigned consume on a generator**: `mpt_iterator_consume(it, 0, 0)` moves to the next element
    (an error past the end); `'u'` finds no conversion from `double` (BadType, MissingData past the end) and
    consumes nothing. -/
theorem consume_skip_unsigned (g : Gen) (h : g.WF) :
    (∀ v t, g.rem = v :: t → ∃ g', (Src.gen g).skip = (.gen g', none) ∧ g'.rem = t ∧ g'.WF) ∧
    (g.rem = [] → ∃ g' e, (Src.gen g).skip = (.gen g', some e) ∧ g'.rem = []) ∧
    (∃ g', (Src.gen g).consumeU.1 = .gen g' ∧ g'.abs = g.abs ∧ g'.WF ∧
      (Src.gen g).consumeU.2 = .err (if g.rem = [] then .MissingData else .BadType)) :=
  ⟨(skip_gen g h).1, (skip_gen g h).2, consumeU_gen g h⟩

/-- **Consume on a text argument**: `'d'` delivers the number token at the position and moves behind its
    separator (the text goes on with something that is not white space), `'u'` the same for a count token. -/
theorem consume_text (sep pre t : List Char) (c : Char) (rest : List Char) (hr : NoLeadSpace rest) :
    (∀ v, strictNumber t = some v → SepChar c →
      (Src.str (atPos sep (pre ++ (t ++ c :: rest)) pre.length)).consumeD =
        (.str (atPos sep ((pre ++ t ++ [c]) ++ rest) (pre ++ t ++ [c]).length), .ok v)) ∧
    (∀ k, strictCount t = some k → isDigit c = false →
      (Src.str (atPos sep (pre ++ (t ++ c :: rest)) pre.length)).consumeU =
        (.str (atPos sep ((pre ++ t ++ [c]) ++ rest) (pre ++ t ++ [c]).length), .ok k)) :=
  ⟨fun v hv hs => consumeD_mid sep pre t c rest v hv hs hr, fun k hk hc => consumeU_mid sep pre t c rest k hk hc hr⟩

/-- **Linear generator from an argument iterator**: fed with the text `n a b` (any single separator
    characters) `_mpt_iterator_linear` makes the same generator as the description `lin(n : a b)`. -/
theorem linear_from_argument (sep n ta tb : List Char) (c1 c2 : Char) (k : Nat) (va vb : Rat)
    (hn : strictCount n = some k) (ha : strictNumber ta = some va) (hb : strictNumber tb = some vb)
    (h1 : SepChar c1) (h2 : SepChar c2) :
    (linFromIter (.str (StrIt.create (some (n ++ c1 :: (ta ++ c2 :: tb))) (some sep)))).2
      = mkLinear (wrap32 (k + 1)) va vb :=
  linFromIter_text sep n ta tb c1 c2 k va vb hn ha hb h1 h2

/-- **Range generator from an argument iterator**: fed with the text `a b s` `_mpt_iterator_range` applies the
    checks of the description `range(a b : s)` and makes the same generator. -/
theorem range_from_argument (sep ta tb ts : List Char) (c1 c2 : Char) (va vb vs : Rat)
    (ha : strictNumber ta = some va) (hb : strictNumber tb = some vb) (hs : strictNumber ts = some vs)
    (h1 : SepChar c1) (h2 : SepChar c2) :
    (rangeFromIter (.str (StrIt.create (some (ta ++ c1 :: (tb ++ c2 :: ts))) (some sep)))).2
      = (if ¬ (0 < vs) ∨ (vb - va) * (1 + rangeTol) < vs ∨ vs < (vb - va) * (1 / 1000000) then none
         else some (.linear va vs (wrap32 (rangeSteps va vb vs + 1)) 0)) :=
  rangeFromIter_text sep ta tb ts c1 c2 va vb vs ha hb hs h1 h2

example : ((rangeFromIter (.str (StrIt.create (some "0 1 0.25".toList) none))).2.map Gen.all)
    = some [0, 1/4, 1/2, 3/4, 1] := by decide +kernel

/-- **Factor generator from an argument iterator** with count and base: the factor is the base, as for
    the description `fac(n:b)`; a base below `DBL_MIN` is refused. -/
theorem factor_from_argument (sep n tb : List Char) (c1 : Char) (k : Nat) (vb : Rat)
    (hn : strictCount n = some k) (hb : strictNumber tb = some vb) (h1 : SepChar c1) :
    (facFromIter (.str (StrIt.create (some (n ++ c1 :: tb)) (some sep)))).2
      = (if vb < dblMin then none else some (.factor vb vb 0 (wrap32 (k + 1)) 0 0)) :=
  facFromIter_text2 sep n tb c1 k vb hn hb h1

example : ((facFromIter (.str (StrIt.create (some "3 2".toList) none))).2.map Gen.all) = some [0, 2, 4, 8] := by
  decide +kernel

/-! ### Buffer argument iterator (mptcore/array/meta_buffer.c over a `char` array) -/

/-- **The documented loop on a buffer argument**: over an array of NUL-terminated strings the iterator made by
    `mpt_meta_buffer` yields exactly these strings, in order; the clone made at a string or behind the last one
    (array reference, offset and length copied, string pointer recomputed) is an equal state. -/
theorem buffer_walk (cur : List Char) (more : List (List Char)) (fuel : Nat)
    (hc : nul ∉ cur) (hm : ∀ s ∈ more, nul ∉ s) (hf : more.length < fuel) :
    bufWalk fuel (BufIt.create (some (joinNul (cur :: more))) false) = (cur :: more).map .str ∧
    (∀ args pre c post, (bufAt args pre c post).clone = bufAt args pre c post) ∧
    ∀ data, (bufEnd data).clone = bufEnd data := by
  rw [create_first cur more hc]
  exact ⟨bufWalk_from false cur more [] fuel hc hm hf, fun _ _ _ _ => rfl, fun _ => rfl⟩

example : bufWalk 9 (BufIt.create (some ("cmd".toList ++ nul :: "a".toList ++ nul :: "bb".toList ++ [nul])) true)
    = [.str "a".toList, .str "bb".toList] := by decide +kernel

/-- past the last string `advance` reports "no further element", then an error; there is no value -/
theorem buffer_past_end (pre cur : List Char) (args : Bool) :
    ((bufAt args pre cur []).advance).2 = .last ∧ ((bufAt args pre cur []).advance).1.value = .null :=
  bufAt_advance_last args pre cur

/-- **Protocol on a buffer argument, for all interleavings**: over an array of NUL-terminated strings every
    sequence of `value` / `advance` / `reset` calls reports exactly what the automaton over the strings
    reports — the current string or NULL, "more" / "last" / an error past the end, and `reset` (successful)
    returns to the first string from every position. -/
theorem buffer_protocol (first : List Char) (rest : List (List Char)) (hf : nul ∉ first) (hr : ∀ s ∈ rest, nul ∉ s)
    (ops : List Call) :
    (BufIt.create (some (joinNul (first :: rest))) false).run ops
      = lrun { all := first :: rest, rem := first :: rest } ops := by
  rw [create_first first rest hf]
  exact bufRel_run first rest hf hr ops _ _ (BufRel.here _ [] first rest (by simp) hf hr rfl rfl)

example : (BufIt.create (some ("a".toList ++ nul :: "bb".toList ++ [nul])) false).run
    [.advance, .value, .advance, .value, .advance, .reset, .value]
    = [.adv .more, .val (some "bb".toList), .adv .last, .val none, .adv .err, .rst true, .val (some "a".toList)] := by
  decide +kernel

/-! ### Profile descriptions (`mpt_iterator_profile`) -/

/-- **Accepted profile descriptions**: every canonical profile description (`lin a b` / `linear a b`,
    `bound l i r` / `boundary l i r`, `poly c… [ : s…]`; Spec/IterGrammar.lean) over a grid for which it has a
    meaning is accepted and the generator denotes exactly that sequence: the linear profile `len − 1` equal
    steps from `a` to `b`, the boundary profile `l, i, …, i, r`, the polynomial `Σ_j c_j·(x + s_j)^(n−1−j)` at
    the grid points. -/
theorem profile_accepted (grid : List Rat) (s : List Char) (d : PDesc) (den : Den)
    (h : recogniseProfile s = some d) (hd : d.den grid = some den) :
    ∃ g, profile grid s = some g ∧ g.all = den.elems ∧ g.rem = g.all ∧ g.WF :=
  accept_profile grid s d den h hd

example : recogniseProfile "poly 1 0 0 : 1".toList = some (.poly [1, 0, 0] [1]) ∧
    recogniseProfile "boundary 0.5 0 -0.5".toList = some (.bound (1/2) 0 (-1/2)) ∧
    ((PDesc.poly [1, 0, 0] [1]).den [-1, 0, 1]).map Den.elems = some [0, 1, 4] := by decide +kernel

/-- **Malformed profile descriptions are refused**: a text that does not begin with one of the three keywords,
    a canonical `lin` / `bound` description with too few numbers, and every description over an array without
    points. -/
theorem profile_malformed_refused (grid : List Rat) (s : List Char) (h : profileMalformed s = true ∨ grid = []) :
    profile grid s = none :=
  profile_refused grid s h

example : profileMalformed "other 1 2".toList = true ∧ profileMalformed "lin 1".toList = true ∧
    profileMalformed "bound 1 2".toList = true ∧ profileMalformed "lin 1 2".toList = false := by decide +kernel

/-! ### Malformed descriptions beyond the "certainly malformed" class -/

/-- **A malformed count is refused**: behind `lin(` / `fac(` something that is no count (`lin()`, `lin(abc)`,
    `lin(-3 : 0 1)`, `fac(:2)`) or a count followed by something else than `:` or `)` (`lin(4 ; 0 1)`). -/
theorem malformed_count_refused (s : List Char) (h : malformedCount s = true) : create s = none :=
  malformedCount_refused s h

example : malformedCount "lin(abc)".toList = true ∧ malformedCount "lin()".toList = true ∧
    malformedCount "lin(4 ; 0 1)".toList = true ∧ malformedCount "lin(-3 : 0 1)".toList = true ∧
    malformedCount "fac(:2)".toList = true ∧ malformedCount "lin(4 : 0 1)".toList = false ∧
    malformedCount "fac(3)".toList = false := by decide +kernel

/-- **Text behind the description is refused**: a keyword description that does not end (white space aside)
    with its closing parenthesis — `lin(2:0 1)junk`, `fac(3) 4` — is refused. -/
theorem trailing_junk_refused (s : List Char) (h : trailingJunk s = true) : create s = none :=
  trailingJunk_refused s h

example : trailingJunk "lin(2:0 1)junk".toList = true ∧ trailingJunk "lin(2:0 1) \t".toList = false ∧
    create "lin(2:0 1) ".toList ≠ none := by decide +kernel

/-- **Recognised descriptions without a sequence are refused**: `lin(0 : a b)` (no step), `range(a b …)` with
    `b ≤ a`, a step that is not positive. -/
theorem senseless_refused (s : List Char) (d : Desc) (h : recognise s = some d) (hs : d.senseless = true) :
    create s = none :=
  Mpt.Iter.senseless_refused s d h hs

example : (recognise "range(1 0)".toList).map Desc.senseless = some true ∧
    (recognise "lin(0 : 0 1)".toList).map Desc.senseless = some true ∧
    (recognise "range(0 1 : -0.5)".toList).map Desc.senseless = some true := by decide +kernel

/-! ### Array fillers (values_linear.c, values_bound.c) -/

/-- **`mpt_values_linear`** (at least two points, stride at least 1): slot `i·ld` holds the `i`-th of `points`
    values from `min` to `max` in equal steps, nothing else is written. -/
theorem values_linear_fill (points ld : Nat) (mn mx : Rat) (size : Nat) (hp : 2 ≤ points) (hl : 1 ≤ ld)
    (k : Nat) (hk : k < size) :
    (valuesLinear points ld mn mx size).getD k 0 =
      if k % ld = 0 ∧ k / ld < points then (IterSpec.linear (points - 1) mn mx).nth (k / ld) else 0 :=
  valuesLinear_spec points ld mn mx size hp hl k hk

/-- **`mpt_values_bound`** (at least two points, stride at least 1): `left`, `cont` …, `right` at stride `ld` -/
theorem values_bound_fill (points ld : Nat) (l c r : Rat) (size : Nat) (hp : 2 ≤ points) (hl : 1 ≤ ld)
    (k : Nat) (hk : k < size) :
    (valuesBound points ld l c r size).getD k 0 =
      if k % ld = 0 ∧ k / ld < points then (IterSpec.boundary points l c r).nth (k / ld) else 0 :=
  valuesBound_spec points ld l c r size hp hl k hk

example : valuesLinear 3 2 0 1 6 = [0, 0, 1/2, 0, 1, 0] ∧ valuesBound 3 2 7 8 9 6 = [7, 0, 8, 0, 9, 0] := by
  decide +kernel

end Mpt.C19
