/-
  S for C11: event dispatch reaches exactly the registered handler.
  Written from the property text only (plus the vocabulary of mptcore/event.h: event flags, the
  message header, the djb2 hash that *defines* the id of a command text).

  The spec is a *monitor*: `Spec.step sp op out` takes the abstract state (finite map id → registration,
  fallback, default id), an operation of the history and the outcome that was observed for it (return
  value + handler log of this op) and answers `none` when the outcome breaks the property, else the
  next abstract state.  Where the property leaves a choice (a second registration for a live id may
  replace the first or be refused; which fresh id `reserve` picks) every permitted outcome is accepted.
-/
import MptModel.Basic
namespace Mpt.Dispatch

abbrev Id := UInt64
/-- registration number: the n-th registering operation of a history creates registration n
    (registration 0 is the fallback handler installed at start) -/
abbrev Reg := Nat

/-- one handler invocation as seen by the handler: (registration, event id) or the end-of-life call -/
inductive LogE where
  | call (r : Reg) (id : Id)
  | fin (r : Reg)
  deriving DecidableEq, Repr, Inhabited

/-- what the invoked handler answers (oracle): return value (negative = error code, else event flags),
    and whether it clears the event id before returning (MPT_event_stop / MPT_event_fail do) -/
structure HRes where
  val : Int
  zero : Bool
  deriving DecidableEq, Repr, Inhabited

inductive Op where
  | set (id : Id)                 -- mpt_dispatch_set(id, handler, new registration)
  | cset (id : Id)                -- mpt_command_set(id, handler, new registration)
  | clear (id : Id)               -- mpt_dispatch_set(id, NULL, NULL)
  | clearAll                      -- mpt_command_clear
  | emitId (id : Id) (h : HRes)   -- event carrying an id
  | emitMsg (msg : List Byte) (h : HRes)   -- event carrying a message (first byte = id)
  | emitCmd (msg : List Byte) (h : HRes)   -- as emitMsg, but the handler reached does not answer itself: it dispatches
                                  --   the event's command text by hash (`mpt_dispatch_hash` on the same dispatcher,
                                  --   the documented wiring of text commands to a message type) and hands that
                                  --   result on; `h` is the answer of the handler invoked inside
  | emitNone (h : HRes)           -- no event: the default event
  | hash (msg : List Byte) (h : HRes)      -- command text message, id = hash of the text
  | hashFrag (frags : List (List Byte)) (h : HRes)   -- the same with the message given in fragments
  | hashNone                      -- dispatch by hash of an event that carries no message: must fail, nobody is invoked
  | reserve (w : Nat)             -- reserve a fresh request id (width class w) and activate it with a new registration
  | fini                          -- tear the dispatcher down
  | drop                          -- release the handler table through the generic array interface
  | tcopy (r : Reg)               -- copy-construct (through the content traits) the table element of registration r
  | setDefault (id : Id)          -- C++ dispatch::set_default
  | setError                      -- C++ dispatch::set_error(handler, new registration)
  deriving DecidableEq, Repr, Inhabited

inductive Ret where
  | val (v : Int)
  | null        -- NULL pointer result (reserve refused)
  | fault       -- the call did something undefined
  deriving DecidableEq, Repr, Inhabited

structure Out where
  ret : Ret
  log : List LogE
  deriving DecidableEq, Repr, Inhabited

/- ---------- event flags (enum MPT_EVENTFLAG of event.h) ---------- -/
def hasDefault (f : Nat) : Bool := f &&& 1 != 0
def clrDefault (f : Nat) : Nat := f &&& 0xFFFFFFFE
def setDefault (f : Nat) : Nat := f ||| 1
/-- `MPT_EVENTFLAG(Fail) | MPT_EVENTFLAG(Default)`: value of the `MPT_event_fail` macro -/
def failDefault : Int := 3

/-- default-event bookkeeping: `(returned value, new default id)` for a handler answer `h` to an event whose
    id was `evid`, when the default id was `dflt`.
    An error is passed through and changes nothing.  Otherwise, when the handler raises `Default` the default
    id becomes the event id as the handler left it (0 = no default event); the returned flags carry
    `Default` exactly when a default event exists afterwards. -/
def book (dflt evid : Id) (h : HRes) : Int × Id :=
  if h.val < 0 then (h.val, dflt) else
  let f := h.val.toNat
  let evid' := if h.zero then 0 else evid
  let d' := if hasDefault f then evid' else dflt
  let f' := if hasDefault f then clrDefault f else f
  (Int.ofNat (if d' != 0 then setDefault f' else f'), d')

/-- **what "the default-event bookkeeping follows the handler's returned flags" means**, stated without reference to
    how it is computed.  `dflt` = default id before, `left` = event id as the handler left it (0 = none), `v` = the
    handler's answer, `ret` = value handed to the caller, `dflt'` = default id afterwards:
    * an error is passed through and the default event stays;
    * otherwise the default id becomes `left` exactly when the answer carries the `Default` flag (bit 0), else it stays;
    * every other flag is handed through unchanged (`ret / 2 = v / 2`);
    * the returned value carries `Default` exactly when a default event exists afterwards. -/
def Follows (dflt left : Id) (v ret : Int) (dflt' : Id) : Prop :=
  if v < 0 then ret = v ∧ dflt' = dflt
  else
    dflt' = (if v % 2 = 1 then left else dflt) ∧ 0 ≤ ret ∧ ret / 2 = v / 2 ∧ (ret % 2 = 1 ↔ dflt' ≠ 0)

/-- answer of the library's built-in fallback handler (`unknownEvent`, installed by `mpt_dispatch_init`) to an event
    with id `evid` and message `msg`: an unknown id fails and gives up the default event (the id is cleared);
    the default event without a message fails likewise; a message of type 0 just fails -/
def builtinAnswer (evid : Id) (msg : Option (List Byte)) : HRes :=
  if evid != 0 then ⟨3, true⟩
  else match msg with
    | none => ⟨3, false⟩
    | some [] => ⟨0, false⟩
    | some (_ :: _) => ⟨2, false⟩

/-- how a history starts: without fallback, with the harness fallback (registration 0), or with the built-in one -/
inductive Start where
  | nofb | fb | builtin
  deriving DecidableEq, Repr, Inhabited

/- ---------- command text → id ---------- -/
/-- C `char` is signed on the target: bytes ≥ 0x80 are sign-extended before the XOR -/
def signExt (b : Byte) : UInt64 := b.toInt8.toInt64.toUInt64

/-- `mpt_hash_djb2(data, len)`: `hash = hash * 33 ^ c`, start 5381, over `uintptr_t` (64 bit) -/
def hashDjb2 (bs : List Byte) : UInt64 := bs.foldl (fun h b => (h * 33) ^^^ signExt b) 5381

def isSpace (b : Byte) : Bool := b == 0x20 || (0x09 ≤ b && b ≤ 0x0d)
def isGraph (b : Byte) : Bool := 0x21 ≤ b && b ≤ 0x7e

/-- `MPT_MESGTYPE(Command)` -/
def msgCommand : Byte := 0x04

/-- non-empty prefixes of a text -/
def prefixes (t : List Byte) : List (List Byte) := (List.range t.length).map fun k => t.take (k + 1)

/-- blank characters that separate arguments (white space other than form feed) -/
def isBlank (b : Byte) : Bool := b == 0x09 || b == 0x20 || b == 0x0a || b == 0x0d || b == 0x0b
/-- quote characters of the argument syntax -/
def isQuoteCh (b : Byte) : Bool := b == 0x27 || b == 0x22

/-- the command word of a message whose arguments are separated by white space: the text after the leading white
    space up to the first white-space character (or terminator) -/
def wsWord (payload : List Byte) : List Byte :=
  (payload.dropWhile isSpace).takeWhile fun c => !isSpace c && c != 0

/-- the plain case of white-space separated arguments: a non-empty command word without quote characters that is
    followed by a blank or ends the message.  There the command word is exactly `wsWord`. -/
def plainWord (payload : List Byte) : Bool :=
  let w := wsWord payload
  let after := (payload.dropWhile isSpace).dropWhile fun c => !isSpace c && c != 0
  !w.isEmpty && !w.any isQuoteCh && (match after with | [] => true | c :: _ => isBlank c)

/-- Acceptable readings of a command message: `none` = "carries no command text" (the dispatch must fail
    without invoking anybody), `some id` = hash of the command text.
    The message is a 2-byte header `(type, arg)` and a payload.  For a `Command` header with a non-zero `arg`
    that byte separates the arguments and the command text is the first argument after leading white space;
    otherwise the text ends at the first zero byte.  A payload that is all white space has no text; reading
    the white space itself as the text is tolerated.
    A separator that is not a graphic character stands for "split at white space, honour quotes": the command text
    is the word after the leading white space, up to the first blank (`plainWord`/`wsWord`: exactly one reading).
    The quoting rules, a form feed or a zero byte right behind the word are not part of the property: for such
    payloads any non-empty prefix of the payload after its leading white space is accepted as the first argument. -/
def cmdIds (msg : List Byte) : List (Option Id) :=
  match msg with
  | ty :: arg :: payload =>
    let sep : Byte := if ty = msgCommand then arg else 0
    if sep = 0 then
      let t := payload.takeWhile (· != 0)
      if t.isEmpty then [none] else [some (hashDjb2 t)]
    else if isGraph sep then
      let t := (payload.dropWhile isSpace).takeWhile (· != sep)
      if t.isEmpty then
        let u := payload.takeWhile (· != sep)
        if u.isEmpty then [none] else [none, some (hashDjb2 u)]
      else [some (hashDjb2 t)]
    else if plainWord payload then [some (hashDjb2 (wsWord payload))]
    else
      let t := payload.dropWhile isSpace
      if t.isEmpty then none :: (prefixes payload).map (fun u => some (hashDjb2 u))
      else (if t.head? = some 0 then [none] else []) ++ (prefixes t).map (fun u => some (hashDjb2 u))
  | _ => [none]

/-- readings of a command message that arrives in fragments: those of the flattened message, wherever the fragment
    boundaries are -/
def cmdIdsFrag (frags : List (List Byte)) : List (Option Id) := cmdIds frags.flatten

/-- the id range `1..idRange w` of the width classes of `mpt_command_reserve` (bytes available for the id in a
    message header; 0 = no id): `INT8_MAX`, `INT16_MAX`, `INT32_MAX/0x100`, `INT32_MAX`, `INT64_MAX/0x1000000`, … -/
def idRange (w : Nat) : Nat :=
  match w with
  | 0 => 0
  | 1 => 127
  | 2 => 32767
  | 3 => 8388607
  | 4 => 2147483647
  | 5 => 549755813887
  | 6 => 140737488355327
  | 7 => 36028797018963967
  | _ => 9223372036854775807

/- ---------- abstract state ---------- -/
structure Spec where
  live : List (Id × Reg)     -- the handlers currently registered: id ↦ registration
  fb   : Option Reg          -- fallback handler (a registration)
  bi   : Bool                -- no registration as fallback, but the library's built-in one
  dflt : Id                  -- default event id (0 = none)
  next : Reg                 -- number of the next registration
  regd : List Reg            -- every registration that was ever accepted
  deriving DecidableEq, Repr, Inhabited

namespace Spec

def init (start : Start) : Spec :=
  { live := [], fb := if start = .fb then some 0 else none, bi := decide (start = .builtin), dflt := 0, next := 1,
    regd := if start = .fb then [0] else [] }

def lookup (sp : Spec) (id : Id) : Option Reg := (sp.live.find? (·.1 == id)).map (·.2)

/-- how many of `k` reservations in a row (none of them released in between) must be served: one for every id of the
    width class's range that no registered handler carries -/
def reserveCount (sp : Spec) (w k : Nat) : Nat :=
  let taken := ((sp.live.map (·.1)).eraseDups.filter fun i => decide (1 ≤ i.toNat ∧ i.toNat ≤ idRange w)).length
  min k (idRange w - taken)

/-- the handler an event with this id must reach: the registered one, else the fallback -/
def target (sp : Spec) (id : Id) : Option Reg :=
  match sp.lookup id with
  | some r => some r
  | none => sp.fb

/-- every registration that has not had its end-of-life call: the registered handlers and the fallback -/
def liveRegs (sp : Spec) : List Reg :=
  sp.live.map (·.2) ++ (match sp.fb with | some r => [r] | none => [])

def remove (sp : Spec) (id : Id) : List (Id × Reg) := sp.live.filter (·.1 != id)

/-- same elements, no repetition (the order of several end-of-life calls in one operation is free) -/
def sameSet (a b : List LogE) : Bool :=
  decide a.Nodup && a.all (b.contains ·) && b.all (a.contains ·)

def isOk : Ret → Bool
  | .val v => decide (0 ≤ v)
  | _ => false
def isErr : Ret → Bool
  | .val v => decide (v < 0)
  | _ => false

/-- registering under `id` (by `set` or `cset`) -/
def stepRegister (sp : Spec) (id : Id) (out : Out) : Option Spec :=
  let r := sp.next
  match sp.lookup id with
  | none =>
    if isOk out.ret && out.log == [] then
      some { sp with live := sp.live ++ [(id, r)], next := r + 1, regd := sp.regd ++ [r] }
    else none
  | some old =>
    -- replaced: the old registration gets its end-of-life call; or refused: nothing happens
    if isOk out.ret && out.log == [.fin old] then
      some { sp with live := sp.remove id ++ [(id, r)], next := r + 1, regd := sp.regd ++ [r] }
    else if isErr out.ret && out.log == [] then some { sp with next := r + 1 }
    else none

/-- outcomes `(log, returned value, event id afterwards)` the property allows when the command text of `msg` is
    dispatched by hash from inside a handler and the handler reached that way answers `h`: no command text, or
    nobody to take it, fails (`Fail|Default`, event id cleared = "no default event"); an error of the command's
    handler is reported the same way -/
def hashOutcome (sp : Spec) (m : List Byte) (h : HRes) (cid : Option Id) : List LogE × Int × Id :=
  match cid with
  | none => ([], failDefault, 0)
  | some id2 =>
    let left : Id := if h.zero then 0 else id2
    match sp.lookup id2 with
    | some r2 => if h.val < 0 then ([.call r2 id2], failDefault, 0) else ([.call r2 id2], h.val, left)
    | none =>
      match sp.fb with
      | some r2 => ([.call r2 id2], h.val, left)
      | none =>
        if sp.bi then ([], (builtinAnswer id2 (some m)).val, if (builtinAnswer id2 (some m)).zero then 0 else id2)
        else ([], failDefault, 0)

def hashOutcomes (sp : Spec) (msg : Option (List Byte)) (h : HRes) : List (List LogE × Int × Id) :=
  match msg with
  | none => [([], failDefault, 0)]
  | some m => (cmdIds m).map (sp.hashOutcome m h)

/-- delivery of an event with id `id` to `r`, answer `h`: exactly one invocation, then the bookkeeping; a handler
    that dispatches by hash (`nest`) adds the invocation made inside, and the bookkeeping uses what came back -/
def stepDeliver (sp : Spec) (r : Reg) (id : Id) (msg : Option (List Byte)) (nest : Bool) (h : HRes) (out : Out) : Option Spec :=
  if nest then
    (sp.hashOutcomes msg h).findSome? fun o =>
      let b := book sp.dflt o.2.2 ⟨o.2.1, false⟩
      if out.ret = .val b.1 && out.log == .call r id :: o.1 then some { sp with dflt := b.2 } else none
  else
    let b := book sp.dflt id h
    if out.ret = .val b.1 && out.log == [.call r id] then some { sp with dflt := b.2 } else none

/-- nobody registered and no registered fallback: the built-in fallback answers (nothing is logged), or the event is refused -/
def stepUnhandled (sp : Spec) (id : Id) (msg : Option (List Byte)) (out : Out) : Option Spec :=
  if sp.bi then
    let b := book sp.dflt id (builtinAnswer id msg)
    if out.ret = .val b.1 && out.log == [] then some { sp with dflt := b.2 } else none
  else if isErr out.ret && out.log == [] then some sp else none

def stepEmit (sp : Spec) (id : Id) (msg : Option (List Byte)) (nest : Bool) (h : HRes) (out : Out) : Option Spec :=
  match sp.target id with
  | some r => sp.stepDeliver r id msg nest h out
  | none => sp.stepUnhandled id msg out

def stepHashId (sp : Spec) (msg : List Byte) (cid : Option Id) (h : HRes) (out : Out) : Option Spec :=
  match cid with
  | none => if out.ret = .val failDefault && out.log == [] then some sp else none
  | some id =>
    match sp.lookup id with
    | some r =>
      -- result of the handler; a handler error may be reported as such or as Fail|Default
      if out.log == [.call r id] && (out.ret = .val h.val || (decide (h.val < 0) && out.ret = .val failDefault))
      then some sp else none
    | none =>
      match sp.fb with
      | some r => if out.log == [.call r id] && out.ret = .val h.val then some sp else none
      | none =>
        if sp.bi then (if out.ret = .val (builtinAnswer id (some msg)).val && out.log == [] then some sp else none)
        else if out.ret = .val failDefault && out.log == [] then some sp else none

def step (sp : Spec) (op : Op) (out : Out) : Option Spec :=
  match op with
  | .set id => sp.stepRegister id out
  | .cset id => sp.stepRegister id out
  | .clear id =>
    match sp.lookup id with
    | some old => if isOk out.ret && out.log == [.fin old] then some { sp with live := sp.remove id } else none
    | none => if isErr out.ret && out.log == [] then some sp else none
  | .clearAll =>
    if isOk out.ret && sameSet out.log (sp.live.map (.fin ·.2)) then some { sp with live := [] } else none
  | .emitId id h => sp.stepEmit id none false h out
  | .emitMsg msg h =>
    match msg with
    | [] => if isErr out.ret && out.log == [] then some sp else none
    | b :: _ => sp.stepEmit b.toUInt64 (some msg) false h out
  | .emitCmd msg h =>
    match msg with
    | [] => if isErr out.ret && out.log == [] then some sp else none
    | b :: _ => sp.stepEmit b.toUInt64 (some msg) true h out
  | .emitNone h =>
    if sp.dflt = 0 then (if out.ret = .val 0 && out.log == [] then some sp else none)
    else match sp.lookup sp.dflt with
      | some r => sp.stepDeliver r sp.dflt none false h out
      | none =>
        -- a default id that names no handler: refused and forgotten, or handed to the fallback
        if isErr out.ret && out.log == [] then some { sp with dflt := 0 }
        else match sp.fb with
          | some r => sp.stepDeliver r sp.dflt none false h out
          | none => if sp.bi then sp.stepUnhandled sp.dflt none out else none
  | .hash msg h => (cmdIds msg).findSome? fun cid => sp.stepHashId msg cid h out
  | .hashFrag frags h => (cmdIdsFrag frags).findSome? fun cid => sp.stepHashId frags.flatten cid h out
  | .hashNone => if out.ret = .val failDefault && out.log == [] then some sp else none
  | .reserve _ =>
    let r := sp.next
    match out.ret with
    | .null => if out.log == [] then some { sp with next := r + 1 } else none
    | .val v =>
      -- the id handed out must not name a live registration
      if 0 ≤ v && v < 2 ^ 64 && out.log == [] && (sp.lookup (UInt64.ofNat v.toNat)).isNone then
        some { sp with live := sp.live ++ [(UInt64.ofNat v.toNat, r)], next := r + 1, regd := sp.regd ++ [r] }
      else none
    | .fault => none
  | .fini =>
    if isOk out.ret && sameSet out.log (sp.liveRegs.map .fin) then
      some { sp with live := [], fb := none, bi := false, dflt := 0 }
    else none
  | .drop =>
    -- every registration of the table gets its end-of-life call through the content traits
    if isOk out.ret && sameSet out.log (sp.live.map (.fin ·.2)) then some { sp with live := [] } else none
  | .tcopy r =>
    -- a live registration has a single owner: copying its element must be refused; nothing is invoked
    if out.log == [] && (isErr out.ret || (isOk out.ret && !(sp.live.map (·.2)).contains r)) then some sp else none
  | .setDefault id =>
    match sp.lookup id with
    | some _ => if isOk out.ret && out.log == [] then some { sp with dflt := id } else none
    | none => if isErr out.ret && out.log == [] then some sp else none
  | .setError =>
    let r := sp.next
    let old : List LogE := match sp.fb with | some o => [.fin o] | none => []
    if isOk out.ret && out.log == old then
      some { sp with fb := some r, bi := false, next := r + 1, regd := sp.regd ++ [r] }
    else none

/-- run the monitor over a history and the outcomes observed for it -/
def run (sp : Spec) : List (Op × Out) → Option Spec
  | [] => some sp
  | (op, out) :: rest =>
    match sp.step op out with
    | some sp' => run sp' rest
    | none => none

/-- the log a hash dispatch must produce for the reading `cid` of the message -/
def hashLog (sp : Spec) (cid : Option Id) : List LogE :=
  match cid with
  | none => []
  | some id => match sp.target id with | some r => [.call r id] | none => []

end Spec
end Mpt.Dispatch
