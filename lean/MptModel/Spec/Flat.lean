/-
  S for C17: every message operation on ONE contiguous byte string (`List Byte`).
  Written from the property text: "the same operation on the single contiguous byte string
  formed by concatenating the fragments".  The character-level rules (what is white space, what a
  quote does, where a token ends) are part of "the operation" and are defined here once; the
  implementation model (Impl/Message.lean) adds the fragment handling around them.
-/
import MptModel.Basic
namespace Mpt.Flat

/-- `isspace` in the C locale -/
def isSpace (c : Byte) : Bool := c == 32 || (9 ≤ c && c ≤ 13)
/-- `isgraph` in the C locale -/
def isGraph (c : Byte) : Bool := 33 ≤ c && c ≤ 126
def notSpace (c : Byte) : Bool := !isSpace c

/-- consume `n` leading bytes: (bytes copied, remaining content); the returned count is the number copied -/
def read (d : List Byte) (n : Nat) : List Byte × List Byte := (d.take n, d.drop n)

def length (d : List Byte) : Nat := d.length

/-- position of the first byte accepted by `p` -/
def find (p : Byte → Bool) (d : List Byte) : Option Nat := d.findIdx? p

/-- position of the last byte accepted by `p` -/
def rfind (p : Byte → Bool) : List Byte → Option Nat
  | [] => none
  | c :: cs =>
    match rfind p cs with
    | some i => some (i + 1)
    | none => if p c then some 0 else none

def chr (d : List Byte) (b : Byte) : Option Nat := find (· == b) d
def rchr (d : List Byte) (b : Byte) : Option Nat := rfind (· == b) d
/-- first byte that is one of `set`; an empty set "matches" at 0 (documented early return) -/
def str (d : List Byte) (set : List Byte) : Option Nat :=
  if set.isEmpty then some 0 else find (fun c => set.contains c) d
def rstr (d : List Byte) (set : List Byte) : Option Nat :=
  if set.isEmpty then some 0 else rfind (fun c => set.contains c) d

/- ---------------------------------------------------------------- token search -/

/-- outcome of scanning a stretch of bytes with a character-level state machine -/
inductive Scan (σ : Type) where
  | found (pos : Nat)
  | more (s : σ)
  deriving Repr, DecidableEq

/-- run `step` over the bytes; `none` from `step` = "this byte is the one searched for" -/
def scan {σ : Type} (step : σ → Byte → Option σ) (s : σ) : List Byte → Scan σ
  | [] => .more s
  | c :: cs =>
    match step s c with
    | none => .found 0
    | some s' =>
      match scan step s' cs with
      | .found i => .found (i + 1)
      | .more t => .more t

/-- operands of `mpt_memtok`: `tok = none` is the NULL pointer ("find a visible character");
    for `com`/`esc` NULL and "" are the same -/
structure TokArgs where
  tok : Option (List Byte)
  com : List Byte
  esc : List Byte
  deriving Repr, DecidableEq

/-- scanner state: open quote character, previous character, inside a comment -/
structure TokSt where
  quote : Option Byte := none
  prev  : Byte := 32
  skip  : Bool := false
  deriving Repr, DecidableEq

/-- one character of `mpt_memtok` -/
def tokStep (a : TokArgs) (s : TokSt) (c : Byte) : Option TokSt :=
  if s.skip then
    -- a comment runs up to the line end; the line end itself is white space
    if c == 10 then some { s with skip := false, prev := c } else some s
  else if !a.esc.isEmpty && s.quote.isSome then
    some { s with quote := if s.quote == some c && s.prev != 92 then none else s.quote, prev := c }
  else if !a.esc.isEmpty && a.esc.contains c then
    some { s with quote := some c }
  else if a.com.contains c && isSpace s.prev then
    match a.tok with
    | some _ => none
    | none => some { s with skip := true }
  else
    match a.tok with
    | some t => if t.contains c then none else some { s with prev := c }
    | none => if !isSpace c then none else some { s with prev := c }

def tok (d : List Byte) (a : TokArgs) : Option Nat :=
  match scan (tokStep a) {} d with
  | .found i => some i
  | .more _ => none

/- ---------------------------------------------------------------- copy -/

/-- `mpt_memcpy(len, src, dst)` on one source and one target area: (return value, target afterwards);
    `len > 0` demands exactly `len` bytes (−1: source too short, −2: target too short),
    `len < 0` copies as much as fits -/
def cpy (len : Int) (s d : List Byte) : Int × List Byte :=
  if len > 0 then
    if len > s.length then (-1, d)
    else if len > d.length then (-2, d)
    else (len, s.take len.toNat ++ d.drop len.toNat)
  else if len = 0 then (0, d)
  else
    let n := min s.length d.length
    (n, s.take n ++ d.drop n)

/- ---------------------------------------------------------------- arguments -/

/-- position of the first `c`, or the length when there is none -/
def nextChar (d : List Byte) (c : Byte) : Nat := (find (· == c) d).getD d.length

/-- white space outside quotes ends an argument -/
def wsTok : TokArgs := { tok := some [9, 32, 10, 13, 11], com := [], esc := [39, 34] }

/-- remove leading white space (nothing is removed from an all-white-space text) -/
def trimFlat (d : List Byte) : List Byte :=
  match find notSpace d with
  | some p => d.drop p
  | none => d

/-- `mpt_message_argv`: `none` = MissingData (nothing left), else (length of the next argument,
    content after removing leading white space) -/
def argv (d : List Byte) (sep : Byte) : Option (Nat × List Byte) :=
  if d.isEmpty then none
  else if sep == 0 then some (nextChar d 0, d)
  else
    let d' := trimFlat d
    if !isGraph sep then
      match tok d' wsTok with
      | some p => some (p, d')
      | none => some (nextChar d' 0, d')
    else some (nextChar d' sep, d')

/-- loop of `mpt_array_message`: arguments are stored one after the other, each followed by a zero byte.
    `none` = fuel exhausted (never happens with `d.length + 1`, every round consumes a byte) -/
def argsLoop (sep : Byte) : Nat → List Byte → List Byte → Nat → Option (Nat × List Byte)
  | 0, _, _, _ => none
  | fuel + 1, d, acc, n =>
    match argv d sep with
    | none => some (n, acc)
    | some (len, d') =>
      if len = 0 ∧ sep ≠ 0 then some (n, acc)
      else
        let arg := d'.take len
        argsLoop sep fuel (d'.drop (len + 1)) (acc ++ arg ++ List.replicate (len - arg.length) 0 ++ [0]) (n + 1)

def args (d : List Byte) (sep : Byte) : Option (Nat × List Byte) :=
  if d.length = 0 then some (0, []) else argsLoop sep (d.length + 1) d [] 0

/-- `mpt_message_append` -/
def append (arr d : List Byte) : List Byte := arr ++ d

/-- `mpt_message_get` on a queue with logical content `d`: the bytes `[off, off+take)`; refused when
    they are not all there -/
def get (d : List Byte) (off take : Nat) : Option (List Byte) :=
  if off + take ≤ d.length then some ((d.drop off).take take) else none

/- ---------------------------------------------------------------- command hash -/

/-- `*str` as `char` (signed) widened to 64 bit -/
def signExt (c : Byte) : UInt64 := if c.toNat < 128 then c.toUInt64 else c.toUInt64 ||| 0xffffffffffffff00
/-- `mpt_hash_djb2(data, len)` -/
def djb2 (h : UInt64) : List Byte → UInt64
  | [] => h
  | c :: r => djb2 ((h * 33) ^^^ signExt c) r
def hash (bs : List Byte) : UInt64 := djb2 5381 bs

/-- `mpt_dispatch_hash` up to the handler lookup, on a contiguous message: 2-byte type header, then the
    command word = first argument (separator `arg` for command messages, else zero-terminated);
    `none` = refused before any handler is called -/
def dhash (d : List Byte) : Option UInt64 :=
  match d with
  | ty :: arg :: payload =>
    let sep : Byte := if ty == 4 then arg else 0
    match argv payload sep with
    | none => none
    | some (len, d') =>
      if len = 0 then none
      else
        let word := d'.take len
        some (hash (if sep == 0 && word.getLast? == some 0 then word.dropLast else word))
  | _ => none

/-- `mpt_stream_append(stream, msg)` followed by the end of the message: the messages that arrive on the
    stream (exactly one, the content) and the returned length -/
def sappend (d : List Byte) : Nat × List (List Byte) := (d.length, [d])

end Mpt.Flat
