/-
  S for C01/C03: the message framings of mpt-base, written from the COBS definitions
  (Cheshire/Baker: COBS, COBS/ZPE; Craig McQueen: COBS/R) and the header comments of the
  library, not from the encoder/decoder code.

  A frame is a list of blocks followed by one delimiter byte `0`.  A block is a code byte `c`
  followed by `dataLen c` non-zero data bytes:
    * `c < maxlen`        : `c-1` data bytes, then an implied zero unless it is the last block
    * `c = maxlen`        : `maxlen-1` data bytes, no implied zero
    * ZPE, `c > maxlen`   : `c-0xE0` data bytes, then two implied zeros  (maxlen = 0xDF)
    * /R, last block only : a block shorter than its code says means "the code byte is the
                            last data byte" (tail inline)

  The encoder is greedy.  Zero pair elimination needs one byte of look-ahead; when the message is
  handed over in pieces the look-ahead ends at the end of a piece, so the produced frame may depend
  on where the pieces end (every such frame decodes to the same message, see `Props/C01.lean`).
  The encoder therefore works on *marked* bytes `(b, cut)`: `cut = true` says "a piece ends after
  this byte".  `enc` is the encoder for a message handed over in one piece.
-/
import MptModel.Basic
namespace Mpt.Cobs

inductive Variant where
  | cobs | cobsR | zpe | zpeR
  deriving DecidableEq, Repr, Inhabited

namespace Variant
/-- code of a full block without implied zero -/
def maxlen : Variant → Nat
  | cobs | cobsR => 255
  | zpe | zpeR => 223
def isZpe : Variant → Bool
  | zpe | zpeR => true
  | _ => false
def tail : Variant → Bool
  | cobsR | zpeR => true
  | _ => false
def name : Variant → String
  | cobs => "cobs" | cobsR => "cobs/r" | zpe => "cobs/zpe" | zpeR => "cobs/zpe+r"
def ofName : String → Option Variant
  | "cobs" => some cobs | "cobs/r" => some cobsR | "cobs/zpe" => some zpe | "cobs/zpe+r" => some zpeR
  | _ => none
end Variant

/-- code byte of a block holding the data bytes `run` followed by one implied zero -/
def codeOf (run : List Byte) : Byte := UInt8.ofNat (run.length + 1)
/-- ZPE code byte of a block holding `run` followed by two implied zeros -/
def pairCode (run : List Byte) : Byte := UInt8.ofNat (run.length + 0xE0)
/-- a zero pair can be folded into the block holding `run` -/
def pairOk (v : Variant) (run : List Byte) : Bool := v.isZpe && decide (1 ≤ run.length) && decide (run.length ≤ 30)

/-- last block of a frame -/
def finalBlock (v : Variant) (run : List Byte) : List Byte :=
  match run.getLast? with
  | some e =>
    if v.tail = true ∧ run.length + 1 < e.toNat ∧ e.toNat ≤ v.maxlen then e :: run.dropLast
    else codeOf run :: run
  | none => [1]

/-- blocks for the open block `run` (non-zero bytes seen since the last code byte), `pend` = a zero
    that may still become a zero pair has been seen, and the remaining marked message bytes -/
def encB (v : Variant) (run : List Byte) (pend : Bool) : List (Byte × Bool) → List Byte
  | [] => if pend then codeOf run :: (run ++ [1]) else finalBlock v run
  | (b, cut) :: rest =>
    if pend then
      if b = 0 then pairCode run :: (run ++ encB v [] false rest)
      else codeOf run :: (run ++ encB v [b] false rest)
    else if b = 0 then
      if pairOk v run = true ∧ cut = false then encB v run true rest
      else codeOf run :: (run ++ encB v [] false rest)
    else if run.length + 2 = v.maxlen then
      UInt8.ofNat v.maxlen :: ((run ++ [b]) ++ encB v [] false rest)
    else encB v (run ++ [b]) false rest

/-- frame of a message handed to the encoder in the given pieces -/
def mark (chunks : List (List Byte)) : List (Byte × Bool) :=
  chunks.flatMap fun c => (c.dropLast.map fun b => (b, false)) ++ (c.getLast?.toList.map fun b => (b, true))

def encChunks (v : Variant) (chunks : List (List Byte)) : List Byte :=
  encB v [] false (mark chunks) ++ [0]

/-- reference encoder: the frame of message `m` -/
def enc (v : Variant) (m : List Byte) : List Byte :=
  encB v [] false (m.map fun b => (b, false)) ++ [0]

/-- number of data bytes of a block with code `c` -/
def dataLen (v : Variant) (c : Byte) : Nat :=
  if c.toNat ≤ v.maxlen then c.toNat - 1 else c.toNat - 0xE0

/-- zeros implied after a block with code `c`; `more` = another block follows -/
def zerosAfter (v : Variant) (c : Byte) (more : Bool) : List Byte :=
  if v.maxlen < c.toNat then [0, 0]
  else if c.toNat < v.maxlen ∧ more = true then [0]
  else []

/-- decode the blocks of a frame body (the bytes in front of the delimiter); first argument is fuel -/
def decBody (v : Variant) : Nat → List Byte → Option (List Byte)
  | 0, _ => none
  | _ + 1, [] => some []
  | f + 1, c :: rest =>
    if rest.length < dataLen v c then
      (if v.tail = true then some (rest ++ [c]) else none)
    else
      (decBody v f (rest.drop (dataLen v c))).map fun tl =>
        rest.take (dataLen v c) ++ zerosAfter v c (!(rest.drop (dataLen v c)).isEmpty) ++ tl

/-- reference decoder: `frame` must be a non-empty zero-free body followed by the delimiter -/
def dec (v : Variant) (frame : List Byte) : Option (List Byte) :=
  if frame.getLast? = some 0 ∧ frame.dropLast ≠ [] ∧ (0 : Byte) ∉ frame.dropLast then
    decBody v (frame.dropLast.length + 1) frame.dropLast
  else none

/-! ### zero-terminated command text -/

/-- header `{ MPT_MESGTYPE(Command), ' ' }` the command decoder puts in front of the text -/
def cmdHeader : List Byte := [0x04, 0x20]

/-- admits exactly the messages without a zero byte -/
def encStr (m : List Byte) : Option (List Byte) :=
  if (0 : Byte) ∈ m then none else some (m ++ [0])

def decCmd (frame : List Byte) : Option (List Byte) :=
  if frame.getLast? = some 0 ∧ (0 : Byte) ∉ frame.dropLast then some (cmdHeader ++ frame.dropLast) else none

/-! ### the Python client's encoder (`mpt.py:encode_cobs`), statement by statement -/

/-- loop body: `ret` is the bytearray, `code` the open block length -/
def pyStep (st : List Byte × Nat) (b : Byte) : List Byte × Nat :=
  if b ≠ 0 then
    if st.2 ≥ 254 then
      let ret := st.1 ++ [b]
      let ret := ret.set (ret.length - st.2 - 1) (UInt8.ofNat (st.2 + 1))
      (ret ++ [1], 1)
    else (st.1 ++ [b], st.2 + 1)
  else
    let ret := if st.2 ≠ 1 then st.1.set (st.1.length - st.2) (UInt8.ofNat st.2) else st.1
    (ret ++ [1], 1)

def pyEnc (m : List Byte) : List Byte :=
  let st := m.foldl pyStep ([1], 1)
  st.1.set (st.1.length - st.2) (UInt8.ofNat st.2) ++ [0]

/-! ### the coding numbers (`enum EncodingType` of convert.h: Command = 1, Cobs = 2, CobsInline = 3, Compress = 4 as flag) -/

/-- coding number of a COBS framing -/
def Variant.coding : Variant → Nat
  | .cobs => 2 | .cobsR => 3 | .zpe => 6 | .zpeR => 7

/-- the COBS framing selected by a coding number (1 = command text is not a `Variant`) -/
def Variant.ofCoding : Nat → Option Variant
  | 2 => some .cobs | 3 => some .cobsR | 6 => some .zpe | 7 => some .zpeR | _ => none

/-- `mpt.py:encode_command`: raises (`none`) on an inline zero byte, else appends the delimiter -/
def pyCmd (m : List Byte) : Option (List Byte) :=
  if (0 : Byte) ∈ m then none else some (m ++ [0])

end Mpt.Cobs
