/-
  S for C19, text part: the canonical description grammar and what a canonical description denotes.
  Written from the documented forms `lin(n : a b)`, `fac(n:b:f:i)`, `range(a b : s)` and plain number lists
  (mptplot/values/iterator_*.c header comments, examples/iter.c) — NOT from the scanners of the code.

    description := numbers | keyword [' '] '(' field { ':' field } ')'
    field       := [' '] number { ' ' number } [' ']
    number      := [+-] digits [ '.' digits ] [ (e|E) [+-] digits ]        (at most 15 digits, 2 exponent digits)
    count       := digits without a leading zero (or the single digit 0), at most 9 digits

  `recognise` returns the parsed description for exactly these texts.  `certainlyMalformed` names texts
  that no reading of the documentation accepts.  Everything in between is left open (`*` in the driver).
-/
import MptModel.Spec.Iterator
namespace Mpt.IterSpec

def isDig (c : Char) : Bool := 48 ≤ c.toNat && c.toNat ≤ 57
def isLetter (c : Char) : Bool := (65 ≤ c.toNat && c.toNat ≤ 90) || (97 ≤ c.toNat && c.toNat ≤ 122)
def toLower (c : Char) : Char := if 65 ≤ c.toNat ∧ c.toNat ≤ 90 then Char.ofNat (c.toNat + 32) else c
def natOf (ds : List Char) : Nat := ds.foldl (fun a c => a * 10 + (c.toNat - 48)) 0

def splitOn (sep : Char) : List Char → List (List Char)
  | [] => [[]]
  | c :: cs =>
    if c = sep then [] :: splitOn sep cs
    else match splitOn sep cs with
      | [] => [[c]]
      | w :: ws => (c :: w) :: ws

/-- remove at most one leading and one trailing blank -/
def trim1 (s : List Char) : List Char :=
  let a := if s.head? = some ' ' then s.tail else s
  if a.getLast? = some ' ' then a.dropLast else a

def pow10 (e : Int) : Rat := if 0 ≤ e then ((10 ^ e.toNat : Nat) : Rat) else 1 / ((10 ^ (-e).toNat : Nat) : Rat)

/-! the pieces of a number token, left to right -/

/-- the token without its sign -/
def unsign (s : List Char) : List Char :=
  if s.head? = some '-' ∨ s.head? = some '+' then s.tail else s
def intPart (s : List Char) : List Char := (unsign s).takeWhile isDig
def afterInt (s : List Char) : List Char := (unsign s).dropWhile isDig
def hasDot (s : List Char) : Bool := (afterInt s).head? = some '.'
def fracPart (s : List Char) : List Char := if hasDot s then (afterInt s).tail.takeWhile isDig else []
def afterFrac (s : List Char) : List Char := if hasDot s then (afterInt s).tail.dropWhile isDig else afterInt s
def hasExp (s : List Char) : Bool := (afterFrac s).head? = some 'e' || (afterFrac s).head? = some 'E'
/-- behind the exponent letter and its sign -/
def expBody (s : List Char) : List Char := unsign (afterFrac s).tail
def expNeg (s : List Char) : Bool := (afterFrac s).tail.head? = some '-'
def expPart (s : List Char) : List Char := if hasExp s then (expBody s).takeWhile isDig else []
def afterExp (s : List Char) : List Char := if hasExp s then (expBody s).dropWhile isDig else afterFrac s

/-- `[+-] digits [. digits] [e [+-] digits]`, the whole token -/
def strictNumber (s : List Char) : Option Rat :=
  if (intPart s).isEmpty ∨ (hasDot s ∧ (fracPart s).isEmpty) ∨ (hasExp s ∧ (expPart s).isEmpty) ∨ !(afterExp s).isEmpty
     ∨ 15 < (intPart s).length + (fracPart s).length ∨ 2 < (expPart s).length then none
  else
    let e : Int := if hasExp s ∧ expNeg s then -(natOf (expPart s) : Int) else (natOf (expPart s) : Int)
    let v := ((natOf (intPart s ++ fracPart s) : Nat) : Rat) * pow10 (e - (fracPart s).length)
    some (if s.head? = some '-' then -v else v)

def strictCount (s : List Char) : Option Nat :=
  if s.isEmpty ∨ 9 < s.length ∨ !s.all isDig ∨ (1 < s.length ∧ s.head? = some '0') then none
  else some (natOf s)

def allSome {α} : List (Option α) → Option (List α)
  | [] => some []
  | none :: _ => none
  | some a :: rest => (allSome rest).map (a :: ·)

/-- numbers separated by single blanks -/
def numbers (s : List Char) : Option (List Rat) := allSome ((splitOn ' ' s).map strictNumber)

inductive Desc where
  | lin (n : Nat) (a b : Rat)
  | range (a b s : Rat)
  | fac (n : Nat) (base f init : Rat)
  | values (vs : List Rat)
  deriving Repr, DecidableEq

def keywordKind (name : List Char) : Option Nat :=
  let n := String.ofList (name.map toLower)
  if n = "lin" ∨ n = "linear" then some 0
  else if n = "range" then some 1
  else if n = "fac" ∨ n = "fact" ∨ n = "factor" then some 2
  else none

/-- the fields between the parentheses, `none` if the text is not `[' '] '(' … ')'` with a single pair -/
def fieldsOf (rest : List Char) : Option (List (List Char)) :=
  let r := if rest.head? = some ' ' then rest.tail else rest
  if r.head? ≠ some '(' ∨ r.getLast? ≠ some ')' then none
  else
    let inner := r.tail.dropLast
    if inner.any (fun c => c = '(' ∨ c = ')') then none
    else some ((splitOn ':' inner).map trim1)

def recognise (s : List Char) : Option Desc :=
  let name := s.takeWhile isLetter
  let rest := s.dropWhile isLetter
  if name.isEmpty then (numbers s).bind fun vs => if vs.isEmpty then none else some (.values vs)
  else
    match keywordKind name, fieldsOf rest with
    | some 0, some [n] => (strictCount n).map fun k => .lin k 0 1
    | some 0, some [n, ab] =>
      match strictCount n, numbers ab with
      | some k, some [a, b] => some (.lin k a b)
      | _, _ => none
    | some 1, some [ab] =>
      match numbers ab with
      | some [a, b] => some (.range a b ((b - a) / 10))
      | _ => none
    | some 1, some [ab, st] =>
      match numbers ab, numbers st with
      | some [a, b], some [x] => some (.range a b x)
      | _, _ => none
    | some 2, some [n] => (strictCount n).map fun k => .fac k 10 10 0
    | some 2, some [n, b] =>
      match strictCount n, numbers b with
      | some k, some [x] => some (.fac k x x 0)
      | _, _ => none
    | some 2, some [n, b, f] =>
      match strictCount n, numbers b, numbers f with
      | some k, some [x], some [y] => some (.fac k x y 0)
      | _, _, _ => none
    | some 2, some [n, b, f, i] =>
      match strictCount n, numbers b, numbers f, numbers i with
      | some k, some [x], some [y], some [z] => some (.fac k x y z)
      | _, _, _, _ => none
    | _, _ => none

/-- the smallest positive normal `double` (`DBL_MIN`): base and factor below it are refused (iterator_factor.c) -/
def dblMinS : Rat := 1 / ((2 ^ 1022 : Nat) : Rat)

/-- the number of whole steps of a range is settled: the width is a whole number of steps, or it falls short
    of the next whole number by more than floating-point rounding can bridge (2^-49 of that number) -/
def rangeSettled (a b s : Rat) : Bool :=
  let k := ((b - a) / s).floor.toNat
  decide ((b - a) / s = ((k : Nat) : Rat)) ||
    decide (((k + 1 : Nat) : Rat) * (1 / ((2 ^ 49 : Nat) : Rat)) < ((k + 1 : Nat) : Rat) - (b - a) / s)

/-- the sequence a recognised description denotes; `none` where the documentation leaves the meaning open
    (zero steps, empty or descending ranges, steps finer than 1/100000 of the range, a width within rounding
    below a whole number of steps, base or factor below `DBL_MIN`) -/
def Desc.den : Desc → Option Den
  | .lin n a b => if 1 ≤ n ∧ n < 4294967295 then some (IterSpec.linear n a b) else none
  | .range a b s => if a < b ∧ 0 < s ∧ s ≤ b - a ∧ (b - a) / 100000 ≤ s ∧ rangeSettled a b s = true then some (IterSpec.range a b s) else none
  | .fac n base f init =>
    if dblMinS ≤ base ∧ dblMinS ≤ f ∧ n < 4294967295 then some (IterSpec.factor n base f init) else none
  | .values vs => some (explicit vs)

/-- texts that are malformed under every reading: an unknown keyword, a keyword without an opening or a
    closing parenthesis, or a list that does not start with a sign, digit or decimal point -/
def certainlyMalformed (s : List Char) : Bool :=
  let t := s.dropWhile (fun c => c = ' ')
  let name := t.takeWhile isLetter
  let rest := t.dropWhile isLetter
  if t.isEmpty then false
  else if name.isEmpty then
    match t.head? with
    | some c => !(isDig c || c = '+' || c = '-' || c = '.' || c.toNat = 9 || (10 ≤ c.toNat && c.toNat ≤ 13))
    | none => false
  else
    (keywordKind name).isNone || !rest.any (fun c => c = '(') || !rest.any (fun c => c = ')')

/-- white space of the "C" locale -/
def isWs (c : Char) : Bool := c.toNat = 32 || (9 ≤ c.toNat && c.toNat ≤ 13)

/-- the text behind the opening parenthesis does not begin with a count that is followed by `:` or `)`:
    no digit at all (possibly after a `+`), or something else behind the digits -/
def badCount (body : List Char) : Bool :=
  let b := body.dropWhile isWs
  let b' := if b.head? = some '+' then b.tail else b
  if (b'.takeWhile isDig).isEmpty then b.head?.isSome
  else
    match ((b'.dropWhile isDig).dropWhile isWs).head? with
    | some x => x != ':' && x != ')'
    | none => false

/-- **descriptions whose count is malformed**: a `lin` / `fac` keyword, an opening parenthesis, and then
    either something that is no count at all (`lin()`, `lin(abc)`, `lin(-3 : 0 1)`, `fac(:2)`) or a count
    that is followed by something else than `:` or `)` (`lin(4 ; 0 1)`, `lin(4 5)`, `fac(3x)`) -/
def malformedCount (s : List Char) : Bool :=
  let t := s.dropWhile isWs
  let name := t.takeWhile isLetter
  let rest := t.dropWhile isLetter
  if name.isEmpty ∨ ¬ (keywordKind name = some 0 ∨ keywordKind name = some 2) then false
  else
    match rest.dropWhile isWs with
    | '(' :: body => badCount body
    | _ => false

/-- **text behind the description**: a keyword description whose last character (white space aside) is not
    the closing parenthesis (`lin(2:0 1)junk`, `fac(3) 4`) -/
def trailingJunk (s : List Char) : Bool :=
  let t := s.dropWhile isWs
  let name := t.takeWhile isLetter
  if name.isEmpty ∨ (keywordKind name).isNone then false
  else
    match (s.reverse.dropWhile isWs).head? with
    | some c => c != ')'
    | none => false

/-- **recognised descriptions without a sequence**: a linear source of zero steps, an empty or descending
    range, a step that is not positive -/
def Desc.senseless : Desc → Bool
  | .lin n _ _ => n == 0
  | .range a b s => decide (b ≤ a) || decide (s ≤ 0)
  | _ => false

/-! ### profile descriptions (`mpt_iterator_profile`): `lin a b`, `bound l i r`, `poly c… [: s…]` -/

inductive PDesc where
  | lin (a b : Rat)
  | bound (l i r : Rat)
  /-- coefficients (highest power first) and shifts of the argument -/
  | poly (mults shifts : List Rat)
  deriving Repr, DecidableEq

/-- canonical profile descriptions: a lower-case keyword, one blank, numbers separated by single blanks; the
    shifts of a polynomial follow ` : ` -/
def recogniseProfile (s : List Char) : Option PDesc :=
  let name := String.ofList (s.takeWhile isLetter)
  match s.dropWhile isLetter with
  | ' ' :: body =>
    if name = "lin" ∨ name = "linear" then
      match numbers body with
      | some [a, b] => some (.lin a b)
      | _ => none
    else if name = "bound" ∨ name = "boundary" then
      match numbers body with
      | some [l, i, r] => some (.bound l i r)
      | _ => none
    else if name = "poly" then
      match splitOn ':' body with
      | [m] => (numbers m).bind fun ms => if 128 < ms.length then none else some (.poly ms [])
      | [m, sh] =>
        if m.getLast? = some ' ' ∧ sh.head? = some ' ' then
          match numbers m.dropLast, numbers sh.tail with
          | some ms, some ss => if 128 < ms.length ∨ ms.length ≤ ss.length then none else some (.poly ms ss)
          | _, _ => none
        else none
      | _ => none
    else none
  | _ => none

/-- coefficient `j` of a polynomial profile: (shift, multiplier); missing shifts are zero -/
def polyCoeff (ms ss : List Rat) : List (Rat × Rat) :=
  (List.range ms.length).map fun j => (ss.getD j 0, ms.getD j 0)

/-- what a profile description denotes over a grid (linear and boundary profiles need two points) -/
def PDesc.den (grid : List Rat) : PDesc → Option Den
  | .lin a b => if 2 ≤ grid.length then some (IterSpec.linear (grid.length - 1) a b) else none
  | .bound l i r => if 2 ≤ grid.length then some (IterSpec.boundary grid.length l i r) else none
  | .poly ms ss => if grid.isEmpty then none else some (IterSpec.poly grid (polyCoeff ms ss))

def startsCI (s : List Char) (w : String) : Bool := (s.take w.length).map toLower = w.toList

/-- profile descriptions that are malformed under every reading: the text does not begin (after white
    space, in any case) with one of the three keywords, or a canonical `lin` / `bound` description carries
    fewer numbers than the profile needs -/
def profileMalformed (s : List Char) : Bool :=
  let t := s.dropWhile isWs
  !(startsCI t "lin" || startsCI t "bound" || startsCI t "poly") ||
  (match t.dropWhile isLetter with
   | ' ' :: body =>
     let name := String.ofList (t.takeWhile isLetter)
     match numbers body with
     | some vs => ((name = "lin" ∨ name = "linear") && vs.length < 2) || ((name = "bound" ∨ name = "boundary") && vs.length < 3)
     | none => false
   | _ => false)

/-- a character no number list contains (letters of `inf` / `nan` count as possible number text) -/
def foreignChar (c : Char) : Bool :=
  !(isDig c || isWs c || c = '+' || c = '-' || c = '.' || c = ':' ||
    "einfatyEINFATY".toList.contains c)

/-- profile descriptions with foreign text: a canonical keyword, a blank, and a rest that contains a
    character no number list can contain (`lin 0 1 junk`, `poly 1 2 x`) — judged by the run, no theorem -/
def profileJunk (s : List Char) : Bool :=
  let name := String.ofList (s.takeWhile isLetter)
  match s.dropWhile isLetter with
  | ' ' :: body =>
    (name = "lin" ∨ name = "linear" ∨ name = "bound" ∨ name = "boundary" ∨ name = "poly") && body.any foreignChar
  | _ => false

end Mpt.IterSpec
