/-
  S for C09: the reference writer for configuration text, written from the file format only.

  A forest of named sections and name=value options is written in one of three section styles

    brace   `name {` … `}`                 (format type '*', default description: `{*} = ` + '#' comments)
    sep     `[name]` until the next `[`     (format type ' ', description `[ ] = #`; one level of sections)
    bar     `|name`  until the next `|`     (format type 'x', description `|x| = #`; one level of sections)
    enc     `{name` … `}`                   (format type 'x' with different start and end characters,
                                             description `{x} = #`; any depth)

  with insignificant decoration chosen per line by a `Decor`: blank and comment lines in front of the
  line, indentation, blanks (blank, tab, vertical tab, form feed, carriage return) around the assignment character,
  trailing blanks and a trailing comment (behind a section start or end also directly, without blank); a node
  without value and children may be written as an empty section (start line + end line) instead of `name=`;
  behind the last element blank and comment lines and a last line without line feed may follow (`endText`).
  Names are restricted by two flag words (`nameFits`, `forestFits`).
  Values are written plain when that is unambiguous and in double quotes (quotes inside escaped by a
  backslash, backslashes at the very end put behind the closing quote) otherwise.

  Core Lean only.
-/
import MptModel.Spec.ConfTree
namespace Mpt.Render
open Mpt Mpt.Conf

inductive Style where
  | brace | sep | bar | enc
  deriving Repr, DecidableEq, Inhabited

def Style.ofString : String → Option Style
  | "brace" => some .brace | "sep" => some .sep | "bar" => some .bar | "enc" => some .enc | _ => none

def str (s : String) : List UInt8 := s.toUTF8.toList

/-- the format description handed to `mpt_parse_node` for a style (`none` = default format) -/
def Style.desc : Style → Option (List UInt8)
  | .brace => none
  | .sep => some (str "[ ] = #")
  | .bar => some (str "|x| = #")
  | .enc => some (str "{x} = #")

/-- decoration of the end line `}` of a section that is written without content (see `LineDecor.close`) -/
structure CloseDecor where
  before : List UInt8 := []
  indent : List UInt8 := []
  trail  : List UInt8 := []
  glue   : Option (List UInt8) := none
  deriving Repr, Inhabited

/-- decoration of one line -/
structure LineDecor where
  before : List UInt8 := []   -- whole lines in front: blank lines and comment lines
  indent : List UInt8 := []   -- blanks at the start of the line
  pre    : List UInt8 := []   -- blanks between a name and the character behind it (`=`, `{`)
  post   : List UInt8 := []   -- blanks between `=` and the value
  trail  : List UInt8 := []   -- behind the element: blanks, optionally followed by `#` and a comment text
  glue   : Option (List UInt8) := none  -- section start / end lines only: comment text put directly (without
                                        -- blank) behind the element, instead of `trail`
  close  : Option CloseDecor := none    -- nested styles, a node without value and without children: write it as an
                                        -- EMPTY SECTION (start line + end line with this decoration) instead of `name=`
  deriving Repr, Inhabited

/-- the end line decoration as a line decoration -/
def CloseDecor.line (c : CloseDecor) : LineDecor :=
  { before := c.before, indent := c.indent, trail := c.trail, glue := c.glue }

/-- decoration per output line (lines are numbered from 0 in writing order) -/
abbrev Decor := Nat → LineDecor

def noDecor : Decor := fun _ => {}

/-- white space inside a line: blank, tab, vertical tab, form feed, carriage return (so CR LF line ends are
    trailing white space) -/
def isBlank (c : UInt8) : Bool := c == 32 || c == 9 || c == 11 || c == 12 || c == 13
def isSpace (c : UInt8) : Bool := c == 32 || (9 ≤ c && c ≤ 13)

/-- `ws* ('#' non-newline*)?` -/
def commentTail : List UInt8 → Bool
  | [] => true
  | c :: rest => if c == 35 then !rest.contains 10 else isBlank c && commentTail rest

/-- blank lines and comment lines, each closed by a line feed.
    State: 0 = at the start of a line, 1 = behind blanks, 2 = inside a comment. -/
def insigFrom : Nat → List UInt8 → Bool
  | st, [] => st == 0
  | st, c :: rest =>
    if c == 10 then insigFrom 0 rest
    else if st == 2 then insigFrom 2 rest
    else if c == 35 then insigFrom 2 rest
    else isSpace c && insigFrom 1 rest

def insignificantLines (l : List UInt8) : Bool := insigFrom 0 l

/-- trailing decoration: blanks only, or at least one blank and then a comment -/
def trailOk (l : List UInt8) : Bool :=
  l.all isBlank || (match l with | c :: _ => isBlank c && commentTail l | [] => true)

/-- what follows a section start or section end on its line -/
def headTrail (d : LineDecor) : List UInt8 :=
  match d.glue with
  | some t => 35 :: t
  | none => d.trail

/-- behind a section start or end a comment needs no blank in front -/
def headTrailOk (l : List UInt8) : Bool :=
  trailOk l || (match l with | c :: t => c == 35 && !t.contains 10 | [] => false)

def LineDecor.okBase (d : LineDecor) : Bool :=
  insignificantLines d.before && d.indent.all isBlank && d.pre.all isBlank && d.post.all isBlank && trailOk d.trail
    && headTrailOk (headTrail d)

def LineDecor.ok (d : LineDecor) : Bool :=
  d.okBase && (match d.close with | some c => c.line.okBase | none => true)

def Decor.ok (d : Decor) : Prop := ∀ k, (d k).ok = true

/-! ### values -/

/-- a value that can be written as it is -/
def plainOk (v : List UInt8) : Bool :=
  !v.isEmpty && v.all (fun c => c != 0 && c != 10 && c != 34 && c != 39 && c != 35) &&
    (match v.head?, v.getLast? with
     | some a, some b => !isSpace a && !isSpace b
     | _, _ => false)

/-- quotes inside a quoted value get a backslash -/
def escape : List UInt8 → List UInt8
  | [] => []
  | c :: rest => if c == 34 then 92 :: 34 :: escape rest else c :: escape rest

/-- the backslashes at the end of a value: they stay outside the quotes (a backslash in front of the
    closing quote would escape it) -/
def tailSlashes (v : List UInt8) : List UInt8 := (v.reverse.takeWhile (· == 92)).reverse
/-- the value without the backslashes at its end -/
def quotedPart (v : List UInt8) : List UInt8 := (v.reverse.dropWhile (· == 92)).reverse

def writeValue (v : List UInt8) : List UInt8 :=
  if plainOk v then v else 34 :: escape (quotedPart v) ++ [34] ++ tailSlashes v

/-- a value the writer can express: not empty (an empty value is no value) and no zero byte -/
def valueOk (v : List UInt8) : Bool :=
  !v.isEmpty && !v.contains 0

/-- names: every byte except the zero byte, white space, the comment character `#`, the assignment
    character `=`, the section delimiters of the four styles (`{ } [ ] |`) and the path separator `.`
    (known finding `dot-in-name`) — letters, digits, punctuation, quotes, backslash, control characters,
    bytes ≥ 0x80; not empty; short enough for an identifier -/
def nameChar (c : UInt8) : Bool :=
  c != 0 && !isSpace c && c != 35 && c != 61 && c != 123 && c != 125 && c != 91 && c != 93 && c != 124 && c != 46
def nameOk (n : List UInt8) : Bool := !n.isEmpty && n.all nameChar && n.length < 65535

/-! ### name restrictions (`MPT_NAMEFLAG`: what a section / option name may contain) -/

/-- flag bits of a name restriction word -/
def flagNumStart : Nat := 0x1   -- a digit as first character
def flagNumCont  : Nat := 0x2   -- digits behind the first character
def flagSpecial  : Nat := 0x4   -- printable characters that are neither letters nor digits
def flagSpace    : Nat := 0x8   -- white space
def flagEmpty    : Nat := 0x10  -- the empty name
def flagBinary   : Nat := 0x20  -- non-printable bytes (control characters, bytes ≥ 0x7f)

def isDigit (c : UInt8) : Bool := 48 ≤ c && c ≤ 57
def isAlnum (c : UInt8) : Bool := isDigit c || (65 ≤ c && c ≤ 90) || (97 ≤ c && c ≤ 122)
def isPrint (c : UInt8) : Bool := 32 ≤ c && c ≤ 126

/-- the characters of a name from position `first` on are permitted by the flag word -/
def charsFit (flags : Nat) : Bool → List UInt8 → Bool
  | _, [] => true
  | first, c :: rest =>
    (if isSpace c then flags &&& flagSpace != 0
     else if isDigit c then flags &&& (if first then flagNumStart else flagNumCont) != 0
     else if !isPrint c then flags &&& flagBinary != 0
     else if !isAlnum c then flags &&& flagSpecial != 0
     else true) && charsFit flags false rest

/-- a name the flag word permits -/
def nameFits (flags : Nat) (n : List UInt8) : Bool :=
  if n.isEmpty then flags &&& flagEmpty != 0 else charsFit flags true n

/-! ### lines -/
def optionLine (d : LineDecor) (n : List UInt8) (v : Option (List UInt8)) : List UInt8 :=
  d.before ++ d.indent ++ n ++ d.pre ++ [61] ++ d.post ++
    (match v with | some x => (if x.isEmpty then [] else writeValue x) | none => []) ++ d.trail ++ [10]

mutual
/-- lines a tree takes in brace style -/
def treeLines : Tree → Nat
  | .node _ _ cs => if cs.isEmpty then 1 else 2 + braceLines cs
/-- lines a forest takes in brace style -/
def braceLines : Forest → Nat
  | [] => 0
  | t :: ts => treeLines t + braceLines ts
end

/-- `name {` -/
def openLine (d : LineDecor) (n : List UInt8) : List UInt8 :=
  d.before ++ d.indent ++ n ++ d.pre ++ [123] ++ headTrail d ++ [10]
/-- `}` -/
def closeLine (d : LineDecor) : List UInt8 :=
  d.before ++ d.indent ++ [125] ++ headTrail d ++ [10]

/-- `{name` (enclosed format with different start and end characters) -/
def encOpenLine (d : LineDecor) (n : List UInt8) : List UInt8 :=
  d.before ++ d.indent ++ [123] ++ n ++ headTrail d ++ [10]

/-- no value, or an empty one -/
def valueless (v : Option (List UInt8)) : Bool :=
  match v with | none => true | some x => x.isEmpty

/-- a node without children in a nested style: `name=value`, or — when it has no value and the decoration
    says so — an empty section -/
def leafLines (openL : LineDecor → List UInt8 → List UInt8) (dl : LineDecor) (n : List UInt8)
    (v : Option (List UInt8)) : List UInt8 :=
  match dl.close, valueless v with
  | some c, true => openL dl n ++ closeLine c.line
  | _, _ => optionLine dl n v

mutual
/-- nested styles (section start line given by `openL`, section end `}`), one tree starting at line `k` -/
def renderTree (openL : LineDecor → List UInt8 → List UInt8) (d : Decor) (k : Nat) : Tree → List UInt8
  | .node n v cs =>
    if cs.isEmpty then leafLines openL (d k) n v
    else openL (d k) n ++ renderNest openL d (k + 1) cs ++ closeLine (d (k + 1 + braceLines cs))
/-- nested styles, a forest starting at line `k` -/
def renderNest (openL : LineDecor → List UInt8 → List UInt8) (d : Decor) (k : Nat) : Forest → List UInt8
  | [] => []
  | t :: ts => renderTree openL d k t ++ renderNest openL d (k + treeLines t) ts
end

/-- brace style -/
abbrev renderBrace (d : Decor) (k : Nat) (f : Forest) : List UInt8 := renderNest openLine d k f

/-- option lines of one section (flat styles) -/
def renderOptions (d : Decor) : Nat → Forest → List UInt8
  | _, [] => []
  | k, (.node n v _) :: ts => optionLine (d k) n v ++ renderOptions d (k + 1) ts

/-- flat styles, the sections: header line (`open_` in front of the name, `close` behind it) and option lines;
    a node without children is an empty section (header only) -/
def renderSects (d : Decor) (open_ close : List UInt8) : Nat → Forest → List UInt8
  | _, [] => []
  | k, (.node n _ cs) :: ts =>
    ((d k).before ++ (d k).indent ++ open_ ++ n ++ close ++ headTrail (d k) ++ [10])
      ++ renderOptions d (k + 1) cs ++ renderSects d open_ close (k + 1 + cs.length) ts

/-- flat styles: option lines up to the first node with children, sections from there on -/
def renderFlat (d : Decor) (open_ close : List UInt8) : Nat → Forest → List UInt8
  | _, [] => []
  | k, (.node n v cs) :: ts =>
    if cs.isEmpty then optionLine (d k) n v ++ renderFlat d open_ close (k + 1) ts
    else renderSects d open_ close k ((.node n v cs) :: ts)

/-- lines (decoration slots) of a forest in a flat style -/
def flatLines : Forest → Nat
  | [] => 0
  | (.node _ _ cs) :: ts => 1 + cs.length + flatLines ts

/-- what may follow the last element: blank and comment lines and a last line without line feed that holds
    blanks and/or a comment (`before`, `indent`, `trail`/`glue` of the decoration) -/
def endText (dl : LineDecor) : List UInt8 := dl.before ++ dl.indent ++ headTrail dl

/-- the elements of a forest in a style, lines numbered from `0` -/
def renderBody (style : Style) (d : Decor) (f : Forest) : List UInt8 :=
  match style with
  | .brace => renderBrace d 0 f
  | .sep => renderFlat d [91] [93] 0 f
  | .bar => renderFlat d [124] [] 0 f
  | .enc => renderNest encOpenLine d 0 f

/-- number of decoration slots the elements take -/
def bodyLines (style : Style) (f : Forest) : Nat :=
  match style with
  | .brace => braceLines f
  | .enc => braceLines f
  | _ => flatLines f

/-- the text of a forest: its elements, then the end text of the first unused decoration slot -/
def render (style : Style) (d : Decor) (f : Forest) : List UInt8 :=
  renderBody style d f ++ endText (d (bodyLines style f))

/-! ### which forests a style can express -/

mutual
/-- a node: admissible name; a leaf carries an admissible value, an empty one or none; a node with
    children carries no value -/
def treeOk : Tree → Bool
  | .node n v cs =>
    nameOk n &&
      (if cs.isEmpty then (match v with | some x => x.isEmpty || valueOk x | none => true)
       else v.isNone && nodesOk cs)
def nodesOk : Forest → Bool
  | [] => true
  | t :: ts => treeOk t && nodesOk ts
end

def isLeaf : Tree → Bool
  | .node _ _ cs => cs.isEmpty

/-- a section of a flat style: it holds options only; without options it has no value either -/
def sectNode : Tree → Bool
  | .node _ v cs => cs.all isLeaf && (!cs.isEmpty || valueless v)

/-- flat styles: options in front, then (from the first node with children on) sections -/
def flatShape : Forest → Bool
  | [] => true
  | (.node _ _ cs) :: ts =>
    if cs.isEmpty then flatShape ts
    else cs.all isLeaf && ts.all sectNode

def admissible (style : Style) (f : Forest) : Bool :=
  nodesOk f && (match style with | .brace => true | .enc => true | _ => flatShape f)

mutual
/-- the names of a tree are permitted by the restriction words for section names (`sect`) and option names
    (`opt`): a node with children is a section; a node without children is an option — and, when it has no
    value, possibly written as an empty section, so its name has to pass both words -/
def treeFits (sect opt : Nat) : Tree → Bool
  | .node n v cs =>
    if cs.isEmpty then nameFits opt n && (!valueless v || nameFits sect n)
    else nameFits sect n && forestFits sect opt cs
def forestFits (sect opt : Nat) : Forest → Bool
  | [] => true
  | t :: ts => treeFits sect opt t && forestFits sect opt ts
end

mutual
/-- what is read back: a leaf without text has no value (an empty value and an empty section are the
    same thing in the tree) -/
def normTree : Tree → Tree
  | .node n v cs =>
    .node n (match v with | some x => if x.isEmpty then none else some x | none => none) (norm cs)
def norm : Forest → Forest
  | [] => []
  | t :: ts => normTree t :: norm ts
end

/-! ### the finite family of decorations used by the correspondence run -/
def decorOf (i : Nat) : Decor :=
  match i with
  | 0 => noDecor
  | 1 => fun k => { indent := List.replicate (k % 3) 32, pre := [32], post := [32] }
  | 2 => fun k => {
      before := if k % 2 == 0 then str "\n  \n# a comment line\n" else str "\t#x\n",
      indent := [9], pre := [32, 32], post := [9],
      trail := if k % 3 == 0 then str "  # trailing" else if k % 3 == 1 then [32, 9] else [] }
  | 3 => fun k => {
      before := if k == 0 then str "#!first line\n\n" else [],
      indent := List.replicate (k % 2) 32, trail := if k % 2 == 0 then str " #" else [32] }
  | 4 => fun k => {
      indent := List.replicate (k % 2) 9, trail := if k % 2 == 0 then str "\t# t" else [],
      glue := if k % 3 == 0 then some (str " glued text") else if k % 3 == 1 then some [] else none }
  | 5 => fun k => {   -- CR LF line ends, form feed / vertical tab as blanks, empty sections, text without final line feed
      before := if k % 4 == 1 then str "\r\n# c\r\n" else [],
      indent := if k % 3 == 0 then [] else [12],
      pre := if k % 2 == 0 then [11] else [], post := if k % 2 == 0 then [] else [13, 32],
      trail := [13],
      close := if k % 2 == 0 then some { indent := [32], trail := [13] } else none }
  | _ => fun k => {   -- empty sections with decorated end lines, a last line that is an unterminated comment
      before := if k % 3 == 2 then str "\n" else [],
      trail := if k % 2 == 0 then [] else str " # end",
      glue := if k % 4 == 3 then some (str "x") else none,
      close := if k % 3 == 0 then none else some { before := str "# empty\n", indent := [9], glue := if k % 2 == 0 then some [] else none } }

end Mpt.Render
