/-
  S for C09 (stub, replaced below): reference writer for configuration text.
-/
import MptModel.Spec.ConfTree
namespace Mpt.Render
open Mpt.Conf

inductive Style where
  | brace | sep | bar
  deriving Repr, DecidableEq, Inhabited

def Style.ofString : String → Option Style
  | "brace" => some .brace | "sep" => some .sep | "bar" => some .bar | _ => none

structure Decor where
  id : Nat := 0

def decorOf (n : Nat) : Decor := { id := n }
def render (_ : Style) (_ : Decor) (_ : Forest) : List UInt8 := []

end Mpt.Render
