/-
  S for C19: what a value source denotes (a finite sequence of numbers, given by a count and a closed
  form) and the iterator protocol as an abstract automaton over that sequence.  Written from the property
  text and the documented interface (mptcore/types.h: value / advance / reset; examples/iter.c: the
  documented loop).  Exact rationals (core `Rat`).
-/
import MptModel.Basic
namespace Mpt.IterSpec

/-- a finite sequence: `count` elements, element `i` is `nth i` -/
structure Den where
  count : Nat
  nth : Nat → Rat

def Den.elems (d : Den) : List Rat := (List.range d.count).map d.nth

/-- `n` equal steps from `a` to `b`: `n + 1` values `a + i·(b−a)/n` -/
def linear (n : Nat) (a b : Rat) : Den := { count := n + 1, nth := fun i => a + (i : Rat) * ((b - a) / (n : Rat)) }

/-- values `a, a+s, a+2s, …` not beyond `b` (for `0 < s ≤ b − a`): `⌊(b−a)/s⌋ + 1` of them -/
def range (a b s : Rat) : Den := { count := ((b - a) / s).floor.toNat + 1, nth := fun i => a + (i : Rat) * s }

/-- start value `init`, then `base, base·f, base·f², …`: `n + 1` values -/
def factor (n : Nat) (base f init : Rat) : Den :=
  { count := n + 1, nth := fun i => if i = 0 then init else base * f ^ (i - 1) }

/-- `len` values: `left`, then `inter` …, finally `right` -/
def boundary (len : Nat) (left inter right : Rat) : Den :=
  { count := len, nth := fun i => if i = 0 then left else if i + 1 < len then inter else right }

/-- polynomial `Σ_j mult_j · (x + shift_j)^(nc−1−j)` over the coefficient list `(shift_j, mult_j)`:
    the first coefficient carries the highest power, the last one is the constant term -/
def polySum (x : Rat) : List (Rat × Rat) → Rat
  | [] => 0
  | c :: rest => c.2 * (x + c.1) ^ rest.length + polySum x rest

/-- without coefficients the grid value itself -/
def polyAt (coeff : List (Rat × Rat)) (x : Rat) : Rat :=
  if coeff.isEmpty then x else polySum x coeff

def poly (grid : List Rat) (coeff : List (Rat × Rat)) : Den :=
  { count := grid.length, nth := fun i => polyAt coeff (grid.getD i 0) }

/-- an explicit list -/
def explicit (vs : List Rat) : Den := { count := vs.length, nth := fun i => vs.getD i 0 }

/-- result classes of `advance` -/
inductive Adv where
  | more      -- a further element is current now
  | last      -- no further element
  | err       -- called past the end (reported, nothing changes)
  deriving Repr, DecidableEq, Inhabited

/-- the protocol automaton: a position in the sequence (`pos = count` is "past the end") -/
structure Cursor where
  den : Den
  pos : Nat

namespace Cursor
def value (c : Cursor) : Option Rat := if c.pos < c.den.count then some (c.den.nth c.pos) else none
def advance (c : Cursor) : Cursor × Adv :=
  if c.den.count ≤ c.pos then (c, .err)
  else ({ c with pos := c.pos + 1 }, if c.pos + 1 = c.den.count then .last else .more)
def reset (c : Cursor) : Cursor := { c with pos := 0 }
/-- elements still to come, the current one first -/
def remaining (c : Cursor) : List Rat := c.den.elems.drop c.pos
end Cursor

/-- the same automaton on plain lists: all elements and the elements still to come (current one first) -/
structure Cur where
  all : List Rat
  rem : List Rat
  deriving Repr, DecidableEq

namespace Cur
def value (c : Cur) : Option Rat := c.rem.head?
def advance (c : Cur) : Cur × Adv :=
  match c.rem with
  | [] => (c, .err)
  | _ :: t => ({ c with rem := t }, if t.isEmpty then .last else .more)
def reset (c : Cur) : Cur := { c with rem := c.all }
end Cur

/-- the calls of the iterator interface -/
inductive Call where
  | value | advance | reset
  deriving Repr, DecidableEq

/-- the same automaton over elements of any type (buffer arguments: strings) -/
structure LCur (α : Type) where
  all : List α
  rem : List α

namespace LCur
def value {α : Type} (c : LCur α) : Option α := c.rem.head?
def advance {α : Type} (c : LCur α) : LCur α × Adv :=
  match c.rem with
  | [] => (c, .err)
  | _ :: t => ({ c with rem := t }, if t.isEmpty then .last else .more)
def reset {α : Type} (c : LCur α) : LCur α := { c with rem := c.all }
end LCur

/-- text arguments: an element of a text is delimited by reading it (the conversion decides where a number,
    a word or a key ends), so the protocol speaks about `advance` only after a read of the current element -/
structure TCur where
  all : List Rat
  rem : List Rat
  read : Bool
  deriving Repr, DecidableEq

/-- what a call on a text argument reports -/
inductive TRes where
  | val (v : Option Rat)
  | adv (a : Adv)
  | rst
  deriving Repr, DecidableEq

namespace TCur
/-- `none`: no statement (advance over an element that has not been read) -/
def step (c : TCur) : Call → Option (TCur × TRes)
  | .value => some ({ c with read := true }, .val c.rem.head?)
  | .advance =>
    match c.rem with
    | [] => some (c, .adv .err)
    | _ :: t =>
      if c.read then some ({ c with rem := t, read := false }, .adv (if t.isEmpty then .last else .more)) else none
  | .reset => some ({ c with rem := c.all, read := false }, .rst)

def run (c : TCur) : List Call → Option (List TRes)
  | [] => some []
  | op :: ops =>
    match c.step op with
    | none => none
    | some (c', r) => (run c' ops).map (r :: ·)
end TCur

/-- the documented loop (examples/iter.c): read the value, advance, stop when advance reports no further
    element (or an error); `fuel` bounds the number of rounds -/
def walk (value : σ → Option Rat) (advance : σ → σ × Adv) : Nat → σ → List Rat
  | 0, _ => []
  | fuel + 1, s =>
    match value s with
    | none => []
    | some v =>
      match advance s with
      | (s', .more) => v :: walk value advance fuel s'
      | (_, _) => [v]

end Mpt.IterSpec
