/-
  S for C14: ordered forests of named, valued nodes.  Written from the property text and the
  documented meaning of the position arguments (gnode_pos.c / node_locate.c header comments:
  0 = last, >0 = n-th starting at the current element, <0 = n-th before).

  A `Tree` carries the handle (`id`) the caller uses to talk about the node; `Forest.shape`
  forgets the handles ("same shape, names and values").  The state of a program is a
  collection of top-level sibling lists (`Tops`): every node belongs to exactly one place.
-/
namespace Mpt.Forest

/-- `none` = the node was never named (identifier length 0); `some ""` is the empty name -/
abbrev Name := Option String
/-- text value of the node's metatype, `none` = no metatype -/
abbrev Val := Option String

inductive Tree where
  | node (id : Nat) (name : Name) (value : Val) (children : List Tree)
  deriving Repr, Inhabited

abbrev Forest := List Tree

namespace Tree
def id : Tree → Nat | .node i _ _ _ => i
def name : Tree → Name | .node _ n _ _ => n
def value : Tree → Val | .node _ _ v _ => v
def children : Tree → Forest | .node _ _ _ cs => cs
def setChildren : Tree → Forest → Tree | .node i n v _, cs => .node i n v cs
end Tree

/-- handles of all nodes, pre-order -/
def ids : Forest → List Nat
  | [] => []
  | (.node i _ _ cs) :: ts => i :: (ids cs ++ ids ts)

/-- the forest without handles: shape, names and values at every depth -/
inductive Shape where
  | node (name : Name) (value : Val) (children : List Shape)
  deriving Repr

def shape : Forest → List Shape
  | [] => []
  | (.node _ n v cs) :: ts => .node n v (shape cs) :: shape ts

/-- handle of the first element of a sibling list -/
def headId (l : Forest) : Option Nat := l.head?.map Tree.id

/-- index of the tree with root handle `p` in one sibling list -/
def idx? (p : Nat) (l : Forest) : Option Nat := l.findIdx? (fun t => t.id == p)

/-- apply `g` to the children of the node with handle `p` -/
def modKids (p : Nat) (g : Forest → Forest) : Forest → Forest
  | [] => []
  | (.node i n v cs) :: ts =>
    if i = p then .node i n v (g cs) :: ts else .node i n v (modKids p g cs) :: modKids p g ts

/-- the subtree with root handle `p` -/
def find? (p : Nat) : Forest → Option Tree
  | [] => none
  | (.node i n v cs) :: ts =>
    if i = p then some (.node i n v cs)
    else match find? p cs with
      | some t => some t
      | none => find? p ts

/-- handle of the node whose children contain the root handle `p` -/
def parentOf? (p : Nat) : Forest → Option Nat
  | [] => none
  | (.node i _ _ cs) :: ts =>
    if (idx? p cs).isSome then some i
    else match parentOf? p cs with
      | some q => some q
      | none => parentOf? p ts

/-- the sibling list that contains root handle `p` (the list itself, or the children of `p`'s parent),
    and the index of `p` in it -/
def sibsOf? (p : Nat) (l : Forest) : Option (Forest × Nat) :=
  match idx? p l with
  | some j => some (l, j)
  | none =>
    match parentOf? p l with
    | none => none
    | some q =>
      match find? q l with
      | none => none
      | some tq => (idx? p tq.children).map fun j => (tq.children, j)

/-- apply `g` to the sibling list that contains root handle `p` -/
def updSibs (p : Nat) (g : Forest → Forest) (l : Forest) : Forest :=
  if (idx? p l).isSome then g l
  else match parentOf? p l with
    | some q => modKids q g l
    | none => l

/-! ### positions -/

/-- where `add(first, pos, node)` places the node in a sibling list of length `n` whose element
    `first` has index `f`: 0 = at the end, `k > 0` = in front of the k-th element counted from
    `first` (at the end when there is none), `-k` = so that `k` elements follow (in front of
    `first` when the list is too short) -/
def addIdx (n f : Nat) (pos : Int) : Nat :=
  if pos = 0 then n
  else if pos > 0 then min (f + (pos.toNat - 1)) n
  else if (-pos).toNat < n then n - (-pos).toNat else f

/-- indices (counted from `b`) of the entries equal to `key` -/
def midx (key : Name) : List Name → Nat → List Nat
  | [], _ => []
  | n :: ns, b => if n = key then b :: midx key ns (b + 1) else midx key ns (b + 1)

/-- indices of the elements of a sibling list whose name is `nm` -/
def namesakes (l : Forest) (nm : Name) : List Nat := midx nm (l.map Tree.name) 0

/-- by-name placement relative to the elements called like the node: 0 = behind the last of them,
    `k > 0` = in front of the k-th one counted from `first` (behind the last one of the whole list
    when there are fewer), `-k` = so that `k` of them follow (in front of the first one from `first`
    on when there are fewer; `none` = nowhere, when there is none from `first` on);
    without any such element: at the end -/
def nameIdx (l : Forest) (f : Nat) (nm : Name) (pos : Int) : Option Nat :=
  let all := namesakes l nm
  let frm := all.filter (· ≥ f)
  if pos > 0 then
    match frm with
    | [] => some l.length
    | _ =>
      match frm[pos.toNat - 1]? with
      | some i => some i
      | none => (all.getLast?.map (· + 1))
  else
    match all with
    | [] => some l.length
    | _ =>
      let k := (-pos).toNat
      if k < all.length then (all[all.length - 1 - k]?.map (· + 1))
      else frm.head?

/-- result of `locate(first, pos, name)`: index of the matching element -/
def locIdx (l : Forest) (f : Nat) (nm : Name) (pos : Int) : Option Nat :=
  let all := namesakes l nm
  if pos > 0 then (all.filter (· ≥ f))[pos.toNat - 1]?
  else if pos = 0 then all.getLast?
  else ((all.filter (· < f)).reverse)[(-pos).toNat - 1]?

/-- result of the plain position lookup `pos(first, pos)` -/
def posIdx (n f : Nat) (pos : Int) : Option Nat :=
  if pos = 0 then (if n = 0 then none else some (n - 1))
  else if pos > 0 then (if f + (pos.toNat - 1) < n then some (f + (pos.toNat - 1)) else none)
  else if (-pos).toNat ≤ f then some (f - (-pos).toNat) else none

/-! ### merge (move) -/

/-- first element called `nm` at index `≥ d` -/
def findName (l : Forest) (d : Nat) (nm : Name) : Option Nat :=
  ((namesakes l nm).filter (· ≥ d)).head?

/-- merge the list `src` into the list `dst` (elements from index `d` on are candidates):
    an element without namesake is moved to the end of `dst`; otherwise its children are merged
    into the namesake's children (handed over completely when the namesake has none) and the
    element itself stays.  Result: what stays of `src`, the new `dst`, number of moved nodes. -/
def merge : Forest → Forest → Nat → Forest × Forest × Nat
  | [], dst, _ => ([], dst, 0)
  | (.node i n v cs) :: ts, dst, d =>
    match findName dst d n with
    | none =>
      let r := merge ts (dst ++ [.node i n v cs]) d
      (r.1, r.2.1, r.2.2 + 1)
    | some j =>
      match dst[j]? with
      | none => ((.node i n v cs) :: ts, dst, 0)   -- unreachable: `findName` returns valid indices
      | some t =>
        match cs with
        | [] =>
          let r := merge ts dst d
          (.node i n v [] :: r.1, r.2.1, r.2.2)
        | c :: cs' =>
          match t.children with
          | [] =>
            let r := merge ts (dst.set j (t.setChildren (c :: cs'))) d
            (.node i n v [] :: r.1, r.2.1, r.2.2 + (c :: cs').length)
          | _ :: _ =>
            let m := merge (c :: cs') t.children 0
            let r := merge ts (dst.set j (t.setChildren m.2.1)) d
            (.node i n v m.1 :: r.1, r.2.1, r.2.2 + m.2.2)

/-! ### clone -/

/-- copy with fresh handles `k, k+1, …` in pre-order; returns the next unused handle -/
def relabel : Forest → Nat → Forest × Nat
  | [], k => ([], k)
  | (.node _ n v cs) :: ts, k =>
    let a := relabel cs (k + 1)
    let b := relabel ts a.2
    (.node k n v a.1 :: b.1, b.2)

/-! ### the state: top-level lists -/

/-! ### swap -/

/-- the nodes `a` and `b` get the child lists `cb` and `ca` -/
def swapKids (a b : Nat) (ca cb : Forest) : Forest → Forest
  | [] => []
  | (.node i n v cs) :: ts =>
    (if i = a then .node i n v cb else if i = b then .node i n v ca else .node i n v (swapKids a b ca cb cs))
      :: swapKids a b ca cb ts

/-- the trees with root handles `a` and `b` (given as `ta`, `tb`) exchange their places -/
def switchT (a b : Nat) (ta tb : Tree) : Forest → Forest
  | [] => []
  | (.node i n v cs) :: ts =>
    (if i = a then tb else if i = b then ta else .node i n v (switchT a b ta tb cs)) :: switchT a b ta tb ts

structure St where
  tops : List Forest := []
  next : Nat := 0
  /-- handles that were released -/
  freed : List Nat := []
  deriving Inhabited

namespace St

def allIds (s : St) : List Nat := s.tops.flatMap ids

/-- the tree of a detached root `x` (a top-level list that consists of `x` only) -/
def detached? (s : St) (x : Nat) : Option Tree :=
  match s.tops.find? (fun l => headId l == some x) with
  | some [t] => some t
  | _ => none

/-- index of the top-level list that contains handle `p` (at any depth) -/
def topOf? (s : St) (p : Nat) : Option Nat := s.tops.findIdx? (fun l => (ids l).contains p)

def find? (s : St) (p : Nat) : Option Tree := s.tops.findSome? (Forest.find? p)

def sibsOf? (s : St) (p : Nat) : Option (Forest × Nat) := s.tops.findSome? (Forest.sibsOf? p)

def dropEmpty (tops : List Forest) : List Forest := tops.filter (fun l => !l.isEmpty)

def eraseTop (s : St) (x : Nat) : List Forest := s.tops.filter (fun l => headId l != some x)

def new (s : St) (n : Name) (v : Val) : St :=
  { s with tops := s.tops ++ [[.node s.next n v []]], next := s.next + 1 }

/-- place the detached root `x` into the sibling list of `p` at the index chosen by `at_` (list, index of `p`);
    `none` from `at_` = not placed (nothing changes).  Requires: `x` detached, `p` outside the tree of `x`
    (`none` = requirement not met). -/
def place (s : St) (p x : Nat) (at_ : Forest → Nat → Option Nat) : Option St :=
  match s.detached? x, s.sibsOf? p with
  | some t, some (l, j) =>
    if (ids [t]).contains p then none
    else match at_ l j with
      | none => some s
      | some k => some { s with tops := (s.eraseTop x).map (updSibs p fun l' => l'.insertIdx k t) }
  | _, _ => none

def after (s : St) (p x : Nat) : Option St :=
  if p = x then (if s.allIds.contains p then some s else none) else s.place p x fun _ j => some (j + 1)

def before (s : St) (p x : Nat) : Option St :=
  if p = x then (if s.allIds.contains p then some s else none) else s.place p x fun _ j => some j

/-- `add(first, pos, x)`: by position or by name into the sibling list of `first` -/
def add (s : St) (first : Nat) (pos : Int) (x : Nat) (byName : Bool) : Option St :=
  match s.detached? x with
  | none => none
  | some t =>
    s.place first x fun l j => if byName then nameIdx l j t.name pos else some (addIdx l.length j pos)

/-- `insert(parent, pos, x)`: as a child of `parent`, position counted from the first child -/
def insert (s : St) (parent : Nat) (pos : Int) (x : Nat) (byName : Bool) : Option St :=
  match s.detached? x, s.find? parent with
  | some t, some pt =>
    if (ids [t]).contains parent then none
    else
      let cs := pt.children
      let k := if byName then nameIdx cs 0 t.name pos else some (addIdx cs.length 0 pos)
      match k with
      | none => some s
      | some k => some { s with tops := (s.eraseTop x).map (modKids parent fun l => l.insertIdx k t) }
  | _, _ => none

/-- take `x` (with everything below it) out of its sibling list; it becomes a top-level list of its own -/
def unlink (s : St) (x : Nat) : Option St :=
  match s.find? x, s.sibsOf? x with
  | some t, some (_, j) =>
    some { s with tops := dropEmpty (s.tops.map (updSibs x fun l => l.eraseIdx j)) ++ [[t]] }
  | _, _ => none

/-- `move(from, to)`: merge the sibling list starting at `from` into the sibling list of `to`
    (namesakes searched from `to` on).  Requires different top-level lists.  Also returns the count. -/
def move (s : St) (frm to : Nat) : Option (St × Nat) :=
  match s.topOf? frm, s.topOf? to, s.sibsOf? frm, s.sibsOf? to with
  | some a, some b, some (l, i), some (dl, d) =>
    if a = b then none
    else
      let r := merge (l.drop i) dl d
      let tops1 := s.tops.map (updSibs frm fun l' => l'.take i ++ r.1)
      let tops2 := tops1.map (updSibs to fun _ => r.2.1)
      some ({ s with tops := dropEmpty tops2 }, r.2.2)
  | _, _, _, _ => none

/-- `move(from, to)` inside ONE top-level structure: the same merge, for two sibling lists none of which lies inside
    the other's part that takes part in the move (`to` not below an element of the source list from `from` on, `from`
    not below an element of the destination list) -/
def moveSame (s : St) (frm to : Nat) : Option (St × Nat) :=
  match s.topOf? frm, s.topOf? to, s.sibsOf? frm, s.sibsOf? to with
  | some a, some b, some (l, i), some (dl, d) =>
    if a ≠ b then none
    else if (ids dl).contains frm ∨ (ids (l.drop i)).contains to then none
    else
      let r := merge (l.drop i) dl d
      let tops1 := s.tops.map (updSibs frm fun l' => l'.take i ++ r.1)
      let tops2 := tops1.map (updSibs to fun _ => r.2.1)
      some ({ s with tops := dropEmpty tops2 }, r.2.2)
  | _, _, _, _ => none

/-- `clone x`: 0 = the node alone, 1 = with everything below, 2 = the list from `x` on with everything below -/
def clone (s : St) (x : Nat) (mode : Nat) : Option St :=
  match s.sibsOf? x with
  | none => none
  | some (l, i) =>
    match l[i]? with
    | none => none
    | some t =>
      let src : Forest := if mode = 0 then [.node t.id t.name t.value []] else if mode = 1 then [t] else l.drop i
      let r := relabel src s.next
      some { s with tops := s.tops ++ [r.1], next := r.2 }

/-- release everything below `x` -/
def clear (s : St) (x : Nat) : Option St :=
  match s.find? x with
  | none => none
  | some t => some { s with tops := s.tops.map (modKids x fun _ => []), freed := s.freed ++ ids t.children }

/-- release the detached root `x` and everything below; `none` = `x` is linked (the call is refused) -/
def destroy (s : St) (x : Nat) : Option St :=
  match s.detached? x with
  | none => none
  | some t => some { s with tops := s.eraseTop x, freed := s.freed ++ ids [t] }

/-- `swap(a, b)`: the two nodes exchange their children.  Requires that neither lies below the other. -/
def swap (s : St) (a b : Nat) : Option St :=
  match s.find? a, s.find? b with
  | some ta, some tb =>
    if a = b then some s
    else if (ids ta.children).contains b ∨ (ids tb.children).contains a then none
    else some { s with tops := s.tops.map (swapKids a b ta.children tb.children) }
  | _, _ => none

/-- `switch(a, b)`: the two nodes (with everything below them) exchange their places.  Requires that neither lies
    below the other. -/
def switch (s : St) (a b : Nat) : Option St :=
  match s.find? a, s.find? b with
  | some ta, some tb =>
    if a = b then some s
    else if (ids ta.children).contains b ∨ (ids tb.children).contains a then none
    else some { s with tops := s.tops.map (switchT a b ta tb) }
  | _, _ => none

/-- `relink(x)`: on a sound structure every link already has the value that is written -/
def relink (s : St) (x : Nat) : Option St :=
  match s.find? x with
  | some _ => some s
  | none => none

def locate (s : St) (first : Nat) (pos : Int) (nm : Name) : Option (Option Nat) :=
  match s.sibsOf? first with
  | none => none
  | some (l, j) => some ((locIdx l j nm pos).bind fun k => l[k]?.map Tree.id)

def pos (s : St) (first : Nat) (p : Int) : Option (Option Nat) :=
  match s.sibsOf? first with
  | none => none
  | some (l, j) => some ((posIdx l.length j p).bind fun k => l[k]?.map Tree.id)

end St

end Mpt.Forest
