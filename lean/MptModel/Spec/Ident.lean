/-
  S for C16: names are stored and compared faithfully at every length.
  An identifier denotes a value `(charset, bytes)`: text (charset UTF8 = 1) with its bytes, or `bytes` zero bytes of
  "non-printable" content (charset 0); nothing set = `(0, [])`.  Storage size, inline or allocated placement and the
  stored terminator do not exist at this level.  Written from the property text and the documented limits of
  `mpt_identifier_set` (the stored length, terminator included, is a 16-bit number).
-/
import MptModel.Basic
namespace Mpt.Ident

structure Val where
  charset : Nat
  bytes : List Byte
  deriving DecidableEq, Repr, Inhabited

def Val.unset : Val := ⟨0, []⟩

/-- `MPT_CHARSET(UTF8)` -/
def utf8 : Nat := 1

/-- the name operand of set/compare: bytes of a text, or "n bytes of cleared data" (zero pointer) -/
inductive Name where
  | text (b : List Byte)
  | null (n : Nat)
  deriving DecidableEq, Repr, Inhabited

/-- value after `set`; `none` = refused (length limit), nothing changes -/
def setVal : Name → Option Val
  | .text b => if b.length + 1 ≤ 65535 then some ⟨utf8, b⟩ else none
  | .null n => if n ≤ 65535 then some ⟨0, List.replicate n 0⟩ else none

/-- text comparison: equal exactly for text content with the same bytes -/
def cmpEq (v : Val) (b : List Byte) : Bool := v.charset == utf8 && v.bytes == b

/-- identifier comparison: same kind and same bytes -/
def sameVal (a b : Val) : Bool := a.charset == b.charset && a.bytes == b.bytes

/-- C string view of a buffer: up to the first zero byte -/
def cstr (b : List Byte) : List Byte := b.takeWhile (· != 0)

/-- the effective name operand of set/compare as the caller states it: `len` bytes of the buffer, the C string in it
    for `len < 0`; for a zero pointer `len` cleared bytes -/
def nameOf (name : Option (List Byte)) (len : Int) : Option Name :=
  match name with
  | some b => if len < 0 then some (.text (cstr b)) else some (.text (b.take len.toNat))
  | none => if len < 0 then none else some (.null len.toNat)

/- ---------- a collection of identifiers at value level ---------- -/
/-- operations on identifiers numbered in creation order -/
inductive VOp where
  | new                                   -- a new identifier (any storage): nothing set
  | set (k : Nat) (name : Option Name)    -- `none` = an operand no value corresponds to (zero pointer, negative length)
  | copy (k : Nat) (j : Option Nat)       -- copy from identifier `j`, or from the zero pointer (unsets)
  | end_ (k : Nat)                        -- end of life
  | clone (j : Option Nat)                -- a new identifier constructed as copy of `j` (or of nothing)
  deriving Repr, Inhabited

/-- slot `k` ↦ value of the identifier (`none` = no such identifier any more) -/
abbrev Vals := List (Option Val)

def Vals.slot (sp : Vals) (k : Nat) : Option Val := (sp[k]?).getD none

/-- what the property demands of each operation: set stores the value (or is refused beyond the limit and changes
    nothing), copy makes the target equal to the source, nobody else changes -/
def Vals.step (sp : Vals) : VOp → Vals
  | .new => sp ++ [some Val.unset]
  | .set k nm =>
    match Vals.slot sp k, nm.bind setVal with
    | some _, some v => sp.set k (some v)
    | _, _ => sp
  | .copy k j =>
    match Vals.slot sp k, j with
    | none, _ => sp
    | some _, none => sp.set k (some Val.unset)
    | some _, some j =>
      match Vals.slot sp j with
      | some v => sp.set k (some v)
      | none => sp
  | .end_ k => match Vals.slot sp k with
    | some _ => sp.set k none
    | none => sp
  | .clone j =>
    match j with
    | none => sp ++ [some Val.unset]
    | some j =>
      match Vals.slot sp j with
      | some v => sp ++ [some v]
      | none => sp

def Vals.run (sp : Vals) : List VOp → Vals
  | [] => sp
  | op :: rest => Vals.run (sp.step op) rest


/-- index of the `pos`-th value (`pos >= 1`) that is the text `t`, walking a list whose head has index `i` -/
def walkS (t : List Byte) (step : Int) : List Val → Nat → Int → Option Int
  | [], _, _ => none
  | v :: rest, pos, i =>
    if cmpEq v t then (if pos ≤ 1 then some i else walkS t step rest (pos - 1) (i + step))
    else walkS t step rest pos (i + step)

/-- "locate node by identifier" over the names of a node list: `pos > 0` the pos-th match from `start` on (the
    current one counts), `pos < 0` the |pos|-th match before `start`, `pos = 0` the last node if it matches, else
    the nearest match before it -/
def locateS (vals : List Val) (start : Nat) (pos : Int) (t : List Byte) : Option Int :=
  if start ≥ vals.length then none
  else if pos > 0 then walkS t 1 (vals.drop start) pos.toNat start
  else if pos = 0 then
    let last := vals.length - 1
    match vals[last]? with
    | none => none
    | some v => if cmpEq v t then some (last : Int) else walkS t (-1) (vals.take last).reverse 1 ((last : Int) - 1)
  else walkS t (-1) (vals.take start).reverse (-pos).toNat ((start : Int) - 1)

end Mpt.Ident
