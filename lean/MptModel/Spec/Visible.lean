/-
  S for C18: visibility of a value list against a range, and what a partition of the list into
  line parts means.  Written from the property text only (mptplot/values.h documents the four fields:
  `raw` = points consumed, `usr` = points drawn, `cut`/`trim` = 16-bit fractions removed from the
  first/last drawn segment).  Exact rational arithmetic (core `Rat`), no floating point.
-/
import MptModel.Basic
namespace Mpt.Visible

/-- closed value range `[min, max]` -/
structure Range where
  min : Rat
  max : Rat
  deriving Repr, DecidableEq, Inhabited

/-- position of a value relative to the range; the bounds themselves are inside -/
inductive Cls where
  | below | inside | above
  deriving Repr, DecidableEq, Inhabited

def classify (r : Range) (x : Rat) : Cls :=
  if x < r.min then .below else if r.max < x then .above else .inside

/-- the value is visible (at-min and at-max count as inside) -/
def Range.has (r : Range) (x : Rat) : Bool := decide (r.min ≤ x) && decide (x ≤ r.max)

/-- point `i` of `xs` exists and is visible -/
def insideAt (r : Range) (xs : List Rat) (i : Nat) : Prop :=
  ∃ x, xs[i]? = some x ∧ r.has x = true

instance (r : Range) (xs : List Rat) (i : Nat) : Decidable (insideAt r xs i) :=
  match h : xs[i]? with
  | some x => if hx : r.has x = true then .isTrue ⟨x, h, hx⟩
              else .isFalse (by intro ⟨y, hy, hy2⟩; rw [h] at hy; cases hy; exact hx hy2)
  | none => .isFalse (by intro ⟨y, hy, _⟩; rw [h] at hy; cases hy)

/-- one line part record -/
structure Part where
  raw : Nat      -- points consumed: the next part starts `raw` points further
  usr : Nat      -- points drawn, counted from the start of the part
  cut : Nat      -- 16-bit code of the fraction removed at the start of the first drawn segment
  trim : Nat     -- 16-bit code of the fraction removed at the end of the last drawn segment
  deriving Repr, DecidableEq, Inhabited

/-- the parts consume `n` points, each of them at least one -/
def Covers (n : Nat) (ps : List Part) : Prop :=
  (ps.map (·.raw)).sum = n ∧ ∀ p ∈ ps, 0 < p.raw

/-- number of parts whose drawn portion `[start, start+usr)` contains point `i`; the first part starts at
    `start`, every following part `raw` points after its predecessor -/
def drawnCount : List Part → Nat → Nat → Nat
  | [], _, _ => 0
  | p :: ps, start, i => (if start ≤ i ∧ i < start + p.usr then 1 else 0) + drawnCount ps (start + p.raw) i

/-- every interior point of every drawn portion (neither its first nor its last point) is visible -/
def InteriorVisible (r : Range) (xs : List Rat) : List Part → Nat → Prop
  | [], _ => True
  | p :: ps, start =>
    (∀ i, start < i → i + 1 < start + p.usr → insideAt r xs i) ∧ InteriorVisible r xs ps (start + p.raw)

/-- the fraction `t` of the segment from `a` (outside) to `b` at which it meets `bound`:
    `a + t·(b − a) = bound` -/
def crossing (a b bound : Rat) : Rat := (bound - a) / (b - a)

/-- the bound that a segment starting at the invisible value `a` has to cross to become visible -/
def nearBound (r : Range) (a : Rat) : Rat := if a < r.min then r.min else r.max

/-- executable form of the whole property for one data set (used by the model driver to judge the
    records): progress, exact consumption, every visible point drawn once, visible interiors.
    Works on an array copy of the data (constant-time indexing). -/
def hasAt (r : Range) (a : Array Rat) (i : Nat) : Bool :=
  match a[i]? with
  | some x => r.has x
  | none => false

def interiorB (r : Range) (a : Array Rat) : List Part → Nat → Bool
  | [], _ => true
  | p :: ps, start =>
    ((List.range p.usr).all fun k =>
      if 0 < k ∧ k + 1 < p.usr then hasAt r a (start + k) else true)
    && interiorB r a ps (start + p.raw)

/-- a drawn end point that lies outside the range is marked by a non-zero fraction code (the consumers
    take code 0 as "nothing cut": `polyline::part::points` would report the point itself as drawn) -/
def Flagged (r : Range) (xs : List Rat) : List Part → Nat → Prop
  | [], _ => True
  | p :: ps, start =>
    (0 < p.usr → ¬ insideAt r xs start → 0 < p.cut) ∧
    (0 < p.usr → ¬ insideAt r xs (start + p.usr - 1) → 0 < p.trim) ∧ Flagged r xs ps (start + p.raw)

/-- the points a consumer reports for a part (`polyline::part::points`): its drawn points without the first
    one when a cut is stored and without the last one when a trim is stored — all of them are visible -/
def ReportedVisible (r : Range) (xs : List Rat) : List Part → Nat → Prop
  | [], _ => True
  | p :: ps, start =>
    (∀ j, (if p.cut ≠ 0 then 1 else 0) ≤ j → j + (if p.trim ≠ 0 then 1 else 0) < p.usr → insideAt r xs (start + j))
    ∧ ReportedVisible r xs ps (start + p.raw)

/-- every stored fraction decodes (`dec`) to the crossing of the first / last drawn segment with the range
    boundary up to one unit of the 16-bit encoding -/
def CrossingsCoded (dec : Nat → Rat) (r : Range) (xs : List Rat) : List Part → Nat → Prop
  | [], _ => True
  | p :: ps, start =>
    (∀ x0 x1, xs[start]? = some x0 → xs[start + 1]? = some x1 → 2 ≤ p.usr → ¬ insideAt r xs start →
      dec p.cut - crossing x0 x1 (nearBound r x0) ≤ 1 / 65536 ∧
      crossing x0 x1 (nearBound r x0) - dec p.cut ≤ 1 / 65536 ∧ 0 < p.cut) ∧
    (∀ prev x, xs[start + p.usr - 2]? = some prev → xs[start + p.usr - 1]? = some x → 2 ≤ p.usr →
      ¬ insideAt r xs (start + p.usr - 1) →
      dec p.trim - crossing x prev (nearBound r x) ≤ 1 / 65536 ∧
      crossing x prev (nearBound r x) - dec p.trim ≤ 1 / 65536 ∧ 0 < p.trim) ∧
    CrossingsCoded dec r xs ps (start + p.raw)

def flaggedB (r : Range) (a : Array Rat) : List Part → Nat → Bool
  | [], _ => true
  | p :: ps, start =>
    (p.usr == 0 || hasAt r a start || decide (0 < p.cut))
    && (p.usr == 0 || hasAt r a (start + p.usr - 1) || decide (0 < p.trim))
    && flaggedB r a ps (start + p.raw)

def validB (r : Range) (xs : List Rat) (ps : List Part) : Bool :=
  let a := xs.toArray
  decide ((ps.map (·.raw)).sum = xs.length) && ps.all (fun p => decide (0 < p.raw))
  && (List.range xs.length).all (fun i => if hasAt r a i then drawnCount ps 0 i == 1 else true)
  && interiorB r a ps 0 && flaggedB r a ps 0

end Mpt.Visible
