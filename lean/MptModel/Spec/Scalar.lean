/-
  S for C07: what the built-in scalar types denote.  Written from the property text and the type
  code documentation (mptcore/types.h, README: 'c' char, 'b'/'y' 8 bit, 'n'/'q' 16 bit, 'i'/'u' 32 bit,
  'x'/'t' 64 bit signed/unsigned, 'f' float, 'd' double, 'e' long double); independent of the converters.
  Core Lean only.
-/
import MptModel.Basic
namespace Mpt.Scalar

/-- the built-in scalar number types, named by their type code -/
inductive Ty where
  | c | b | y | n | q | i | u | x | t | f | d | e
  deriving DecidableEq, Repr, Inhabited

namespace Ty

def all : List Ty := [.c, .b, .y, .n, .q, .i, .u, .x, .t, .f, .d, .e]
def ints : List Ty := [.c, .b, .y, .n, .q, .i, .u, .x, .t]

/-- ASCII type code -/
def code : Ty → Nat
  | .c => 99 | .b => 98 | .y => 121 | .n => 110 | .q => 113 | .i => 105
  | .u => 117 | .x => 120 | .t => 116 | .f => 102 | .d => 100 | .e => 101

def ofCode (k : Nat) : Option Ty := all.find? (·.code = k)

def name : Ty → String
  | .c => "c" | .b => "b" | .y => "y" | .n => "n" | .q => "q" | .i => "i"
  | .u => "u" | .x => "x" | .t => "t" | .f => "f" | .d => "d" | .e => "e"

def ofName (s : String) : Option Ty := all.find? (·.name = s)

def isFloat : Ty → Bool
  | .f | .d | .e => true
  | _ => false

/-- storage size in bytes of the C type the code stands for -/
def size : Ty → Nat
  | .c | .b | .y => 1
  | .n | .q => 2
  | .i | .u | .f => 4
  | .x | .t | .d => 8
  | .e => 16

/-- bytes that carry the value (x87 extended: 10 of 16) -/
def valueBytes : Ty → Nat
  | .e => 10
  | ty => ty.size

/-- smallest / largest integer an integer type can hold (floats: unused, 0) -/
def lo : Ty → Int
  | .c | .b => -128
  | .n => -32768
  | .i => -2147483648
  | .x => -9223372036854775808
  | _ => 0
def hi : Ty → Int
  | .c | .b => 127
  | .y => 255
  | .n => 32767
  | .q => 65535
  | .i => 2147483647
  | .u => 4294967295
  | .x => 9223372036854775807
  | .t => 18446744073709551615
  | _ => 0

/-- number of values of an integer type -/
def card : Ty → Int
  | .c | .b | .y => 256
  | .n | .q => 65536
  | .i | .u => 4294967296
  | .x | .t => 18446744073709551616
  | _ => 1

def signed : Ty → Bool
  | .c | .b | .n | .i | .x => true
  | _ => false

end Ty

/-- `v` is a value of integer type `t` -/
def inRange (ty : Ty) (v : Int) : Prop := ty.lo ≤ v ∧ v ≤ ty.hi

instance (ty : Ty) (v : Int) : Decidable (inRange ty v) := by unfold inRange; exact inferInstance

/-- the integer denoted by the bit pattern `bits` (little-endian value of the object bytes) of integer type `t`:
    two's complement for the signed types.  `char` is signed on the platform (x86-64). -/
def denote (ty : Ty) (bits : Nat) : Int :=
  if ty.signed ∧ (bits : Int) > ty.hi then (bits : Int) - ty.card else (bits : Int)

/-- 'c' as a *target* is "a printable, non-space 7-bit character" (DESIGN §5.0) -/
def isGraph (v : Int) : Bool := decide (33 ≤ v ∧ v ≤ 126)

/-! ### numerals (C integer literal grammar with optional leading white space and sign)

Characters are byte values (`Nat`). -/

def isSpace (c : Nat) : Bool := c = 32 || (9 ≤ c && c ≤ 13)

/-- value of a digit character in bases up to 36 -/
def digitVal (c : Nat) : Option Nat :=
  if 48 ≤ c ∧ c ≤ 57 then some (c - 48)
  else if 97 ≤ c ∧ c ≤ 122 then some (c - 87)
  else if 65 ≤ c ∧ c ≤ 90 then some (c - 55)
  else none

def isDigitOf (base : Nat) (c : Nat) : Bool :=
  match digitVal c with
  | some d => d < base
  | none => false

/-- Horner value of a digit string -/
def horner (base : Nat) (s : List Nat) : Nat :=
  s.foldl (fun acc c => acc * base + (digitVal c).getD 0) 0

/-- value of a non-empty string of base-`base` digits -/
def digitsValue (base : Nat) (s : List Nat) : Option Nat :=
  if s ≠ [] ∧ s.all (isDigitOf base) then some (horner base s) else none

/-- magnitude of an unsigned numeral: `0x`/`0X` + hex digits, `0` + octal digits, or decimal digits -/
def magnitude (s : List Nat) : Option Nat :=
  match s with
  | a :: b :: rest =>
    if a = 48 ∧ (b = 120 ∨ b = 88) then digitsValue 16 rest
    else if a = 48 then digitsValue 8 s
    else digitsValue 10 s
  | _ => digitsValue 10 s

def signedMagnitude (s : List Nat) : Option Int :=
  match s with
  | c :: rest =>
    if c = 45 then (magnitude rest).map fun m => -(m : Int)
    else if c = 43 then (magnitude rest).map fun m => (m : Int)
    else (magnitude s).map fun m => (m : Int)
  | [] => none

/-- the number denoted by a character string: optional white space, optional sign, C integer literal -/
def numeral (s : List Nat) : Option Int := signedMagnitude (s.dropWhile isSpace)

/-- what the property allows as the outcome `(stored bits, consumed)` of an accepted text conversion:
    the consumed prefix is a numeral of an in-range number which the stored object denotes (query mode: nothing is
    stored), or the whole text is blank, nothing is consumed and nothing is stored ("no value") -/
def TextOK (tgt : Ty) (s : List Nat) (d : Bool) (o : Option Nat) (n : Nat) : Prop :=
  n ≤ s.length ∧
  ((o = none ∧ n = 0 ∧ s.all isSpace = true) ∨
   (∃ v, numeral (s.take n) = some v ∧ inRange tgt v ∧
      ((d = true ∧ ∃ bits, o = some bits ∧ denote tgt bits = v) ∨ (d = false ∧ o = none))))

/-! ## decimal floating-point numerals

`ws* [+-]? ( D+ [. D*] | . D+ ) ( [eE] [+-]? D+ )?`, described by its parts. -/

def isDigit (c : Nat) : Bool := 48 ≤ c && c ≤ 57

structure DecParts where
  ws : List Nat
  sign : List Nat
  ip : List Nat
  dot : List Nat
  fp : List Nat
  emark : List Nat
  esign : List Nat
  ed : List Nat
  deriving Repr, DecidableEq

namespace DecParts

def text (p : DecParts) : List Nat := p.ws ++ (p.sign ++ (p.ip ++ (p.dot ++ (p.fp ++ (p.emark ++ (p.esign ++ p.ed))))))

def valid (p : DecParts) : Prop :=
  p.ws.all isSpace = true ∧
  (p.sign = [] ∨ p.sign = [43] ∨ p.sign = [45]) ∧
  p.ip.all isDigit = true ∧
  (p.dot = [] ∨ p.dot = [46]) ∧
  p.fp.all isDigit = true ∧ (p.dot = [] → p.fp = []) ∧
  (p.ip ≠ [] ∨ p.fp ≠ []) ∧
  (p.emark = [] ∨ p.emark = [101] ∨ p.emark = [69]) ∧
  (p.esign = [] ∨ p.esign = [43] ∨ p.esign = [45]) ∧
  p.ed.all isDigit = true ∧
  (p.emark = [] → p.esign = [] ∧ p.ed = []) ∧
  (p.emark ≠ [] → p.ed ≠ [])

def neg (p : DecParts) : Bool := p.sign = [45]
/-- all mantissa digits read as one natural number -/
def mant (p : DecParts) : Nat := horner 10 (p.ip ++ p.fp)
/-- the power of ten: written exponent minus the number of fraction digits -/
def exp10 (p : DecParts) : Int :=
  (if p.esign = [45] then -(horner 10 p.ed : Int) else (horner 10 p.ed : Int)) - p.fp.length

end DecParts

/-- `t` is a decimal floating-point numeral denoting `(-1)^neg * m * 10^e` -/
def IsDecNumeral (t : List Nat) (neg : Bool) (m : Nat) (e : Int) : Prop :=
  ∃ p : DecParts, p.valid ∧ p.text = t ∧ p.neg = neg ∧ p.mant = m ∧ p.exp10 = e

end Mpt.Scalar
