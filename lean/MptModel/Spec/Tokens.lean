/-
  S for C05: the life cycle of element tokens.  Written from the property text only: every element that
  is created is destroyed exactly once, nothing else is handed to a destructor, nothing is read after
  destruction, and what is alive is exactly what the live buffers store.
-/
namespace Mpt.Tokens

/-- the live tokens (no duplicates: tokens are created fresh) -/
abbrev Live := List Nat

def empty : Live := []
def isLive (l : Live) (t : Nat) : Bool := l.contains t
def create (l : Live) (t : Nat) : Live := t :: l
def destroy (l : Live) (t : Nat) : Live := l.erase t

inductive Check where
  | ok
  | dead (t : Nat)       -- a stored token is not alive (destroyed, or never an element)
  | twice (t : Nat)      -- a token is stored twice (raw duplication)
  | missing (t : Nat)    -- a live token is stored nowhere (can never be destroyed)
  deriving DecidableEq, Repr

/-- first problem among the stored tokens, in storage order -/
def scan (l : Live) : List Nat → List Nat → Check
  | [], _ => .ok
  | t :: rest, seen =>
    if ¬ isLive l t then
      (match scan l rest seen with
       | .ok => .dead t
       | _ => .dead t)
    else if seen.contains t then .twice t
    else scan l rest (t :: seen)

/-- the smallest live token that is not stored -/
def firstMissing (l : Live) (stored : List Nat) : Option Nat :=
  (l.filter fun t => ¬ stored.contains t).foldl (fun acc t => match acc with
    | none => some t
    | some a => some (min a t)) none

def checkStored (l : Live) (stored : List Nat) : Check :=
  match scan l stored [] with
  | .ok => match firstMissing l stored with
    | some t => .missing t
    | none => .ok
  | c => c

end Mpt.Tokens
