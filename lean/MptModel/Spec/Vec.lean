/-
  S for C04: every array handle is an independent byte vector.  Written from the property text only:
  "the modified handle reads exactly what a plain value-semantics vector would contain after the same
  operations (new gaps zero filled, lengths exact); operations whose arguments fall outside the data
  are refused".  `none` = the arguments fall outside the data.
-/
import MptModel.Basic
namespace Mpt.Vec

abbrev Vec := List Byte

def zeros (n : Nat) : List Byte := List.replicate n 0

/-- extend with zeros up to length `n` (no change when already that long) -/
def padTo (v : Vec) (n : Nat) : Vec := v ++ zeros (n - v.length)

def append (v : Vec) (bs : List Byte) : Vec := v ++ bs

/-- insert `bs` in front of position `pos`; a position past the end first zero-fills the gap -/
def insert (v : Vec) (pos : Nat) (bs : List Byte) : Vec :=
  (padTo v pos).take pos ++ bs ++ v.drop pos

/-- overwrite from `pos` on, extending as needed; a position past the end first zero-fills the gap -/
def write (v : Vec) (pos : Nat) (bs : List Byte) : Vec :=
  (padTo v pos).take pos ++ bs ++ v.drop (pos + bs.length)

/-- make `[off, off+len)` exist -/
def slice (v : Vec) (off len : Nat) : Vec := padTo v (off + len)

/-- the bytes of `[off, off+len)` -/
def sub (v : Vec) (off len : Nat) : List Byte := (v.drop off).take len

/-- remove `[off, off+len)`; `len = 0` truncates at `off` -/
def cut (v : Vec) (off len : Nat) : Option Vec :=
  if len = 0 then (if off ≤ v.length then some (v.take off) else none)
  else if off + len ≤ v.length then some (v.take off ++ v.drop (off + len))
  else none

/-- element-indexed assignment: `off` counts elements of `esz` bytes, negative = relative to the end -/
def setAt (v : Vec) (esz : Nat) (off : Int) (bs : List Byte) : Option Vec :=
  let pos : Int := if off < 0 then Int.ofNat v.length + off * Int.ofNat esz else off * Int.ofNat esz
  if pos < 0 then none else some (write v pos.toNat bs)

/-- the first `k` blocks of `esz` bytes -/
def blocks (bs : List Byte) (k esz : Nat) : List Byte := bs.take (k * esz)

end Mpt.Vec
