/-
  S (C08/C09): the tree an event sequence describes.  Sections become nodes that hold what is reported
  while they are open, options become leaves with their value, a value without name becomes an unnamed
  leaf.  Sections still open at the end of the sequence (flat styles) are closed there.
  Written from the meaning of the events only.
-/
import MptModel.Spec.Events
import MptModel.Spec.ConfTree
namespace Mpt.Events
open Mpt.Conf

/-- close the innermost frame into its parent -/
def closeTop : List (Name × Forest) → List (Name × Forest)
  | (n, cs) :: (n2, cs2) :: fs => (n2, .node n none cs.reverse :: cs2) :: fs
  | fs => fs

/-- close every open section; the children of the root frame -/
def closeAll : Nat → List (Name × Forest) → Forest
  | _, [] => []
  | _, [(_, cs)] => cs.reverse
  | 0, _ => []
  | k + 1, fs => closeAll k (closeTop fs)

/-- frames: innermost first, children newest first -/
def toForestAux : List (Name × Forest) → List Event → Forest
  | fs, [] => closeAll fs.length fs
  | fs, .sect p :: es => toForestAux ((p.getLast?.getD [], []) :: fs) es
  | fs, .end_ _ :: es => toForestAux (closeTop fs) es
  | (n, cs) :: fs, .opt p v :: es => toForestAux ((n, .node (p.getLast?.getD []) v [] :: cs) :: fs) es
  | (n, cs) :: fs, .data _ v :: es => toForestAux ((n, .node [] (some v) [] :: cs) :: fs) es
  | [], _ :: es => toForestAux [] es

/-- the forest a (well nested) event sequence describes -/
def toForest (es : List Event) : Forest := toForestAux [([], [])] es

end Mpt.Events
