/-
  S for C12, written from the property text.
  * ids: a request id is a number; in a header of `w` bytes it is written big-endian and must leave
    the top bit of the first byte free (that bit marks replies), so it fits iff `id < 2^(8w−1)`.
  * requests: a request is either still unanswered or done.  The transport may accept at most one
    reply for it, and that reply carries the request's id bytes with the reply mark.
-/
import MptModel.Basic
namespace Mpt.ReplySpec

def byteOf (n : Nat) : Byte := UInt8.ofNat (n % 256)

/-- the `n` least significant base-256 digits of `x`, most significant first -/
def beDigits : Nat → Nat → List Byte
  | 0, _ => []
  | n + 1, x => beDigits n (x / 256) ++ [byteOf x]

/-- big-endian value of a byte string -/
def value (bs : List Byte) : Nat := bs.foldl (fun a b => a * 256 + b.toNat) 0

def fits (id w : Nat) : Bool := id < 2 ^ (8 * w - 1)

/-- write an id into a header of width `w`; `none` = refused (does not fit) -/
def encode (id w : Nat) : Option (List Byte) := if fits id w then some (beDigits w id) else none

/-- read an id (ids are 64-bit numbers); `none` = refused -/
def decode (bs : List Byte) : Option Nat := if value bs < 2 ^ 64 then some (value bs) else none

/-- the reply mark: top bit of the first id byte -/
def mark : List Byte → List Byte
  | [] => []
  | b :: r => (b ||| 0x80) :: r

/-- what the spec knows about a reply context: header width, whether the transport can still be
    reached, the unanswered request standing on the context, the unanswered requests moved to
    deferred handles (`none` = handle released), whether the owner still holds the context -/
structure St where
  w : Nat := 0
  attached : Bool := false
  cur : Option (List Byte) := none
  held : List (Option (List Byte)) := []
  owner : Bool := false
  deriving Repr, DecidableEq, Inhabited

/-- a transport call as the harness logs it -/
structure Call where
  id : List Byte
  msg : Option (List Byte)
  ok : Bool
  deriving Repr, DecidableEq

/-- outcomes the property allows for one op: (accepted?, transport calls made) -/
abbrev Alt := Bool × List Call

/-- an attempt to answer request `r` with `msg` while the transport answers `ans`:
    attached → exactly one call carrying the marked id; not attached → no call, any verdict -/
def answerAlts (attached : Bool) (r : Option (List Byte)) (msg : Option (List Byte)) (ans : Bool) : List Alt :=
  if !attached then [(true, []), (false, [])]
  else match r with
    | none => [(false, [])]                     -- nothing (left) to answer: refused, transport untouched
    | some id => [(ans, [⟨mark id, msg, ans⟩])]

/- stream-input variant: what the property expects for one incoming message whose first `idlen` bytes
   are the id.  `firstReply` = payload of the handler's first reply attempt (`some none` = NULL message),
   `code` = answer code of the default reply. -/

/-- the one reply frame a request must produce: marked id, then the handler's message, or — when the
    handler did not reply — the answer header `01 <code>`; `none` = no reply frame may be sent
    (no id header in use, id all zero, or the message is itself a reply) -/
def streamFrame (idlen : Nat) (data : List Byte) (firstReply : Option (Option (List Byte))) (code : Byte) :
    Option (List Byte) :=
  let id := data.take idlen
  if idlen = 0 ∨ data.length < idlen ∨ (id.headD 0).toNat ≥ 128 ∨ id.all (· == 0) then none
  else some (mark id ++ match firstReply with
    | some m => m.getD []
    | none => [1, code])

/- requester side: requests carry a fresh id; a reply (id with the mark) goes to the handler that waits for
   exactly this id, once; everything else never reaches a reply handler -/

structure ReqSt where
  w : Nat := 0
  pending : List (Nat × Nat) := []      -- (id, handler tag) still waiting
  cur : Nat := 0                         -- id of the request being composed
  inq : List (List Byte) := []           -- received messages not yet looked at
  deriving Repr, DecidableEq, Inhabited

/-- clear the reply mark -/
def unmarkS : List Byte → List Byte
  | [] => []
  | b :: r => (b &&& 0x7f) :: r

/-- is `i` acceptable as the id of a new request? -/
def freshId (s : ReqSt) (i : Nat) : Bool := i ≥ 1 && fits i s.w && !(s.pending.any (·.1 == i))

/-- who gets message `m`: `some (some tag)` the waiting reply handler, `some none` the plain event handler,
    `none` nobody; and the pending set afterwards -/
def deliver (s : ReqSt) (m : List Byte) : Option (Option Nat × List Byte) × ReqSt :=
  if s.w = 0 then (some (none, m), s) else
  let id := m.take s.w
  if (id.headD 0).toNat ≥ 128 then
    match decode (unmarkS id) with
    | some rid =>
      match s.pending.find? (·.1 == rid) with
      | some (_, t) => (some (some t, m.drop s.w), { s with pending := s.pending.filter (·.1 != rid) })
      | none => (none, s)
    | none => (none, s)
  else (some (none, m.drop s.w), s)

def deliverAll : List (List Byte) → ReqSt → List (Option Nat × List Byte) → ReqSt × List (Option Nat × List Byte)
  | [], s, log => ({ s with inq := [] }, log)
  | m :: ms, s, log =>
    let r := deliver s m
    deliverAll ms r.2 (log ++ r.1.toList)

/-- waiting for replies: only while some request is outstanding, and only replies are taken; the wait ends after a
    requester reported failure for its reply (`fails t`) — that reply counts as delivered all the same -/
def awaitReplies (fails : Nat → Bool) : Nat → List (List Byte) → ReqSt → List (Option Nat × List Byte) → ReqSt × List (Option Nat × List Byte)
  | 0, q, s, log => ({ s with inq := q }, log)
  | _, [], s, log => ({ s with inq := [] }, log)
  | fuel + 1, m :: ms, s, log =>
    if s.pending.isEmpty ∨ s.w = 0 ∨ m.length < s.w ∨ ((m.take s.w).headD 0).toNat < 128 ∨ (decode (unmarkS (m.take s.w))).isNone then
      ({ s with inq := m :: ms }, log)
    else
      let r := deliver s m
      match r.1 with
      | some (some t, _) =>
        if fails t then ({ r.2 with inq := ms }, log ++ r.1.toList) else awaitReplies fails fuel ms r.2 (log ++ r.1.toList)
      | _ => awaitReplies fails fuel ms r.2 (log ++ r.1.toList)

end Mpt.ReplySpec
