/-
  S for C07, floating part: what a binary floating-point object denotes, and the correctly rounded
  (nearest, ties-to-even) value of a number in a binary format (DESIGN §5.0: that is what "denotes the
  same number" means for a floating target; a finite number that rounds beyond the format's largest
  finite value has *no* admissible finite result).  Pure integer arithmetic, core Lean only.
-/
import MptModel.Basic
namespace Mpt.Flt

/-- a binary floating-point datum: NaN, ±infinity or `(-1)^neg * m * 2^e` (m = 0: signed zero) -/
inductive FVal where
  | nan
  | inf (neg : Bool)
  | fin (neg : Bool) (m : Nat) (e : Int)
  deriving DecidableEq, Repr, Inhabited

/-- binary interchange format: precision `p` (bits of the significand including the leading one),
    exponent of the leading bit between `emin` and `emax`, exponent field width `ew`;
    `explicit` = the leading bit is stored (x87 extended) -/
structure Fmt where
  p : Nat
  emin : Int
  emax : Int
  ew : Nat
  explicit : Bool
  deriving DecidableEq, Repr

def binary32 : Fmt := { p := 24, emin := -126, emax := 127, ew := 8, explicit := false }
def binary64 : Fmt := { p := 53, emin := -1022, emax := 1023, ew := 11, explicit := false }
def x87ext : Fmt := { p := 64, emin := -16382, emax := 16383, ew := 15, explicit := true }

namespace Fmt
def bias (f : Fmt) : Int := f.emax
/-- exponent of the unit in the last place of the subnormal range -/
def qmin (f : Fmt) : Int := f.emin - (f.p - 1 : Nat)
/-- number of value-carrying bits of the encoding -/
def bits (f : Fmt) : Nat := 1 + f.ew + (if f.explicit then f.p else f.p - 1)
end Fmt

def pow2 (n : Nat) : Nat := 2 ^ n

/-- correctly rounded value of `(-1)^neg * m * 2^e` in format `f` (round to nearest, ties to even;
    results beyond the largest finite value become infinite) -/
def roundFin (f : Fmt) (neg : Bool) (m : Nat) (e : Int) : FVal :=
  if m = 0 then .fin neg 0 0
  else
    let lead : Int := (Nat.log2 m : Nat) + e          -- exponent of the leading bit
    let q : Int := max (lead - (f.p - 1 : Nat)) f.qmin  -- exponent of the last kept bit
    if q ≤ e then
      if lead > f.emax then .inf neg else .fin neg m e
    else
      let sh : Nat := (q - e).toNat
      let keep := m / pow2 sh
      let rem := m % pow2 sh
      let half := pow2 (sh - 1)
      let up := rem > half ∨ (rem = half ∧ keep % 2 = 1)
      let m' := if up then keep + 1 else keep
      if m' = 0 then .fin neg 0 0
      else if ((Nat.log2 m' : Nat) : Int) + q > f.emax then .inf neg
      else .fin neg m' q

def round (f : Fmt) : FVal → FVal
  | .nan => .nan
  | .inf s => .inf s
  | .fin s m e => roundFin f s m e

def ofInt (v : Int) : FVal := .fin (decide (v < 0)) v.natAbs 0

def FVal.isFinite : FVal → Bool
  | .fin .. => true
  | _ => false

/-- `a` and `b` denote the same number (zeros of either sign are the number 0) -/
def FVal.same : FVal → FVal → Bool
  | .nan, .nan => true
  | .inf a, .inf b => a == b
  | .fin s m e, .fin s' m' e' =>
    if m = 0 ∨ m' = 0 then m = 0 ∧ m' = 0
    else s == s' ∧ (if e ≤ e' then m = m' * pow2 (e' - e).toNat else m * pow2 (e - e').toNat = m')
  | _, _ => false

/-- the integer a finite datum denotes, if it is one -/
def FVal.toInt? : FVal → Option Int
  | .fin s m e =>
    if e ≥ 0 then some ((if s then -1 else 1) * (m * pow2 e.toNat : Nat))
    else if m % pow2 (-e).toNat = 0 then some ((if s then -1 else 1) * (m / pow2 (-e).toNat : Nat))
    else none
  | _ => none

/-- a finite datum as the fraction `num / den` with `den > 0` a power of two -/
def FVal.num (s : Bool) (m : Nat) (e : Int) : Int := (if s then -1 else 1) * ((m * pow2 e.toNat : Nat) : Int)
def FVal.den (e : Int) : Nat := pow2 (-e).toNat

/-- compare a datum with an integer: `x < k`, `x > k` (false for NaN) -/
def FVal.ltInt : FVal → Int → Bool
  | .nan, _ => false
  | .inf s, _ => s
  | .fin s m e, k => decide (FVal.num s m e < k * (FVal.den e : Int))
def FVal.gtInt : FVal → Int → Bool
  | .nan, _ => false
  | .inf s, _ => !s
  | .fin s m e, k => decide (FVal.num s m e > k * (FVal.den e : Int))

/-- largest finite number of a format (an integer for the three formats used here) -/
def Fmt.maxInt (f : Fmt) : Nat := (pow2 f.p - 1) * pow2 (f.emax - ((f.p - 1 : Nat) : Int)).toNat

/-- magnitude bound of a finite datum: `|x| ≤ B` (true for NaN and infinities) -/
def FVal.absLe : FVal → Nat → Prop
  | .fin _ m e, B => m * pow2 e.toNat ≤ B * pow2 (-e).toNat
  | _, _ => True

/-! ### correctly rounded value of a rational and of a decimal number -/

/-- `num / den ≥ 2^k` -/
def geScaled (num den : Nat) (k : Int) : Bool :=
  if k ≥ 0 then decide (num ≥ den * pow2 k.toNat) else decide (num * pow2 (-k).toNat ≥ den)

/-- correctly rounded value of `(-1)^neg * num / den` (`den > 0`) in format `f`: nearest, ties to even; beyond the
    largest finite value: infinity -/
def roundRat (f : Fmt) (neg : Bool) (num den : Nat) : FVal :=
  if num = 0 ∨ den = 0 then .fin neg 0 0
  else
    let l : Int := (Nat.log2 num : Nat) - (Nat.log2 den : Nat)
    let lead : Int := if geScaled num den l then l else l - 1           -- 2^lead ≤ num/den < 2^(lead+1)
    let q : Int := max (lead - (f.p - 1 : Nat)) f.qmin                  -- exponent of the last kept bit
    -- num / den in units of 2^q
    let n := if q ≥ 0 then num else num * pow2 (-q).toNat
    let d := if q ≥ 0 then den * pow2 q.toNat else den
    let keep := n / d
    let rem := n % d
    let up := 2 * rem > d ∨ (2 * rem = d ∧ keep % 2 = 1)
    let m' := if up then keep + 1 else keep
    if m' = 0 then .fin neg 0 0
    else if ((Nat.log2 m' : Nat) : Int) + q > f.emax then .inf neg
    else .fin neg m' q

/-- correctly rounded value of `(-1)^neg * m * 10^e` -/
def roundDec (f : Fmt) (neg : Bool) (m : Nat) (e : Int) : FVal :=
  if e ≥ 0 then roundRat f neg (m * 10 ^ e.toNat) 1 else roundRat f neg m (10 ^ (-e).toNat)

/-! ### encodings (little-endian integer value of the object's value bytes) -/

/-- encode a datum that is representable in `f` (as produced by `round f`) -/
def encode (f : Fmt) (x : FVal) : Nat :=
  let fracBits := if f.explicit then f.p else f.p - 1
  let signBit (s : Bool) : Nat := if s then pow2 (f.ew + fracBits) else 0
  let expAll : Nat := pow2 f.ew - 1
  match x with
  | .nan =>
    -- default quiet NaN of the x86 (sign set, quiet bit set)
    signBit true + expAll * pow2 fracBits + (if f.explicit then pow2 (f.p - 1) + pow2 (f.p - 2) else pow2 (f.p - 2))
  | .inf s => signBit s + expAll * pow2 fracBits + (if f.explicit then pow2 (f.p - 1) else 0)
  | .fin s m e =>
    if m = 0 then signBit s
    else
      let lead : Int := (Nat.log2 m : Nat) + e
      if lead < f.emin then
        -- subnormal: significand in units of 2^qmin
        signBit s + m * pow2 (e - f.qmin).toNat
      else
        let l := Nat.log2 m
        let sig := if l ≤ f.p - 1 then m * pow2 (f.p - 1 - l) else m / pow2 (l - (f.p - 1))
        let bexp := (lead + f.bias).toNat
        signBit s + bexp * pow2 fracBits + (if f.explicit then sig else sig - pow2 (f.p - 1))

/-- decode the value bits of an object of format `f` -/
def decode (f : Fmt) (bits : Nat) : FVal :=
  let fracBits := if f.explicit then f.p else f.p - 1
  let frac := bits % pow2 fracBits
  let bexp := (bits / pow2 fracBits) % pow2 f.ew
  let s := (bits / pow2 (fracBits + f.ew)) % 2 = 1
  let expAll : Nat := pow2 f.ew - 1
  if bexp = expAll then
    let payload := if f.explicit then frac % pow2 (f.p - 1) else frac
    if payload = 0 then .inf s else .nan
  else if bexp = 0 then
    if frac = 0 then .fin s 0 0 else .fin s frac f.qmin
  else
    let sig := if f.explicit then frac else frac + pow2 (f.p - 1)
    .fin s sig ((bexp : Int) - f.bias - (f.p - 1 : Nat))

end Mpt.Flt
