/-
  S for C04 per operation: the operation alphabet of the array functions and, for each operation, the finite list of
  values its own handle may read afterwards (`specAlts`), written with the vector spec `Spec/Vec.lean`.  The model
  driver prints exactly these alternatives (plus "refused, nothing changed") as the S column of a run; the theorems
  of `Props/C04.lean` prove that the model's result is one of them (`Lemmas/HeapHist.lean`: `specRel`,
  `specRel_iff_alts`).

  Two operations depend on facts about the buffer that are not part of a vector: `detach` (a buffer-level primitive)
  truncates only a unique, immutable buffer; `reserve` drops the content only when the element type changes.
-/
import MptModel.Impl.Heap
import MptModel.Spec.Vec
namespace Mpt.Heap
open Mpt

/-- array operations (on handle numbers); buffer-level calls in the composition their callers use -/
inductive Op where
  | append (h : Nat) (bytes : List Byte)
  | insert (h pos : Nat) (bytes : List Byte)
  | set (h : Nat) (t : Traits) (off : Int) (bytes : List Byte) (hasSrc : Bool)
  | slice (h off len : Nat)
  | cut (h off len : Nat)
  | bset (h pos : Nat) (bytes : List Byte) (hasSrc : Bool)
  | clone (dst src : Nat)
  | drop (h : Nat)
  | detach (h n : Nat)
  | reduce (h : Nat)
  | reserve (h n : Nat) (t : Option Traits)
  deriving Repr

/-- the handle an operation works on -/
def Op.handle : Op → Nat
  | .append h _ | .insert h _ _ | .set h _ _ _ _ | .slice h _ _ | .cut h _ _ | .bset h _ _ _
  | .clone h _ | .drop h | .detach h _ | .reduce h | .reserve h _ _ => h

/-- the buffer of the handle is unique and immutable (only such a buffer is truncated by `detach`) -/
def ownerImmutable (s : State) (h : Nat) : Bool :=
  match (s.handle h).bind s.buf? with
  | some x => x.immutable && decide (x.ref < 2)
  | none => false

/-- the handle holds a buffer of another element type than `t` -/
def typeDiffers (s : State) (h : Nat) (t : Option Traits) : Bool :=
  match (s.handle h).bind s.buf? with
  | some x => decide (x.traits ≠ t)
  | none => false

/-- the values the handle of the operation may read after a SUCCESSFUL call (`old` = its value before); every other
    handle keeps its value; a refused call changes nothing.  An empty list = the arguments fall outside the data. -/
def specAlts (s : State) : Op → Vec.Vec → List Vec.Vec
  | .append _ bytes, v => [Vec.append v bytes]
  | .insert _ pos bytes, v => [Vec.insert v pos bytes]
  | .set _ t off bytes _, v => (Vec.setAt v t.size off bytes).toList
  | .slice _ off len, v => [Vec.slice v off len]
  | .cut _ off len, v => (Vec.cut v off len).toList
  | .bset _ pos bytes _, v => [Vec.write v pos bytes]
  | .clone _ src, _ => [s.abs src]
  | .drop _, _ => [[]]
  | .detach h n, v => v :: (if ownerImmutable s h then (List.range (v.length - n)).map (fun i => v.take (n + i)) else [])
  | .reduce _, v => [v]
  | .reserve h _ t, v => v :: (if typeDiffers s h t then [[]] else [])

/-- the handle is the only owner of a writable buffer of element type `t` -/
def ownsB (s : State) (h : Nat) (t : Option Traits) : Bool :=
  match (s.handle h).bind s.buf? with
  | some x => decide (x.ref = 1) && !x.immutable && decide (x.traits = t)
  | none => false

/-- ... or it is empty -/
def freeB (s : State) (h : Nat) (t : Option Traits) : Bool := (s.handle h).isNone || ownsB s h t

/-- S: operations that may NOT be refused (`old` = the value of the handle): raw append/insert on an empty handle or
    an own writable untyped buffer, set of whole plain elements at a position inside or behind the data of an own
    writable buffer of that type (or an empty handle), a cut inside the data of an own writable untyped buffer -/
def mustSucceed (s : State) : Op → Vec.Vec → Bool
  | .append h _, _ => freeB s h none
  | .insert h _ _, _ => freeB s h none
  | .set h t off bytes _, v =>
    (!t.init && t.fini.isNone && decide (t.size ≠ 0)) && freeB s h (some t) && decide (bytes.length % t.size = 0) &&
      (Vec.setAt v t.size off bytes).isSome
  | .cut h off len, v => ownsB s h none && (Vec.cut v off len).isSome
  | _, _ => false

end Mpt.Heap
