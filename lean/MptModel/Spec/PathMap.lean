/-
  S for C10: a finite map from paths (lists of names) to values, and the splitting of a path text
  into its separator-delimited components.  Written from the property text only.
-/
import MptModel.Basic
namespace Mpt.PathMap

abbrev Name := List Byte
abbrev Key := List Name
abbrev Value := List Byte

/-- association list, newest binding first; at most one binding per key is kept -/
abbrev PMap := List (Key × Value)

def get (m : PMap) (k : Key) : Option Value := (m.find? (fun e => e.1 == k)).map (·.2)

def set (m : PMap) (k : Key) (v : Value) : PMap := (k, v) :: m.filter (fun e => e.1 != k)

/-- remove `k` and everything beneath it -/
def removePrefix (m : PMap) (k : Key) : PMap := m.filter (fun e => !(k.isPrefixOf e.1))

/-- remove everything strictly beneath `k` (the element `k` itself keeps its value) -/
def removeBelow (m : PMap) (k : Key) : PMap := m.filter (fun e => !(k.isPrefixOf e.1 && e.1 != k))

/-- drop the value stored at exactly `k` -/
def unset (m : PMap) (k : Key) : PMap := m.filter (fun e => e.1 != k)

/-- the non-empty prefixes of a path: the elements that exist once it has been assigned -/
def prefixes (k : Key) : List Key := (List.range k.length).map fun i => k.take (i + 1)

/-- the existing elements after an accepted assignment to `k` -/
def addNodes (ns : List Key) (k : Key) : List Key := ns ++ (prefixes k).filter (fun p => !ns.contains p)

/-- the existing elements after removing `k` and everything beneath it -/
def removeNodes (ns : List Key) (k : Key) : List Key := ns.filter (fun p => !(k.isPrefixOf p))

/-- an assignment can only be accepted when every element fits an identifier (length incl. terminator ≤ 65535) -/
def keyFits (k : Key) : Bool := k.all (fun e => e.length + 1 ≤ 65535)

/-- the separator-delimited components of a text (always at least one, possibly empty) -/
def splitOn (sep : Byte) : List Byte → List (List Byte)
  | [] => [[]]
  | c :: cs =>
    if c = sep then [] :: splitOn sep cs
    else match splitOn sep cs with
      | [] => [[c]]          -- unreachable: `splitOn` never returns `[]`
      | e :: es => (c :: e) :: es

/-- the components of a path text up to the assignment character (if it occurs) -/
def splitPath (sep assign : Byte) (s : List Byte) : List (List Byte) :=
  splitOn sep (s.takeWhile (· ≠ assign))

end Mpt.PathMap
