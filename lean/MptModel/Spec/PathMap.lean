/-
  S for C10: a finite map from paths (lists of names) to values, and the splitting of a path text
  into its separator-delimited components.  Written from the property text only.
-/
import MptModel.Basic
namespace Mpt.PathMap

abbrev Name := List Byte
abbrev Key := List Name
abbrev Value := List Byte

/-- association list, newest binding first; at most one binding per key is kept -/
abbrev PMap := List (Key × Value)

def get (m : PMap) (k : Key) : Option Value := (m.find? (fun e => e.1 == k)).map (·.2)

def set (m : PMap) (k : Key) (v : Value) : PMap := (k, v) :: m.filter (fun e => e.1 != k)

/-- remove `k` and everything beneath it -/
def removePrefix (m : PMap) (k : Key) : PMap := m.filter (fun e => !(k.isPrefixOf e.1))

/-- the separator-delimited components of a text (always at least one, possibly empty) -/
def splitOn (sep : Byte) : List Byte → List (List Byte)
  | [] => [[]]
  | c :: cs =>
    if c = sep then [] :: splitOn sep cs
    else match splitOn sep cs with
      | [] => [[c]]          -- unreachable: `splitOn` never returns `[]`
      | e :: es => (c :: e) :: es

/-- the components of a path text up to the assignment character (if it occurs) -/
def splitPath (sep assign : Byte) (s : List Byte) : List (List Byte) :=
  splitOn sep (s.takeWhile (· ≠ assign))

end Mpt.PathMap
