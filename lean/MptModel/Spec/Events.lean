/-
  S for C08: the event sequence a configuration parser hands to its handler, and what
  "well nested" means.  Written from the property text only.

  Every event carries the full path of section names it refers to (root first):
    sect p    a section opens; p = open sections + the new name
    end_ p    the innermost open section closes; p = the open sections (before closing)
    opt p v   name=value (value optional); p = open sections + the option name
    data p v  a value without name inside the open section; p = the open sections
-/
import MptModel.Basic
namespace Mpt.Events

abbrev Name := List UInt8

inductive Event where
  | sect (path : List Name)
  | end_ (path : List Name)
  | opt (path : List Name) (value : Option (List UInt8))
  | data (path : List Name) (value : List UInt8)
  deriving Repr, DecidableEq, Inhabited

/-- one event against the stack of open sections (innermost last); `none` = not well nested -/
def step (stack : List Name) : Event → Option (List Name)
  | .sect p => if p ≠ [] ∧ p.dropLast = stack then some p else none
  | .end_ p => if stack ≠ [] ∧ p = stack then some stack.dropLast else none
  | .opt p _ => if p ≠ [] ∧ p.dropLast = stack then some stack else none
  | .data p _ => if p = stack then some stack else none

/-- run a sequence from a given stack of open sections -/
def run (stack : List Name) : List Event → Option (List Name)
  | [] => some stack
  | e :: es => match step stack e with
    | some s => run s es
    | none => none

/-- the depth never goes negative, every `end_` closes the innermost open section, options and data
    are attributed to the section that is open -/
def WellNested (es : List Event) : Prop := (run [] es).isSome = true

instance (es : List Event) : Decidable (WellNested es) := by unfold WellNested; infer_instance

/-- section depth after a prefix of the events (never negative by construction: `run` fails instead) -/
def depthAfter (es : List Event) : Option Nat := (run [] es).map List.length

end Mpt.Events
