/-
  S for C06: the type registry as the property states it — four append-only tables with reserved id ranges;
  every lookup is a function of what was handed out.  Written from the property text and the public
  description of the type ids in mptcore/types.h (the id ranges themselves are *defined* by that header and
  come from `Generated/TypeIds.lean`).  Independent of type_traits.c.  Core Lean only.
-/
import MptModel.Basic
import MptModel.Generated.TypeIds
namespace Mpt.RegSpec
open Mpt.Generated

/-- names are byte strings -/
abbrev Name := List Nat

inductive Kind where
  | basic | generic | iface | mtype
  deriving DecidableEq, Repr, Inhabited

/-- size/behaviour description of a type -/
structure Desc where
  size : Nat
  init : Bool
  fini : Bool
  deriving DecidableEq, Repr, Inhabited

/-- the id range reserved for registrations of a kind (types.h) -/
def Kind.lo : Kind → Nat
  | .basic => TypeId._TypeDynamicBase
  | .generic => TypeId._TypeValueAdd
  | .iface => TypeId._TypeInterfaceAdd
  | .mtype => TypeId._TypeMetaPtrBase + 1       -- the base id is the built-in "metatype"
def Kind.hi : Kind → Nat
  | .basic => TypeId._TypeDynamicMax
  | .generic => TypeId._TypeValueMax
  | .iface => TypeId._TypeInterfaceMax
  | .mtype => TypeId._TypeMetaPtrMax

def Kind.capacity (k : Kind) : Nat := k.hi + 1 - k.lo

def Kind.named : Kind → Bool
  | .iface | .mtype => true
  | _ => false

/-- one registration that was accepted -/
structure Entry where
  kind : Kind
  id : Nat
  name : Option Name
  desc : Desc
  deriving DecidableEq, Repr

/-- everything handed out so far, oldest first -/
abbrev State := List Entry

/-! ### built-in types (types.h): the C type each id stands for -/

/-- LP64 sizes of the C types the built-in ids stand for -/
def abiSize : String → Option Nat
  | "char" | "int8_t" | "uint8_t" => some 1
  | "int16_t" | "uint16_t" => some 2
  | "int" | "int32_t" | "uint32_t" | "float" => some 4
  | "int64_t" | "uint64_t" | "double" | "void *" => some 8
  | "long double" | "struct iovec" => some 16
  | "struct mpt_value_format" => some 4
  | "struct mpt_value" => some 16
  | "struct mpt_property" => some 48
  | "struct mpt_identifier" => some 16
  | "struct mpt_array" => some 8
  | "struct mpt_command" => some 24
  | _ => none

def scalarCTypes : List (Nat × String) :=
  [(99, "char"), (98, "int8_t"), (121, "uint8_t"), (110, "int16_t"), (113, "uint16_t"), (105, "int32_t"), (117, "uint32_t"),
   (120, "int64_t"), (116, "uint64_t"), (102, "float"), (100, "double"), (101, "long double"), (115, "void *")]

/-- built-in interface names (types.h: `Type<Name>Ptr`) and the built-in metatype -/
def builtinNames : List (Name × Nat) :=
  [([99, 111, 110, 118, 101, 114, 116, 97, 98, 108, 101], TypeId.TypeConvertablePtr),
   ([108, 111, 103, 103, 101, 114], TypeId.TypeLoggerPtr),
   ([114, 101, 112, 108, 121], TypeId.TypeReplyPtr),
   ([111, 117, 116, 112, 117, 116], TypeId.TypeOutputPtr),
   ([111, 98, 106, 101, 99, 116], TypeId.TypeObjectPtr),
   ([99, 111, 110, 102, 105, 103], TypeId.TypeConfigPtr),
   ([105, 116, 101, 114, 97, 116, 111, 114], TypeId.TypeIteratorPtr),
   ([99, 111, 108, 108, 101, 99, 116, 105, 111, 110], TypeId.TypeCollectionPtr),
   ([115, 111, 108, 118, 101, 114], TypeId.TypeSolverPtr),
   ([109, 101, 116, 97, 116, 121, 112, 101], TypeId.TypeMetaPtr)]

/-- (id, C type, managed content) of every built-in type: system and pointer types, value types, scalars,
    their vectors, the generic vector, interfaces, the metatype pointer and the static managed types -/
def builtins : List (Nat × String × Bool) :=
  [(TypeId.TypeUnixSocket, "int", false), (TypeId.TypeFilePtr, "void *", false), (TypeId.TypeAddressPtr, "void *", false),
   (TypeId.TypeReplyDataPtr, "void *", false), (TypeId.TypeNodePtr, "void *", false), (TypeId.TypeBufferPtr, "void *", false),
   (TypeId.TypeValFmt, "struct mpt_value_format", false), (TypeId.TypeValue, "struct mpt_value", false),
   (TypeId.TypeProperty, "struct mpt_property", false)]
  ++ scalarCTypes.map (fun (c, t) => (c, t, false))
  ++ scalarCTypes.map (fun (c, _) => (c - TypeId._TypeScalarBase + TypeId._TypeVectorBase, "struct iovec", false))
  ++ [(TypeId.TypeVector, "struct iovec", false)]
  ++ builtinNames.map (fun (_, i) => (i, "void *", false))
  ++ [(TypeId.TypeIdentifier, "struct mpt_identifier", true), (TypeId.TypeMetaRef, "void *", true),
      (TypeId.TypeArray, "struct mpt_array", true), (TypeId.TypeCommand, "struct mpt_command", true)]

def builtinDesc (id : Nat) : Option Desc :=
  match builtins.find? (·.1 = id) with
  | some (_, ct, managed) => (abiSize ct).map fun s => { size := s, init := managed, fini := managed }
  | none => none

/-- documented short names of `mpt_named_traits` -/
def shortNames : List (Name × Name) :=
  [([108, 111, 103], [108, 111, 103, 103, 101, 114]),
   ([105, 116, 101, 114], [105, 116, 101, 114, 97, 116, 111, 114]),
   ([111, 117, 116], [111, 117, 116, 112, 117, 116]),
   ([109, 101, 116, 97], [109, 101, 116, 97, 116, 121, 112, 101])]

def expandShort (n : Name) : Name :=
  match shortNames.find? (·.1 = n) with
  | some (_, full) => full
  | none => n

/-! ### the registry as a function of the history -/

def minNameLen : Nat := 4

def count (st : State) (k : Kind) : Nat := (st.filter (·.kind = k)).length

/-- id registered under a name -/
def idOfName (st : State) (n : Name) : Option Nat :=
  match builtinNames.find? (·.1 = n) with
  | some (_, i) => some i
  | none => (st.find? (·.name = some n)).map (·.id)

/-- a name cannot be registered (again): it is in use, or it is a short name that resolves elsewhere -/
def nameTaken (st : State) (n : Name) : Bool :=
  (idOfName st n).isSome || (shortNames.find? (·.1 = n)).isSome

/-- must a registration be refused? (duplicate or too short name, exhausted range) -/
def mustRefuse (st : State) (k : Kind) (name : Option Name) : Bool :=
  count st k ≥ k.capacity ||
  match name with
  | some n => n.length < minNameLen || nameTaken st n
  | none => false

def descOf (st : State) (id : Nat) : Option Desc :=
  match st.find? (·.id = id) with
  | some e => some e.desc
  | none => builtinDesc id

/-- name entry of an id of the interface (`iface = true`) or metatype pointer range -/
def namedOf (st : State) (iface : Bool) (id : Nat) : Option (Option Name × Desc) :=
  let inRange := if iface then TypeId._TypeInterfaceBase ≤ id ∧ id ≤ TypeId._TypeInterfaceMax
                 else TypeId._TypeMetaPtrBase ≤ id ∧ id ≤ TypeId._TypeMetaPtrMax
  if ¬ inRange then none else
  match st.find? (·.id = id) with
  | some e => if e.kind.named then some (e.name, e.desc) else none
  | none =>
    match builtinNames.find? (·.2 = id) with
    | some (n, _) => (builtinDesc id).map fun d => (some n, d)
    | none => none

/-- lookup by name: `len < 0` = whole string with short names, else the first `len` characters exactly -/
def lookupName (st : State) (n : Name) (len : Int) : Option Nat :=
  if n = [] ∨ len = 0 then none
  else if len < 0 then idOfName st (expandShort n)
  else if n.length < len.toNat then none
  else idOfName st (n.take len.toNat)

/-! ### wire format codes (message.h): `size - 1`, kind bits 0x20 unsigned / 0x40 float / 0x60 signed, 0x80 native
    (little endian) byte order -/

def specMsgCode (t : Nat) : Option Nat :=
  match scalarCTypes.find? (·.1 = t) with
  | some (_, ct) =>
    let kind : Option Nat :=
      if t ∈ [98, 110, 105, 120] then some 0x60
      else if t ∈ [121, 113, 117, 116] then some 0x20
      else if t ∈ [102, 100, 101] then some 0x40
      else none
    match kind, abiSize ct with
    | some k, some sz => some (sz - 1 + k + 0x80)
    | _, _ => none
  | none => none

/-- the scalar type a wire format code stands for -/
def specMsgType (fmt : Nat) : Option Nat :=
  ([98, 110, 105, 120, 121, 113, 117, 116, 102, 100, 101].find? fun t => specMsgCode t = some fmt)

end Mpt.RegSpec
