/-
  S for C20: a layout object is a record of its LISTED properties (the names the getter publishes).
  `set name v` replaces the value of the one property `name` denotes by the value the text `v` denotes,
  `get name` reads it, `reset` restores the documented defaults.  Written from the property text; the
  value vocabulary (`Val`, numerals, colour texts) is shared with the model (`MptModel.Impl.Layout`).
-/
import MptModel.Impl.Layout

namespace Mpt.Record
open Mpt.Layout

/-- the record: listed property name ↦ value, in table order -/
abbrev Rec := List (Str × Val)

def get (r : Rec) (n : Str) : Option Val := (r.find? (·.1 == n)).map (·.2)

def set (r : Rec) (n : Str) (v : Val) : Rec := r.map fun p => if p.1 == n then (p.1, v) else p

def reset (dflt : Rec) (_r : Rec) : Rec := dflt

/-- text without any character but blanks: "no value" -/
def blank (v : Option Str) : Bool :=
  match v with
  | none => true
  | some s => (skipSpaces s).isEmpty

/-- what kind of value a property holds (from its documented handler) -/
inductive PTy where
  | scalar (ty : Char)               -- number or character of the C type code
  | string
  | colour
  | ranged (lo hi : Nat)             -- small integer with documented limits
  | firstChar                        -- first visible character of the text
  | point (lo hi : Fl)               -- one or two numbers, both inside the limits
  | pointX | pointY                  -- one coordinate of a point property
  | countOrLog                       -- interval count or the keyword `log`
  | alignFlags                       -- number or letters b/e/z per axis
  | clipAxes                         -- number or axis letters, shown as letters when that is possible
  deriving Repr, DecidableEq

/-- the letters of a set of axes given as bit mask (x = 1, y = 2, z = 4), in the order x y z.
    NOT taken from the getter's print table: this is what a clip text MEANS -/
def clipText (n : Nat) : Str :=
  (if n % 2 = 1 then [120] else []) ++ (if n / 2 % 2 = 1 then [121] else []) ++ (if n / 4 % 2 = 1 then [122] else [])

/-- the clip value as it is shown: the axis letters when the mask holds axes only -/
def showClip (n : Nat) : Val := if n < 8 then .str (some (clipText n)) else .int n

/-- the axes a clip text names (any order, repetition allowed); anything but x, y, z: the extra flag 8 -/
def clipMask (v : Str) : Nat :=
  (if v.contains 120 then 1 else 0) + (if v.contains 121 then 2 else 0) + (if v.contains 122 then 4 else 0) +
  (if v.any (fun c => c != 120 && c != 121 && c != 122) then 8 else 0)

/-- alignment of one axis from its letter: b(egin) 1, e(nd) 2, z(ero) 3, anything else 0 -/
def alignCode (c : Byte) : Nat :=
  let l := lower c
  if l == 98 then 1 else if l == 101 then 2 else if l == 122 then 3 else 0

/-- alignment text: one letter per axis, up to four axes, two bits each, first axis lowest -/
def alignMask (v : Str) : Nat :=
  alignCode (v.getD 0 0) + 4 * alignCode (v.getD 1 0) + 16 * alignCode (v.getD 2 0) + 64 * alignCode (v.getD 3 0)

/-- values the text may denote for a property of type `t` whose current value is `old`
    (empty: the text denotes nothing of that type and has to be refused) -/
def denote (tab : List NamedColor) (t : PTy) (old : Val) (v : Str) : List Val :=
  match t with
  | .scalar ty => match convScalar ty (skipSpaces v) with | .val x _ => [x] | _ => []
  | .string => [.str (if v.isEmpty then none else some v)]
  | .colour => match colorParse tab v with | some (c, _) => [.col c] | none => []
  | .ranged lo hi =>
    match convScalar 'i' (skipSpaces v) with
    | .val (.int n) _ => if (lo : Int) ≤ n ∧ n ≤ hi then [.int n] else []
    | _ => []
  | .firstChar => match skipSpaces v with | b :: _ => [.chr b.toNat] | [] => []
  | .point lo hi => match fpointText lo hi (some v) with | .val (x, y) _ => [.pt x y] | _ => []
  | .pointX =>
    match convScalar 'f' (skipSpaces v), old with
    | .val (.flt x) _, .pt _ y => [.pt x y]
    | _, _ => []
  | .pointY =>
    match convScalar 'f' (skipSpaces v), old with
    | .val (.flt y) _, .pt x _ => [.pt x y]
    | _, _ => []
  | .countOrLog =>
    match convScalar 'y' (skipSpaces v) with
    | .val x _ => [x]
    | _ => if eqNoCaseN v logWord 3 then [.str (some logWord)] else []
  | .alignFlags =>
    match convScalar 'y' (skipSpaces v) with
    | .val x _ => [x]
    | .err .BadValue => []            -- a numeral beyond the range of the flags byte denotes nothing
    | _ => [.int (alignMask v)]
  | .clipAxes =>
    match convScalar 'y' (skipSpaces v) with
    | .val (.int n) _ => [showClip n.toNat]
    | .err .BadValue => []
    | _ => [showClip (clipMask v)]

/-- default of a coordinate property inside its point -/
def resetValue (t : PTy) (old dflt : Val) : Val :=
  match t, old, dflt with
  | .pointX, .pt _ y, .pt dx _ => .pt dx y
  | .pointY, .pt x _, .pt _ dy => .pt x dy
  | _, _, _ => dflt

/-- records the property allows after `set p v` (besides a refusal that changes nothing):
    no source or blank text restores the default (a colour may also ignore blank text), any other text must
    read back as a value it denotes -/
def setOutcomes (tab : List NamedColor) (r dflt : Rec) (p : Str) (t : PTy) (v : Option (Option Str)) : List Rec :=
  let old := (get r p).getD (.int 0)
  let d := resetValue t old ((get dflt p).getD (.int 0))
  match v with
  | none => [set r p d]
  | some txt =>
    match t with
    | .string => (denote tab t old (txt.getD [])).map (set r p)      -- blanks are string content
    | .colour =>
      -- a colour keeps its value for an empty text (`mpt_color_pset` takes "no value" as "no change")
      if blank txt then [set r p d, r]
      else (denote tab t old (txt.getD [])).map (set r p)
    | _ =>
      if blank txt then [set r p d]
      else (denote tab t old (txt.getD [])).map (set r p)

/-! ### the documented properties (written by hand from mptplot/layout.h, the description strings of the
    getters and the comments of the setters — NOT extracted): which names stand for which listed property and
    what kind of value it holds.  `Props/C20.lean` (`docOk`) checks the generated tables against it. -/

/-- one way to set a listed property: the names `set` takes for it and the meaning of a value -/
structure DocProp where
  listed : Str
  names : List Str
  ty : PTy
  deriving Repr, DecidableEq

structure DocKind where
  kind : String
  /-- reading: a name that is not documented may be given by its first `abbr` characters -/
  abbr : Option Nat
  /-- the property a text given WITHOUT a name goes to (none: a text without a name is refused) -/
  autoText : Option Str := none
  /-- the property a colour value given without a name goes to; whether line attributes given without a name are taken -/
  autoColour : Option Str := none
  autoAttr : Bool := false
  props : List DocProp
  deriving Repr

def dp (listed : String) (names : List String) (ty : PTy) : DocProp := ⟨str listed, names.map str, ty⟩

/-- largest `float` (2^24 - 1) * 2^104 -/
def fltMax : Fl := ⟨16777215, 104⟩

def docs : List DocKind := [
  { kind := "axis", abbr := some 3, autoText := some (str "title"), props := [
      dp "title" ["title"] .string,
      dp "begin" ["begin"] (.scalar 'd'),
      dp "end" ["end"] (.scalar 'd'),
      dp "tlen" ["tlen"] (.scalar 'f'),
      dp "exponent" ["exp", "exponent"] (.scalar 'n'),
      dp "intervals" ["int", "intv", "intervals"] .countOrLog,
      dp "subtick" ["sub", "subtick"] (.scalar 'y'),
      dp "decimals" ["dec", "decimals"] (.scalar 'y'),
      dp "lpos" ["lpos", "labelpos", "label position"] .firstChar,
      dp "tpos" ["tpos", "titlepos", "title position"] .firstChar] },
  { kind := "line", abbr := none, autoColour := some (str "color"), autoAttr := true, props := [
      dp "color" ["color"] .colour,
      dp "x1" ["x1"] (.scalar 'f'),
      dp "x2" ["x2"] (.scalar 'f'),
      dp "y1" ["y1"] (.scalar 'f'),
      dp "y2" ["y2"] (.scalar 'f'),
      dp "width" ["width"] (.ranged 0 10),
      dp "style" ["style"] (.ranged 0 5),
      dp "symbol" ["symbol"] (.ranged 0 8),
      dp "size" ["size"] (.ranged 0 20)] },
  { kind := "text", abbr := none, autoText := some (str "value"), autoColour := some (str "color"), props := [
      dp "color" ["color"] .colour,
      dp "pos" ["pos"] (.point ⟨0, 0⟩ ⟨1, 0⟩),
      dp "pos" ["x"] .pointX,
      dp "pos" ["y"] .pointY,
      dp "size" ["size"] (.scalar 'y'),
      dp "align" ["align"] (.scalar 'c'),
      dp "angle" ["angle"] (.scalar 'd'),
      dp "value" ["value"] .string,
      dp "font" ["font"] .string] },
  { kind := "graph", abbr := some 2, autoColour := some (str "foreground"), props := [
      dp "axes" ["axes"] .string,
      dp "worlds" ["worlds"] .string,
      dp "foreground" ["fg", "foreground"] .colour,
      dp "background" ["bg", "background"] .colour,
      dp "pos" ["pos", "position"] (.point ⟨0, 0⟩ ⟨1, 0⟩),
      dp "scale" ["scale"] (.point ⟨0, 0⟩ fltMax),
      dp "grid" ["grid", "type", "gridtype"] (.scalar 'y'),
      dp "align" ["align", "alignment"] .alignFlags,
      dp "clip" ["clip", "clipping"] .clipAxes,
      dp "lpos" ["lpos"] (.scalar 'c')] },
  { kind := "world", abbr := some 3, autoText := some (str "alias"), autoColour := some (str "color"), autoAttr := true, props := [
      dp "color" ["color", "colour"] .colour,
      dp "cycles" ["cyc", "cycles"] (.scalar 'u'),
      dp "width" ["width"] (.ranged 0 10),
      dp "style" ["style"] (.ranged 0 5),
      dp "symbol" ["sym", "symbol"] (.ranged 0 8),
      dp "size" ["size"] (.ranged 0 20),
      dp "alias" ["alias"] .string] }]

def docOf (kind : String) : Option DocKind := docs.find? (·.kind == kind)

/-- the documented way(s) to set that `n` may stand for: the spelling as documented, else any case -/
def DocKind.setHits (d : DocKind) (n : Str) : List DocProp × Bool :=
  match d.props.filter (·.names.contains n) with
  | [] => (d.props.filter (·.names.any (eqNoCase n)), false)
  | l => (l, true)

/-- the listed properties a name given to `get` may stand for, and whether the name is a listed name as documented
    (then reading cannot be refused): a documented name stands for its property; any other name for the listed
    names it agrees with on the documented abbreviation length -/
def DocKind.getHits (d : DocKind) (n : Str) : List Str × Bool :=
  let listed := (d.props.map (·.listed)).eraseDups
  if listed.contains n then ([n], true)
  else
    match (d.props.filter (·.names.any (eqNoCase n))).map (·.listed) |>.eraseDups with
    | [] =>
      (match d.abbr with
       | some k => if k ≤ n.length then listed.filter (fun p => eqNoCaseN n p k) else []
       | none => [], false)
    | l => (l, false)

end Mpt.Record

namespace Mpt.Layout
open Mpt.Record

/-- S-level type of the property a handler sets (point coordinates and clip names need the table) -/
def Act.pty : Act → PTy
  | .conv ty _ => .scalar ty | .string _ => .string | .colour _ _ => .colour
  | .lattr _ _ lo hi _ => .ranged lo hi | .axisPos _ => .firstChar | .linePos _ => .scalar 'f'
  | .fpoint _ lo hi _ => .point lo hi | .intervals _ _ _ _ => .countOrLog | .align _ => .alignFlags
  | .clip _ => .clipAxes

/-- the same with the table context: a `conv` into a coordinate of a point row sets that coordinate -/
def Kind.ptyOf (k : Kind) (a : Act) (row : Nat) : PTy :=
  match a with
  | .conv ty f =>
    match k.gets[row]? with
    | some g => if g.ty = -2 then (if f = g.field then .pointX else .pointY) else .scalar ty
    | none => .scalar ty
  | a => a.pty

end Mpt.Layout
