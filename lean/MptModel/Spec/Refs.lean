/-
  S for C15: an object is referenced by the handles that name it and by the references held outside
  ("external").  It lives as long as there is a reference and is destroyed exactly when the last one is
  dropped; a reference can be taken only from a living, referenced object whose reference total is below
  the largest counter value.  No counters here: the total is DERIVED from the handles.
-/
import MptModel.Impl.Refcount

namespace Mpt.Refs
open Mpt.Refcount

structure SObj where
  kind : OKind
  ext : Nat
  dead : Bool := false
  elems : List Nat := []
  deriving Repr, DecidableEq, Inhabited

structure SSt where
  objs : List SObj := []
  hnd : List (Option Nat) := [none, none, none]
  deriving Repr, DecidableEq, Inhabited

/-- number of references to object `o` -/
def refs (s : SSt) (o : Nat) : Nat :=
  (s.objs.getD o default).ext + (s.hnd.filter (· == some o)).length

/-- a further reference can be taken -/
def canTake (s : SSt) (o : Nat) : Bool :=
  !(s.objs.getD o default).dead && 0 < refs s o && refs s o < MAXV

/-- events on one object in one operation: addref calls, unref calls, destroyed -/
structure SEv where
  obj : Nat
  add : Nat := 0
  unref : Nat := 0
  destroyed : Bool := false
  dead : Bool := false      -- the operation was asked to reference an object that is already destroyed
  copied : List Nat := []   -- elements copy-constructed from this object
  deriving Repr, DecidableEq, Inhabited

/-- one allowed outcome of an operation -/
structure Alt where
  ok : Bool
  st : SSt
  evs : List SEv := []
  deriving Repr, Inhabited

def setHnd (s : SSt) (h : Nat) (v : Option Nat) : SSt := { s with hnd := s.hnd.set h v }

/-- after a reference to `o` went away: destroyed iff none is left -/
def released (s : SSt) (o : Nat) : SSt × Bool :=
  if refs s o = 0 ∧ !(s.objs.getD o default).dead then
    ({ s with objs := s.objs.set o { (s.objs.getD o default) with dead := true } }, true)
  else (s, false)

/-- a refused attempt may or may not have reached the object's addref -/
def refusedAlts (s : SSt) (o : Nat) : List Alt :=
  [{ ok := false, st := s, evs := [{ obj := o, add := 1, dead := (s.objs.getD o default).dead }] }, { ok := false, st := s }]

def take (s : SSt) (h o : Nat) : List Alt :=
  if canTake s o then [{ ok := true, st := setHnd s h (some o), evs := [{ obj := o, add := 1 }] }]
  else refusedAlts s o

def copy (s : SSt) (h g : Nat) : List Alt :=
  match s.hnd.getD g none with
  | none => [{ ok := true, st := s }]
  | some o => take s h o

def drop (s : SSt) (h : Nat) : List Alt :=
  match s.hnd.getD h none with
  | none => [{ ok := true, st := s }]
  | some o =>
    let (s', d) := released (setHnd s h none) o
    [{ ok := true, st := s', evs := [{ obj := o, unref := 1, destroyed := d }] }]

/-- replace the reference held by handle `h` by one to `src`; `mismatch`: the two referents cannot share a
    handle (different content types) -/
def assign (s : SSt) (h : Nat) (src : Option Nat) (mismatch : Bool) : List Alt :=
  let old := s.hnd.getD h none
  if src = old then
    -- self-assignment: nothing, or retain + release of the same object, or a refused retain
    { ok := true, st := s } ::
      (match old with
       | some o => if canTake s o then [{ ok := true, st := s, evs := [{ obj := o, add := 1, unref := 1 }] }]
                   else refusedAlts s o
       | none => [])
  else if mismatch then [{ ok := false, st := s }]
  else
    match src with
    | none =>
      match old with
      | some o =>
        let (s', d) := released (setHnd s h none) o
        [{ ok := true, st := s', evs := [{ obj := o, unref := 1, destroyed := d }] }]
      | none => [{ ok := true, st := s }]
    | some n =>
      if canTake s n then
        let s1 := setHnd s h (some n)
        match old with
        | some o =>
          let (s', d) := released s1 o
          [{ ok := true, st := s', evs := [{ obj := n, add := 1 }, { obj := o, unref := 1, destroyed := d }] }]
        | none => [{ ok := true, st := s1, evs := [{ obj := n, add := 1 }] }]
      else refusedAlts s n

def extAdd (s : SSt) (o : Nat) : List Alt :=
  if canTake s o then
    [{ ok := true, st := { s with objs := s.objs.set o { (s.objs.getD o default) with ext := (s.objs.getD o default).ext + 1 } },
       evs := [{ obj := o, add := 1 }] }]
  else refusedAlts s o

def extUnref (s : SSt) (o : Nat) : List Alt :=
  let s1 := { s with objs := s.objs.set o { (s.objs.getD o default) with ext := (s.objs.getD o default).ext - 1 } }
  let (s', d) := released s1 o
  [{ ok := true, st := s', evs := [{ obj := o, unref := 1, destroyed := d }] }]

/-- private copy of the buffer behind handle `h`: refused without any change; kept when the handle is the only
    reference; or a NEW buffer with the same elements and one reference takes its place in the handle while
    the old one loses that reference — copied when others still use it, moved (and gone) when not -/
def detachKeep (s : SSt) (h : Nat) (keep : Option Nat) : List Alt :=
  match s.hnd.getD h none with
  | none => [{ ok := false, st := s }]
  | some o =>
    let ob := s.objs.getD o default
    let n := s.objs.length
    let shared := refs s o > 1
    let els := match keep with | some k => if shared then ob.elems.take k else ob.elems | none => ob.elems
    let s1 : SSt := { objs := s.objs ++ [{ kind := .rbuf, ext := 0, elems := els }], hnd := s.hnd.set h (some n) }
    let s2 : SSt := if shared then s1
      else { s1 with objs := s1.objs.set o { ob with dead := true, elems := [] } }
    [{ ok := false, st := s }] ++ (if shared then [] else [{ ok := true, st := s }]) ++
      [{ ok := true, st := s2, evs := if shared then [{ obj := o, copied := els }] else [] }]

def detach (s : SSt) (h : Nat) : List Alt := detachKeep s h none

/-- the handle is to name a private buffer for `len` elements: an empty handle gets a new buffer, otherwise as
    `detach` (the content is kept completely) -/
def reserve (s : SSt) (h _len : Nat) : List Alt :=
  match s.hnd.getD h none with
  | none =>
    [{ ok := false, st := s },
     { ok := true, st := { objs := s.objs ++ [{ kind := .rbuf, ext := 0 }], hnd := s.hnd.set h (some s.objs.length) } }]
  | some _ => detachKeep s h none

/-- a handle of a uniquely-owned array is to hold `newlen` elements: the only holder changes its buffer; a holder
    of a SHARED buffer gets a buffer of its own only when there is nothing to copy — otherwise the request is
    refused and NOTHING changes (the handle keeps naming the shared buffer); an empty handle gets a new buffer -/
def uaGrow (s : SSt) (a : Nat) (newlen : Nat → Nat) : List Alt :=
  match s.hnd.getD a none with
  | none =>
    [{ ok := false, st := s },
     { ok := true, st := { objs := s.objs ++ [{ kind := .rbuf, ext := 0, elems := List.replicate (newlen 0) 0 }],
                           hnd := s.hnd.set a (some s.objs.length) } }]
  | some b =>
    let ob := s.objs.getD b default
    if refs s b > 1 then
      { ok := false, st := s } ::
        (if ob.elems.isEmpty then
          [{ ok := true, st := { objs := s.objs ++ [{ kind := .rbuf, ext := 0, elems := List.replicate (newlen 0) 0 }],
                                 hnd := s.hnd.set a (some s.objs.length) } }]
         else [])
    else
      [{ ok := false, st := s },
       { ok := true, st := { s with objs := s.objs.set b { ob with elems := List.replicate (newlen ob.elems.length) 0 } } }]

/-- content type of the buffer a handle names -/
def kindOf (s : SSt) (o : Option Nat) : Option OKind := o.map fun i => (s.objs.getD i default).kind

/-- **the allowed outcomes of one operation of a history** (what the driver prints in the S column of part `r`) -/
def alts (s : SSt) : Op → List Alt
  | .create k n els => [{ ok := true, st := { s with objs := s.objs ++ [{ kind := k, ext := n, elems := els }] } }]
  | .take h o => take s h o
  | .copy h g => copy s h g
  | .drop h => drop s h
  | .assignMeta h src => assign s h src false
  | .assignArr h src =>
    assign s h src (src.isSome && (s.hnd.getD h none).isSome && decide (kindOf s src ≠ kindOf s (s.hnd.getD h none)))
  | .extAdd o => extAdd s o
  | .extUnref o => extUnref s o
  | .detach h _ => detach s h
  | .reserve h len => reserve s h len

/-! ### handles owned by objects (C++ `reference<T>` members): slot `nroot + o` belongs to object `o` -/

/-- objects without a reference die, the handle a dead object owns goes away, which may leave its referent
    without a reference: repeated until stable; the events are collected -/
def settle (nroot : Nat) : Nat → SSt × List SEv → SSt × List SEv
  | 0, x => x
  | fuel + 1, (s, evs) =>
    match (List.range s.objs.length).find? (fun o => (s.objs.getD o default).dead && (s.hnd.getD (nroot + o) none).isSome) with
    | none => (s, evs)
    | some o =>
      match s.hnd.getD (nroot + o) none with
      | none => (s, evs)
      | some t =>
        let (s', d) := released (setHnd s (nroot + o) none) t
        settle nroot fuel (s', evs ++ [{ obj := t, unref := 1, destroyed := d }])

def settled (nroot : Nat) (a : Alt) : Alt :=
  let r := settle nroot (a.st.objs.length + 1) (a.st, a.evs)
  { a with st := r.1, evs := r.2 }

/-- C++ copy assignment of handle slot `h` from a handle whose referent is `src` -/
def xassign (nroot : Nat) (s : SSt) (h : Nat) (src : Option Nat) : List Alt :=
  let old := s.hnd.getD h none
  if src = old then [{ ok := true, st := s }]
  else
    let lost : List Alt :=          -- the new referent cannot be retained: unchanged, or the handle ends up empty
      match src with
      | some n =>
        if canTake s n then []
        else
          ((assign s h none false).map fun a => { a with evs := { obj := n, add := 1, dead := (s.objs.getD n default).dead } :: a.evs }) ++
          (assign s h none false) ++ refusedAlts s n
      | none => []
    ((if lost.isEmpty then assign s h src false else lost).map fun a => settled nroot { a with ok := true })

/-- C++ move assignment: slot `g` is emptied, its reference now belongs to slot `h` -/
def xmove (nroot : Nat) (s : SSt) (h g : Nat) : List Alt :=
  if h = g then [{ ok := true, st := s }]
  else
    let r := s.hnd.getD g none
    let old := s.hnd.getD h none
    let s1 := setHnd (setHnd s g none) h r
    match old with
    | none => [settled nroot { ok := true, st := s1 }]
    | some o =>
      let (s2, d) := released s1 o
      [settled nroot { ok := true, st := s2, evs := [{ obj := o, unref := 1, destroyed := d }] }]

/-- the handle gives its reference away -/
def xdetach (s : SSt) (h : Nat) : List Alt :=
  match s.hnd.getD h none with
  | none => [{ ok := true, st := s }]
  | some o =>
    [{ ok := true, st := { (setHnd s h none) with objs := s.objs.set o { (s.objs.getD o default) with ext := (s.objs.getD o default).ext + 1 } } }]

end Mpt.Refs
