/-
  S for C02: a framed message stream.  Written from the property text and the framing definition
  (Spec/Cobs.lean), not from the queue code.

  * the sender turns a message list into the byte stream `wire v ms` (frame after frame),
  * the transport cuts the stream into arbitrary segments,
  * the reference receiver collects bytes up to a delimiter `0`, decodes the frame with the reference
    decoder and appends the message to its output,
  * a *schedule* interleaves `write i | flush | deliver k | receive` events of a sender, a channel and a
    receiver.
-/
import MptModel.Spec.Cobs
namespace Mpt.Stream
open Mpt.Cobs

abbrev Msg := List Byte

/-- the byte stream carrying the messages `ms` -/
def wire (v : Variant) (ms : List Msg) : List Byte := (ms.map (enc v)).flatten

/-- a frame: zero-terminated and zero-free otherwise -/
def IsFrame (f : List Byte) : Prop := f.getLast? = some 0 ∧ ∀ b ∈ f.dropLast, b ≠ 0

/-- split a byte stream at the delimiter: `cur` = bytes of the frame in progress.
    Result: the complete frames (delimiter included) and the unfinished rest -/
def splitAux : List Byte → List Byte → List (List Byte) × List Byte
  | cur, [] => ([], cur)
  | cur, b :: rest =>
    if b = 0 then ((cur ++ [0]) :: (splitAux [] rest).1, (splitAux [] rest).2)
    else splitAux (cur ++ [b]) rest

def splitFrames (s : List Byte) : List (List Byte) × List Byte := splitAux [] s

/-- reference receiver: bytes of the frame in progress, messages obtained so far -/
structure Recv where
  pending : List Byte := []
  out : List Msg := []
  deriving Repr, DecidableEq, Inhabited

/-- one byte arrives; a delimiter completes the frame (a frame the reference decoder rejects is dropped) -/
def Recv.byte (v : Variant) (r : Recv) (b : Byte) : Recv :=
  if b = 0 then
    match dec v (r.pending ++ [0]) with
    | some m => { pending := [], out := r.out ++ [m] }
    | none => { pending := [], out := r.out }
  else { r with pending := r.pending ++ [b] }

/-- one segment arrives -/
def Recv.segment (v : Variant) (r : Recv) (seg : List Byte) : Recv := seg.foldl (Recv.byte v) r

/-- the receiver after the segments `segs`, from the start -/
def recvAll (v : Variant) (segs : List (List Byte)) : Recv := segs.foldl (Recv.segment v) {}

/-- number of complete frames in a byte string -/
def frameCount (s : List Byte) : Nat := s.count 0

/-! ### schedules -/

inductive Event where
  | write (i : Nat)     -- the sender encodes message `i` of the list into its output buffer
  | flush               -- the sender's buffer goes onto the channel
  | deliver (k : Nat)   -- the channel hands its next `k` bytes to the receiver's input buffer
  | receive             -- the receiver looks at its input buffer
  deriving Repr, DecidableEq

structure Sys where
  sent : List Msg := []       -- messages written so far, in order
  txbuf : List Byte := []     -- encoded, not flushed
  chan : List Byte := []      -- in flight
  rxbuf : List Byte := []     -- delivered, not yet looked at
  rx : Recv := {}
  deriving Repr, DecidableEq, Inhabited

def step (v : Variant) (ms : List Msg) (s : Sys) : Event → Sys
  | .write i =>
    match ms[i]? with
    | some m => { s with sent := s.sent ++ [m], txbuf := s.txbuf ++ enc v m }
    | none => s
  | .flush => { s with chan := s.chan ++ s.txbuf, txbuf := [] }
  | .deliver k => { s with rxbuf := s.rxbuf ++ s.chan.take k, chan := s.chan.drop k }
  | .receive => { s with rx := s.rx.segment v s.rxbuf, rxbuf := [] }

def run (v : Variant) (ms : List Msg) (evs : List Event) : Sys := evs.foldl (step v ms) {}

end Mpt.Stream
