/-
  S for C13: a plain double-ended byte list.  Written from the property text only.
-/
import MptModel.Basic
namespace Mpt.Deque

abbrev Deque := List Byte

def push (d : Deque) (bs : List Byte) : Deque := d ++ bs
def unshift (d : Deque) (bs : List Byte) : Deque := bs ++ d
/-- remove `n` bytes at the end: (rest, removed) -/
def pop (d : Deque) (n : Nat) : Option (Deque × List Byte) :=
  if n ≤ d.length then some (d.take (d.length - n), d.drop (d.length - n)) else none
/-- remove `n` bytes at the front -/
def shift (d : Deque) (n : Nat) : Option (Deque × List Byte) :=
  if n ≤ d.length then some (d.drop n, d.take n) else none
def crop (d : Deque) (pos n : Nat) : Option Deque :=
  if pos + n ≤ d.length then some (d.take pos ++ d.drop (pos + n)) else none
def get (d : Deque) (pos n : Nat) : Option (List Byte) :=
  if pos + n ≤ d.length then some ((d.drop pos).take n) else none
def set (d : Deque) (pos : Nat) (bs : List Byte) : Option Deque :=
  if pos + bs.length ≤ d.length then some (d.take pos ++ bs ++ d.drop (pos + bs.length)) else none
/-- first element-aligned occurrence of `needle` (elements of size `needle.length`) -/
def findAt (d : Deque) (needle : List Byte) : Nat → Nat → Option Nat
  | 0, _ => none
  | fuel + 1, i =>
    if (i + 1) * needle.length ≤ d.length then
      if (d.drop (i * needle.length)).take needle.length = needle then some i
      else findAt d needle fuel (i + 1)
    else none

end Mpt.Deque
