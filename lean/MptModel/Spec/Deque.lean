/-
  S for C13: a plain double-ended byte list.  Written from the property text only.
-/
import MptModel.Basic
namespace Mpt.Deque

abbrev Deque := List Byte

def push (d : Deque) (bs : List Byte) : Deque := d ++ bs
def unshift (d : Deque) (bs : List Byte) : Deque := bs ++ d
/-- remove `n` bytes at the end: (rest, removed) -/
def pop (d : Deque) (n : Nat) : Option (Deque × List Byte) :=
  if n ≤ d.length then some (d.take (d.length - n), d.drop (d.length - n)) else none
/-- remove `n` bytes at the front -/
def shift (d : Deque) (n : Nat) : Option (Deque × List Byte) :=
  if n ≤ d.length then some (d.drop n, d.take n) else none
def crop (d : Deque) (pos n : Nat) : Option Deque :=
  if pos + n ≤ d.length then some (d.take pos ++ d.drop (pos + n)) else none
def get (d : Deque) (pos n : Nat) : Option (List Byte) :=
  if pos + n ≤ d.length then some ((d.drop pos).take n) else none
def set (d : Deque) (pos : Nat) (bs : List Byte) : Option Deque :=
  if pos + bs.length ≤ d.length then some (d.take pos ++ bs ++ d.drop (pos + bs.length)) else none
/-- first element-aligned occurrence of `needle` (elements of size `needle.length`) -/
def findAt (d : Deque) (needle : List Byte) : Nat → Nat → Option Nat
  | 0, _ => none
  | fuel + 1, i =>
    if (i + 1) * needle.length ≤ d.length then
      if (d.drop (i * needle.length)).take needle.length = needle then some i
      else findAt d needle fuel (i + 1)
    else none


/-! ### The operations the drivers issue, and the outcomes the property allows for each.

`allowed cap frag d op` lists every (result, content afterwards) pair that is compatible with the property
text when the deque holds `d` in a storage of `cap` bytes:
* a request for more than is stored / free is refused and the content stays;
* a zero-length request may be accepted or refused (the content is the same either way);
* without a destination (`dst = false`) the removed bytes are only reachable through a pointer into contiguous
  storage, so refusal is an admissible answer as well (documented limit of `mpt_qpop`/`mpt_qshift`);
* `resize n` keeps the newest `n` bytes (the documented "remove data from queue start" of queue_resize.c; DESIGN §5.0);
* `find` may refuse when fewer bytes than one element are stored or when the content is stored in two pieces
  (`frag`: an element may straddle the wrap; documented ENOTSUP) — this is the only use of representation state;
* `prepare n` never changes the content; it must report `n` free bytes unless the size computation would exceed
  `SIZE_MAX` (`sizeMax`), in which case it refuses.
The same function is printed by the model driver as the `S` column and is the subject of `C13.stepX_sound`. -/

/-- `SIZE_MAX` on LP64 -/
def sizeMax : Nat := 2 ^ 64 - 1

inductive XOp where
  | push (n : Nat) (data : Option (List Byte))      -- `none` = NULL data pointer (zero fill)
  | unshift (n : Nat) (data : Option (List Byte))
  | pop (n : Nat) (dst : Bool)
  | shift (n : Nat) (dst : Bool)
  | crop (pos n : Nat)
  | set (pos n : Nat) (data : Option (List Byte))
  | get (pos n : Nat) (dst : Bool)
  | align (pos : Nat)
  | resize (n : Nat)
  | prepare (n : Nat)
  | find (needle : List Byte)
  | string
  | load (len : Nat) (avail : List Byte)            -- descriptor offers `avail`, then end of file
  | save (accept : Nat)                             -- descriptor accepts at most `accept` bytes
  | mget (off take : Nat) (vec : Bool)              -- `mpt_message_get` view; `vec` = continuation vector supplied
  deriving Repr

inductive XOut where
  | ok (bytes : List Byte)
  | okN (n : Nat) (bytes : List Byte)
  | found (pos : Nat)
  | notFound
  | refused
  | bad
  deriving Repr, DecidableEq

/-- bytes a push/set stores: the data, or `n` zeros -/
def srcBytes (n : Nat) (data : Option (List Byte)) : List Byte :=
  match data with
  | some b => b.take n ++ List.replicate (n - b.length) 0
  | none => List.replicate n 0

def allowedGrow (d : Deque) (cap n : Nat) (new : Deque) : List (XOut × Deque) :=
  if n = 0 then [(.ok [], d), (.refused, d)]
  else if d.length + n ≤ cap then [(.ok [], new)] else [(.refused, d)]

def allowedTake (d : Deque) (n : Nat) (dst : Bool) (res : Option (Deque × List Byte)) : List (XOut × Deque) :=
  match res with
  | some (rest, out) => (.ok out, rest) :: (if dst ∧ n ≠ 0 then [] else [(.refused, d)])
  | none => [(.refused, d)]

def allowedAt (d : Deque) (n : Nat) (res : Option Deque) (out : List Byte) : List (XOut × Deque) :=
  match res with
  | some new => (.ok out, new) :: (if n = 0 then [(.refused, d)] else [])
  | none => (.refused, d) :: (if n = 0 then [(.ok [], d)] else [])

def allowed (cap : Nat) (frag : Bool) (d : Deque) : XOp → List (XOut × Deque)
  | .push n data => allowedGrow d cap n (push d (srcBytes n data))
  | .unshift n data => allowedGrow d cap n (unshift d (srcBytes n data))
  | .pop n dst => allowedTake d n dst (pop d n)
  | .shift n dst => allowedTake d n dst (shift d n)
  | .crop pos n => allowedAt d n (crop d pos n) []
  | .set pos n data => allowedAt d n (set d pos (srcBytes n data)) []
  | .get pos n dst => allowedAt d n ((get d pos n).map fun _ => d) (if dst then (get d pos n).getD [] else [])
  | .align _ => [(.ok [], d)]
  | .resize n => [(.ok [], if n < d.length then d.drop (d.length - n) else d)]
  | .prepare n =>
    if n > cap - d.length ∧ n - (cap - d.length) > sizeMax - 8 - cap then [(.refused, d)] else [(.ok [], d)]
  | .find needle =>
    (match findAt d needle (d.length + 1) 0 with
      | some i => (.found (i * needle.length), d)
      | none => (.notFound, d))
    :: (if d.length < needle.length ∨ frag then [(.refused, d)] else [])
  | .string => if d.length < cap then [(.ok d, d)] else [(.refused, d)]
  | .load len avail =>
    let free := cap - d.length
    let k := Nat.min avail.length (if len = 0 ∨ len ≥ free then free else len)
    if free = 0 then [(.refused, d)] else [(.okN k [], d ++ avail.take k)]
  | .save accept =>
    let k := Nat.min d.length accept
    [(.okN k (d.take k), d.drop k)]
  | .mget off take vec =>
    if off + take ≤ d.length then
      (.ok ((d.drop off).take take), d) :: (if vec then [] else [(.refused, d)])
    else [(.refused, d)]

end Mpt.Deque
