/-
  Trees of named sections and name=value options (the objects C08/C09 talk about).
  Core Lean only.
-/
import MptModel.Basic
namespace Mpt.Conf

/-- a configuration node: name (empty = the node has no identifier), optional text value, children -/
inductive Tree where
  | node (name : List UInt8) (value : Option (List UInt8)) (children : List Tree)
  deriving Repr, Inhabited, BEq

abbrev Forest := List Tree

namespace Tree
def name : Tree → List UInt8 | .node n _ _ => n
def value : Tree → Option (List UInt8) | .node _ v _ => v
def children : Tree → Forest | .node _ _ cs => cs
end Tree

/-- number of nodes -/
def size : Forest → Nat
  | [] => 0
  | (.node _ _ cs) :: ts => 1 + size cs + size ts

mutual
/-- pre-order listing with depths (determines the forest; used to state concrete examples) -/
def Tree.flat (d : Nat) : Tree → List (Nat × List UInt8 × Option (List UInt8))
  | .node n v cs => (d, n, v) :: flat (d + 1) cs
def flat (d : Nat) : Forest → List (Nat × List UInt8 × Option (List UInt8))
  | [] => []
  | t :: ts => Tree.flat d t ++ flat d ts
end

/-- canonical text of the line protocol: `name[=value][(children)]`, lists joined by `,`, `.` = empty -/
def fmtTrees : Forest → List String
  | [] => []
  | (.node n v cs) :: ts =>
    (toHex n ++ (match v with | some x => "=" ++ toHex x | none => "")
      ++ (let k := fmtTrees cs; if k.isEmpty then "" else "(" ++ ",".intercalate k ++ ")")) :: fmtTrees ts

def fmtForest (f : Forest) : String := if f.isEmpty then "." else ",".intercalate (fmtTrees f)

end Mpt.Conf
