/-
  Helper lemmas for C18: crossing fractions stored by one call, and the non-zero marks of out-of-range
  drawn end points (core Lean only).
-/
import MptModel.Lemmas.LinepartFrac
namespace Mpt.Linepart
open Mpt.Visible

theorem cut_crossing (xs : List Rat) (r : Range) (x0 x1 : Rat)
    (h0 : xs[0]? = some x0) (h1 : xs[1]? = some x1) (ho : ¬ insideAt r xs 0)
    (hu : 2 ≤ (linepartLinear xs (some r)).usr) :
    r.has x1 = true ∧ 0 < (linepartLinear xs (some r)).cut ∧
    (linepartLinear xs (some r)).cut = (code (crossing x0 x1 (nearBound r x0))).toNat ∧
    0 < crossing x0 x1 (nearBound r x0) ∧ crossing x0 x1 (nearBound r x0) ≤ 1 ∧
    x0 + crossing x0 x1 (nearBound r x0) * (x1 - x0) = nearBound r x0 := by
  have hum : u16max = 65535 := rfl
  have hl : 0 < (xs.take u16max).length := by
    rw [List.length_take]
    cases xs with
    | nil => simp at h0
    | cons a as => simp; omega
  have ok := linearCore_ok r (xs.take u16max) hl
  have hu' : 2 ≤ (linearCore r (xs.take u16max)).usr := hu
  have e0 : (xs.take u16max)[0]? = some x0 := by rw [List.getElem?_take, if_pos (by omega)]; exact h0
  have e1 : (xs.take u16max)[1]? = some x1 := by rw [List.getElem?_take, if_pos (by omega)]; exact h1
  have hc := ok.first (by omega) (fun hin => ho ((insideAt_take r xs u16max 0 (by omega)).1 hin))
  obtain ⟨_, y0, y1, f0, f1, hout, hhas⟩ := headCut_spec r _ hc
  rw [e0] at f0; rw [e1] at f1; cases f0; cases f1
  obtain ⟨c1, c2, c3, c4⟩ := cutFrac_crossing r x0 x1 hout hhas
  have hcut : (linearCore r (xs.take u16max)).cut = (code (crossing x0 x1 (nearBound r x0))).toNat := by
    rw [core_cut r _ hc x0 x1 e0 e1, c1, u16_code _ (by grind) c3]
  have hp := code_pos _ c2 c3
  refine ⟨hhas, ?_, hcut, c2, c3, c4⟩
  show 0 < (linearCore r (xs.take u16max)).cut
  rw [hcut]; omega


theorem trim_crossing (xs : List Rat) (r : Range) (prev x : Rat)
    (hu : 2 ≤ (linepartLinear xs (some r)).usr)
    (hp : xs[(linepartLinear xs (some r)).usr - 2]? = some prev)
    (hx : xs[(linepartLinear xs (some r)).usr - 1]? = some x)
    (ho : ¬ insideAt r xs ((linepartLinear xs (some r)).usr - 1)) :
    r.has prev = true ∧ 0 < (linepartLinear xs (some r)).trim ∧
    (linepartLinear xs (some r)).trim = (code (crossing x prev (nearBound r x))).toNat ∧
    0 < crossing x prev (nearBound r x) ∧ crossing x prev (nearBound r x) ≤ 1 ∧
    x + crossing x prev (nearBound r x) * (prev - x) = nearBound r x := by
  have hum : u16max = 65535 := rfl
  have hne : 0 < xs.length := by
    cases xs with
    | nil => simp at hx
    | cons a as => simp
  have okx := linear_ok r xs hne
  have hule := okx.usr_le
  change 2 ≤ (linearCore r (xs.take u16max)).usr at hu
  change xs[(linearCore r (xs.take u16max)).usr - 2]? = some prev at hp
  change xs[(linearCore r (xs.take u16max)).usr - 1]? = some x at hx
  change ¬ insideAt r xs ((linearCore r (xs.take u16max)).usr - 1) at ho
  change (linearCore r (xs.take u16max)).usr ≤ min xs.length u16max at hule
  obtain ⟨hlt, hz, hus⟩ := core_trim_case r (xs.take u16max) hu
    (fun hin => ho ((insideAt_take r xs u16max _ (by omega)).1 hin))
  have ep : (xs.take u16max)[bIdx r (xs.take u16max) - 1]? = some prev := by
    rw [List.getElem?_take, if_pos (by omega), ← hp]; congr 1; omega
  have ex : (xs.take u16max)[bIdx r (xs.take u16max)]? = some x := by
    rw [List.getElem?_take, if_pos (by omega), ← hx]; congr 1; omega
  obtain ⟨y, hy, hyh⟩ := bIdx_prev_inside r (xs.take u16max) (by omega)
  rw [ep] at hy; cases hy
  obtain ⟨z, hz2, hzo⟩ := bIdx_stop r (xs.take u16max) hlt
  rw [ex] at hz2; cases hz2
  obtain ⟨c1, c2, c3, c4⟩ := cutFrac_crossing r x prev hzo hyh
  have htrim : (linearCore r (xs.take u16max)).trim = (code (crossing x prev (nearBound r x))).toNat := by
    rw [core_trim r _ hlt hz prev x ep ex, trimFrac_eq, c1, u16_code _ (by grind) c3]
  have hpz := code_pos _ c2 c3
  refine ⟨hyh, ?_, htrim, c2, c3, c4⟩
  show 0 < (linearCore r (xs.take u16max)).trim
  rw [htrim]; omega


/-- with a drawn portion that starts outside the range at least two points are drawn -/
theorem usr_ge_two (r : Range) (xs : List Rat) (hne : 0 < xs.length)
    (hu : 0 < (linepartLinear xs (some r)).usr) (ho : ¬ insideAt r xs 0) :
    2 ≤ (linepartLinear xs (some r)).usr := by
  have hum : u16max = 65535 := rfl
  have hl : 0 < (xs.take u16max).length := by rw [List.length_take]; omega
  have ok := linearCore_ok r (xs.take u16max) hl
  change 0 < (linearCore r (xs.take u16max)).usr at hu
  show 2 ≤ (linearCore r (xs.take u16max)).usr
  have hc := ok.first hu (fun hin => ho ((insideAt_take r xs u16max 0 (by omega)).1 hin))
  have hb : 2 ≤ bIdx r (xs.take u16max) := by
    unfold bIdx kIdx; simp only [hc, ↓reduceIte]; omega
  rw [linearCore_eq]
  split
  · simp only []; omega
  · simp only []
    rw [if_pos (by omega)]; omega

/-- one call: drawn end points outside the range carry non-zero cut / trim codes -/
theorem call_flagged (r : Range) (xs : List Rat) (hne : 0 < xs.length) :
    (0 < (linepartLinear xs (some r)).usr → ¬ insideAt r xs 0 → 0 < (linepartLinear xs (some r)).cut) ∧
    (0 < (linepartLinear xs (some r)).usr → ¬ insideAt r xs ((linepartLinear xs (some r)).usr - 1) →
      0 < (linepartLinear xs (some r)).trim) := by
  have okx := linear_ok r xs hne
  have hule := okx.usr_le
  constructor
  · intro hu ho
    have h2 := usr_ge_two r xs hne hu ho
    have e0 : ∃ x0, xs[0]? = some x0 := ⟨xs[0], by simp [hne]⟩
    have e1 : ∃ x1, xs[1]? = some x1 := ⟨xs[1]'(by omega), by rw [List.getElem?_eq_getElem]⟩
    obtain ⟨x0, h0⟩ := e0
    obtain ⟨x1, h1⟩ := e1
    exact (cut_crossing xs r x0 x1 h0 h1 ho h2).2.1
  · intro hu ho
    have h2 : 2 ≤ (linepartLinear xs (some r)).usr := by
      by_cases h1 : (linepartLinear xs (some r)).usr = 1
      · rw [h1] at ho
        have := usr_ge_two r xs hne hu (by simpa using ho)
        omega
      · omega
    have ep : ∃ p, xs[(linepartLinear xs (some r)).usr - 2]? = some p :=
      ⟨xs[(linepartLinear xs (some r)).usr - 2]'(by omega), by rw [List.getElem?_eq_getElem]⟩
    have ex : ∃ x, xs[(linepartLinear xs (some r)).usr - 1]? = some x :=
      ⟨xs[(linepartLinear xs (some r)).usr - 1]'(by omega), by rw [List.getElem?_eq_getElem]⟩
    obtain ⟨p, hp⟩ := ep
    obtain ⟨x, hx⟩ := ex
    exact (trim_crossing xs r p x h2 hp hx ho).2.1

theorem insideAt_shift (r : Range) (xs zs : List Rat) (s : Nat) (hz : ∀ j, zs[j]? = xs[s + j]?) (j : Nat) :
    insideAt r zs j ↔ insideAt r xs (s + j) := by
  unfold insideAt; rw [hz]

theorem partsAux_flagged (r : Range) (xs : List Rat) (fuel : Nat) (zs : List Rat) (s : Nat)
    (hz : ∀ j, zs[j]? = xs[s + j]?) (h : zs.length ≤ fuel) :
    Flagged r xs (partsAux (some r) fuel zs) s := by
  induction fuel generalizing zs s with
  | zero => rw [partsAux_nil _ 0 zs (by omega)]; trivial
  | succ n ih =>
    by_cases hne : 0 < zs.length
    · rw [partsAux_cons _ n zs hne]
      have ok := linear_ok r zs hne
      obtain ⟨f1, f2⟩ := call_flagged r zs hne
      generalize linepartLinear zs (some r) = p at ok f1 f2
      refine ⟨?_, ?_, ih (zs.drop p.raw) (s + p.raw) ?_ ?_⟩
      · intro hu ho
        exact f1 hu (fun hin => ho (by simpa using (insideAt_shift r xs zs s hz 0).1 hin))
      · intro hu ho
        apply f2 hu
        intro hin
        apply ho
        have := (insideAt_shift r xs zs s hz (p.usr - 1)).1 hin
        rw [show s + p.usr - 1 = s + (p.usr - 1) by omega]; exact this
      · intro j; rw [List.getElem?_drop, hz]; congr 1; omega
      · have := ok.pos; have := ok.raw_le; simp only [List.length_drop]; omega
    · rw [partsAux_nil _ _ zs (by omega)]; trivial

end Mpt.Linepart
