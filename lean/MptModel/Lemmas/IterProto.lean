/-
  Helper lemmas for C19 (core Lean only): the protocol automaton on text and buffer argument iterators for
  arbitrary call sequences.
-/
import MptModel.Lemmas.IterArgsLemmas
import MptModel.Lemmas.IterBufLemmas
namespace Mpt.Iter
open Mpt.IterSpec

/-! ### text argument iterator -/

/-- what a call on the model of a text argument reports -/
inductive TOut where
  | val (v : Option Rat)      -- NULL or the converted number
  | noconv                    -- the element is not a number
  | adv (a : AdvRes)
  | rst
  deriving Repr, DecidableEq

/-- one call: `value` = `value()` and conversion of the element to `double` -/
def StrIt.step (s : StrIt) : Call → StrIt × TOut
  | .value =>
    if !s.hasValue then (s, .val none)
    else match s.conv with
      | (s1, .ok v) => (s1, .val (some v))
      | (s1, .err _) => (s1, .noconv)
  | .advance => (s.advance.1, .adv s.advance.2)
  | .reset => (s.reset.1, .rst)

def StrIt.run (s : StrIt) : List Call → List TOut
  | [] => []
  | op :: ops => (s.step op).2 :: StrIt.run (s.step op).1 ops

/-- a report of the model is what the protocol demands; past the end "no further element" may be reported
    once more before the error -/
def resOk : TRes → TOut → Prop
  | .val v, .val w => v = w
  | .adv .more, .adv .more => True
  | .adv .last, .adv .last => True
  | .adv .err, .adv (.err _) => True
  | .adv .err, .adv .last => True
  | .rst, .rst => True
  | _, _ => False

/-- conversion of an element that is followed by a separator, whatever mark an earlier read has left -/
theorem conv_mid' (sep pre t : List Char) (c : Char) (rest : List Char) (v : Rat) (h : strictNumber t = some v)
    (hs : SepChar c) (r0 : Option Nat) (p0 : Bool) :
    ({ atPos sep (pre ++ (t ++ c :: rest)) pre.length with restore := r0, patched := p0 } : StrIt).conv =
      ({ atPos sep (pre ++ (t ++ c :: rest)) pre.length with restore := some (pre.length + t.length), patched := true },
        .ok v) := by
  have hst : Stops (c :: rest) := by intro x hx; simp at hx; subst hx; exact hs
  have hc := cdouble_strict t (c :: rest) v h hst
  have hd := strict_dropSpace t (c :: rest) v h
  have hne := strict_ne_nil t v h
  have he : (t ++ c :: rest).isEmpty = false := by cases t with | nil => exact absurd rfl hne | cons _ _ => rfl
  unfold StrIt.conv StrIt.convWith atPos
  simp only [List.drop_left, he, Bool.false_eq_true, ↓reduceIte, hd, hc]
  have hr : pre.length + ((t ++ c :: rest).length - (c :: rest).length) = pre.length + t.length := by simp
  rw [hr]
  rw [if_neg (by simp)]

/-- every report is what the automaton demands -/
def allOk : List TRes → List TOut → Prop
  | [], [] => True
  | r :: rs, o :: os => resOk r o ∧ allOk rs os
  | _, _ => False

/-- the states of a text iterator over `text = … sepJoin … last` that the calls can reach, related to the
    protocol automaton -/
inductive StrRel (sep text last : List Char) (vl : Rat) (all : List Rat) : TCur → StrIt → Prop
  | fresh (c : TCur) (pre : List Char) (todo : List (List Char × Char)) (vs : List Rat)
      (htext : text = pre ++ sepJoin todo last) (hp : ∀ p ∈ todo, SepChar p.2)
      (hv : todo.map (fun p => strictNumber p.1) = vs.map some) (hall : c.all = all)
      (hrem : c.rem = vs ++ [vl]) (hread : c.read = true → todo = []) :
      StrRel sep text last vl all c (atPos sep text pre.length)
  | read (c : TCur) (pre t : List Char) (ch : Char) (more : List (List Char × Char)) (v : Rat) (vs : List Rat)
      (htext : text = pre ++ (t ++ ch :: sepJoin more last)) (hs : SepChar ch) (ht : strictNumber t = some v)
      (hp : ∀ p ∈ more, SepChar p.2) (hv : more.map (fun p => strictNumber p.1) = vs.map some) (hall : c.all = all)
      (hrem : c.rem = v :: (vs ++ [vl])) :
      StrRel sep text last vl all c
        { atPos sep text pre.length with restore := some (pre.length + t.length), patched := true }
  | ended (c : TCur) (s : StrIt) (hpos : s.pos = none) (ht : s.text = text) (hsep : s.sep = sep)
      (hall : c.all = all) (hrem : c.rem = []) : StrRel sep text last vl all c s

theorem strRel_text {sep text last : List Char} {vl : Rat} {all : List Rat} {c : TCur} {s : StrIt}
    (h : StrRel sep text last vl all c s) : s.text = text ∧ s.sep = sep ∧ c.all = all := by
  cases h with
  | fresh _ _ _ _ _ _ hall _ _ => exact ⟨rfl, rfl, hall⟩
  | read _ _ _ _ _ _ _ _ _ _ _ hall _ => exact ⟨rfl, rfl, hall⟩
  | ended _ _ ht hsep hall _ => exact ⟨ht, hsep, hall⟩

/-- one call keeps the relation and reports what the automaton demands -/
theorem strRel_step (sep last : List Char) (vl : Rat) (pairs : List (List Char × Char)) (vsAll : List Rat)
    (hpA : ∀ p ∈ pairs, SepChar p.2) (hvA : pairs.map (fun p => strictNumber p.1) = vsAll.map some)
    (hl : strictNumber last = some vl) (c : TCur) (s : StrIt)
    (h : StrRel sep (sepJoin pairs last) last vl (vsAll ++ [vl]) c s) (op : Call) (c' : TCur) (r : TRes)
    (hstep : c.step op = some (c', r)) :
    StrRel sep (sepJoin pairs last) last vl (vsAll ++ [vl]) c' (s.step op).1 ∧ resOk r (s.step op).2 := by
  obtain ⟨htx, hsp, hcall⟩ := strRel_text h
  cases op with
  | reset =>
    simp only [TCur.step, Option.some.injEq, Prod.mk.injEq] at hstep
    obtain ⟨hc', hr⟩ := hstep
    subst hc'; subst hr
    have hs0 : (s.step .reset).1 = atPos sep (sepJoin pairs last) ([] : List Char).length := by
      simp only [StrIt.step, StrIt.reset, atPos, List.length_nil]
      rw [← htx, ← hsp]
    rw [hs0]
    refine ⟨StrRel.fresh _ [] pairs vsAll (by simp) hpA hvA hcall (by simp [hcall]) (by simp), ?_⟩
    simp [StrIt.step, resOk]
  | value =>
    simp only [TCur.step, Option.some.injEq, Prod.mk.injEq] at hstep
    obtain ⟨hc', hr⟩ := hstep
    subst hc'; subst hr
    cases h with
    | fresh pre todo vs htext hp hv hall hrem hread =>
      cases todo with
      | nil =>
        cases vs with
        | cons _ _ => simp at hv
        | nil =>
          simp only [sepJoin] at htext
          have hcv := conv_last sep pre last vl hl
          rw [← htext] at hcv
          have hval : (atPos sep (sepJoin pairs last) pre.length).hasValue = true := rfl
          simp only [StrIt.step, hval, Bool.not_true, Bool.false_eq_true, ↓reduceIte, hcv]
          refine ⟨StrRel.fresh _ pre [] [] (by simpa [sepJoin] using htext) (by simp) (by simp) hall hrem (by simp), ?_⟩
          simp [resOk, hrem]
      | cons p more =>
        obtain ⟨t, ch⟩ := p
        cases vs with
        | nil => simp at hv
        | cons v vs' =>
          simp only [List.map_cons, List.cons.injEq] at hv
          obtain ⟨ht, hv'⟩ := hv
          simp only [sepJoin] at htext
          have hcv := conv_mid sep pre t ch (sepJoin more last) v ht (hp (t, ch) (by simp))
          rw [← htext] at hcv
          have hval : (atPos sep (sepJoin pairs last) pre.length).hasValue = true := rfl
          simp only [StrIt.step, hval, Bool.not_true, Bool.false_eq_true, ↓reduceIte, hcv]
          refine ⟨StrRel.read _ pre t ch more v vs' htext (hp (t, ch) (by simp)) ht
            (fun q hq => hp q (by simp [hq])) hv' hall (by simpa using hrem), ?_⟩
          simp [resOk, hrem]
    | read pre t ch more v vs htext hs ht hp hv hall hrem =>
      have hcv := conv_mid' sep pre t ch (sepJoin more last) v ht hs (some (pre.length + t.length)) true
      rw [← htext] at hcv
      have hval : ({ atPos sep (sepJoin pairs last) pre.length with
          restore := some (pre.length + t.length), patched := true } : StrIt).hasValue = true := rfl
      simp only [StrIt.step, hval, Bool.not_true, Bool.false_eq_true, ↓reduceIte, hcv]
      refine ⟨StrRel.read _ pre t ch more v vs htext hs ht hp hv hall hrem, ?_⟩
      simp [resOk, hrem]
    | ended _ hpos ht hsep hall hrem =>
      have hval : s.hasValue = false := by simp [StrIt.hasValue, hpos]
      simp only [StrIt.step, hval, Bool.not_false, ↓reduceIte]
      refine ⟨StrRel.ended _ s hpos ht hsep hall hrem, ?_⟩
      simp [resOk, hrem]
  | advance =>
    cases h with
    | fresh pre todo vs htext hp hv hall hrem hread =>
      simp only [TCur.step, hrem] at hstep
      cases vs with
      | cons v vs' =>
        -- an element in the middle, not read: no statement
        simp only [List.cons_append] at hstep
        split at hstep
        · rename_i hrd
          have := hread hrd
          subst this
          simp at hv
        · cases hstep
      | nil =>
        cases todo with
        | cons _ _ => simp at hv
        | nil =>
          simp only [List.nil_append] at hstep
          split at hstep
          · simp only [Option.some.injEq, Prod.mk.injEq] at hstep
            obtain ⟨hc', hr⟩ := hstep
            subst hc'; subst hr
            simp only [sepJoin] at htext
            have hne := strict_ne_nil last vl hl
            have hlt : pre.length < (sepJoin pairs last).length := by
              have : 0 < last.length := by cases last with | nil => exact absurd rfl hne | cons _ _ => simp
              rw [htext]; simp; omega
            simp only [StrIt.step, advance_last sep _ _ hlt]
            refine ⟨StrRel.ended _ _ rfl rfl rfl hall rfl, ?_⟩
            simp [resOk]
          · cases hstep
    | read pre t ch more v vs htext hs ht hp hv hall hrem =>
      simp only [TCur.step, hrem] at hstep
      cases hrd : c.read with
      | false => rw [hrd] at hstep; simp at hstep
      | true =>
        rw [hrd] at hstep
        simp only [↓reduceIte, Option.some.injEq, Prod.mk.injEq] at hstep
        obtain ⟨hc', hr⟩ := hstep
        subst hc'; subst hr
        have hlt : pre.length < (sepJoin pairs last).length := by rw [htext]; simp; omega
        have hnl : NoLeadSpace ((sepJoin pairs last).drop (pre.length + t.length + 1)) := by
          have e : sepJoin pairs last = (pre ++ t ++ [ch]) ++ sepJoin more last := by rw [htext]; simp
          have l : pre.length + t.length + 1 = (pre ++ t ++ [ch]).length := by simp; omega
          rw [e, l, List.drop_left]
          exact sepJoin_noLead more last vs vl hv hl
        simp only [StrIt.step, advance_mid sep _ _ _ hlt hnl]
        have htxt : sepJoin pairs last = (pre ++ t ++ [ch]) ++ sepJoin more last := by rw [htext]; simp
        have hpos : pre.length + t.length + 1 = (pre ++ t ++ [ch]).length := by simp; omega
        rw [hpos]
        refine ⟨StrRel.fresh _ (pre ++ t ++ [ch]) more vs htxt hp hv hall rfl (by simp), ?_⟩
        simp [resOk]
    | ended _ hpos ht hsep hall hrem =>
      simp only [TCur.step, hrem, Option.some.injEq, Prod.mk.injEq] at hstep
      obtain ⟨hc', hr⟩ := hstep
      subst hc'; subst hr
      simp only [StrIt.step, StrIt.advance, hpos]
      by_cases he : s.endNull = true
      · simp only [he, ↓reduceIte]
        exact ⟨StrRel.ended _ s hpos ht hsep hall hrem, by simp [resOk]⟩
      · simp only [he, Bool.false_eq_true, ↓reduceIte]
        exact ⟨StrRel.ended _ _ rfl ht hsep hall hrem, by simp [resOk]⟩

/-- the relation is kept along every call sequence the automaton makes a statement about -/
theorem strRel_run (sep last : List Char) (vl : Rat) (pairs : List (List Char × Char)) (vsAll : List Rat)
    (hpA : ∀ p ∈ pairs, SepChar p.2) (hvA : pairs.map (fun p => strictNumber p.1) = vsAll.map some)
    (hl : strictNumber last = some vl) (ops : List Call) (c : TCur) (s : StrIt)
    (h : StrRel sep (sepJoin pairs last) last vl (vsAll ++ [vl]) c s) (outs : List TRes)
    (hrun : c.run ops = some outs) : allOk outs (s.run ops) := by
  induction ops generalizing c s outs with
  | nil =>
    simp only [TCur.run, Option.some.injEq] at hrun
    subst hrun
    exact True.intro
  | cons op ops ih =>
    simp only [TCur.run] at hrun
    cases hst : c.step op with
    | none => rw [hst] at hrun; cases hrun
    | some pr =>
      obtain ⟨c', r⟩ := pr
      rw [hst] at hrun
      simp only [] at hrun
      cases hro : c'.run ops with
      | none => rw [hro] at hrun; cases hrun
      | some outs' =>
        rw [hro] at hrun
        simp only [Option.map_some, Option.some.injEq] at hrun
        subst hrun
        obtain ⟨hrel, hres⟩ := strRel_step sep last vl pairs vsAll hpA hvA hl c s h op c' r hst
        exact ⟨hres, ih c' _ hrel outs' hro⟩

/-! ### buffer argument iterator -/

/-- what a call on the model of a buffer argument reports -/
inductive BOut where
  | val (v : Option (List Char))     -- NULL or the string
  | other                            -- an element that is not a terminated string
  | adv (a : Adv)
  | rst (ok : Bool)
  deriving Repr, DecidableEq

def BufIt.step (b : BufIt) : Call → BufIt × BOut
  | .value => (b, match b.value with | .null => .val none | .str s => .val (some s) | .vec _ => .other)
  | .advance => (b.advance.1, .adv (advClass b.advance.2))
  | .reset => (b.reset.1, .rst (decide (0 ≤ b.reset.2)))

def BufIt.run (b : BufIt) : List Call → List BOut
  | [] => []
  | op :: ops => (b.step op).2 :: BufIt.run (b.step op).1 ops

/-- the same calls on the automaton over the strings -/
def lstep (c : LCur (List Char)) : Call → LCur (List Char) × BOut
  | .value => (c, .val c.value)
  | .advance => (c.advance.1, .adv c.advance.2)
  | .reset => (c.reset, .rst true)

def lrun (c : LCur (List Char)) : List Call → List BOut
  | [] => []
  | op :: ops => (lstep c op).2 :: lrun (lstep c op).1 ops

/-- state behind the last string -/
def bufEnd (data : List Char) : BufIt :=
  { data := data, hasBuf := true, off := data.length, len := 0, str := none, args := false }

theorem bufAt_advance_end (pre cur : List Char) :
    (bufAt false pre cur []).advance = (bufEnd (pre ++ (cur ++ [nul])), .last) := by
  unfold BufIt.advance BufIt.sliceNext bufAt bufEnd
  simp only [Bool.not_true, Bool.false_eq_true, ↓reduceIte, false_or, List.length_append, List.length_cons,
    List.length_nil]
  rw [if_neg (by omega), if_pos ⟨by omega, by omega⟩]

theorem bufEnd_advance (data : List Char) : (bufEnd data).advance = (bufEnd data, .err .MissingData) := by
  unfold BufIt.advance BufIt.sliceNext bufEnd
  simp

theorem bufEnd_value (data : List Char) : (bufEnd data).value = .null := by
  simp [BufIt.value, bufEnd]

/-- `reset` positions any state over the same data at the first string -/
theorem buf_reset (b : BufIt) (cur : List Char) (more : List (List Char)) (hc : nul ∉ cur)
    (hd : b.data = joinNul (cur :: more)) (hb : b.hasBuf = true) (ha : b.args = false) :
    b.reset = (bufAt false [] cur (joinNul more), 115) := by
  obtain ⟨data, hasBuf, off, len, str, args⟩ := b
  simp only at hd hb ha
  subst hd; subst hb; subst ha
  unfold BufIt.reset BufIt.resetPlain BufIt.advance BufIt.sliceNext
  simp only [joinNul, Bool.false_eq_true, ↓reduceIte, Bool.not_true, false_or, Nat.sub_zero, Nat.add_zero,
    List.drop_zero]
  rw [if_neg (by simp)]
  simp only [ne_eq, not_true_eq_false, false_and, ↓reduceIte]
  rw [if_neg (by simp)]
  have : List.take (cur ++ nul :: joinNul more).length (cur ++ nul :: joinNul more) = cur ++ nul :: joinNul more :=
    List.take_length
  rw [this, findNul_app cur _ hc]
  simp [bufAt]

/-- reachable states related to the automaton: at a string, or behind the last one -/
inductive BufRel (data : List Char) (all : List (List Char)) : LCur (List Char) → BufIt → Prop
  | here (c : LCur (List Char)) (pre cur : List Char) (more : List (List Char))
      (hd : data = pre ++ joinNul (cur :: more)) (hc : nul ∉ cur) (hm : ∀ s ∈ more, nul ∉ s)
      (hall : c.all = all) (hrem : c.rem = cur :: more) : BufRel data all c (bufAt false pre cur (joinNul more))
  | done (c : LCur (List Char)) (hall : c.all = all) (hrem : c.rem = []) : BufRel data all c (bufEnd data)

theorem bufRel_step (first : List Char) (rest : List (List Char)) (hf : nul ∉ first) (hr : ∀ s ∈ rest, nul ∉ s)
    (c : LCur (List Char)) (b : BufIt) (h : BufRel (joinNul (first :: rest)) (first :: rest) c b) (op : Call) :
    BufRel (joinNul (first :: rest)) (first :: rest) (lstep c op).1 (b.step op).1 ∧ (b.step op).2 = (lstep c op).2 := by
  cases op with
  | value =>
    cases h with
    | here pre cur more hd hc hm hall hrem =>
      refine ⟨BufRel.here _ pre cur more hd hc hm hall hrem, ?_⟩
      simp only [BufIt.step, lstep, bufAt_value false pre cur _ hc, LCur.value, hrem, List.head?_cons]
    | done hall hrem =>
      refine ⟨BufRel.done _ hall hrem, ?_⟩
      simp only [BufIt.step, lstep, bufEnd_value, LCur.value, hrem, List.head?_nil]
  | advance =>
    cases h with
    | here pre cur more hd hc hm hall hrem =>
      cases more with
      | nil =>
        simp only [joinNul] at hd ⊢
        simp only [BufIt.step, lstep, bufAt_advance_end, LCur.advance, hrem, advClass, List.isEmpty_nil, ↓reduceIte]
        have : pre ++ (cur ++ [nul]) = joinNul (first :: rest) := hd.symm
        rw [this]
        exact ⟨BufRel.done _ hall rfl, trivial⟩
      | cons nxt more' =>
        simp only [joinNul]
        simp only [BufIt.step, lstep, bufAt_advance_more false pre cur nxt (joinNul more') (hm nxt (by simp)),
          LCur.advance, hrem, advClass, List.isEmpty_cons, Bool.false_eq_true, ↓reduceIte]
        refine ⟨BufRel.here _ (pre ++ cur ++ [nul]) nxt more' ?_ (hm nxt (by simp)) (fun s hs => hm s (by simp [hs]))
          hall rfl, trivial⟩
        show joinNul (first :: rest) = _
        rw [hd]; simp [joinNul]
    | done hall hrem =>
      simp only [BufIt.step, lstep, bufEnd_advance, LCur.advance, hrem, advClass]
      exact ⟨BufRel.done _ hall hrem, trivial⟩
  | reset =>
    have hdat : b.data = joinNul (first :: rest) ∧ b.hasBuf = true ∧ b.args = false ∧ c.all = first :: rest := by
      cases h with
      | here pre cur more hd hc hm hall hrem => exact ⟨by rw [hd]; rfl, rfl, rfl, hall⟩
      | done hall hrem => exact ⟨rfl, rfl, rfl, hall⟩
    obtain ⟨h1, h2, h3, h4⟩ := hdat
    have hrs := buf_reset b first rest hf h1 h2 h3
    simp only [BufIt.step, lstep, hrs, LCur.reset]
    refine ⟨BufRel.here _ [] first rest (by simp) hf hr h4 h4, ?_⟩
    simp

theorem bufRel_run (first : List Char) (rest : List (List Char)) (hf : nul ∉ first) (hr : ∀ s ∈ rest, nul ∉ s)
    (ops : List Call) (c : LCur (List Char)) (b : BufIt)
    (h : BufRel (joinNul (first :: rest)) (first :: rest) c b) : b.run ops = lrun c ops := by
  induction ops generalizing c b with
  | nil => rfl
  | cons op ops ih =>
    obtain ⟨h1, h2⟩ := bufRel_step first rest hf hr c b h op
    simp only [BufIt.run, lrun, h2, ih _ _ h1]

end Mpt.Iter
