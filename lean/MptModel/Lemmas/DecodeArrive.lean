/-
  Lemmas for C03 (core Lean only): a decoder call as a step of one machine run over the arriving stream
  (`Hist`, `CallRes`), the tail-inline fix-up, and honesty over arbitrary arrival patterns (`arrive_honest`).
-/
import MptModel.Lemmas.DecodeResume
namespace Mpt.Codec
open Mpt.Cobs

theorem mach_ext (v : Variant) (xs ys : List Byte) : ∀ (c p : Nat),
    (∀ out, mach v c p xs = .done out → mach v c p (xs ++ ys) = .done out) ∧
    (∀ out a b, mach v c p xs = .zeroIn out a b → mach v c p (xs ++ ys) = .zeroIn out a b) := by
  induction xs with
  | nil => intro c p; simp [mach]
  | cons x xs ih =>
    intro c p
    simp only [List.cons_append, mach]
    by_cases hd : p < lenData v c
    · simp only [hd, if_true]
      by_cases hx : x = 0
      · simp [hx]
      · simp only [hx, if_false]
        have := ih c (p + 1)
        constructor
        · intro out h
          cases hm : mach v c (p + 1) xs with
          | done o => rw [hm] at h; rw [this.1 o hm]; exact h
          | zeroIn o a b => rw [hm] at h; simp [MRes.pre] at h
          | more => rw [hm] at h; simp [MRes.pre] at h
        · intro out a b h
          cases hm : mach v c (p + 1) xs with
          | done o => rw [hm] at h; simp [MRes.pre] at h
          | zeroIn o a' b' => rw [hm] at h; rw [this.2 o a' b' hm]; exact h
          | more => rw [hm] at h; simp [MRes.pre] at h
    · simp only [hd, if_false]
      by_cases hx : x = 0
      · simp [hx]
      · simp only [hx, if_false]
        have := ih x.toNat 0
        constructor
        · intro out h
          cases hm : mach v x.toNat 0 xs with
          | done o => rw [hm] at h; rw [this.1 o hm]; exact h
          | zeroIn o a b => rw [hm] at h; simp [MRes.pre] at h
          | more => rw [hm] at h; simp [MRes.pre] at h
        · intro out a b h
          cases hm : mach v x.toNat 0 xs with
          | done o => rw [hm] at h; simp [MRes.pre] at h
          | zeroIn o a' b' => rw [hm] at h; rw [this.2 o a' b' hm]; exact h
          | more => rw [hm] at h; simp [MRes.pre] at h

/-- the decoder state stands for a machine run that has consumed `c0 :: U` up to the unread bytes -/
structure Hist (v : Variant) (c0 : Nat) (U : List Byte) (st : DecState) (store : List Byte) : Prop where
  msg : st.msg = none
  curr : st.curr ≤ store.length
  ex : ∃ c p, st.ctx = p * 256 + c ∧ 0 < c ∧ c < 256 ∧ p < 256 ∧
    ∀ more, mach v c0 0 (U ++ more) = (mach v c p (store.drop st.curr ++ more)).pre ((store.drop st.pos).take st.len)

/-- what one decoder call means for the machine run on all bytes `U'` that have arrived behind `c0` -/
structure CallRes (v : Variant) (c0 : Nat) (U' : List Byte) (o : DecOut) : Prop where
  zero : o.ret = .val 0 → Hist v c0 U' o.st o.store
  one : o.ret = .val 1 → mach v c0 0 U' = .done o.region ∧ o.st.msg = some o.st.len
  md : o.ret = .err .MissingData →
    ∃ code pos, mach v c0 0 U' = .zeroIn o.region code pos ∧ o.st.ctx % 256 = code ∧ o.st.ctx ≠ 0

theorem pre_done_eq {m : MRes} {xs out : List Byte} (h : m = .done out) : m.pre xs = .done (xs ++ out) := by
  subst h; rfl

theorem loop_callres (v : Variant) (st' : DecState) (l : Loc) (c0 : Nat) (U' : List Byte)
    (hrel : ∀ more, mach v c0 0 (U' ++ more) = (mach v l.code l.pos (l.store.drop l.r ++ more)).pre l.acc)
    (hpos : st'.pos = l.done) (hmsg : st'.msg = none) (hr : l.r ≤ l.store.length)
    (hc0 : 0 < l.code) (hc : l.code < 256) (hp : l.pos < 256) :
    CallRes v c0 U' (decLoop v st' false (l.store.length - l.r) l) := by
  have hn : l.r + (l.store.length - l.r) = l.store.length := by omega
  have hspec := decLoop_spec v st' _ l hn hc0 hc
  have hsusp := decLoop_susp v st' _ l hn hc0 hc hp
  generalize decLoop v st' false (l.store.length - l.r) l = o at hspec hsusp
  have hrel0 := hrel []
  simp only [List.append_nil] at hrel0
  constructor
  · intro h0
    obtain ⟨out, c, p, e1, e2, e3, e4, e5, e6⟩ := hsusp.sv (by rw [h0]; simp)
    have hreg : (o.store.drop o.st.pos).take o.st.len = l.acc ++ out := by
      rw [e1]; simp only; rw [hpos]; exact e5
    refine ⟨by rw [e1]; exact hmsg, ?_, c, p, by rw [e1], e2, e3, e4, ?_⟩
    · have := hsusp.curr.2; have := hsusp.len
      simp only [List.length_drop] at *; omega
    · intro more
      rw [hrel, e6, MRes.pre_pre, hreg, hsusp.unread, List.drop_drop]
      have hk : l.r + (o.st.curr - l.r) = o.st.curr := by have := hsusp.curr.1; omega
      rw [hk]
  · intro h1
    obtain ⟨out, e1, e2, e3, e4, e5, e6⟩ := hspec.one h1
    refine ⟨?_, e4⟩
    rw [hrel0, pre_done_eq e1]
    simp only [DecOut.region, e2, e6]
  · intro hm
    obtain ⟨out, code, pos, e1, e2, e3, e4, e5, e6⟩ := hspec.md hm
    refine ⟨code, pos, ?_, e4, e5⟩
    rw [hrel0, e1]
    simp only [MRes.pre, DecOut.region, e2, hpos, e6]


theorem flat_single (a : Nat) (s : List Byte) : flat [(a, s)] = s := by simp [flat]

theorem take_drop_append_le (s t : List Byte) (i n : Nat) (h : i + n ≤ s.length) :
    ((s ++ t).drop i).take n = (s.drop i).take n := by
  rw [List.drop_append_of_le_length (by omega), List.take_append_of_le_length (by simp; omega)]

theorem ctx_code (c p : Nat) (hc : c < 256) : (p * 256 + c) % 256 = c := by omega
theorem ctx_pos (c p : Nat) (hc : c < 256) (hp : p < 256) : ((p * 256 + c) / 256) % 256 = p := by omega

/-- entry into the block loop from a state with an open block -/
theorem decPrep_mid (st : DecState) (segs : List Seg) (store2 : List Byte) (st' : DecState) (l : Loc) (c p : Nat)
    (hmsg : st.msg = none) (hctx : st.ctx = p * 256 + c) (hc0 : 0 < c) (hc : c < 256) (hp : p < 256)
    (h : decPrep st segs store2 false = .inr (st', l)) :
    l.store = store2 ∧ l.code = c ∧ l.pos = p ∧ l.mlen = st.len ∧ l.r = st.curr ∧ st'.pos = l.done ∧
    st'.msg = none ∧ l.r ≤ store2.length ∧ st.pos + st.len ≤ st.curr ∧ (st.len ≠ 0 → l.done = st.pos) := by
  have hprev : decPrev st = (st, st.pos, st.len) := by simp [decPrev, hmsg]
  unfold decPrep at h
  simp only [hprev, hmsg, Option.isSome_none, Bool.false_eq_true, false_and, if_false] at h
  split at h
  · simp at h
  rename_i hg
  have hp1 := alignPost_le (cursorAt segs (st.pos + st.len)).1 (cursorAt segs (st.pos + st.len)).2 (st.curr - (st.pos + st.len))
  have hcne : ¬ (st.ctx % 256 = 0) := by rw [hctx, ctx_code c p hc]; omega
  split at h
  · rename_i hl
    unfold decEnter at h
    split at h
    · simp at h
    rename_i hg2
    simp only [Sum.inr.injEq, Prod.mk.injEq] at h
    obtain ⟨rfl, rfl⟩ := h
    refine ⟨rfl, by simp [hctx, ctx_code c p hc], by simp [hctx, ctx_pos c p hc hp], by simp [hl], ?_, rfl, by first | rfl | simp [hmsg], ?_, by omega, by simp [hl]⟩
    · simp only [Loc.r]; omega
    · simp only [Loc.r] at *; omega
  · rename_i hl
    unfold decEnter at h
    split at h
    · simp at h
    rename_i hg2
    simp only [Sum.inr.injEq, Prod.mk.injEq] at h
    obtain ⟨rfl, rfl⟩ := h
    refine ⟨rfl, by simp [hctx, ctx_code c p hc], by simp [hctx, ctx_pos c p hc hp], rfl, ?_, ?_, hmsg, ?_, by omega, fun _ => rfl⟩
    · simp only [Loc.r]; omega
    · rfl
    · simp only [Loc.r] at *; omega


theorem CallRes.ofErr (v : Variant) (c0 : Nat) (U : List Byte) (e : Err) (st : DecState) (store : List Byte)
    (he : e ≠ .MissingData) : CallRes v c0 U { ret := .err e, st := st, store := store } :=
  ⟨by simp, by simp, by simp [he]⟩

/-- a call that continues an open block with more input -/
theorem resume_call (v : Variant) (a : Nat) (st : DecState) (store piece : List Byte) (c0 : Nat) (U : List Byte)
    (h : Hist v c0 U st store) : CallRes v c0 (U ++ piece) (decodeCobs v st [(a, store ++ piece)] false) := by
  obtain ⟨hmsg, hcurr, c, p, hctx, hc0, hc, hp, hrel⟩ := h
  unfold decodeCobs
  simp only [Bool.false_eq_true, if_false, flat_single]
  cases hprep : decPrep st [(a, store ++ piece)] (store ++ piece) false with
  | inl es =>
    obtain ⟨e, st'⟩ := es
    exact CallRes.ofErr v c0 _ e st' _ (decPrep_err _ _ _ _ _ _ hprep)
  | inr sl =>
    obtain ⟨st', l⟩ := sl
    obtain ⟨h1, h2, h3, h4, h5, h6, h7, h8, h9, h10⟩ := decPrep_mid st _ _ st' l c p hmsg hctx hc0 hc hp hprep
    simp only
    unfold decStart
    rw [if_neg (by omega)]
    have hacc : l.acc = (store.drop st.pos).take st.len := by
      simp only [Loc.acc, h1, h4]
      by_cases hl : st.len = 0
      · simp [hl]
      · rw [h10 hl]; exact take_drop_append_le _ _ _ _ (by omega)
    refine loop_callres v st' l c0 (U ++ piece) ?_ h6 h7 (by rw [h1]; exact h8) (by omega) (by omega) (by omega)
    intro more
    rw [h2, h3, h5, h1, hacc, List.append_assoc, hrel, List.drop_append_of_le_length hcurr, List.append_assoc]

/-- the first call on a fresh state: nothing has arrived, or a delimiter, or the first code byte `c0` -/
theorem start_call (v : Variant) (a : Nat) (st : DecState) (store2 : List Byte) (hf : Fresh st) :
    (store2.drop st.curr = [] → (decodeCobs v st [(a, store2)] false).ret ≠ .val 1 ∧
        ((decodeCobs v st [(a, store2)] false).ret = .val 0 →
          Fresh (decodeCobs v st [(a, store2)] false).st ∧ (decodeCobs v st [(a, store2)] false).st.curr = st.curr ∧
          (decodeCobs v st [(a, store2)] false).store = store2)) ∧
    (∀ tl, store2.drop st.curr = 0 :: tl → (decodeCobs v st [(a, store2)] false).ret ≠ .val 1 ∧
        (decodeCobs v st [(a, store2)] false).ret ≠ .val 0 ∧ (decodeCobs v st [(a, store2)] false).ret ≠ .err .MissingData) ∧
    (∀ c0 U, store2.drop st.curr = c0 :: U → c0 ≠ 0 → CallRes v c0.toNat U (decodeCobs v st [(a, store2)] false)) := by
  unfold decodeCobs
  simp only [Bool.false_eq_true, if_false, flat_single]
  cases hprep : decPrep st [(a, store2)] store2 false with
  | inl es =>
    obtain ⟨e, st'⟩ := es
    have he := decPrep_err _ _ _ _ _ _ hprep
    exact ⟨fun _ => ⟨by simp, by simp⟩, fun _ _ => ⟨by simp, by simp, by simp [he]⟩, fun c0 U _ _ => CallRes.ofErr v _ U e st' _ he⟩
  | inr sl =>
    obtain ⟨st', l⟩ := sl
    obtain ⟨h1, h2, h3, h4, h5, h6, h7⟩ := decPrep_fresh st _ store2 st' l hf hprep
    have hmid := decPrep_ok st _ store2 false st' l hf.wf hprep
    have hst' : Fresh st' ∧ st'.curr = st.curr ∧ st'.msg = none := by
      have hm := hf.mlen
      unfold decPrep at hprep
      simp only at hprep
      split at hprep
      · simp at hprep
      split at hprep
      · simp at hprep
      try rw [if_pos hm] at hprep
      simp only [Bool.false_eq_true, if_false, hf.ctx, Nat.zero_mod, if_true] at hprep
      unfold decEnter at hprep
      split at hprep
      · simp at hprep
      simp only [Sum.inr.injEq, Prod.mk.injEq] at hprep
      obtain ⟨rfl, _⟩ := hprep
      have hpv : (decPrev st).1.ctx = 0 ∧ (decPrev st).1.msg = none ∧ (decPrev st).1.len = 0 ∧ (decPrev st).1.curr = st.curr := by
        unfold decPrev
        cases hmsg : st.msg with
        | none => simp [hf.ctx, hf.hnone hmsg, hmsg]
        | some m => simp [hf.ctx, hf.hsome m hmsg]
      exact ⟨⟨hpv.1, fun _ => hpv.2.2.1, fun m hm => by simp [hpv.2.1] at hm⟩, hpv.2.2.2, hpv.2.1⟩
    simp only
    unfold decStart
    rw [if_pos h2]
    refine ⟨?_, ?_, ?_⟩
    · intro hnil
      have : l.store[l.r]? = none := by
        rw [h1, h5]
        have := congrArg (fun x => x[0]?) hnil
        simpa using this
      rw [this]
      exact ⟨by simp, fun _ => ⟨hst'.1, hst'.2.1, h1⟩⟩
    · intro tl htl
      have : l.store[l.r]? = some 0 := by
        rw [h1, h5]
        have := congrArg (fun x => x[0]?) htl
        simpa using this
      rw [this]
      simp
    · intro c0 U hU hc0
      have hc : l.store[l.r]? = some c0 := by
        rw [h1, h5]
        have := congrArg (fun x => x[0]?) hU
        simpa using this
      have hlt : l.r < l.store.length := by
        rcases Nat.lt_or_ge l.r l.store.length with h | h
        · exact h
        · simp [List.getElem?_eq_none h] at hc
      have hdrop : l.store.drop (l.r + 1) = U := by
        rw [h1, h5]
        have := congrArg (List.drop 1) hU
        simpa [List.drop_drop, Nat.add_comm] using this
      rw [hc]
      simp only [hc0, if_false]
      have hr1 : ({ l with proc := l.proc + 1, code := c0.toNat, reads := [l.r] } : Loc).r = l.r + 1 := by
        simp only [Loc.r]; omega
      have := loop_callres v st' { l with proc := l.proc + 1, code := c0.toNat, reads := [l.r] } c0.toNat U
        (by
          intro more
          rw [hr1]
          simp only [hdrop, h3, Loc.acc, h4, List.take_zero, MRes.pre_nil])
        h6 hst'.2.2 (by rw [hr1]; exact hlt)
        (Nat.pos_of_ne_zero ((toNat_ne_zero c0).mpr hc0)) (UInt8.toNat_lt c0) (by simp [h3])
      rw [hr1] at this
      exact this


/-- a delivered message in terms of the machine run on the bytes behind the first code byte -/
def Delivered (v : Variant) (c0 : Nat) (U : List Byte) (region : List Byte) : Prop :=
  mach v c0 0 U = .done region ∨
  (v.tail = true ∧ ∃ out code pos, mach v c0 0 U = .zeroIn out code pos ∧ region = out ++ [UInt8.ofNat code])

/-- lifting the call facts of the regular decoder to the decoder selected by the variant (tail fix-up) -/
theorem lift_call (v : Variant) (st : DecState) (segs : List Seg) (c0 : Nat) (U : List Byte)
    (hwf : ∀ m, st.msg = some m → m = st.len) (h : CallRes v c0 U (decodeCobs v st segs false)) :
    ((decodeV v st segs false).ret = .val 0 → Hist v c0 U (decodeV v st segs false).st (decodeV v st segs false).store) ∧
    ((decodeV v st segs false).ret = .val 1 → Delivered v c0 U (decodeV v st segs false).region) := by
  have hsafe := decodeCobs_safe v st segs false hwf
  unfold decodeV
  cases ht : v.tail
  · simp only [Bool.false_eq_true, if_false]
    exact ⟨h.zero, fun h1 => Or.inl (h.one h1).1⟩
  · simp only [if_true]
    unfold decodeCobsR
    simp only [Bool.false_eq_true, false_or]
    generalize decodeCobs v st segs false = o at h hsafe
    by_cases hc : o.ret = .err .MissingData ∧ o.st.ctx ≠ 0
    · rw [if_pos hc]
      have hmd := hsafe.md hc.1
      by_cases hl : o.store.length ≤ o.st.pos + o.st.len
      · rw [if_pos hl]; exact ⟨by simp, by simp⟩
      · rw [if_neg hl, if_pos (by omega)]
        refine ⟨by simp, fun _ => Or.inr ⟨ht, ?_⟩⟩
        obtain ⟨code, pos, e1, e2, e3⟩ := h.md hc.1
        refine ⟨o.region, code, pos, e1, ?_⟩
        simp only [DecOut.region]
        rw [region_snoc _ _ _ _ (by omega), e2]
    · rw [if_neg hc]
      exact ⟨h.zero, fun h1 => Or.inl (h.one h1).1⟩

/-- a delivery is the reference decoding once the machine input is extended to the whole frame -/
theorem Delivered.dec {v : Variant} {c0 : Byte} {U rest body junk region : List Byte} (h : Delivered v c0.toNat U region)
    (hc0 : c0 ≠ 0) (hU : U ++ rest = body ++ 0 :: junk) (hnz : ∀ x ∈ body, x ≠ 0) :
    dec v (c0 :: body ++ [0]) = some region := by
  have hms := mach_spec v (body.length + 2) c0 body junk hnz (by omega)
  rw [← dec_frame v c0 body hc0 hnz, ← hU] at hms
  rcases h with h | ⟨ht, out, code, pos, h, hr⟩
  · rw [(mach_ext v U rest c0.toNat 0).1 _ h] at hms
    exact hms
  · rw [(mach_ext v U rest c0.toNat 0).2 _ _ _ h] at hms
    simp only [MRes.agrees, ht, if_true] at hms
    rw [hr]; exact hms

/-- phase B: an open block, more pieces arrive -/
theorem arrive_mid (v : Variant) (a : Nat) (c0 : Nat) (pieces : List (List Byte)) : ∀ (st : DecState) (store U : List Byte) (o : DecOut),
    Hist v c0 U st store → arrive v a st store pieces = some o → o.ret = .val 1 →
    ∃ U' rest, Delivered v c0 U' o.region ∧ U' ++ rest = U ++ pieces.flatten := by
  induction pieces with
  | nil => intro st store U o _ h; simp [arrive] at h
  | cons p ps ih =>
    intro st store U o hh h h1
    have hcall := resume_call v a st store p c0 U hh
    have hl := lift_call v st [(a, store ++ p)] c0 (U ++ p) (by intro m hm; rw [hh.msg] at hm; simp at hm) hcall
    simp only [arrive] at h
    by_cases h0 : (decodeV v st [(a, store ++ p)] false).ret = .val 0
    · rw [if_pos h0] at h
      obtain ⟨U', rest, hd, he⟩ := ih _ _ (U ++ p) o (hl.1 h0) h h1
      exact ⟨U', rest, hd, by rw [he]; simp⟩
    · rw [if_neg h0] at h
      simp only [Option.some.injEq] at h
      subst h
      exact ⟨U ++ p, ps.flatten, hl.2 h1, by simp⟩

/-- phase A: nothing of the frame has been consumed yet -/
theorem arrive_fresh (v : Variant) (a : Nat) (pieces : List (List Byte)) : ∀ (st : DecState) (store : List Byte) (o : DecOut),
    Fresh st → st.curr = store.length → arrive v a st store pieces = some o → o.ret = .val 1 →
    ∃ c0 U' rest, c0 ≠ 0 ∧ Delivered v c0.toNat U' o.region ∧ c0 :: U' ++ rest = pieces.flatten := by
  induction pieces with
  | nil => intro st store o _ _ h; simp [arrive] at h
  | cons p ps ih =>
    intro st store o hf hcur h h1
    have hdrop : (store ++ p).drop st.curr = p := by rw [hcur]; simp
    have hstart := start_call v a st (store ++ p) hf
    simp only [arrive] at h
    have hVeq : ∀ (hne : (decodeCobs v st [(a, store ++ p)] false).ret ≠ .err .MissingData),
        decodeV v st [(a, store ++ p)] false = decodeCobs v st [(a, store ++ p)] false := by
      intro hne
      unfold decodeV decodeCobsR
      cases v.tail <;> simp [hne]
    cases p with
    | nil =>
      obtain ⟨hn1, hn0⟩ := hstart.1 (by simpa using hdrop)
      have hne : (decodeCobs v st [(a, store ++ [])] false).ret ≠ .err .MissingData := by
        have hs := hstart.2.2
        intro hmd
        -- on empty input the loop is not entered: the only exits are 0 and errors of the preparation
        unfold decodeCobs at hmd
        simp only [Bool.false_eq_true, if_false, flat_single] at hmd
        cases hprep : decPrep st [(a, store ++ [])] (store ++ []) false with
        | inl es => rw [hprep] at hmd; exact decPrep_err _ _ _ _ _ _ hprep (by simpa using hmd)
        | inr sl =>
          obtain ⟨st', l⟩ := sl
          rw [hprep] at hmd
          obtain ⟨g1, g2, g3, g4, g5, g6, g7⟩ := decPrep_fresh st _ _ st' l hf hprep
          simp only [decStart, g2, if_true] at hmd
          have : l.store[l.r]? = none := by
            rw [g1, g5, hcur]; simp
          rw [this] at hmd
          simp at hmd
      rw [hVeq hne] at h
      by_cases h0 : (decodeCobs v st [(a, store ++ [])] false).ret = .val 0
      · rw [if_pos h0] at h
        obtain ⟨hf', hc', hs'⟩ := hn0 h0
        obtain ⟨c0, U', rest, e1, e2, e3⟩ := ih _ _ o hf' (by rw [hc', hs', hcur]; simp) h h1
        exact ⟨c0, U', rest, e1, e2, by simpa using e3⟩
      · rw [if_neg h0] at h
        simp only [Option.some.injEq] at h
        subst h
        exact absurd h1 hn1
    | cons b tl =>
      by_cases hb : b = 0
      · subst hb
        obtain ⟨hn1, hn0, hnmd⟩ := hstart.2.1 tl (by simpa using hdrop)
        rw [hVeq hnmd] at h
        rw [if_neg hn0] at h
        simp only [Option.some.injEq] at h
        subst h
        exact absurd h1 hn1
      · have hcall := hstart.2.2 b tl (by simpa using hdrop) hb
        have hl := lift_call v st [(a, store ++ b :: tl)] b.toNat tl hf.wf hcall
        by_cases h0 : (decodeV v st [(a, store ++ b :: tl)] false).ret = .val 0
        · rw [if_pos h0] at h
          obtain ⟨U', rest, hd, he⟩ := arrive_mid v a b.toNat ps _ _ tl o (hl.1 h0) h h1
          exact ⟨b, U', rest, hb, hd, by simp [he]⟩
        · rw [if_neg h0] at h
          simp only [Option.some.injEq] at h
          subst h
          exact ⟨b, tl, ps.flatten, hb, hl.2 h1, by simp⟩


/-- honesty over every arrival pattern of the input: from the reset state, whatever the pieces in which the
    stream arrives (a call after each arrival), the first delivered message is the reference decoding of
    the first frame of the stream -/
theorem arrive_honest (v : Variant) (a : Nat) (pieces : List (List Byte)) (pre junk : List Byte) (o : DecOut)
    (hS : pieces.flatten = pre ++ 0 :: junk) (hnz : ∀ x ∈ pre, x ≠ 0)
    (h : arrive v a {} [] pieces = some o) (h1 : o.ret = .val 1) : dec v (pre ++ [0]) = some o.region := by
  have hf : Fresh {} := ⟨rfl, fun _ => rfl, fun m hm => by simp at hm⟩
  obtain ⟨c0, U', rest, hc0, hd, he⟩ := arrive_fresh v a pieces {} [] o hf rfl h h1
  rw [hS] at he
  cases pre with
  | nil =>
    simp only [List.nil_append, List.cons_append, List.cons.injEq] at he
    exact absurd he.1 hc0
  | cons c body =>
    simp only [List.cons_append, List.cons.injEq] at he
    obtain ⟨rfl, he⟩ := he
    exact hd.dec hc0 he (fun x hx => hnz x (by simp [hx]))


/-- phase A in general: some unread input may already be in the segment -/
theorem arrive_fresh' (v : Variant) (a : Nat) (pieces : List (List Byte)) : ∀ (st : DecState) (store : List Byte) (o : DecOut),
    Fresh st → st.curr ≤ store.length → arrive v a st store pieces = some o → o.ret = .val 1 →
    ∃ c0 U' rest, c0 ≠ 0 ∧ Delivered v c0.toNat U' o.region ∧ c0 :: U' ++ rest = store.drop st.curr ++ pieces.flatten := by
  induction pieces with
  | nil => intro st store o _ _ h; simp [arrive] at h
  | cons p ps ih =>
    intro st store o hf hcur h h1
    have hdrop : (store ++ p).drop st.curr = store.drop st.curr ++ p := List.drop_append_of_le_length hcur
    have hstart := start_call v a st (store ++ p) hf
    simp only [arrive] at h
    have hVeq : ∀ (hne : (decodeCobs v st [(a, store ++ p)] false).ret ≠ .err .MissingData),
        decodeV v st [(a, store ++ p)] false = decodeCobs v st [(a, store ++ p)] false := by
      intro hne
      unfold decodeV decodeCobsR
      cases v.tail <;> simp [hne]
    cases hX : store.drop st.curr ++ p with
    | nil =>
      obtain ⟨hX0, hp0⟩ := List.append_eq_nil_iff.mp hX
      subst hp0
      have hcur' : st.curr = store.length := by
        have := List.drop_eq_nil_iff.mp hX0; omega
      obtain ⟨hn1, hn0⟩ := hstart.1 (by rw [hdrop, hX])
      have hne : (decodeCobs v st [(a, store ++ [])] false).ret ≠ .err .MissingData := by
        have hs := hstart.2.2
        intro hmd
        -- on empty input the loop is not entered: the only exits are 0 and errors of the preparation
        unfold decodeCobs at hmd
        simp only [Bool.false_eq_true, if_false, flat_single] at hmd
        cases hprep : decPrep st [(a, store ++ [])] (store ++ []) false with
        | inl es => rw [hprep] at hmd; exact decPrep_err _ _ _ _ _ _ hprep (by simpa using hmd)
        | inr sl =>
          obtain ⟨st', l⟩ := sl
          rw [hprep] at hmd
          obtain ⟨g1, g2, g3, g4, g5, g6, g7⟩ := decPrep_fresh st _ _ st' l hf hprep
          simp only [decStart, g2, if_true] at hmd
          have : l.store[l.r]? = none := by
            rw [g1, g5, hcur']; simp
          rw [this] at hmd
          simp at hmd
      rw [hVeq hne] at h
      by_cases h0 : (decodeCobs v st [(a, store ++ [])] false).ret = .val 0
      · rw [if_pos h0] at h
        obtain ⟨hf', hc', hs'⟩ := hn0 h0
        obtain ⟨c0, U', rest, e1, e2, e3⟩ := ih _ _ o hf' (by rw [hc', hs', hcur']; simp) h h1
        refine ⟨c0, U', rest, e1, e2, ?_⟩
        rw [e3, hc', hs', hX0]; simp [hcur']
      · rw [if_neg h0] at h
        simp only [Option.some.injEq] at h
        subst h
        exact absurd h1 hn1
    | cons b tl =>
      by_cases hb : b = 0
      · subst hb
        obtain ⟨hn1, hn0, hnmd⟩ := hstart.2.1 tl (by rw [hdrop, hX])
        rw [hVeq hnmd] at h
        rw [if_neg hn0] at h
        simp only [Option.some.injEq] at h
        subst h
        exact absurd h1 hn1
      · have hcall := hstart.2.2 b tl (by rw [hdrop, hX]) hb
        have hl := lift_call v st [(a, store ++ p)] b.toNat tl hf.wf hcall
        by_cases h0 : (decodeV v st [(a, store ++ p)] false).ret = .val 0
        · rw [if_pos h0] at h
          obtain ⟨U', rest, hd, he⟩ := arrive_mid v a b.toNat ps _ _ tl o (hl.1 h0) h h1
          refine ⟨b, U', rest, hb, hd, ?_⟩
          show b :: (U' ++ rest) = _
          rw [he, List.flatten_cons, ← List.append_assoc, hX]; rfl
        · rw [if_neg h0] at h
          simp only [Option.some.injEq] at h
          subst h
          refine ⟨b, tl, ps.flatten, hb, hl.2 h1, ?_⟩
          rw [List.flatten_cons, ← List.append_assoc, hX]




/-- honesty for any frame of the stream: from any state between two messages, with part of the frame
    possibly already in the segment and the rest arriving in arbitrary pieces -/
theorem arrive_honest' (v : Variant) (a : Nat) (st : DecState) (store : List Byte) (pieces : List (List Byte))
    (pre junk : List Byte) (o : DecOut) (hf : Fresh st) (hc : st.curr ≤ store.length)
    (hS : store.drop st.curr ++ pieces.flatten = pre ++ 0 :: junk) (hnz : ∀ x ∈ pre, x ≠ 0)
    (h : arrive v a st store pieces = some o) (h1 : o.ret = .val 1) : dec v (pre ++ [0]) = some o.region := by
  obtain ⟨c0, U', rest, hc0, hd, he⟩ := arrive_fresh' v a pieces st store o hf hc h h1
  rw [hS] at he
  cases pre with
  | nil =>
    simp only [List.nil_append, List.cons_append, List.cons.injEq] at he
    exact absurd he.1 hc0
  | cons c body =>
    simp only [List.cons_append, List.cons.injEq] at he
    obtain ⟨rfl, he⟩ := he
    exact hd.dec hc0 he (fun x hx => hnz x (by simp [hx]))

end Mpt.Codec
