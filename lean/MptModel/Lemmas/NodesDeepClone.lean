/-
  mpt_list_clone / mpt_tree_clone on the pointer store realise the relabelled source forest.
-/
import MptModel.Lemmas.NodesWalk
namespace Mpt.Nodes
open Mpt Mpt.Forest

/-- the effect of the parent loop of tree_clone.c on a parentless realised list: every element names `p` -/
theorem setParents_spec {p : Nat} : ∀ (K : Forest) (s : Store) (fuel : Nat) (prev : Option Nat),
    Real s none prev K → (ids K).Nodup → K.length ≤ fuel →
    ∃ s', s.setParents p fuel (headId K) = .ok s' ∧ Real s' (some p) prev K ∧ SameLife s s' ∧
      s'.nodes.length = s.nodes.length ∧ ∀ i, i ∉ K.map Tree.id → s'.nodes[i]? = s.nodes[i]?
  | [], s, fuel, prev, _, _, _ => ⟨s, by simp [Store.setParents], by simp, ⟨rfl, fun _ => rfl⟩, rfl, fun _ _ => rfl⟩
  | (.node i n v cs) :: ts, s, fuel, prev, hR, hnd, hf => by
    rw [Real_cons] at hR
    rw [ids_cons, List.nodup_cons, List.mem_append, List.nodup_append] at hnd
    obtain ⟨hni, ndcs, ndts, disj⟩ := hnd
    obtain ⟨f, rfl⟩ : ∃ f, fuel = f + 1 := ⟨fuel - 1, by simp at hf; omega⟩
    have hlive : s.Live i (recOf (headId ts) prev none cs n v) := ⟨hR.1, rfl⟩
    obtain ⟨s1, e1, u1⟩ := Store.modify_ok hlive (fun x => { x with parent := some p })
    have hts1 : Real s1 none (some i) ts := Real.frame hR.2.2 (fun k hk => by
      rw [u1.2.2 k]; have : k ≠ i := by rintro rfl; exact hni (Or.inr hk)
      simp [this])
    obtain ⟨s2, e2, r2, l2, len2, f2⟩ := setParents_spec ts s1 f (some i) hts1 ndts (by simpa using hf)
    have hits : i ∉ ts.map Tree.id := by
      intro h
      obtain ⟨t, ht, hti⟩ := List.mem_map.1 h
      have : idx? i ts ≠ none := by
        intro hn
        have hm : i ∈ ids ts := by
          obtain ⟨a, b, rfl⟩ := List.append_of_mem ht
          rw [ids_append]; cases t; simp [Tree.id] at hti; subst hti; simp
        exact hni (Or.inr hm)
      cases hx : idx? i ts with
      | none => exact this hx
      | some j => exact hni (Or.inr (idx?_mem hx))
    refine ⟨s2, ?_, ?_, ?_, ?_, ?_⟩
    · simp only [headId_cons, Store.setParents, Store.get_ok hlive, Res.bind_ok, e1]
      exact e2
    · rw [Real_cons]
      refine ⟨?_, ?_, r2⟩
      · rw [f2 i hits, u1.2.2 i]; simp
      · refine Real.frame hR.2.1 (fun k hk => ?_)
        have hki : k ≠ i := by rintro rfl; exact hni (Or.inl hk)
        have hkts : k ∉ ts.map Tree.id := by
          intro h
          obtain ⟨t, ht, htk⟩ := List.mem_map.1 h
          have hm : k ∈ ids ts := by
            obtain ⟨a, b, rfl⟩ := List.append_of_mem ht
            rw [ids_append]; cases t; simp [Tree.id] at htk; subst htk; simp
          exact disj k hk k hm rfl
        rw [f2 k hkts, u1.2.2 k, if_neg hki]
    · refine ⟨by rw [l2.1, u1.1], fun k => ?_⟩
      rw [l2.2 k, u1.2.2 k]
      by_cases hk : k = i
      · subst hk; simp [hR.1]
      · simp [hk]
    · rw [len2, u1.2.1]
    · intro k hk
      simp only [List.map_cons, List.mem_cons, not_or, Tree.id] at hk
      rw [f2 k hk.2, u1.2.2 k, if_neg hk.1]


/-- handle of the last element of a sibling list -/
def lastId (acc : Forest) : Option Nat := (acc.getLast?).map Tree.id

theorem lastId_append_singleton (acc : Forest) (t : Tree) : lastId (acc ++ [t]) = some t.id := by
  simp [lastId]

theorem headId_append_singleton (acc : Forest) (t : Tree) :
    headId (acc ++ [t]) = if acc.isEmpty then some t.id else headId acc := by
  cases acc with
  | nil => simp [headId]
  | cons a as => simp [headId]

/-- `linkLast`: the fresh record `c` becomes the last element of the parentless list `acc` -/
theorem linkLast_spec {s : Store} {acc : Forest} {c : Nat} {n : Name} {v : Val}
    (hR : Real s none none acc) (hnd : (ids acc).Nodup) (hc : c ∉ ids acc)
    (hrec : s.nodes[c]? = some (recOf none none none [] n v)) :
    ∃ s', s.linkLast (lastId acc) c = .ok s' ∧ Real s' none none (acc ++ [.node c n v []]) ∧ SameLife s s' ∧
      s'.nodes.length = s.nodes.length ∧ ∀ i, i ∉ ids acc → i ≠ c → s'.nodes[i]? = s.nodes[i]? := by
  have hT : Real s none none [.node c n v []] := by
    rw [Real_cons]; exact ⟨by simpa using hrec, by simp, by simp⟩
  by_cases hacc : acc = []
  · subst hacc
    exact ⟨s, by simp [Store.linkLast, lastId], by simpa using hT, ⟨rfl, fun _ => rfl⟩, rfl, fun _ _ _ => rfl⟩
  · obtain ⟨tl, htl⟩ := getElem?_last hacc
    have hlast : lastId acc = some tl.id := by
      simp only [lastId, List.getLast?_eq_getElem?, htl, Option.map_some]
    have hidx : idx? tl.id acc = some (acc.length - 1) := idx?_of_getElem? hnd htl
    have hlen : 0 < acc.length := List.length_pos_iff.2 hacc
    obtain ⟨pv, pcs, pn, pvv, hprec, _⟩ := Real.rec_at hR hidx
    have hdrop : acc.drop (acc.length - 1 + 1) = [] := by
      apply List.drop_eq_nil_of_le; omega
    rw [hdrop] at hprec
    have htlmem : tl.id ∈ ids acc := idx?_mem hidx
    have hne : c ≠ tl.id := by rintro rfl; exact hc htlmem
    obtain ⟨s', hs', hfreed, hlen', heff⟩ := Store.gnodeAfter_ok (s := s) (p := tl.id) (x := c) ⟨hprec, rfl⟩ ⟨hrec, rfl⟩ hne
      (by intro q hq; simp at hq)
    have hAE : AfterEff s s' tl.id c (headId (acc.drop (acc.length - 1 + 1))) none := by
      rw [hdrop]
      intro i
      rw [heff i]
      by_cases h1 : i = c
      · subst h1; simp [hrec]
      · by_cases h2 : i = tl.id
        · subst h2; simp [h1, hprec]
        · simp [h1, h2]
    have hloc := real_after_list hR hidx hT
      (by
        rw [List.nodup_append]
        refine ⟨hnd, by simp, ?_⟩
        intro a ha b hb hab
        simp at hb
        subst hab; subst hb
        exact hc ha) hAE
    have hins : acc.insertIdx (acc.length - 1 + 1) (.node c n v []) = acc ++ [.node c n v []] := by
      rw [show acc.length - 1 + 1 = acc.length by omega]
      exact List.insertIdx_length_self
    rw [hins] at hloc
    refine ⟨s', by simp only [Store.linkLast, hlast]; exact hs', hloc, ⟨hfreed, ?_⟩, hlen', ?_⟩
    · intro i
      rw [hAE i]
      cases hsi : s.nodes[i]? <;> (repeat' split) <;> simp
    · intro i hi hic
      rw [hAE i, hdrop]
      have : i ≠ tl.id := by rintro rfl; exact hi htlmem
      simp [hic, this]

/-- filling in the children of the last element of a realised list -/
theorem real_set_last_kids {s s' : Store} {c : Nat} {n : Name} {v : Val} {K : Forest} :
    ∀ (acc : Forest) (par prev : Option Nat),
    Real s par prev (acc ++ [.node c n v []]) → (∀ i ∈ ids acc, s'.nodes[i]? = s.nodes[i]?) →
    s'.nodes[c]? = (s.nodes[c]?).map (fun x => { x with children := headId K }) →
    Real s' (some c) none K →
    Real s' par prev (acc ++ [.node c n v K])
  | [], par, prev, hR, _, hc, hK => by
    simp only [List.nil_append] at hR ⊢
    rw [Real_cons] at hR ⊢
    exact ⟨by rw [hc, hR.1]; rfl, hK, by simp⟩
  | (.node i m w cs) :: as, par, prev, hR, hf, hc, hK => by
    simp only [List.cons_append] at hR ⊢
    rw [Real_cons] at hR ⊢
    refine ⟨?_, ?_, ?_⟩
    · rw [hf i (by simp), hR.1]
      simp only [recOf, headId_append_singleton, Tree.id]
    · exact Real.frame hR.2.1 (fun k hk => hf k (by simp [hk]))
    · exact real_set_last_kids as par (some i) hR.2.2 (fun k hk => hf k (by simp [hk])) hc hK


theorem map_id_subset_ids (K : Forest) : ∀ k ∈ K.map Tree.id, k ∈ ids K := by
  intro k hk
  obtain ⟨t, ht, htk⟩ := List.mem_map.1 hk
  obtain ⟨a, b, rfl⟩ := List.append_of_mem ht
  rw [ids_append]; cases t; simp [Tree.id] at htk; subst htk; simp

/-- `attachKids`: the cloned children `K` (a parentless realised list) are hung below the fresh node `c` -/
theorem attachKids_spec {s : Store} {c : Nat} {rc : Node} {K : Forest}
    (hK : Real s none none K) (hnd : (ids K).Nodup) (hc : c ∉ ids K) (hrc : s.Live c rc) (hrcc : rc.children = none)
    (hf : K.length ≤ s.fuel) :
    ∃ s', s.attachKids c (headId K) = .ok s' ∧ Real s' (some c) none K ∧
      s'.nodes[c]? = some { rc with children := headId K } ∧ SameLife s s' ∧
      s'.nodes.length = s.nodes.length ∧ ∀ i, i ≠ c → i ∉ K.map Tree.id → s'.nodes[i]? = s.nodes[i]? := by
  cases hh : headId K with
  | none =>
    have : K = [] := by
      cases K with
      | nil => rfl
      | cons t ts => cases t; simp at hh
    subst this
    refine ⟨s, by simp [Store.attachKids], by simp, ?_, ⟨rfl, fun _ => rfl⟩, rfl, fun _ _ _ => rfl⟩
    rw [hrc.1]
    cases rc
    simp at hrcc
    simp [hrcc]
  | some h =>
    obtain ⟨s1, e1, u1⟩ := Store.modify_ok hrc (fun x => { x with children := some h })
    have hK1 : Real s1 none none K := Real.frame hK (fun k hk => by
      rw [u1.2.2 k]; have : k ≠ c := by rintro rfl; exact hc hk
      simp [this])
    have hfuel1 : K.length ≤ s1.fuel := by simp only [Store.fuel, u1.2.1]; exact hf
    obtain ⟨s2, e2, r2, l2, len2, f2⟩ := setParents_spec (p := c) K s1 s1.fuel none hK1 hnd hfuel1
    have hcK : c ∉ K.map Tree.id := fun h => hc (map_id_subset_ids K c h)
    refine ⟨s2, ?_, r2, ?_, ?_, ?_, ?_⟩
    · simp only [Store.attachKids, e1, Res.bind_ok]
      rw [← hh]; exact e2
    · rw [f2 c hcK, u1.2.2 c]; simp
    · refine ⟨by rw [l2.1, u1.1], fun k => ?_⟩
      rw [l2.2 k, u1.2.2 k]
      by_cases hk : k = c
      · subst hk; simp [hrc.1]
      · simp [hk]
    · rw [len2, u1.2.1]
    · intro i hic hiK
      rw [f2 i hiK, u1.2.2 i, if_neg hic]

/-- source forest: live records below `N0` with these next/children links, names and values -/
def Src (s : Store) (N0 : Nat) : Forest → Prop
  | [] => True
  | (.node i n v cs) :: ts =>
    i < N0 ∧ (∃ r, s.nodes[i]? = some r ∧ r.alive = true ∧ r.next = headId ts ∧ r.children = headId cs ∧
      r.name = n ∧ r.value = v) ∧ Src s N0 cs ∧ Src s N0 ts

theorem Src_cons (s : Store) (N0 i : Nat) (n : Name) (v : Val) (cs ts : Forest) :
    Src s N0 ((.node i n v cs) :: ts) =
      (i < N0 ∧ (∃ r, s.nodes[i]? = some r ∧ r.alive = true ∧ r.next = headId ts ∧ r.children = headId cs ∧
        r.name = n ∧ r.value = v) ∧ Src s N0 cs ∧ Src s N0 ts) := by
  simp [Src]

theorem Src.frame {s s' : Store} {N0 : Nat} : ∀ {l : Forest}, Src s N0 l → (∀ i, i < N0 → s'.nodes[i]? = s.nodes[i]?) → Src s' N0 l
  | [], _, _ => by simp [Src]
  | (.node i n v cs) :: ts, h, hf => by
    rw [Src_cons] at h ⊢
    refine ⟨h.1, ?_, Src.frame h.2.2.1 hf, Src.frame h.2.2.2 hf⟩
    rw [hf i h.1]; exact h.2.1

theorem Real.src {s : Store} {N0 : Nat} : ∀ {l : Forest} {par prev : Option Nat}, Real s par prev l →
    (∀ i ∈ ids l, i < N0) → Src s N0 l
  | [], _, _, _, _ => by simp [Src]
  | (.node i n v cs) :: ts, par, prev, h, hb => by
    rw [Real_cons] at h
    rw [Src_cons]
    exact ⟨hb i (by simp), ⟨_, h.1, rfl, rfl, rfl, rfl, rfl⟩, Real.src h.2.1 (fun k hk => hb k (by simp [hk])),
      Real.src h.2.2 (fun k hk => hb k (by simp [hk]))⟩

/-- the copies made so far: a parentless realised list of fresh records -/
structure Acc (s : Store) (N0 : Nat) (acc : Forest) : Prop where
  real : Real s none none acc
  nodup : (ids acc).Nodup
  fresh : ∀ i ∈ ids acc, N0 ≤ i


/-- the record of the last element of a realised list that ends with a node without children -/
theorem Real.last_rec {s : Store} {c : Nat} {n : Name} {v : Val} : ∀ (acc : Forest) (par prev : Option Nat),
    Real s par prev (acc ++ [.node c n v []]) → ∃ rc, s.Live c rc ∧ rc.children = none
  | [], par, prev, h => by
    simp only [List.nil_append] at h
    rw [Real_cons] at h
    exact ⟨_, ⟨h.1, rfl⟩, rfl⟩
  | (.node i m w cs) :: as, par, prev, h => by
    simp only [List.cons_append] at h
    rw [Real_cons] at h
    exact Real.last_rec as par (some i) h.2.2

theorem ids_relabel_ge (l : Forest) (k : Nat) : ∀ i ∈ ids (relabel l k).1, k ≤ i ∧ i < (relabel l k).2 := by
  intro i hi
  obtain ⟨h1, h2⟩ := ids_relabel l k
  rw [h1] at hi
  rw [h2]
  have := List.mem_range'_1.1 hi
  omega

theorem ids_relabel_length (l : Forest) (k : Nat) : (ids (relabel l k).1).length = (ids l).length := by
  rw [(ids_relabel l k).1]; simp

theorem ids_relabel_nodup (l : Forest) (k : Nat) : (ids (relabel l k).1).Nodup := by
  rw [(ids_relabel l k).1]; exact List.nodup_range' 1 (by omega)


theorem lastId_isNone (acc : Forest) : (lastId acc).isNone = acc.isEmpty := by
  cases acc with
  | nil => simp [lastId]
  | cons a as => simp [lastId]

/-- `mpt_list_clone` (its loop): the copies of the source list `l` are appended to the copies made so far;
    the new handles are the relabelling of `l` from the current record count on; records below the
    current count that do not belong to `acc` are untouched -/
theorem listLoop_spec {N0 : Nat} : ∀ (l : Forest) (s : Store) (acc : Forest) (fuel : Nat),
    Src s N0 l → N0 ≤ s.nodes.length → Acc s N0 acc → (ids l).length ≤ fuel →
    ∃ s', s.listLoop fuel (headId l) (headId acc) (lastId acc) =
            .ok (s', headId (acc ++ (relabel l s.nodes.length).1)) ∧
      Acc s' N0 (acc ++ (relabel l s.nodes.length).1) ∧
      s'.nodes.length = (relabel l s.nodes.length).2 ∧ s'.freed = s.freed ∧
      (∀ i, i < s.nodes.length → i ∉ ids acc → s'.nodes[i]? = s.nodes[i]?) ∧
      (∀ i, i < s.nodes.length → (s'.nodes[i]?).map Node.alive = (s.nodes[i]?).map Node.alive)
  | [], s, acc, fuel, _, _, hacc, _ =>
    ⟨s, by cases fuel <;> simp [Store.listLoop, relabel], by simpa [relabel] using hacc, by simp [relabel], rfl,
      fun _ _ _ => rfl, fun _ _ => rfl⟩
  | (.node i n v cs) :: ts, s, acc, fuel, hsrc, hN, hacc, hf => by
    rw [Src_cons] at hsrc
    obtain ⟨hiN, ⟨r, hr, hra, hrn, hrc, hrname, hrval⟩, hscs, hsts⟩ := hsrc
    simp only [ids_cons, List.length_cons, List.length_append] at hf
    obtain ⟨f, rfl⟩ : ∃ f, fuel = f + 1 := ⟨fuel - 1, by omega⟩
    -- the fresh record
    have haccLt : ∀ k ∈ ids acc, k < s.nodes.length := fun k hk => by
      obtain ⟨m, hm⟩ := Real.live hacc.real k hk; exact hm.lt
    have hcacc : s.nodes.length ∉ ids acc := fun h => by have := haccLt _ h; omega
    let sA : Store := { s with nodes := s.nodes ++ [{ name := n, value := v }] }
    have hAold : ∀ k, k < s.nodes.length → sA.nodes[k]? = s.nodes[k]? := by
      intro k hk; simp [sA, List.getElem?_append_left hk]
    have hAnew : sA.nodes[s.nodes.length]? = some (recOf none none none [] n v) := by simp [sA, recOf, headId]
    have hAlen : sA.nodes.length = s.nodes.length + 1 := by simp [sA]
    have hclone : s.nodeClone i = .ok (sA, s.nodes.length) := by
      simp [Store.nodeClone, Store.get_ok ⟨hr, hra⟩, Store.alloc, hrname, hrval, sA]
    have hRA : Real sA none none acc := Real.frame hacc.real (fun k hk => hAold k (haccLt k hk))
    -- link it behind the previous copy
    obtain ⟨s1, e1, r1, l1, len1, f1⟩ := linkLast_spec (c := s.nodes.length) hRA hacc.nodup hcacc hAnew
    have h1len : s1.nodes.length = s.nodes.length + 1 := by rw [len1, hAlen]
    have h1old : ∀ k, k < N0 → s1.nodes[k]? = s.nodes[k]? := by
      intro k hk
      rw [f1 k (fun h => by have := hacc.fresh k h; omega) (by omega), hAold k (by omega)]
    -- clone the children
    obtain ⟨sk, ek, rk, lenk, fk, frk, alk⟩ := listLoop_spec cs s1 [] f (Src.frame hscs h1old) (by omega)
      ⟨by simp, by simp, by simp⟩ (by omega)
    rw [h1len] at ek rk lenk
    simp only [List.nil_append, headId_nil, lastId, List.getLast?_nil, Option.map_none] at ek rk
    -- hang them below the copy
    have hRk1 : Real sk none none (acc ++ [.node s.nodes.length n v []]) :=
      Real.frame r1 (fun k hk => by
        have hlt : k < s1.nodes.length := by
          obtain ⟨m, hm⟩ := Real.live r1 k hk; exact hm.lt
        exact frk k hlt (by simp))
    obtain ⟨rc, hrcl, hrcc⟩ := Real.last_rec acc none none hRk1
    have hKge := ids_relabel_ge cs (s.nodes.length + 1)
    have hcK : s.nodes.length ∉ ids (relabel cs (s.nodes.length + 1)).1 := fun h => by have := (hKge _ h).1; omega
    have hKlen : (relabel cs (s.nodes.length + 1)).1.length ≤ sk.fuel := by
      have h1 := length_le_ids (relabel cs (s.nodes.length + 1)).1
      rw [ids_relabel_length] at h1
      have h2 := (ids_relabel cs (s.nodes.length + 1)).2
      simp only [Store.fuel, lenk, h2]
      omega
    obtain ⟨s2, e2, r2, c2, l2, len2, f2⟩ := attachKids_spec rk.real rk.nodup hcK hrcl hrcc hKlen
    have hacc2 : ∀ k ∈ ids acc, s2.nodes[k]? = sk.nodes[k]? := by
      intro k hk
      have hk1 := haccLt k hk
      refine f2 k (by omega) (fun h => ?_)
      have := (hKge k (map_id_subset_ids _ k h)).1
      omega
    have hR2 : Real s2 none none (acc ++ [.node s.nodes.length n v (relabel cs (s.nodes.length + 1)).1]) :=
      real_set_last_kids acc none none hRk1 hacc2 (by rw [c2, hrcl.1]; rfl) r2
    have hAcc2 : Acc s2 N0 (acc ++ [.node s.nodes.length n v (relabel cs (s.nodes.length + 1)).1]) := by
      refine ⟨hR2, ?_, ?_⟩
      · rw [ids_append, ids_cons, ids_nil, List.append_nil, List.nodup_append]
        refine ⟨hacc.nodup, ?_, ?_⟩
        · rw [List.nodup_cons]; exact ⟨hcK, ids_relabel_nodup _ _⟩
        · intro a ha b hb hab
          subst hab
          have h1 := haccLt a ha
          simp at hb
          rcases hb with rfl | hb
          · omega
          · have := (hKge a hb).1; omega
      · intro k hk
        rw [ids_append, ids_cons, ids_nil, List.append_nil] at hk
        simp at hk
        rcases hk with hk | rfl | hk
        · exact hacc.fresh k hk
        · exact hN
        · have := (hKge k hk).1; omega
    have h2len : s2.nodes.length = (relabel cs (s.nodes.length + 1)).2 := by rw [len2, lenk]
    have h2old : ∀ k, k < N0 → s2.nodes[k]? = s.nodes[k]? := by
      intro k hk
      rw [f2 k (by omega) (fun h => by have := (hKge k (map_id_subset_ids _ k h)).1; omega),
        frk k (by omega) (by simp), h1old k hk]
    -- continue with the siblings
    obtain ⟨s3, e3, r3, len3, fr3, frm3, al3⟩ := listLoop_spec ts s2 _ f (Src.frame hsts h2old)
      (by rw [h2len]; have := (ids_relabel cs (s.nodes.length + 1)).2; omega) hAcc2 (by omega)
    rw [h2len] at e3 r3 len3
    have hrel : (relabel (Tree.node i n v cs :: ts) s.nodes.length).1 =
        .node s.nodes.length n v (relabel cs (s.nodes.length + 1)).1 :: (relabel ts (relabel cs (s.nodes.length + 1)).2).1 := by
      simp [relabel]
    have hrel2 : (relabel (Tree.node i n v cs :: ts) s.nodes.length).2 = (relabel ts (relabel cs (s.nodes.length + 1)).2).2 := by
      simp [relabel]
    have happ : acc ++ (relabel (Tree.node i n v cs :: ts) s.nodes.length).1 =
        (acc ++ [.node s.nodes.length n v (relabel cs (s.nodes.length + 1)).1]) ++ (relabel ts (relabel cs (s.nodes.length + 1)).2).1 := by
      rw [hrel]; simp
    refine ⟨s3, ?_, ?_, ?_, ?_, ?_, ?_⟩
    · simp only [headId_cons, Store.listLoop, Store.get_ok ⟨hr, hra⟩, Res.bind_ok, hclone, e1, hrc, ek, e2, hrn]
      rw [happ]
      rw [headId_append_singleton, lastId_append_singleton] at e3
      simp only [Tree.id] at e3
      rw [lastId_isNone]
      exact e3
    · rw [happ]; exact r3
    · rw [hrel2]; exact len3
    · rw [fr3, l2.1, fk, l1.1]
    · intro k hk hka
      have hkK : k ∉ ids (relabel cs (s.nodes.length + 1)).1 := fun h => by have := (hKge k h).1; omega
      rw [frm3 k (by rw [len2, lenk]; have := (ids_relabel cs (s.nodes.length + 1)).2; omega)
        (by
          rw [ids_append, ids_cons, ids_nil, List.append_nil]
          simp only [List.mem_append, List.mem_cons, not_or]
          exact ⟨hka, by omega, hkK⟩),
        f2 k (by omega) (fun h => hkK (map_id_subset_ids _ k h)),
        frk k (by omega) (by simp), f1 k hka (by omega), hAold k hk]
    · intro k hk
      rw [al3 k (by rw [len2, lenk]; have := (ids_relabel cs (s.nodes.length + 1)).2; omega),
        l2.2 k, alk k (by omega), l1.2 k, hAold k hk]


/-- bookkeeping for a step that only appends fresh live records forming one new top-level list -/
theorem Realises.add_fresh {s s' : Store} {tops : List Forest} {nl : Forest} (h : Realises s tops)
    (hfreed : s'.freed = s.freed) (hold : ∀ i, i < s.nodes.length → s'.nodes[i]? = s.nodes[i]?)
    (hne : nl ≠ []) (hreal : Real s' none none nl) (hnd : (ids nl).Nodup)
    (hge : ∀ i ∈ ids nl, s.nodes.length ≤ i)
    (hall : ∀ i, s.nodes.length ≤ i → i < s'.nodes.length → i ∈ ids nl) :
    Realises s' (tops ++ [nl]) := by
  have hlt : ∀ l ∈ tops, ∀ i ∈ ids l, i < s.nodes.length := by
    intro l hl i hi
    obtain ⟨n, hn⟩ := Real.live (h.real l hl).2 i hi
    exact hn.lt
  refine ⟨?_, ?_, ?_, by rw [hfreed]; exact h.freedNodup, ?_⟩
  · intro l hl
    rw [List.mem_append] at hl
    rcases hl with hl | hl
    · have hr := h.real l hl
      exact ⟨hr.1, Real.frame hr.2 (fun i hi => hold i (hlt l hl i hi))⟩
    · simp at hl; subst hl; exact ⟨hne, hreal⟩
  · rw [List.flatMap_append, List.nodup_append]
    refine ⟨h.nodup, by simpa using hnd, ?_⟩
    intro a ha b hb hab
    subst hab
    simp at hb
    obtain ⟨l, hl, hi⟩ := List.mem_flatMap.1 ha
    have := hlt l hl a hi
    have := hge a hb
    omega
  · intro i n hn ha
    rw [List.flatMap_append, List.mem_append]
    by_cases hi : i < s.nodes.length
    · left; exact h.cover i n (by rw [← hold i hi]; exact hn) ha
    · right
      have hi' : i < s'.nodes.length := by
        rcases Nat.lt_or_ge i s'.nodes.length with h1 | h1
        · exact h1
        · rw [List.getElem?_eq_none h1] at hn; exact absurd hn (by simp)
      simpa using hall i (by omega) hi'
  · intro i
    rw [hfreed, h.freedIff i]
    by_cases hi : i < s.nodes.length
    · rw [hold i hi]
    · constructor
      · rintro ⟨n, hn, _⟩
        rw [List.getElem?_eq_none (by omega)] at hn
        exact absurd hn (by simp)
      · rintro ⟨n, hn, hd⟩
        exfalso
        have hi' : i < s'.nodes.length := by
          rcases Nat.lt_or_ge i s'.nodes.length with h1 | h1
          · exact h1
          · rw [List.getElem?_eq_none h1] at hn; exact absurd hn (by simp)
        obtain ⟨m, hm⟩ := Real.live hreal i (hall i (by omega) hi')
        rw [hm.1] at hn
        cases hn
        rw [hm.2] at hd
        exact absurd hd (by simp)

/-- a suffix of a realised sibling list is realised (with the element before it as predecessor) -/
theorem Real.drop {s : Store} : ∀ {L : Forest} {par prev : Option Nat} (j : Nat),
    Real s par prev L → Real s par (prevAt prev L j) (L.drop j)
  | L, par, prev, 0, h => by simpa [prevAt] using h
  | [], par, prev, j + 1, _ => by simp
  | (.node i n v cs) :: ts, par, prev, j + 1, h => by
    rw [Real_cons] at h
    rw [prevAt_succ]
    simpa [Tree.id] using Real.drop j h.2.2


theorem Realises.ids_lt {s : Store} {tops : List Forest} (h : Realises s tops) {l : Forest} (hl : l ∈ tops) :
    ∀ i ∈ ids l, i < s.nodes.length := by
  intro i hi
  obtain ⟨n, hn⟩ := Real.live (h.real l hl).2 i hi
  exact hn.lt

theorem Realises.ids_length_le {s : Store} {tops : List Forest} (h : Realises s tops) {l : Forest} (hl : l ∈ tops) :
    (ids l).length ≤ s.nodes.length := by
  have := h.cost_le hl
  rw [cost_eq] at this
  omega

/-- `mpt_list_clone(x)`: the sibling list from `x` on is copied with everything below it; the copy is a new
    top-level list that realises the relabelled source (same shape, names and values at every depth) -/
theorem listClone_refines_len {s : Store} {x j : Nat} {l0 L : Forest} {rest : List Forest} {par : Option Nat}
    (hR : Realises s (l0 :: rest)) (hat : SibsAt x l0 L j par) :
    ∃ s', s.listClone s.fuel (some x) = .ok (s', some s.nodes.length) ∧
      Realises s' ((l0 :: rest) ++ [(relabel (L.drop j) s.nodes.length).1]) ∧
      s'.nodes.length = (relabel (L.drop j) s.nodes.length).2 := by
  have hl0 := hR.real l0 (by simp)
  have hnd := hR.nodup
  simp only [List.flatMap_cons] at hnd
  have hnd0 : (ids l0).Nodup := (List.nodup_append.1 hnd).1
  have hLr := hat.real hl0.2
  have hidx := hat.idx
  obtain ⟨tx, htx, htxid⟩ := getElem?_of_idx? hidx
  have hjlt := idx?_lt hidx
  have hsrcR := Real.drop j hLr
  have hsub : ∀ i ∈ ids (L.drop j), i < s.nodes.length := fun i hi =>
    hR.ids_lt (l := l0) (by simp) i (hat.subset i (ids_drop_subset L j i hi))
  have hsrc : Src s s.nodes.length (L.drop j) := Real.src hsrcR hsub
  have hhead : headId (L.drop j) = some x := by rw [headId_drop, htx]; simp [htxid]
  have hfuel : (ids (L.drop j)).length ≤ s.fuel := by
    have h1 := hR.ids_length_le (l := l0) (by simp)
    obtain ⟨A, B, h2, _⟩ := hat.ids_split hnd0
    have h3 : (ids (L.drop j)).length ≤ (ids L).length := by
      have : ids L = ids (L.take j) ++ ids (L.drop j) := by rw [← ids_append, List.take_append_drop]
      rw [this]; simp
    have : (ids L).length ≤ (ids l0).length := by rw [h2]; simp; omega
    simp only [Store.fuel]; omega
  obtain ⟨s', e, acc', len', fr', frm', al'⟩ := listLoop_spec (N0 := s.nodes.length) (L.drop j) s [] s.fuel hsrc (Nat.le_refl _)
    ⟨by simp, by simp, by simp⟩ hfuel
  simp only [List.nil_append, headId_nil, lastId, List.getLast?_nil, Option.map_none] at e acc'
  have hcopyne : (relabel (L.drop j) s.nodes.length).1 ≠ [] := by
    intro h
    have h1 := ids_relabel_length (L.drop j) s.nodes.length
    rw [h] at h1
    have : 0 < (ids (L.drop j)).length := by
      cases hd : L.drop j with
      | nil =>
        have := congrArg List.length hd
        simp at this; omega
      | cons t ts => cases t; simp
    simp at h1; omega
  have hcopyhead : headId (relabel (L.drop j) s.nodes.length).1 = some s.nodes.length := by
    cases hd : L.drop j with
    | nil =>
      have := congrArg List.length hd
      simp at this; omega
    | cons t ts => cases t; simp [relabel]
  refine ⟨s', ?_, ?_, len'⟩
  · simp only [Store.listClone]
    rw [← hhead, e, hcopyhead]
  · refine hR.add_fresh fr' (fun i hi => frm' i hi (by simp)) hcopyne acc'.real acc'.nodup acc'.fresh ?_
    intro i h1 h2
    rw [(ids_relabel _ _).1]
    rw [len', (ids_relabel _ _).2] at h2
    exact List.mem_range'_1.2 ⟨h1, h2⟩

theorem listClone_refines {s : Store} {x j : Nat} {l0 L : Forest} {rest : List Forest} {par : Option Nat}
    (hR : Realises s (l0 :: rest)) (hat : SibsAt x l0 L j par) :
    ∃ s', s.listClone s.fuel (some x) = .ok (s', some s.nodes.length) ∧
      Realises s' ((l0 :: rest) ++ [(relabel (L.drop j) s.nodes.length).1]) := by
  obtain ⟨s', h1, h2, _⟩ := listClone_refines_len hR hat
  exact ⟨s', h1, h2⟩

/-- `mpt_tree_clone(x)`: `x` is copied with everything below it; the copy is a new detached root that
    realises the relabelled source tree -/
theorem treeClone_refines_len {s : Store} {x : Nat} {l0 : Forest} {rest : List Forest} {n : Name} {v : Val} {cs : Forest}
    (hR : Realises s (l0 :: rest)) (hfx : find? x l0 = some (.node x n v cs)) :
    ∃ s', s.treeClone x = .ok (s', s.nodes.length) ∧
      Realises s' ((l0 :: rest) ++ [(relabel [.node x n v cs] s.nodes.length).1]) ∧
      s'.nodes.length = (relabel [.node x n v cs] s.nodes.length).2 := by
  have hl0 := hR.real l0 (by simp)
  have hnd := hR.nodup
  simp only [List.flatMap_cons] at hnd
  have hnd0 : (ids l0).Nodup := (List.nodup_append.1 hnd).1
  obtain ⟨⟨nx, pv, pr, hxrec⟩, hkids⟩ := Real.of_find hl0.2 hfx
  simp only [Tree.children, Tree.name, Tree.value] at hxrec hkids
  have hsubcs : ∀ i ∈ ids cs, i < s.nodes.length := fun i hi =>
    hR.ids_lt (l := l0) (by simp) i (find?_children_subset hfx i hi)
  -- the copy of the node itself
  let sA : Store := { s with nodes := s.nodes ++ [{ name := n, value := v }] }
  have hAold : ∀ k, k < s.nodes.length → sA.nodes[k]? = s.nodes[k]? := by
    intro k hk; simp [sA, List.getElem?_append_left hk]
  have hAnew : sA.nodes[s.nodes.length]? = some (recOf none none none [] n v) := by simp [sA, recOf, headId]
  have hAlen : sA.nodes.length = s.nodes.length + 1 := by simp [sA]
  have hclone : s.nodeClone x = .ok (sA, s.nodes.length) := by
    simp [Store.nodeClone, Store.get_ok ⟨hxrec, rfl⟩, Store.alloc, sA, recOf]
  -- the children
  have hsrc : Src sA s.nodes.length cs := Src.frame (Real.src hkids hsubcs) hAold
  have hfuel : (ids cs).length ≤ sA.fuel := by
    have h1 := hR.ids_length_le (l := l0) (by simp)
    obtain ⟨A, B, h2, _⟩ := ids_modKids_split hnd0 hfx
    have : (ids cs).length ≤ (ids l0).length := by rw [h2]; simp [Tree.children]; omega
    simp only [Store.fuel, hAlen]; omega
  obtain ⟨sk, ek, rk, lenk, fk, frk, alk⟩ := listLoop_spec (N0 := s.nodes.length) cs sA [] sA.fuel hsrc (by omega)
    ⟨by simp, by simp, by simp⟩ hfuel
  rw [hAlen] at ek rk lenk
  simp only [List.nil_append, headId_nil, lastId, List.getLast?_nil, Option.map_none] at ek rk
  have hKge := ids_relabel_ge cs (s.nodes.length + 1)
  have hcK : s.nodes.length ∉ ids (relabel cs (s.nodes.length + 1)).1 := fun h => by have := (hKge _ h).1; omega
  have hrcl : sk.Live s.nodes.length (recOf none none none [] n v) :=
    ⟨by rw [frk _ (by omega) (by simp)]; exact hAnew, rfl⟩
  have hKlen : (relabel cs (s.nodes.length + 1)).1.length ≤ sk.fuel := by
    have h1 := length_le_ids (relabel cs (s.nodes.length + 1)).1
    rw [ids_relabel_length] at h1
    have h2 := (ids_relabel cs (s.nodes.length + 1)).2
    simp only [Store.fuel, lenk, h2]
    omega
  obtain ⟨s2, e2, r2, c2, l2, len2, f2⟩ := attachKids_spec rk.real rk.nodup hcK hrcl rfl hKlen
  have hrel : (relabel [Tree.node x n v cs] s.nodes.length).1 = [.node s.nodes.length n v (relabel cs (s.nodes.length + 1)).1] := by
    simp [relabel]
  have hrel2 : (relabel [Tree.node x n v cs] s.nodes.length).2 = (relabel cs (s.nodes.length + 1)).2 := by
    simp [relabel]
  refine ⟨s2, ?_, ?_, by rw [hrel2, len2, lenk]⟩
  · simp only [Store.treeClone, Store.get_ok ⟨hxrec, rfl⟩, Res.bind_ok, hclone, Store.listClone]
    rw [ek]
    simp only [Res.bind_ok, e2]
    rfl
  · rw [hrel]
    refine hR.add_fresh (by rw [l2.1, fk]) ?_ (by simp) ?_ ?_ ?_ ?_
    · intro i hi
      rw [f2 i (by omega) (fun h => by have := (hKge i (map_id_subset_ids _ i h)).1; omega),
        frk i (by omega) (by simp), hAold i hi]
    · rw [Real_cons]
      exact ⟨by rw [c2]; rfl, r2, by simp⟩
    · rw [ids_cons, ids_nil, List.append_nil, List.nodup_cons]
      exact ⟨hcK, rk.nodup⟩
    · intro i hi
      simp at hi
      rcases hi with rfl | hi
      · exact Nat.le_refl _
      · have := (hKge i hi).1; omega
    · intro i h1 h2
      rw [len2, lenk, (ids_relabel _ _).2] at h2
      simp only [ids_cons, ids_nil, List.append_nil, List.mem_cons]
      by_cases hic : i = s.nodes.length
      · exact Or.inl hic
      · right
        rw [(ids_relabel _ _).1]
        exact List.mem_range'_1.2 ⟨by omega, h2⟩


theorem treeClone_refines {s : Store} {x : Nat} {l0 : Forest} {rest : List Forest} {n : Name} {v : Val} {cs : Forest}
    (hR : Realises s (l0 :: rest)) (hfx : find? x l0 = some (.node x n v cs)) :
    ∃ s', s.treeClone x = .ok (s', s.nodes.length) ∧
      Realises s' ((l0 :: rest) ++ [(relabel [.node x n v cs] s.nodes.length).1]) := by
  obtain ⟨s', h1, h2, _⟩ := treeClone_refines_len hR hfx
  exact ⟨s', h1, h2⟩

end Mpt.Nodes
