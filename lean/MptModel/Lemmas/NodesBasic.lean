/-
  Pointer-level facts about the node store model: what each link-manipulating function does to the
  records, stated as "record `i` afterwards = …" (core Lean only).
-/
import MptModel.Impl.Nodes
namespace Mpt.Nodes
open Mpt Mpt.Forest

namespace Store

/-- `i` points to a live record `n` -/
def Live (s : Store) (i : Nat) (n : Node) : Prop := s.nodes[i]? = some n ∧ n.alive = true

theorem Live.lt {s : Store} {i : Nat} {n : Node} (h : s.Live i n) : i < s.nodes.length := by
  rcases Nat.lt_or_ge i s.nodes.length with h' | h'
  · exact h'
  · have := h.1; simp [List.getElem?_eq_none h'] at this

theorem get_ok {s : Store} {i : Nat} {n : Node} (h : s.Live i n) : s.get i = .ok n := by
  simp [get, h.1, h.2]

/-- `s'` is `s` with record `i` replaced by `m` -/
def Upd (s s' : Store) (i : Nat) (m : Node) : Prop :=
  s'.freed = s.freed ∧ s'.nodes.length = s.nodes.length ∧ ∀ j, s'.nodes[j]? = if j = i then some m else s.nodes[j]?

theorem modify_ok {s : Store} {i : Nat} {n : Node} (h : s.Live i n) (f : Node → Node) :
    ∃ s', s.modify i f = .ok s' ∧ Upd s s' i (f n) := by
  have hl := h.lt
  refine ⟨{ s with nodes := s.nodes.set i (f n) }, by simp [modify, h.1, h.2], rfl, by simp, ?_⟩
  intro j
  simp [List.getElem?_set]
  grind

theorem Upd.live_same {s s' : Store} {i : Nat} {m : Node} (h : Upd s s' i m) (ha : m.alive = true) : s'.Live i m := by
  refine ⟨?_, ha⟩
  simp [h.2.2 i]

theorem Upd.live_other {s s' : Store} {i j : Nat} {m n : Node} (h : Upd s s' i m) (hj : s.Live j n) (hne : j ≠ i) : s'.Live j n := by
  refine ⟨?_, hj.2⟩
  simp [h.2.2 j, hne, hj.1]

/-- effect of `mpt_gnode_after(p, x)` on the records -/
theorem gnodeAfter_ok {s : Store} {p x : Nat} {pn xn : Node} (hp : s.Live p pn) (hx : s.Live x xn) (hne : x ≠ p)
    (hq : ∀ q, pn.next = some q → ∃ qn, s.Live q qn ∧ q ≠ x ∧ q ≠ p) :
    ∃ s', s.gnodeAfter (some p) x = .ok s' ∧ s'.freed = s.freed ∧ s'.nodes.length = s.nodes.length ∧
      ∀ i, s'.nodes[i]? =
        if i = x then some { xn with prev := some p, next := pn.next, parent := pn.parent }
        else if i = p then some { pn with next := some x }
        else if some i = pn.next then (s.nodes[i]?).map (fun qn => { qn with prev := some x })
        else s.nodes[i]? := by
  obtain ⟨s1, e1, u1⟩ := modify_ok hx (fun n => { n with prev := some p, next := pn.next })
  have hp1 : s1.Live p pn := u1.live_other hp (Ne.symm hne)
  obtain ⟨s2, e2, u2⟩ := modify_ok hp1 (fun n => { n with next := some x })
  have hp2 : s2.Live p { pn with next := some x } := u2.live_same hp.2
  have hx2 : s2.Live x { xn with prev := some p, next := pn.next } := u2.live_other (u1.live_same hx.2) hne
  obtain ⟨s3, e3, u3⟩ := modify_ok hx2 (fun n => { n with parent := pn.parent })
  have hx3 := u3.live_same (m := { xn with prev := some p, next := pn.next, parent := pn.parent }) hx.2
  cases hn : pn.next with
  | none =>
    refine ⟨s3, ?_, ?_, ?_, ?_⟩
    · simp only [gnodeAfter, hne, ↓reduceIte, get_ok hp, Res.bind_ok, e1, e2, get_ok hp2, e3, get_ok hx3]
      simp only [hn]
      rfl
    · rw [u3.1, u2.1, u1.1]
    · rw [u3.2.1, u2.2.1, u1.2.1]
    · intro i
      rw [u3.2.2, u2.2.2, u1.2.2]
      grind
  | some q =>
    obtain ⟨qn, hq1, hqx, hqp⟩ := hq q hn
    have hq3 : s3.Live q qn := u3.live_other (u2.live_other (u1.live_other hq1 hqx) hqp) hqx
    obtain ⟨s4, e4, u4⟩ := modify_ok hq3 (fun n => { n with prev := some x })
    refine ⟨s4, ?_, ?_, ?_, ?_⟩
    · simp only [gnodeAfter, hne, ↓reduceIte, get_ok hp, Res.bind_ok, e1, e2, get_ok hp2, e3, get_ok hx3]
      simp only [hn, e4]
    · rw [u4.1, u3.1, u2.1, u1.1]
    · rw [u4.2.1, u3.2.1, u2.2.1, u1.2.1]
    · intro i
      rw [u4.2.2, u3.2.2, u2.2.2, u1.2.2]
      have := hq1.1
      grind

/-- effect of `mpt_gnode_before(p, x)` on the records: the predecessor's `next`, or else the parent's
    `children`, is redirected to `x` -/
theorem gnodeBefore_ok {s : Store} {p x : Nat} {pn xn : Node} (hp : s.Live p pn) (hx : s.Live x xn) (hne : x ≠ p)
    (hq : ∀ q, pn.prev = some q → ∃ qn, s.Live q qn ∧ q ≠ x ∧ q ≠ p)
    (hr : pn.prev = none → ∀ r, pn.parent = some r → ∃ rn, s.Live r rn ∧ r ≠ x ∧ r ≠ p) :
    ∃ s', s.gnodeBefore (some p) x = .ok s' ∧ s'.freed = s.freed ∧ s'.nodes.length = s.nodes.length ∧
      ∀ i, s'.nodes[i]? =
        if i = x then some { xn with prev := pn.prev, next := some p, parent := pn.parent }
        else if i = p then some { pn with prev := some x }
        else if some i = pn.prev then (s.nodes[i]?).map (fun qn => { qn with next := some x })
        else if pn.prev = none ∧ some i = pn.parent then (s.nodes[i]?).map (fun rn => { rn with children := some x })
        else s.nodes[i]? := by
  obtain ⟨s1, e1, u1⟩ := modify_ok hx (fun n => { n with prev := pn.prev, next := some p })
  have hp1 : s1.Live p pn := u1.live_other hp (Ne.symm hne)
  obtain ⟨s2, e2, u2⟩ := modify_ok hp1 (fun n => { n with prev := some x })
  have hp2 : s2.Live p { pn with prev := some x } := u2.live_same hp.2
  have hx2 : s2.Live x { xn with prev := pn.prev, next := some p } := u2.live_other (u1.live_same hx.2) hne
  obtain ⟨s3, e3, u3⟩ := modify_ok hx2 (fun n => { n with parent := pn.parent })
  have hx3 := u3.live_same (m := { xn with prev := pn.prev, next := some p, parent := pn.parent }) hx.2
  cases hn : pn.prev with
  | some q =>
    obtain ⟨qn, hq1, hqx, hqp⟩ := hq q hn
    have hq3 : s3.Live q qn := u3.live_other (u2.live_other (u1.live_other hq1 hqx) hqp) hqx
    obtain ⟨s4, e4, u4⟩ := modify_ok hq3 (fun n => { n with next := some x })
    refine ⟨s4, ?_, ?_, ?_, ?_⟩
    · simp only [gnodeBefore, hne, ↓reduceIte, get_ok hp, Res.bind_ok, e1, e2, get_ok hp2, e3, get_ok hx3]
      simp only [hn, e4]
    · rw [u4.1, u3.1, u2.1, u1.1]
    · rw [u4.2.1, u3.2.1, u2.2.1, u1.2.1]
    · intro i
      rw [u4.2.2, u3.2.2, u2.2.2, u1.2.2]
      have := hq1.1
      grind
  | none =>
    cases hpar : pn.parent with
    | none =>
      refine ⟨s3, ?_, ?_, ?_, ?_⟩
      · simp only [gnodeBefore, hne, ↓reduceIte, get_ok hp, Res.bind_ok, e1, e2, get_ok hp2, e3, get_ok hx3]
        simp only [hn, hpar]
        rfl
      · rw [u3.1, u2.1, u1.1]
      · rw [u3.2.1, u2.2.1, u1.2.1]
      · intro i
        rw [u3.2.2, u2.2.2, u1.2.2]
        grind
    | some r =>
      obtain ⟨rn, hr1, hrx, hrp⟩ := hr hn r hpar
      have hr3 : s3.Live r rn := u3.live_other (u2.live_other (u1.live_other hr1 hrx) hrp) hrx
      obtain ⟨s4, e4, u4⟩ := modify_ok hr3 (fun n => { n with children := some x })
      refine ⟨s4, ?_, ?_, ?_, ?_⟩
      · simp only [gnodeBefore, hne, ↓reduceIte, get_ok hp, Res.bind_ok, e1, e2, get_ok hp2, e3, get_ok hx3]
        simp only [hn, hpar, e4]
      · rw [u4.1, u3.1, u2.1, u1.1]
      · rw [u4.2.1, u3.2.1, u2.2.1, u1.2.1]
      · intro i
        rw [u4.2.2, u3.2.2, u2.2.2, u1.2.2]
        have := hr1.1
        grind


/-- effect of `mpt_node_unlink(c)` on the records -/
theorem unlink_ok {s : Store} {c : Nat} {cn : Node} (hc : s.Live c cn)
    (hq : ∀ q, cn.next = some q → ∃ qn, s.Live q qn ∧ q ≠ c)
    (hp : ∀ p, cn.prev = some p → ∃ pn, s.Live p pn ∧ p ≠ c ∧ some p ≠ cn.next)
    (hr : cn.prev = none → ∀ r, cn.parent = some r → ∃ rn, s.Live r rn ∧ r ≠ c ∧ some r ≠ cn.next) :
    ∃ s', s.unlink c = .ok (s', cn.next) ∧ s'.freed = s.freed ∧ s'.nodes.length = s.nodes.length ∧
      ∀ i, s'.nodes[i]? =
        if i = c then some { cn with parent := none, next := none, prev := none }
        else if some i = cn.next then (s.nodes[i]?).map (fun qn => { qn with prev := cn.prev })
        else if some i = cn.prev then (s.nodes[i]?).map (fun pn => { pn with next := cn.next })
        else if cn.prev = none ∧ some i = cn.parent then (s.nodes[i]?).map (fun rn => { rn with children := cn.next })
        else s.nodes[i]? := by
  -- step 1: successor
  have h1 : ∃ s1, unlinkNext s cn = Res.ok s1 ∧ s1.freed = s.freed ∧ s1.nodes.length = s.nodes.length ∧
      (∀ i, s1.nodes[i]? = if some i = cn.next then (s.nodes[i]?).map (fun qn => { qn with prev := cn.prev }) else s.nodes[i]?) := by
    cases hn : cn.next with
    | none => exact ⟨s, by simp [unlinkNext, hn], rfl, rfl, by intro i; simp⟩
    | some q =>
      obtain ⟨qn, hq1, hqc⟩ := hq q hn
      obtain ⟨s1, e1, u1⟩ := modify_ok hq1 (fun x => { x with prev := cn.prev })
      refine ⟨s1, by simp [unlinkNext, hn, e1], u1.1, u1.2.1, ?_⟩
      intro i
      rw [u1.2.2]
      have := hq1.1
      grind
  obtain ⟨s1, e1, f1, l1, r1⟩ := h1
  have hc1 : s1.Live c cn := by
    refine ⟨?_, hc.2⟩
    rw [r1]
    have := hc.1
    have : some c ≠ cn.next := by
      intro h
      obtain ⟨_, _, hne⟩ := hq c h.symm
      exact hne rfl
    simp [this, hc.1]
  -- step 2: predecessor or parent
  have h2 : ∃ s2, unlinkPrev s1 cn cn.next = Res.ok s2 ∧ s2.freed = s1.freed ∧ s2.nodes.length = s1.nodes.length ∧
      (∀ i, s2.nodes[i]? =
        if some i = cn.prev then (s1.nodes[i]?).map (fun pn => { pn with next := cn.next })
        else if cn.prev = none ∧ some i = cn.parent then (s1.nodes[i]?).map (fun rn => { rn with children := cn.next })
        else s1.nodes[i]?) := by
    cases hpv : cn.prev with
    | some p =>
      obtain ⟨pn, hp1, hpc, hpq⟩ := hp p hpv
      have hp1' : s1.Live p pn := by
        refine ⟨?_, hp1.2⟩
        rw [r1]; simp [hpq, hp1.1]
      obtain ⟨s2, e2, u2⟩ := modify_ok hp1' (fun x => { x with next := cn.next })
      refine ⟨s2, by simp [unlinkPrev, hpv, e2], u2.1, u2.2.1, ?_⟩
      intro i
      rw [u2.2.2]
      have := hp1'.1
      grind
    | none =>
      cases hpar : cn.parent with
      | none => exact ⟨s1, by simp [unlinkPrev, hpv, hpar], rfl, rfl, by intro i; simp⟩
      | some r =>
        obtain ⟨rn, hr1, hrc, hrq⟩ := hr hpv r hpar
        have hr1' : s1.Live r rn := by
          refine ⟨?_, hr1.2⟩
          rw [r1]; simp [hrq, hr1.1]
        obtain ⟨s2, e2, u2⟩ := modify_ok hr1' (fun x => { x with children := cn.next })
        refine ⟨s2, by simp [unlinkPrev, hpv, hpar, e2], u2.1, u2.2.1, ?_⟩
        intro i
        rw [u2.2.2]
        have := hr1'.1
        grind
  obtain ⟨s2, e2, f2, l2, r2⟩ := h2
  have hc2 : s2.Live c cn := by
    refine ⟨?_, hc.2⟩
    rw [r2]
    have h1 : some c ≠ cn.prev := by
      intro h
      obtain ⟨_, _, hne, _⟩ := hp c h.symm
      exact hne rfl
    have h2 : ¬ (cn.prev = none ∧ some c = cn.parent) := by
      intro ⟨ha, hb⟩
      obtain ⟨_, _, hne, _⟩ := hr ha c hb.symm
      exact hne rfl
    simp [h1, h2, hc1.1]
  obtain ⟨s3, e3, u3⟩ := modify_ok hc2 (fun x => { x with parent := none, next := none, prev := none })
  refine ⟨s3, ?_, ?_, ?_, ?_⟩
  · simp only [unlink, get_ok hc, Res.bind_ok, e1, get_ok hc1, e2, e3]
    rfl
  · rw [u3.1, f2, f1]
  · rw [u3.2.1, l2, l1]
  · intro i
    rw [u3.2.2, r2, r1]
    by_cases hic : i = c
    · simp [hic]
    · simp only [hic, ↓reduceIte]
      by_cases hin : some i = cn.next
      · have : some i ≠ cn.prev := by
          intro h
          obtain ⟨_, _, _, hne⟩ := hp i h.symm
          exact hne hin
        have h2 : ¬ (cn.prev = none ∧ some i = cn.parent) := by
          intro ⟨ha, hb⟩
          obtain ⟨_, _, _, hne⟩ := hr ha i hb.symm
          exact hne hin
        rw [if_pos hin, if_neg this, if_neg h2, if_pos hin]
      · rw [if_neg hin, if_neg hin]

end Store
end Mpt.Nodes
