/-
  Lemmas about the model of the C++ wrapper mpt::encode_array (core Lean only).
-/
import MptModel.Lemmas.ArrayPush
import MptModel.Lemmas.EncodeDelete
namespace Mpt.Codec
open Mpt.Cobs

/-- `data()` of a well-formed array: the finished frames, then only zero-free bytes (finished blocks of
    the message in progress) -/
theorem xaData_spec (v : Variant) (a : EncArray) (pre : List Byte) (ms : List (Byte × Bool)) (h : ArrInv v a pre ms) :
    ∃ fin, xaData a = pre ++ fin ∧ ∀ x ∈ fin, x ≠ 0 := by
  rcases h with ⟨h1, h2, h3, h4, h5⟩ | ⟨buf, h1, h2, h3⟩
  · exact ⟨[], by simp [xaData, h1, h4], by simp⟩
  · obtain ⟨fin, e1, e2, e3, e4, e5⟩ := h3.fin_nz
    refine ⟨fin, ?_, e3⟩
    simp only [xaData, h1, h2]
    rw [show a.st.done + a.st.scratch - a.st.done - a.st.scratch = 0 by omega]
    simpa using e2

/-- consuming `n` finished bytes removes exactly them from what `data()` hands out -/
theorem xaShift_data (a a' : EncArray) (n : Nat) (hn : n ≠ 0) (hu : a.st.done + a.st.scratch ≤ a.used)
    (h : xaShift a n = some a') : xaData a' = (xaData a).drop n := by
  unfold xaShift at h
  rw [if_neg hn] at h
  split at h
  · simp at h
  · rename_i hle
    simp only [Option.some.injEq] at h
    subst h
    unfold xaData
    cases a.buf with
    | none => simp
    | some b =>
      simp only
      rw [show a.used - (a.st.done - n) - a.st.scratch = (a.used - a.st.done - a.st.scratch) + n by omega]
      rw [← List.drop_drop, List.drop_take]

end Mpt.Codec
