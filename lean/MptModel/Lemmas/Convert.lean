/-
  Helper lemmas for C07 (integer conversions): a verified *checker* for the generated converter tables.

  `checkCase src c tgt` abstractly interprets the guard list of one switch case over the interval of
  source values and decides whether every surviving value is stored exactly; `checkCase_sound` proves
  that a passed check implies the property for *every* source value.  The property theorems then only
  `decide` the checker on the generated table, so they follow the regenerated table automatically and
  fail when a bound is widened or an `if (dest)` is dropped.
-/
import MptModel.Impl.Convert
set_option linter.unusedSimpArgs false
namespace Mpt.Conv
open Mpt.Scalar Mpt.Flt

/-- value range of a C integer type -/
def CTy.lo : CTy → Int
  | .i8 => -128 | .i16 => -32768 | .i32 => -2147483648 | .i64 => -9223372036854775808
  | _ => 0
def CTy.hi : CTy → Int
  | .i8 => 127 | .u8 => 255 | .i16 => 32767 | .u16 => 65535
  | .i32 => 2147483647 | .u32 => 4294967295
  | .i64 => 9223372036854775807 | .u64 => 18446744073709551615
  | _ => 0

theorem wrap_id (t : CTy) (v : Int) (hf : t.isFloat = false) (h1 : t.lo ≤ v) (h2 : v ≤ t.hi) : wrap t v = v := by
  cases t <;> simp [CTy.isFloat] at hf <;> simp only [CTy.lo, CTy.hi] at h1 h2 <;> simp only [wrap] <;> omega

/-- closed interval of integers -/
structure Iv where
  lo : Int
  hi : Int
  deriving DecidableEq, Repr

def Iv.mem (iv : Iv) (v : Int) : Prop := iv.lo ≤ v ∧ v ≤ iv.hi

/-- every value of the interval is unchanged by conversion to `t` -/
def CTy.holdsIv (t : CTy) (iv : Iv) : Bool := !t.isFloat && decide (t.lo ≤ iv.lo) && decide (iv.hi ≤ t.hi)

theorem wrap_iv (t : CTy) (iv : Iv) (v : Int) (h : t.holdsIv iv = true) (hv : iv.mem v) :
    t.isFloat = false ∧ wrap t v = v := by
  simp [CTy.holdsIv] at h
  obtain ⟨⟨hf, h1⟩, h2⟩ := h
  exact ⟨hf, wrap_id t v hf (by unfold Iv.mem at hv; omega) (by unfold Iv.mem at hv; omega)⟩

/-- values of `iv` for which the single-atom conjunction `conj` is false (they continue with the next
    disjunct / the next guard); `none` = shape not supported or possibly undefined behaviour -/
def stepDisjunct (iv : Iv) (conj : List Atom) : Option Iv :=
  match conj with
  | [.cmp .lt cty k] => if cty.holdsIv iv then some { iv with lo := max iv.lo k } else none
  | [.cmp .le cty k] => if cty.holdsIv iv then some { iv with lo := max iv.lo (k + 1) } else none
  | [.cmp .gt cty k] => if cty.holdsIv iv then some { iv with hi := min iv.hi k } else none
  | [.cmp .ge cty k] => if cty.holdsIv iv then some { iv with hi := min iv.hi (k - 1) } else none
  | [.notIsgraph idx] =>
    if idx.holdsIv iv && decide (0 ≤ iv.lo) && decide (iv.hi ≤ 255) then some { lo := max iv.lo 33, hi := min iv.hi 126 }
    else none
  | _ => none

def stepDisj (iv : Iv) : List (List Atom) → Option Iv
  | [] => some iv
  | c :: cs => match stepDisjunct iv c with
    | some iv' => stepDisj iv' cs
    | none => none

def stepGuards (iv : Iv) : List Guard → Option Iv
  | [] => some iv
  | g :: gs => match stepDisj iv g.conds with
    | some iv' => stepGuards iv' gs
    | none => none

theorem evalConj_single (src : CTy) (s : Src) (a : Atom) : evalConj src s [a] = a.eval src s := by
  unfold evalConj
  cases h : a.eval src s with
  | ok b => cases b <;> simp [evalConj]
  | _ => simp

theorem stepDisjunct_sound (src : CTy) (iv iv' : Iv) (conj : List Atom) (v : Int)
    (h : stepDisjunct iv conj = some iv') (hv : iv.mem v) :
    ∃ b, evalConj src (.int v) conj = .ok b ∧ (b = false → iv'.mem v) := by
  unfold stepDisjunct at h
  split at h
  all_goals try (simp at h; done)
  all_goals rw [evalConj_single]; simp only [Atom.eval, Atom.evalI]
  · -- lt
    split at h <;> simp at h
    rename_i hc
    obtain ⟨hf, hw⟩ := wrap_iv _ iv v hc hv
    simp [hf, hw, Cmp.holds]
    intro hk; subst h; unfold Iv.mem at *; simp; omega
  · -- le
    split at h <;> simp at h
    rename_i hc
    obtain ⟨hf, hw⟩ := wrap_iv _ iv v hc hv
    simp [hf, hw, Cmp.holds]
    intro hk; subst h; unfold Iv.mem at *; simp; omega
  · -- gt
    split at h <;> simp at h
    rename_i hc
    obtain ⟨hf, hw⟩ := wrap_iv _ iv v hc hv
    simp [hf, hw, Cmp.holds]
    intro hk; subst h; unfold Iv.mem at *; simp; omega
  · -- ge
    split at h <;> simp at h
    rename_i hc
    obtain ⟨hf, hw⟩ := wrap_iv _ iv v hc hv
    simp [hf, hw, Cmp.holds]
    intro hk; subst h; unfold Iv.mem at *; simp; omega
  · -- isgraph
    split at h <;> simp at h
    rename_i hc
    simp at hc
    obtain ⟨⟨hc, h0⟩, h255⟩ := hc
    obtain ⟨_, hw⟩ := wrap_iv _ iv v hc hv
    have hv' := hv
    unfold Iv.mem at hv'
    have hdom : 0 ≤ v ∧ v ≤ 255 := by omega
    simp [hw, hdom, isgraphC]
    intro hk; subst h; unfold Iv.mem; simp; omega

theorem stepDisj_sound (src : CTy) (cs : List (List Atom)) (iv iv' : Iv) (v : Int)
    (h : stepDisj iv cs = some iv') (hv : iv.mem v) :
    ∃ b, evalDisj src (.int v) cs = .ok b ∧ (b = false → iv'.mem v) := by
  induction cs generalizing iv with
  | nil => simp [stepDisj] at h; subst h; exact ⟨false, by simp [evalDisj], fun _ => hv⟩
  | cons c cs ih =>
    simp only [stepDisj] at h
    split at h
    · rename_i iv1 h1
      obtain ⟨b, hb, hb'⟩ := stepDisjunct_sound src iv iv1 c v h1 hv
      cases b with
      | true => exact ⟨true, by simp [evalDisj, hb], by simp⟩
      | false =>
        obtain ⟨b2, h2, h2'⟩ := ih iv1 h (hb' rfl)
        exact ⟨b2, by simp [evalDisj, hb, h2], h2'⟩
    · simp at h

/-- the guards either refuse or let `v` through, and then `v` is in the surviving interval; never a fault -/
theorem stepGuards_sound (src : CTy) (gs : List Guard) (iv iv' : Iv) (v : Int)
    (h : stepGuards iv gs = some iv') (hv : iv.mem v) :
    (evalGuards src (.int v) gs = .ok () ∧ iv'.mem v) ∨ (∃ e, evalGuards src (.int v) gs = .err e) := by
  induction gs generalizing iv with
  | nil => simp [stepGuards] at h; subst h; exact Or.inl ⟨by simp [evalGuards], hv⟩
  | cons g gs ih =>
    simp only [stepGuards] at h
    split at h
    · rename_i iv1 h1
      obtain ⟨b, hb, hb'⟩ := stepDisj_sound src g.conds iv iv1 v h1 hv
      cases b with
      | true => exact Or.inr ⟨g.err, by simp [evalGuards, hb]⟩
      | false =>
        rcases ih iv1 h (hb' rfl) with h2 | ⟨e, h2⟩
        · exact Or.inl ⟨by simp [evalGuards, hb, h2.1], h2.2⟩
        · exact Or.inr ⟨e, by simp [evalGuards, hb, h2]⟩
    · simp at h

/-- C type of an integer scalar type -/
def srcIv (src : CTy) : Iv := { lo := src.lo, hi := src.hi }

/-- the case converts every in-range value of integer type `src` that it accepts exactly to the integer
    target `tgt`, tests the destination before storing (and nothing else depends on the destination), stores an
    object of the target's size, returns that size and (target 'c') accepts printable characters only -/
def checkCase (src : CTy) (c : Case) (tgt : Ty) : Bool :=
  !src.isFloat && !tgt.isFloat && c.guarded && c.destGuards.isEmpty && c.ret == tgt.size &&
  !c.store.isFloat && c.store.size == (tgtCTy tgt).size &&
  match stepGuards (srcIv src) c.guards with
  | some iv =>
    decide (iv.hi < iv.lo) ||
    (decide (tgt.lo ≤ iv.lo) && decide (iv.hi ≤ tgt.hi) && (tgt != .c || (decide (33 ≤ iv.lo) && decide (iv.hi ≤ 126))))
  | none => false

theorem modulus_of_size (st : CTy) (tgt : Ty) (hf : st.isFloat = false) (ht : tgt.isFloat = false)
    (hs : st.size = (tgtCTy tgt).size) : st.modulus = tgt.card := by
  cases st <;> simp [CTy.isFloat] at hf <;> cases tgt <;> simp [Ty.isFloat] at ht <;>
    simp [CTy.size, tgtCTy] at hs <;> simp [CTy.modulus, Ty.card]

theorem denote_store (tgt : Ty) (v : Int) (ht : tgt.isFloat = false) (h1 : tgt.lo ≤ v) (h2 : v ≤ tgt.hi) :
    denote tgt ((v % tgt.card).toNat) = v := by
  cases tgt <;> simp [Ty.isFloat] at ht <;> simp only [Ty.lo, Ty.hi] at h1 h2 <;>
    simp only [denote, Ty.signed, Ty.hi, Ty.card, Bool.false_eq_true, false_and, ite_false, true_and] <;>
    first
      | omega
      | (split <;> omega)

theorem checkCase_sound (src : CTy) (c : Case) (tgt : Ty) (v : Int) (d : Bool)
    (hc : checkCase src c tgt = true) (h1 : src.lo ≤ v) (h2 : v ≤ src.hi) :
    (∃ e, runCase src c (.int v) d = .err e) ∨
    (∃ o, runCase src c (.int v) d = .ok (o, tgt.size) ∧ (d = false → o = none) ∧
      (d = true → ∃ bits, o = some (.int c.store bits) ∧ readBack tgt (.int c.store bits) = .ok (.int bits) ∧
        denote tgt bits = v ∧ (tgt = .c → isGraph v = true))) := by
  unfold checkCase at hc
  simp only [Bool.and_eq_true, Bool.not_eq_true', beq_iff_eq, List.isEmpty_iff] at hc
  obtain ⟨⟨⟨⟨⟨⟨⟨hsf, htf⟩, hg⟩, hdg⟩, hret⟩, hstf⟩, hsz⟩, hiv⟩ := hc
  split at hiv
  · rename_i iv hst
    have hmem : (srcIv src).mem v := ⟨h1, h2⟩
    have hsup : c.supported src = true := by simp [Case.supported, hsf]
    rcases stepGuards_sound src c.guards (srcIv src) iv v hst hmem with ⟨hok, hin⟩ | ⟨e, he⟩
    · right
      unfold Iv.mem at hin
      simp only [Bool.or_eq_true, decide_eq_true_eq, Bool.and_eq_true, bne_iff_ne, ne_eq] at hiv
      have hr : tgt.lo ≤ v ∧ v ≤ tgt.hi ∧ (tgt = .c → 33 ≤ v ∧ v ≤ 126) := by
        rcases hiv with hemp | ⟨⟨hlo, hhi⟩, hcc⟩
        · omega
        · refine ⟨by omega, by omega, ?_⟩
          intro htc
          rcases hcc with hne | ⟨a, b⟩
          · exact absurd htc hne
          · omega
      cases d with
      | false =>
        exact ⟨none, by simp [runCase, hsup, hok, hg, hret], by simp, by simp⟩
      | true =>
        refine ⟨some (.int c.store ((v % c.store.modulus).toNat)), by simp [runCase, hsup, hok, hdg, evalGuards, doStore, hstf, hret], by simp, ?_⟩
        intro _
        refine ⟨(v % c.store.modulus).toNat, rfl, ?_, ?_, ?_⟩
        · have hwf : (tgtCTy tgt).isFloat = false := by cases tgt <;> simp_all [tgtCTy, CTy.isFloat, Ty.isFloat]
          simp [readBack, hsz, hwf]
        · rw [modulus_of_size c.store tgt hstf htf hsz]
          exact denote_store tgt v htf hr.1 hr.2.1
        · intro htc
          have := hr.2.2 htc
          simp [isGraph]; omega
    · left
      exact ⟨e, by simp [runCase, hsup, he]⟩
  · simp at hiv

/-! ### the whole table -/

/-- C type of a scalar source type -/
theorem tgtCTy_range (ty : Ty) (v : Int) (hf : ty.isFloat = false) : inRange ty v ↔ ((tgtCTy ty).lo ≤ v ∧ v ≤ (tgtCTy ty).hi) := by
  cases ty <;> simp [Ty.isFloat] at hf <;> simp [inRange, Ty.lo, Ty.hi, tgtCTy, CTy.lo, CTy.hi]

/-- check of one (source type, target type) pair of the generated tables: the dispatched converter handles values of
    the source's C type, and the selected case (if any; no case = refused) passes `checkCase` -/
def checkPair (src tgt : Ty) : Bool :=
  match fnOf src with
  | none => true
  | some f =>
    f.src == tgtCTy src &&
    match f.lookup tgt.code with
    | some c => checkCase f.src c tgt
    | none => !(f.resolve tgt.code ∈ f.vectors)

def checkIntTable : Bool := Ty.ints.all fun s => Ty.ints.all fun tg => checkPair s tg

theorem checkPair_sound (src tgt : Ty) (v : Int) (d : Bool) (hp : checkPair src tgt = true)
    (hs : src.isFloat = false) (hv : inRange src v) :
    (∃ e, conv src tgt (.int v) d = .err e) ∨
    (∃ o, conv src tgt (.int v) d = .ok (o, tgt.size) ∧ (d = false → o = none) ∧
      (d = true → ∃ bits, o = some (.int bits) ∧ denote tgt bits = v ∧ (tgt = .c → isGraph v = true))) := by
  unfold checkPair at hp
  unfold conv
  cases hf : fnOf src with
  | none => left; exact ⟨.BadType, by simp⟩
  | some f =>
    simp only [hf, Bool.and_eq_true, beq_iff_eq] at hp
    obtain ⟨hsrc, hp⟩ := hp
    have hr := (tgtCTy_range src v hs).mp hv
    rw [← hsrc] at hr
    simp only [Fn.run]
    cases hl : f.lookup tgt.code with
    | none =>
      simp only [hl] at hp
      simp at hp
      left
      exact ⟨f.dflt, by simp [hp]⟩
    | some c =>
      simp only [hl] at hp
      rcases checkCase_sound f.src c tgt v d hp hr.1 hr.2 with ⟨e, he⟩ | ⟨o, ho, hdn, hdt⟩
      · left; exact ⟨e, by simp [he]⟩
      · right
        cases d with
        | false =>
          have := hdn rfl; subst this
          exact ⟨none, by simp [ho], by simp, by simp⟩
        | true =>
          obtain ⟨bits, hob, hrb, hden, hcc⟩ := hdt rfl
          subst hob
          exact ⟨some (.int bits), by simp [ho, hrb], by simp, fun _ => ⟨bits, rfl, hden, hcc⟩⟩

end Mpt.Conv
