/-
  C05, layer 3: one specification per callback loop of the C code, in terms of element slots, the event log
  (`Creates` / destroyed block) and the token counter.  Facts about stored token values are conditional on the
  32-bit token counter of the harness not having wrapped at the end of the loop (`s'.next ≤ 2^32`).
-/
import MptModel.Lemmas.TokMem
namespace Mpt.Heap
open Mpt

def tokLimit : Nat := 4294967296

/-- one constructor call on element `pos` of buffer `b`: refused by the schedule, or a fresh token is written -/
theorem initAt_cases {s : State} {b pos sz : Nat} {x : Buf} (src : Option Nat) (hb : s.buf? b = some x)
    (fit : pos + sz ≤ x.size) :
    (∃ s1, initAt s b pos sz src = .ok s1 false ∧ Frame s s1 b ∧ s1.buf? b = some x ∧ s1.next = s.next ∧
        s1.log = s.log ++ [Ev.fail] ∧ s.oracle = true :: s1.oracle) ∨
    (∃ s1, initAt s b pos sz src = .ok s1 true ∧ Frame s s1 b ∧
        s1.buf? b = some { x with data := Mem.write x.data pos (elemBytes s.next sz) } ∧ s1.next = s.next + 1 ∧
        s1.log = s.log ++ [ctorEv s.next src] ∧ s1.oracle = s.oracle.tail) := by
  have blt := State.buf?_lt hb
  unfold initAt
  rw [hb]
  simp only
  rw [if_neg (by omega)]
  have good : ∀ t : State, t.bufs = s.bufs → t.hs = s.hs → t.wins = s.wins → ∃ s1,
      s1 = State.setBuf t b { x with data := Mem.write x.data pos (elemBytes s.next sz) } ∧
      Frame s s1 b ∧ s1.buf? b = some { x with data := Mem.write x.data pos (elemBytes s.next sz) } ∧
      s1.next = t.next ∧ s1.log = t.log ∧ s1.oracle = t.oracle := by
    intro t tb th tw
    have tl : b < t.bufs.length := by rw [tb]; exact blt
    refine ⟨_, rfl, ⟨th, tw, by simp [tb], ?_⟩, ?_, rfl, rfl, rfl⟩
    · intro c ne
      rw [State.buf?_setBuf _ _ _ _ tl]
      simp only [ne, if_false]
      simp [State.buf?, tb]
    · rw [State.buf?_setBuf _ _ _ _ tl]; simp
  cases ho : s.oracle with
  | nil =>
    obtain ⟨s1, e, f, h1, n1, l1, o1⟩ := good { s with oracle := [], next := s.next + 1, log := s.log ++ [ctorEv s.next src] } rfl rfl rfl
    right
    exact ⟨s1, by rw [e]; rfl, f, h1, n1, l1, by rw [o1]; rfl⟩
  | cons fl rest =>
    cases fl with
    | true =>
      left
      exact ⟨_, rfl, ⟨rfl, rfl, rfl, fun _ _ => rfl⟩, hb, rfl, rfl, rfl⟩
    | false =>
      obtain ⟨s1, e, f, h1, n1, l1, o1⟩ := good { s with oracle := rest, next := s.next + 1, log := s.log ++ [ctorEv s.next src] } rfl rfl rfl
      right
      exact ⟨s1, by rw [e]; rfl, f, h1, n1, l1, by rw [o1]; rfl⟩

/-- after constructing a token in element `i` the other slots keep their value -/
theorem slot_construct_other (d : List Byte) (sz i tok : Nat) (h4 : 4 ≤ sz) (fit : (i + 1) * sz ≤ d.length)
    (j : Nat) (ne : j ≠ i) : slot (Mem.write d (i * sz) (elemBytes tok sz)) sz j = slot d sz j := by
  rw [slot_write d sz i 1 _ h4 (by rw [elemBytes_length tok sz h4]; simp) fit j]
  have : ¬ (i ≤ j ∧ j < i + 1) := by omega
  rw [if_neg this]

/-- after constructing token `tok` in element `i` slot `i` reads `tok` (32-bit token) -/
theorem slot_construct_same (d : List Byte) (sz i tok : Nat) (h4 : 4 ≤ sz) (fit : (i + 1) * sz ≤ d.length) (small : tok < tokLimit) :
    slot (Mem.write d (i * sz) (elemBytes tok sz)) sz i = tok := by
  rw [slot_write d sz i 1 _ h4 (by rw [elemBytes_length tok sz h4]; simp) fit i]
  simp only [Nat.le_refl, Nat.lt_add_one, and_self, if_true, Nat.sub_self]
  exact slot_elemBytes tok sz h4 small

theorem construct_length (d : List Byte) (sz i tok : Nat) (h4 : 4 ≤ sz) (fit : (i + 1) * sz ≤ d.length) :
    (Mem.write d (i * sz) (elemBytes tok sz)).length = d.length := by
  have e : (i + 1) * sz = i * sz + sz := by rw [Nat.add_mul]; simp
  exact write_length _ _ _ (by rw [elemBytes_length tok sz h4]; omega)

/-- generic default-construction loop: `n` calls from element `i` on, stopping at the first refusal -/
def genInit {α : Type} (onFail : State → Nat → Out α) (done : State → Nat → Out α) :
    Nat → State → Nat → Nat → Nat → Out α
  | 0, s, _, pos, _ => done s pos
  | n + 1, s, b, pos, sz =>
    match initAt s b pos sz none with
    | .ok s1 true => genInit onFail done n s1 b (pos + sz) sz
    | .ok s1 false => onFail s1 pos
    | .fail s1 e => .fail s1 e
    | .fault w => .fault w

/-- result description of a construction loop over the elements `i .. i+n-1`: `m` elements were built with the
    fresh tokens `s.next ..`; `u'` is the used size the buffer is left with -/
structure Built (s s1 : State) (b : Nat) (x : Buf) (sz i m : Nat) (S : List Nat) (d' : List Byte) (u' : Nat) : Prop where
  frame : Frame s s1 b
  buf : s1.buf? b = some { x with data := d', used := u' }
  len : d'.length = x.data.length
  next : s1.next = s.next + m
  log : ∃ evs, s1.log = s.log ++ evs ∧ Creates S s.next evs m
  out : ∀ j, j < i ∨ i + m ≤ j → slot d' sz j = slot x.data sz j
  inn : s1.next ≤ tokLimit → ∀ j, i ≤ j → j < i + m → slot d' sz j = s.next + (j - i)

theorem genInit_spec {α : Type} (onFail : State → Nat → Out α) (done : State → Nat → Out α) :
    ∀ (n : Nat) (s : State) (b i sz : Nat) (x : Buf), s.buf? b = some x → 4 ≤ sz → (i + n) * sz ≤ x.size →
    ∃ s1 d' m, m ≤ n ∧ Built s s1 b x sz i m [] d' x.used ∧
      ((m = n ∧ genInit onFail done n s b (i * sz) sz = done s1 ((i + n) * sz)) ∨
       (m < n ∧ genInit onFail done n s b (i * sz) sz = onFail s1 ((i + m) * sz))) := by
  intro n
  induction n with
  | zero =>
    intro s b i sz x hb _ _
    exact ⟨s, x.data, 0, Nat.le_refl _, ⟨Frame.refl s b, hb, rfl, rfl, ⟨[], by simp, Creates.nil _⟩, fun _ _ => rfl,
      fun _ j h1 h2 => by omega⟩, Or.inl ⟨rfl, rfl⟩⟩
  | succ n ih =>
    intro s b i sz x hb h4 fit
    have e1 : (i + (n + 1)) * sz = (i + 1 + n) * sz := by congr 1; omega
    have e2 : (i + 1) * sz = i * sz + sz := by rw [Nat.add_mul]; simp
    have e3 : (i + 1 + n) * sz = (i + 1) * sz + n * sz := Nat.add_mul _ _ _
    have f1 : i * sz + sz ≤ x.size := by rw [e1, e3] at fit; omega
    have f1' : (i + 1) * sz ≤ x.data.length := by simp only [Buf.size] at f1; rw [e2]; exact f1
    simp only [genInit]
    rcases initAt_cases none hb f1 with ⟨s1, he, fr, hb1, n1, l1, _⟩ | ⟨s1, he, fr, hb1, n1, l1, _⟩
    · rw [he]
      exact ⟨s1, x.data, 0, by omega, ⟨fr, hb1, rfl, by rw [n1]; rfl, ⟨[Ev.fail], l1, Creates.fail (Creates.nil _)⟩,
        fun _ _ => rfl, fun _ j h1 h2 => by omega⟩, Or.inr ⟨by omega, by simp⟩⟩
    · rw [he]
      simp only
      have wl := construct_length x.data sz i s.next h4 f1'
      obtain ⟨s2, d', m, mle, bt, alt⟩ := ih s1 b (i + 1) sz { x with data := Mem.write x.data (i * sz) (elemBytes s.next sz) } hb1 h4
        (by simp only [Buf.size, wl]; simp only [Buf.size] at fit; rw [← e1]; exact fit)
      rw [e2] at alt
      refine ⟨s2, d', m + 1, by omega, ⟨fr.trans bt.frame, bt.buf, by rw [bt.len]; exact wl, by rw [bt.next, n1]; omega, ?_, ?_, ?_⟩, ?_⟩
      · obtain ⟨evs, le, cr⟩ := bt.log
        refine ⟨Ev.init s.next :: evs, by rw [le, l1]; simp [ctorEv], Creates.init ?_⟩
        rw [n1] at cr; exact cr
      · intro j hj
        rw [bt.out j (by omega)]
        exact slot_construct_other x.data sz i s.next h4 f1' j (by omega)
      · intro small j h1 h2
        have sm1 : s.next + 1 ≤ tokLimit := by have := bt.next; omega
        by_cases e : j = i
        · rw [bt.out j (by omega), e]
          simp only
          rw [slot_construct_same x.data sz i s.next h4 f1' (by omega)]; omega
        · rw [bt.inn small j (by omega) (by omega), n1]; omega
      · rcases alt with ⟨me, he2⟩ | ⟨ml, he2⟩
        · exact Or.inl ⟨by omega, by rw [he2]; congr 1; rw [e1]⟩
        · refine Or.inr ⟨by omega, by rw [he2]; congr 1; congr 1; omega⟩

/-- what `mpt_array_slice` does when a constructor is refused at position `p` -/
def stopFail (b : Nat) : State → Nat → Out Unit := fun s1 p =>
  match s1.buf? b with
  | none => .fault "slice: freed buffer"
  | some y => .fail (s1.setBuf b { y with used := p }) .null

/-- what `mpt_buffer_set` does when a gap constructor is refused at position `p` -/
def gapFail (b : Nat) : State → Nat → Out Unit := fun s1 p =>
  match s1.buf? b with
  | none => .fault "buffer_set: freed buffer"
  | some y => .fail (s1.setBuf b { y with used := p }) (.err .BadOperation)

def doneUnit : State → Nat → Out Unit := fun s _ => .ok s ()

theorem initLoopStop_eq (b : Nat) : ∀ (n : Nat) (s : State) (pos sz : Nat),
    initLoopStop n s b pos sz = genInit (stopFail b) doneUnit n s b pos sz := by
  intro n
  induction n with
  | zero => intro s pos sz; rfl
  | succ n ih =>
    intro s pos sz
    simp only [initLoopStop, genInit]
    cases initAt s b pos sz none with
    | ok s1 v =>
      cases v with
      | true => simp [ih]
      | false => simp only [stopFail]; cases s1.buf? b <;> rfl
    | fail s1 e => rfl
    | fault w => rfl

theorem initLoopBreak_eq (b : Nat) : ∀ (n : Nat) (s : State) (pos sz : Nat),
    initLoopBreak n s b pos sz = genInit (fun s1 p => .ok s1 p) (fun s p => .ok s p) n s b pos sz := by
  intro n
  induction n with
  | zero => intro s pos sz; rfl
  | succ n ih =>
    intro s pos sz
    simp only [initLoopBreak, genInit]
    cases initAt s b pos sz none with
    | ok s1 v => cases v <;> simp [ih]
    | fail s1 e => rfl
    | fault w => rfl

theorem setGapLoop_eq (b : Nat) : ∀ (n : Nat) (s : State) (pos sz : Nat),
    setGapLoop n s b pos sz = genInit (gapFail b) doneUnit n s b pos sz := by
  intro n
  induction n with
  | zero => intro s pos sz; rfl
  | succ n ih =>
    intro s pos sz
    simp only [setGapLoop, genInit]
    cases initAt s b pos sz none with
    | ok s1 v =>
      cases v with
      | true => simp [ih]
      | false => simp only [gapFail]; cases s1.buf? b <;> rfl
    | fail s1 e => rfl
    | fault w => rfl

/-- slots outside a byte range that agree byte-wise -/
theorem slot_of_getD {d d' : List Byte} {sz j : Nat} (h : ∀ k, k < 4 → d'.getD (j * sz + k) 0 = d.getD (j * sz + k) 0) :
    slot d' sz j = slot d sz j := by
  unfold slot rdTok
  have h0 := h 0 (by omega)
  simp only [Nat.add_zero] at h0
  rw [h0, h 1 (by omega), h 2 (by omega), h 3 (by omega)]

/-- the destructor loop over the elements `i .. i+n-1` -/
theorem finiLoop_slots (n : Nat) (s : State) (b i sz : Nat) (x : Buf) (hb : s.buf? b = some x) (h4 : 4 ≤ sz)
    (fit : (i + n) * sz ≤ x.size) :
    ∃ s' d', finiLoop n s b (i * sz) sz = .ok s' () ∧ OnlyBuf s s' b ∧
      s'.log = s.log ++ (slotsFrom x.data sz i n).map Ev.fini ∧
      s'.buf? b = some { x with data := d' } ∧ d'.length = x.data.length ∧
      (∀ j, j < i ∨ i + n ≤ j → slot d' sz j = slot x.data sz j) := by
  have e : (i + n) * sz = i * sz + n * sz := Nat.add_mul _ _ _
  obtain ⟨s', d', h1, h2, h3, h5, h6, h7⟩ := finiLoop_spec n s b (i * sz) sz x hb (by rw [← e]; exact fit)
  refine ⟨s', d', h1, h2, by rw [h3, toksAt_eq], h5, h6, ?_⟩
  intro j hj
  apply slot_of_getD
  intro k hk
  apply h7
  rcases hj with lt | ge
  · left
    have : (j + 1) * sz ≤ i * sz := Nat.mul_le_mul_right _ (by omega)
    have e2 : (j + 1) * sz = j * sz + sz := by rw [Nat.add_mul]; simp
    omega
  · right
    have : (i + n) * sz ≤ j * sz := Nat.mul_le_mul_right _ ge
    omega


/-- constructions by the caller (never refused): all `n` elements are built, the schedule is untouched -/
theorem ctorLoop_spec : ∀ (n : Nat) (s : State) (b i sz : Nat) (x : Buf), s.buf? b = some x → 4 ≤ sz → (i + n) * sz ≤ x.size →
    ∃ s1 d', ctorLoop n s b (i * sz) sz = .ok s1 () ∧ Built s s1 b x sz i n [] d' x.used ∧ s1.oracle = s.oracle := by
  intro n
  induction n with
  | zero =>
    intro s b i sz x hb _ _
    exact ⟨s, x.data, rfl, ⟨Frame.refl s b, hb, rfl, rfl, ⟨[], by simp, Creates.nil _⟩, fun _ _ => rfl,
      fun _ j h1 h2 => by omega⟩, rfl⟩
  | succ n ih =>
    intro s b i sz x hb h4 fit
    have e1 : (i + (n + 1)) * sz = (i + 1 + n) * sz := by congr 1; omega
    have e2 : (i + 1) * sz = i * sz + sz := by rw [Nat.add_mul]; simp
    have e3 : (i + 1 + n) * sz = (i + 1) * sz + n * sz := Nat.add_mul _ _ _
    have f1 : i * sz + sz ≤ x.size := by rw [e1, e3] at fit; omega
    have f1' : (i + 1) * sz ≤ x.data.length := by simp only [Buf.size] at f1; rw [e2]; exact f1
    simp only [ctorLoop]
    have hb0 : ({ s with oracle := [] } : State).buf? b = some x := hb
    rcases initAt_cases none hb0 f1 with ⟨s1, he, fr, hb1, n1, l1, o1⟩ | ⟨s1, he, fr, hb1, n1, l1, o1⟩
    · cases o1
    · rw [he]
      simp only
      have wl := construct_length x.data sz i s.next h4 f1'
      have hb1' : ({ s1 with oracle := s.oracle } : State).buf? b = some { x with data := Mem.write x.data (i * sz) (elemBytes s.next sz) } := hb1
      obtain ⟨s2, d', hd, bt, o2⟩ := ih { s1 with oracle := s.oracle } b (i + 1) sz _ hb1' h4
        (by simp only [Buf.size, wl]; simp only [Buf.size] at fit; rw [← e1]; exact fit)
      rw [e2] at hd
      have fr0 : Frame s { s1 with oracle := s.oracle } b := ⟨fr.hs, fr.wins, fr.len, fr.other⟩
      refine ⟨s2, d', hd, ⟨fr0.trans bt.frame, bt.buf, by rw [bt.len]; exact wl, ?_, ?_, ?_, ?_⟩, o2⟩
      · have := bt.next; simp only at this; rw [this, n1]; show s.next + 1 + n = s.next + (n + 1); omega
      · obtain ⟨evs, le, cr⟩ := bt.log
        refine ⟨Ev.init s.next :: evs, ?_, Creates.init ?_⟩
        · rw [le]; show s1.log ++ evs = _; rw [l1]; simp [ctorEv]
        · have : ({ s1 with oracle := s.oracle } : State).next = s.next + 1 := n1
          rw [this] at cr; exact cr
      · intro j hj
        rw [bt.out j (by omega)]
        exact slot_construct_other x.data sz i s.next h4 f1' j (by omega)
      · intro small j h1 h2
        have nx : ({ s1 with oracle := s.oracle } : State).next = s.next + 1 := n1
        have sm1 : s.next + 1 ≤ tokLimit := by have := bt.next; omega
        by_cases e : j = i
        · rw [bt.out j (by omega), e]
          simp only
          rw [slot_construct_same x.data sz i s.next h4 f1' (by omega)]; omega
        · rw [bt.inn small j (by omega) (by omega), nx]; omega


theorem iters_aligned (a c sz : Nat) (h : sz ≠ 0) : iters (a * sz) (c * sz) sz = c - a := by
  unfold iters
  have hp := Nat.pos_of_ne_zero h
  by_cases le : c ≤ a
  · have : c * sz ≤ a * sz := Nat.mul_le_mul_right _ le
    have e : c * sz - a * sz + sz - 1 = sz - 1 := by omega
    rw [e, Nat.div_eq_of_lt (by omega)]; omega
  · have e : c * sz - a * sz = (c - a) * sz := (Nat.sub_mul _ _ _).symm
    have e2 : (c - a) * sz + sz - 1 = sz * (c - a) + (sz - 1) := by rw [Nat.mul_comm]; omega
    rw [e, e2, Nat.mul_add_div hp, Nat.div_eq_of_lt (by omega)]; simp

/-- outcome of the copy-construction loop of `mpt_buffer_set` over the elements `i .. q-1` (`n = q - i` of
    them), `u` = number of elements inside the used size before the call -/
def SetRes (S : List Nat) (sz q u : Nat) (hasFini : Bool) (s : State) (b : Nat) (x : Buf) (i n : Nat) (r : Out Int) : Prop :=
  ∃ s1 d' m cnt, m ≤ n ∧ r = .ok s1 cnt ∧ Frame s s1 b ∧ d'.length = x.data.length ∧ s1.next = s.next + m ∧
    (∀ j, j < i → slot d' sz j = slot x.data sz j) ∧
    (s1.next ≤ tokLimit → ∀ j, i ≤ j → j < i + m → slot d' sz j = s.next + (j - i)) ∧
    ((m = n ∧ s1.buf? b = some { x with data := d', used := max (u * sz) (q * sz) } ∧
        (∀ j, q ≤ j → slot d' sz j = slot x.data sz j) ∧ ∃ evs, s1.log = s.log ++ evs ∧ Creates S s.next evs m) ∨
     (m < n ∧ s1.buf? b = some { x with data := d', used := (i + m) * sz } ∧
        ∃ evs, Creates S s.next evs m ∧
          s1.log = s.log ++ evs ++ (if hasFini then (slotsFrom x.data sz q (u - q)).map Ev.fini else [])))

/-- one more element constructed in front of a loop result -/
theorem SetRes.cons {S : List Nat} {sz q u : Nat} {hasFini : Bool} {s sA : State} {b : Nat} {x : Buf} {i n : Nat} {r : Out Int}
    (h4 : 4 ≤ sz) (fit : (i + 1) * sz ≤ x.data.length) (qi : i + 1 ≤ q)
    (fr : Frame s sA b) (nA : sA.next = s.next + 1)
    (pre : List Ev) (lA : sA.log = s.log ++ pre) (cA : Creates S s.next pre 1)
    (res : SetRes S sz q u hasFini sA b { x with data := Mem.write x.data (i * sz) (elemBytes s.next sz) } (i + 1) n r) :
    SetRes S sz q u hasFini s b x i (n + 1) r := by
  obtain ⟨s1, d', m, cnt, mle, hr, fr1, dl, n1, lo, inn, alt⟩ := res
  have wl := construct_length x.data sz i s.next h4 fit
  refine ⟨s1, d', m + 1, cnt, by omega, hr, fr.trans fr1, by rw [dl]; exact wl, by rw [n1, nA]; omega, ?_, ?_, ?_⟩
  · intro j hj
    rw [lo j (by omega)]
    exact slot_construct_other x.data sz i s.next h4 fit j (by omega)
  · intro small j h1 h2
    have sm1 : s.next + 1 ≤ tokLimit := by omega
    by_cases e : j = i
    · rw [lo j (by omega), e]
      simp only
      rw [slot_construct_same x.data sz i s.next h4 fit (by omega)]; omega
    · rw [inn small j (by omega) (by omega), nA]; omega
  · rcases alt with ⟨me, hb1, hi, evs, le, cr⟩ | ⟨ml, hb1, evs, cr, le⟩
    · refine Or.inl ⟨by omega, hb1, ?_, pre ++ evs, by rw [le, lA]; simp, ?_⟩
      · intro j hj
        rw [hi j hj]
        exact slot_construct_other x.data sz i s.next h4 fit j (by omega)
      · have := Creates.append cA (by rw [← nA]; exact cr)
        simpa [Nat.add_comm] using this
    · refine Or.inr ⟨by omega, by rw [hb1]; congr 2; congr 1; omega, pre ++ evs, ?_, ?_⟩
      · have := Creates.append cA (by rw [← nA]; exact cr)
        simpa [Nat.add_comm] using this
      · rw [le, lA]
        have : slotsFrom (Mem.write x.data (i * sz) (elemBytes s.next sz)) sz q (u - q) = slotsFrom x.data sz q (u - q) :=
          slotsFrom_congr (fun j h1 _ => slot_construct_other x.data sz i s.next h4 fit j (by omega))
        simp only at this ⊢
        rw [this]; simp


/-- the copy-construction loop of `mpt_buffer_set` for every constructor-failure schedule -/
theorem setInitLoop_spec (S : List Nat) (sz q u i0 : Nat) (bytes : List Byte) (hasSrc hasFini : Bool) (b : Nat) (h4 : 4 ≤ sz) :
    ∀ (n : Nat) (s : State) (i : Nat) (x : Buf) (count : Nat), s.buf? b = some x → i + n = q → q * sz ≤ x.size →
      u * sz ≤ x.size → i0 ≤ i →
      (hasSrc = true → ∀ j, i ≤ j → j < q → slot bytes sz (j - i0) ∈ S) →
      SetRes S sz q u hasFini s b x i n
        (setInitLoop n s b (i * sz) (q * sz) (u * sz) (i0 * sz) bytes hasSrc sz hasFini count) := by
  intro n
  induction n with
  | zero =>
    intro s i x count hb iq fq fu _ _
    have blt := State.buf?_lt hb
    simp only [setInitLoop, hb]
    refine ⟨_, x.data, 0, _, Nat.le_refl _, rfl, ⟨rfl, rfl, by simp, ?_⟩, rfl, rfl, fun _ _ => rfl, fun _ j h1 h2 => by omega,
      Or.inl ⟨rfl, ?_, fun _ _ => rfl, [], by simp [State.setBuf], Creates.nil _⟩⟩
    · intro c ne; rw [State.buf?_setBuf _ _ _ _ blt]; simp [ne]
    · rw [State.buf?_setBuf _ _ _ _ blt]; simp
  | succ n ih =>
    intro s i x count hb iq fq fu i0i hS
    have blt := State.buf?_lt hb
    have e2 : (i + 1) * sz = i * sz + sz := by rw [Nat.add_mul]; simp
    have qi : i + 1 ≤ q := by omega
    have f1' : (i + 1) * sz ≤ x.data.length := by
      have : (i + 1) * sz ≤ q * sz := Nat.mul_le_mul_right _ qi
      simp only [Buf.size] at fq; omega
    have f1 : i * sz + sz ≤ x.size := by simp only [Buf.size]; omega
    have wl := construct_length x.data sz i s.next h4 f1'
    have sube : i * sz - i0 * sz = (i - i0) * sz := (Nat.sub_mul _ _ _).symm
    -- recursive call after a successful construction reached through the events `pre`
    have recur : ∀ (sA : State) (pre : List Ev) (c' : Nat), Frame s sA b →
        sA.buf? b = some { x with data := Mem.write x.data (i * sz) (elemBytes s.next sz) } → sA.next = s.next + 1 →
        sA.log = s.log ++ pre → Creates S s.next pre 1 →
        SetRes S sz q u hasFini s b x i (n + 1)
          (setInitLoop n sA b (i * sz + sz) (q * sz) (u * sz) (i0 * sz) bytes hasSrc sz hasFini c') := by
      intro sA pre c' fr hbA nA lA cA
      rw [← e2]
      exact SetRes.cons h4 f1' qi fr nA pre lA cA
        (ih sA (i + 1) _ c' hbA (by omega) (by simp only [Buf.size, wl]; exact fq) (by simp only [Buf.size, wl]; exact fu) (by omega)
          (fun hs j h1 h2 => hS hs j (by omega) h2))
    -- the default construction after `pre` (nothing or one refusal)
    have dflt : ∀ (sB : State) (pre : List Ev), Frame s sB b → sB.buf? b = some x → sB.next = s.next →
        sB.log = s.log ++ pre → Creates S s.next pre 0 →
        SetRes S sz q u hasFini s b x i (n + 1)
          (match initAt sB b (i * sz) sz none with
           | .ok s2 true => setInitLoop n s2 b (i * sz + sz) (q * sz) (u * sz) (i0 * sz) bytes hasSrc sz hasFini count
           | .ok s2 false =>
             (match s2.buf? b with
              | none => .fault "buffer_set: freed buffer"
              | some y =>
                if hasFini = true then
                  (match finiLoop (iters (q * sz) (u * sz) sz) (s2.setBuf b { y with used := i * sz }) b (q * sz) sz with
                   | .ok s4 _ => .ok s4 (Int.ofNat count)
                   | .fail s4 e => .fail s4 e
                   | .fault w => .fault w)
                else .ok (s2.setBuf b { y with used := i * sz }) (Int.ofNat count))
           | .fail s2 e => .fail s2 e
           | .fault w => .fault w) := by
      intro sB pre frB hbB nB lB cB
      rcases initAt_cases none hbB f1 with ⟨s2, he, fr2, hb2, n2, l2, _⟩ | ⟨s2, he, fr2, hb2, n2, l2, _⟩
      · -- fatal: both constructions refused
        rw [he]
        simp only [hb2]
        have blt2 := State.buf?_lt hb2
        generalize hs3 : s2.setBuf b { x with used := i * sz } = s3
        have hb3 : s3.buf? b = some { x with used := i * sz } := by rw [← hs3, State.buf?_setBuf _ _ _ _ blt2]; simp
        have fr3 : Frame s2 s3 b := by
          rw [← hs3]
          exact ⟨rfl, rfl, by simp, fun c ne => by rw [State.buf?_setBuf _ _ _ _ blt2]; simp [ne]⟩
        have cre : Creates S s.next (pre ++ [Ev.fail]) 0 := by
          have := Creates.append cB (Creates.fail (Creates.nil (s.next + 0)))
          simpa using this
        cases hasFini with
        | false =>
          simp only [Bool.false_eq_true, if_false]
          refine ⟨s3, x.data, 0, _, by omega, rfl, (frB.trans fr2).trans fr3, rfl, by rw [← hs3]; show s2.next = _; rw [n2, nB]; rfl,
            fun _ _ => rfl, fun _ j h1 h2 => by omega, Or.inr ⟨by omega, by rw [hb3]; simp, pre ++ [Ev.fail], cre, ?_⟩⟩
          rw [← hs3]; show s2.log = _; rw [l2, lB]; simp
        | true =>
          simp only [if_true]
          rw [iters_aligned q u sz (by omega)]
          obtain ⟨s4, d4, hf, ob, l4, hb4, dl4, same4⟩ := finiLoop_slots (u - q) s3 b q sz { x with used := i * sz } hb3 h4
            (by
              simp only [Buf.size]
              by_cases le : u ≤ q
              · have : u - q = 0 := by omega
                rw [this]; simpa [Buf.size] using fq
              · have : q + (u - q) = u := by omega
                rw [this]; simpa [Buf.size] using fu)
          rw [hf]
          have fr4 : Frame s3 s4 b := ⟨ob.hs, ob.wins, ob.len, ob.other⟩
          refine ⟨s4, d4, 0, _, by omega, rfl, ((frB.trans fr2).trans fr3).trans fr4, dl4, ?_, ?_, fun _ j h1 h2 => by omega,
            Or.inr ⟨by omega, by rw [hb4]; simp, pre ++ [Ev.fail], cre, ?_⟩⟩
          · rw [ob.next, ← hs3]; show s2.next = _; rw [n2, nB]; rfl
          · intro j hj; exact same4 j (Or.inl (by omega))
          · rw [l4, ← hs3]; show s2.log ++ _ = _; rw [l2, lB]; simp
      · -- default construction succeeded
        rw [he]
        simp only
        refine recur s2 (pre ++ [Ev.init s.next]) count (frB.trans fr2) ?_ (by rw [n2, nB]) (by rw [l2, lB, nB]; simp [ctorEv]) ?_
        · rw [hb2, nB]
        · have := Creates.append cB (Creates.init (Creates.nil (s.next + 0 + 1)))
          simpa using this
    simp only [setInitLoop]
    cases hasSrc with
    | false =>
      simp only [Bool.false_eq_true, if_false]
      exact dflt s [] (Frame.refl s b) hb rfl (by simp) (Creates.nil _)
    | true =>
      simp only [if_true]
      rcases initAt_cases (some (rdTok bytes (i * sz - i0 * sz))) hb f1 with ⟨s1, he, fr1, hb1, n1, l1, _⟩ | ⟨s1, he, fr1, hb1, n1, l1, _⟩
      · rw [he]
        simp only
        exact dflt s1 [Ev.fail] fr1 hb1 n1 l1 (Creates.fail (Creates.nil _))
      · rw [he]
        simp only
        refine recur s1 [Ev.copy s.next (rdTok bytes (i * sz - i0 * sz))] (count + 1) fr1 hb1 n1 (by rw [l1]; rfl) ?_
        refine Creates.copy ?_ (Creates.nil _)
        rw [sube]
        exact hS rfl i (Nat.le_refl _) (by omega)

end Mpt.Heap
