/-
  C12, requester side: the slot-array model (Requester) simulates the abstract pending-set spec
  (ReplySpec.ReqSt): same handler calls for every message, ids accepted by the spec as fresh.
-/
import MptModel.Lemmas.ReplyRequester
namespace Mpt.Requester
open Mpt.ReplySpec (ReqSt deliver deliverAll awaitReplies decode unmarkS freshId fits)

/-- the waiting requests as the spec sees them: (id, handler tag) in array order -/
def pendingOf (es : List Slot) : List (Nat × Nat) := (active es).map fun e => (e.id, e.tag.getD 0)

/-- model state and spec state describe the same situation -/
structure Rel (x : St) (sp : ReqSt) : Prop where
  w : sp.w = x.idlen
  pending : sp.pending = pendingOf (x.arr.getD [])
  cur : sp.cur = x.cid
  inq : sp.inq = x.inq
  distinct : Distinct x

/-- a handler call as the spec logs it -/
def callS (c : Call) : Option Nat × List Byte := (c.tag, c.msg.getD [])

theorem unmark_eq (v : List Byte) : Reply.unmark v = unmarkS v := by cases v <;> rfl

theorem buf2id_decode' (bs : List Byte) :
    (∃ v u, MsgId.buf2id bs = .ok (v, u) ∧ decode bs = some v) ∨
    (MsgId.buf2id bs = .err .BadValue ∧ decode bs = none) := by
  unfold decode
  by_cases h : ReplySpec.value bs < 2 ^ 64
  · obtain ⟨u, hu⟩ := (buf2id_spec bs).1 h
    exact Or.inl ⟨_, u, hu, by simp [h]⟩
  · exact Or.inr ⟨(buf2id_spec bs).2 (by omega), by simp [h]⟩

theorem pending_find (es : List Slot) (rid : Nat) :
    (pendingOf es).find? (·.1 == rid) = (findActive es rid).map fun t => (rid, t) := by
  rw [findActive_eq]
  unfold pendingOf
  have hact : ∀ e ∈ active es, e.tag.isSome = true := by
    intro e he; exact (List.mem_filter.mp he).2
  generalize active es = l at hact
  induction l with
  | nil => rfl
  | cons e r ih =>
    have he := hact e (List.mem_cons_self ..)
    have ih' := ih (fun x hx => hact x (List.mem_cons_of_mem _ hx))
    by_cases h : (e.id == rid) = true
    · have hid : e.id = rid := by simpa using h
      cases ht : e.tag with
      | none => simp [ht] at he
      | some t => simp [List.find?_cons, h, ht, hid]
    · simp only [List.map_cons, List.find?_cons, h]
      simpa using ih'

theorem pending_deactivate (es : List Slot) (rid : Nat) (h : (activeIds es).Nodup) :
    pendingOf (deactivate es rid) = (pendingOf es).filter (·.1 != rid) := by
  unfold pendingOf
  induction es with
  | nil => rfl
  | cons e r ih =>
    unfold deactivate
    by_cases h1 : e.tag.isSome = true
    · have hnd : (e.id :: activeIds r).Nodup := by simpa [activeIds, active, List.filter_cons, h1] using h
      by_cases h2 : (e.id == rid) = true
      · have hid : e.id = rid := by simpa using h2
        have hnot : rid ∉ activeIds r := by rw [← hid]; exact (List.nodup_cons.mp hnd).1
        have hfilter : ((active r).map fun e => (e.id, e.tag.getD 0)).filter (·.1 != rid) = (active r).map fun e => (e.id, e.tag.getD 0) := by
          rw [List.filter_eq_self]
          intro x hx
          simp only [List.mem_map] at hx
          obtain ⟨y, hy, rfl⟩ := hx
          simp only [bne_iff_ne, ne_eq]
          intro hxe
          exact hnot (by simp only [activeIds, List.mem_map]; exact ⟨y, hy, hxe⟩)
        have e1 : (active ({ e with tag := none } :: r)) = active r := by simp [active, List.filter_cons]
        have e2 : active (e :: r) = e :: active r := by simp [active, List.filter_cons, h1]
        simp only [h1, h2, Bool.true_and, if_true]
        rw [e1, e2, List.map_cons, List.filter_cons, hid]
        simp [hfilter]
      · have := ih (List.nodup_cons.mp hnd).2
        have hne : (e.id != rid) = true := by simpa using h2
        simp only [h1, h2, Bool.true_and, Bool.false_eq_true, if_false]
        simp only [active, List.filter_cons, h1, if_true, List.map_cons, hne] at this ⊢
        rw [this]
    · have hnd : (activeIds r).Nodup := by simpa [activeIds, active, List.filter_cons, h1] using h
      have := ih hnd
      simp only [h1, Bool.false_and, Bool.false_eq_true, if_false]
      simp only [active, List.filter_cons, h1, Bool.false_eq_true, if_false] at this ⊢
      exact this

theorem process_fields (x : St) (m : List Byte) :
    (process x m).1.inq = x.inq ∧ (process x m).1.idlen = x.idlen ∧ (process x m).1.cid = x.cid := by
  unfold process
  simp only []
  by_cases h0 : x.idlen = 0
  · simp [h0]
  · by_cases hm : ((m.take x.idlen).headD 0).toNat ≥ 128
    · simp only [h0, hm, if_true, if_false]
      cases MsgId.buf2id (Reply.unmark (m.take x.idlen)) with
      | ok pr =>
        obtain ⟨rid, u⟩ := pr
        simp only []
        cases findActive (x.arr.getD []) rid <;> simp
      | err e => simp
      | null => simp
      | oob => simp
      | fault => simp
    · simp only [h0, hm, if_false]; simp

theorem deliver_fields (sp : ReqSt) (m : List Byte) :
    (deliver sp m).2.inq = sp.inq ∧ (deliver sp m).2.w = sp.w ∧ (deliver sp m).2.cur = sp.cur := by
  unfold deliver
  simp only []
  by_cases h0 : sp.w = 0
  · simp [h0]
  · by_cases hm : ((m.take sp.w).headD 0).toNat ≥ 128
    · simp only [h0, hm, if_true, if_false]
      cases decode (unmarkS (m.take sp.w)) with
      | none => simp
      | some rid =>
        simp only []
        cases sp.pending.find? (·.1 == rid) with
        | none => simp
        | some pr => obtain ⟨a, t⟩ := pr; simp
    · simp only [h0, hm, if_false]; simp

/-- one message: the model and the spec call the same handler with the same payload (or nobody), and the
    states stay related -/
theorem rel_process (x : St) (sp : ReqSt) (m : List Byte) (h : Rel x sp) :
    (process x m).2.map callS = (deliver sp m).1 ∧ Rel (process x m).1 (deliver sp m).2 := by
  obtain ⟨hw, hp, hc, hi, hd⟩ := h
  have hpf := process_fields x m
  have hdf := deliver_fields sp m
  have hdist := distinct_process x m hd
  -- everything except the pending set follows from the field lemmas
  suffices hmain : (process x m).2.map callS = (deliver sp m).1 ∧
      (deliver sp m).2.pending = pendingOf ((process x m).1.arr.getD []) from
    ⟨hmain.1, ⟨by rw [hdf.2.1, hpf.2.1]; exact hw, hmain.2, by rw [hdf.2.2, hpf.2.2]; exact hc,
      by rw [hdf.1, hpf.1]; exact hi, hdist⟩⟩
  unfold process deliver
  simp only []
  rw [hw]
  by_cases h0 : x.idlen = 0
  · simp only [h0, if_true]
    exact ⟨by simp [callS], hp⟩
  · simp only [h0, if_false]
    by_cases hm : ((m.take x.idlen).headD 0).toNat ≥ 128
    · simp only [hm, if_true]
      rw [← unmark_eq]
      rcases buf2id_decode' (Reply.unmark (m.take x.idlen)) with ⟨rid, u, hb, hdec⟩ | ⟨hb, hdec⟩
      · rw [hb, hdec]
        simp only []
        rw [hp, pending_find]
        cases hf : findActive (x.arr.getD []) rid with
        | none => exact ⟨rfl, hp⟩
        | some t =>
          simp only [Option.map_some]
          refine ⟨by simp [callS], ?_⟩
          cases ha : x.arr with
          | none => simp [findActive, ha] at hf
          | some es =>
            have hn : (activeIds es).Nodup := by simpa [Distinct, ha] using hd
            simp only [Option.map_some, Option.getD_some]
            rw [pending_deactivate es rid hn]
      · rw [hb, hdec]
        exact ⟨rfl, hp⟩
    · simp only [hm, if_false]
      exact ⟨by simp [callS], hp⟩

/-- dispatch until drained: same sequence of handler calls -/
theorem rel_drain (q : List (List Byte)) (x : St) (sp : ReqSt) (lm : List Call) (ls : List (Option Nat × List Byte))
    (h : Rel x sp) (hl : lm.map callS = ls) :
    (drain q x lm).2.map callS = (deliverAll q sp ls).2 ∧
    Rel { (drain q x lm).1 with inq := [] } { (deliverAll q sp ls).1 with inq := [] } := by
  induction q generalizing x sp lm ls with
  | nil =>
    refine ⟨by simpa [drain, deliverAll] using hl, ?_⟩
    simp only [drain, deliverAll]
    exact ⟨h.w, h.pending, h.cur, rfl, by simpa [Distinct] using h.distinct⟩
  | cons m ms ih =>
    unfold drain deliverAll
    obtain ⟨hc, hr⟩ := rel_process x sp m h
    refine ih _ _ _ _ hr ?_
    rw [List.map_append, hl]
    cases hpr : (process x m).2 with
    | none => rw [hpr] at hc; simp at hc; simp [← hc]
    | some c => rw [hpr] at hc; simp at hc; simp [← hc]

/- ---------------------------------------------------------------- await / send -/

theorem idMax_fits (w : Nat) (hw : w ≠ 0) : idMax w < 2 ^ (8 * w - 1) := by
  match w, hw with
  | 1, _ => decide
  | 2, _ => decide
  | 3, _ => decide
  | 4, _ => decide
  | 5, _ => decide
  | 6, _ => decide
  | 7, _ => decide
  | n + 8, _ =>
    have h1 : idMax (n + 8) = 9223372036854775807 := by unfold idMax; rfl
    have h2 : (2 : Nat) ^ 63 ≤ 2 ^ (8 * (n + 8) - 1) := Nat.pow_le_pow_right (by decide) (by omega)
    have h3 : (2 : Nat) ^ 63 = 9223372036854775808 := by decide
    omega

theorem reserve_pending (arr : Option (List Slot)) (idlen tag : Nat) (a : List Slot) (i : Nat)
    (h : reserve arr idlen tag = some (a, i)) : pendingOf a = pendingOf (arr.getD []) ++ [(i, tag)] := by
  unfold reserve at h
  split at h
  · cases h
  · cases arr with
    | none =>
      simp only [Option.some.injEq, Prod.mk.injEq] at h
      obtain ⟨rfl, rfl⟩ := h
      simp [pendingOf, active]
    | some es =>
      simp only at h
      split at h
      · split at h
        · cases h
        · simp only [Option.some.injEq, Prod.mk.injEq] at h
          obtain ⟨rfl, rfl⟩ := h
          simp [pendingOf, active, List.filter_append, List.filter_filter]
      · cases h

theorem pending_ids (es : List Slot) : (pendingOf es).map (·.1) = activeIds es := by
  simp [pendingOf, activeIds, Function.comp_def]

/-- `await`: the id the model hands out is one the spec accepts as fresh, and the new request is pending
    in both -/
theorem rel_await (x : St) (sp : ReqSt) (tag : Nat) (x' : St) (i : Nat) (h : Rel x sp) (ha : await x tag = some (x', i)) :
    freshId sp i = true ∧ Rel x' { sp with pending := sp.pending ++ [(i, tag)], cur := i } := by
  unfold await at ha
  cases hr : reserve x.arr x.idlen tag with
  | none => rw [hr] at ha; cases ha
  | some pr =>
    obtain ⟨a, j⟩ := pr
    rw [hr] at ha
    simp only [Option.some.injEq, Prod.mk.injEq] at ha
    obtain ⟨rfl, rfl⟩ := ha
    have hfr := reserve_fresh x.arr x.idlen tag a j (by intro es he; simpa [Distinct, he] using h.distinct) hr
    have hw0 : x.idlen ≠ 0 := by
      intro h0; unfold reserve at hr; simp [h0] at hr
    have hfit : fits j sp.w = true := by
      rw [h.w]
      have := idMax_fits x.idlen hw0
      simp only [fits, decide_eq_true_eq]; omega
    have hnot : sp.pending.any (·.1 == j) = false := by
      rw [List.any_eq_false]
      intro p hp hpe
      have hmem : j ∈ activeIds (x.arr.getD []) := by
        rw [← pending_ids, ← h.pending]
        exact List.mem_map.mpr ⟨p, hp, by simpa using hpe⟩
      cases hx : x.arr with
      | none => simp [hx, activeIds, active] at hmem
      | some es => exact hfr.2.2.1 es hx (by simpa [hx] using hmem)
    refine ⟨by simp [freshId, hfr.1, hfit, hnot], ⟨h.w, ?_, rfl, h.inq, by simpa [Distinct] using hfr.2.2.2.1⟩⟩
    simp only [Option.getD_some]
    rw [reserve_pending x.arr x.idlen tag a j hr, h.pending]

/- ---------------------------------------------------------------- sync -/

theorem filter_one_less (l : List (Nat × Nat)) (rid : Nat) (hn : (l.map (·.1)).Nodup) (p : Nat × Nat)
    (hf : l.find? (·.1 == rid) = some p) : (l.filter (·.1 != rid)).length + 1 = l.length := by
  induction l with
  | nil => simp at hf
  | cons e r ih =>
    have hn' : (e.1 :: r.map (·.1)).Nodup := hn
    have hnd := List.nodup_cons.mp hn'
    by_cases h : (e.1 == rid) = true
    · have hid : e.1 = rid := by simpa using h
      have hnot : ∀ y ∈ r, (y.1 != rid) = true := by
        intro y hy
        simp only [bne_iff_ne, ne_eq]
        intro hye
        apply hnd.1
        rw [hid, ← hye]
        exact List.mem_map.mpr ⟨y, hy, rfl⟩
      have : r.filter (·.1 != rid) = r := List.filter_eq_self.mpr hnot
      simp [List.filter_cons, hid, this]
    · have hne : (e.1 != rid) = true := by simpa using h
      simp only [List.find?_cons, h] at hf
      have := ih hnd.2 hf
      simp only [List.filter_cons, hne, if_true, List.length_cons]
      omega

/-- `Rel` without the input queue -/
structure Rel0 (x : St) (sp : ReqSt) : Prop where
  w : sp.w = x.idlen
  pending : sp.pending = pendingOf (x.arr.getD [])
  cur : sp.cur = x.cid
  distinct : Distinct x

theorem Rel.rel0 {x : St} {sp : ReqSt} (h : Rel x sp) : Rel0 x sp := ⟨h.w, h.pending, h.cur, h.distinct⟩
theorem Rel0.setInq {x : St} {sp : ReqSt} (h : Rel0 x sp) (q : List (List Byte)) :
    Rel0 { x with inq := q } { sp with inq := q } := ⟨h.w, h.pending, h.cur, by simpa [Distinct] using h.distinct⟩

/-- what the spec's `deliver` does with a decodable reply id -/
theorem deliver_marked (sp : ReqSt) (m : List Byte) (rid : Nat) (hw : sp.w ≠ 0)
    (hmk : ((m.take sp.w).headD 0).toNat ≥ 128) (hdec : decode (unmarkS (m.take sp.w)) = some rid) :
    deliver sp m = match sp.pending.find? (·.1 == rid) with
      | some (_, t) => (some (some t, m.drop sp.w), { sp with pending := sp.pending.filter (·.1 != rid) })
      | none => (none, sp) := by
  unfold deliver
  simp only [hw, if_false, hmk, if_true, hdec]
  cases sp.pending.find? (·.1 == rid) with
  | none => rfl
  | some p => obtain ⟨a, t⟩ := p; rfl

theorem followUp_none (s : St) (t : Nat) : followUp noFollow s t = s := rfl

theorem rel_syncLoop (fails : Nat → Bool) (q : List (List Byte)) (x : St) (sp : ReqSt) (n : Nat) (lm : List Call)
    (ls : List (Option Nat × List Byte)) (fuel : Nat) (h : Rel0 x sp) (hn : n = sp.pending.length) (hw : x.idlen ≠ 0)
    (hfuel : q.length < fuel) (hl : lm.map callS = ls) :
    (syncLoop fails noFollow q x n lm).2.1.map callS = (awaitReplies fails fuel q sp ls).2 ∧
    Rel0 (syncLoop fails noFollow q x n lm).1 (awaitReplies fails fuel q sp ls).1 ∧
    (awaitReplies fails fuel q sp ls).1.inq = (syncLoop fails noFollow q x n lm).1.inq := by
  induction q generalizing x sp n lm ls fuel with
  | nil =>
    cases fuel with
    | zero => simp at hfuel
    | succ f =>
      cases n <;> simp only [syncLoop, awaitReplies] <;> exact ⟨hl, h.setInq [], by first | rfl | trivial⟩
  | cons m ms ih =>
    cases fuel with
    | zero => simp at hfuel
    | succ f =>
      have hf' : ms.length < f := by simp at hfuel; omega
      have hsw : sp.w ≠ 0 := by rw [h.w]; exact hw
      cases n with
      | zero =>
        have hemp : sp.pending.isEmpty = true := by
          cases hp : sp.pending with
          | nil => rfl
          | cons a b => rw [hp] at hn; simp at hn
        simp only [syncLoop, awaitReplies, hemp, true_or, if_true]
        exact ⟨hl, h.setInq _, by first | rfl | trivial⟩
      | succ k =>
        have hne : sp.pending.isEmpty = false := by
          cases hp : sp.pending with
          | nil => rw [hp] at hn; simp at hn
          | cons a b => rfl
        by_cases hstop : m.length < x.idlen ∨ ((m.take x.idlen).headD 0).toNat < 128
        · have hs2 : (sp.pending.isEmpty = true ∨ sp.w = 0 ∨ m.length < sp.w ∨ ((m.take sp.w).headD 0).toNat < 128 ∨
              (decode (unmarkS (m.take sp.w))).isNone = true) := by
            rw [h.w]
            rcases hstop with a | a
            · exact Or.inr (Or.inr (Or.inl a))
            · exact Or.inr (Or.inr (Or.inr (Or.inl a)))
          simp only [syncLoop, awaitReplies, if_pos hstop, if_pos hs2]
          exact ⟨hl, h.setInq _, by first | rfl | trivial⟩
        · have hmk : ((m.take x.idlen).headD 0).toNat ≥ 128 := by omega
          have hlen : ¬ m.length < x.idlen := fun a => hstop (Or.inl a)
          rcases buf2id_decode' (Reply.unmark (m.take x.idlen)) with ⟨rid, u, hb, hdec⟩ | ⟨hb, hdec⟩
          · rw [unmark_eq] at hdec
            have hs2 : ¬ (sp.pending.isEmpty = true ∨ sp.w = 0 ∨ m.length < sp.w ∨ ((m.take sp.w).headD 0).toNat < 128 ∨
                (decode (unmarkS (m.take sp.w))).isNone = true) := by
              intro hh
              rcases hh with a | a | a | a | a
              · rw [hne] at a; cases a
              · exact hsw a
              · rw [h.w] at a; exact hlen a
              · rw [h.w] at a; exact absurd hmk (by omega)
              · rw [h.w, hdec] at a; cases a
            have hdel := deliver_marked sp m rid hsw (by rw [h.w]; exact hmk) (by rw [h.w]; exact hdec)
            simp only [syncLoop, awaitReplies, if_neg hstop, if_neg hs2, hb]
            rw [hdel, h.pending, pending_find]
            cases hfa : findActive (x.arr.getD []) rid with
            | none =>
              simp only [Option.map_none, Option.toList_none, List.append_nil]
              exact ih x sp (k + 1) lm ls f h hn hw hf' hl
            | some t =>
              simp only [Option.map_some, Option.toList_some]
              have hx : x.arr ≠ none := by intro hx; simp [findActive, hx] at hfa
              obtain ⟨es, hes⟩ := Option.ne_none_iff_exists'.mp hx
              have hnd : (activeIds es).Nodup := by simpa [Distinct, hes] using h.distinct
              have hrel : Rel0 { x with arr := x.arr.map (deactivate · rid) }
                  { sp with pending := (pendingOf (x.arr.getD [])).filter (·.1 != rid) } := by
                refine ⟨h.w, ?_, h.cur, ?_⟩
                · simp only [hes, Option.map_some, Option.getD_some]
                  rw [pending_deactivate es rid hnd]
                · simp only [Distinct, hes, Option.map_some, Option.getD_some]
                  exact nodup_deactivate es rid hnd
              have hcount : k = ((pendingOf (x.arr.getD [])).filter (·.1 != rid)).length := by
                have hfind : (pendingOf (x.arr.getD [])).find? (·.1 == rid) = some (rid, t) := by
                  rw [pending_find, hfa]; rfl
                have := filter_one_less (pendingOf (x.arr.getD [])) rid (by rw [pending_ids]; simpa [hes] using hnd) _ hfind
                rw [← h.pending] at this
                rw [← h.pending]
                omega
              have e : m.drop sp.w = m.drop x.idlen := by rw [h.w]
              rw [e]
              have hact : (active ((x.arr.map (deactivate · rid)).getD [])).length = k := by
                have hp := hrel.pending
                simp only [] at hp
                rw [hcount, hp]; simp [pendingOf]
              simp only [followUp_none, hact]
              by_cases hfl : fails t = true
              · simp only [hfl, if_true]
                exact ⟨by rw [List.map_append, hl]; simp [callS], hrel.setInq ms, by first | rfl | trivial⟩
              · simp only [hfl, if_false, Bool.false_eq_true]
                exact ih _ _ k _ _ f hrel hcount hw hf' (by rw [List.map_append, hl]; simp [callS])
          · rw [unmark_eq] at hdec
            have hs2 : (sp.pending.isEmpty = true ∨ sp.w = 0 ∨ m.length < sp.w ∨ ((m.take sp.w).headD 0).toNat < 128 ∨
                (decode (unmarkS (m.take sp.w))).isNone = true) := by
              rw [h.w, hdec]; simp
            simp only [syncLoop, awaitReplies, if_neg hstop, if_pos hs2, hb]
            exact ⟨hl, h.setInq _, by first | rfl | trivial⟩

theorem awaitReplies_stop (fails : Nat → Bool) (fuel : Nat) (q : List (List Byte)) (sp : ReqSt) (ls : List (Option Nat × List Byte))
    (hf : q.length < fuel) (h : sp.pending.isEmpty = true ∨ sp.w = 0) :
    awaitReplies fails fuel q sp ls = ({ sp with inq := q }, ls) := by
  cases fuel with
  | zero => simp at hf
  | succ f =>
    cases q with
    | nil => simp [awaitReplies]
    | cons m ms =>
      have : (sp.pending.isEmpty = true ∨ sp.w = 0 ∨ m.length < sp.w ∨ ((m.take sp.w).headD 0).toNat < 128 ∨
          (decode (unmarkS (m.take sp.w))).isNone = true) := by
        rcases h with a | a
        · exact Or.inl a
        · exact Or.inr (Or.inl a)
      simp only [awaitReplies, if_pos this]

theorem pendingOf_active (es : List Slot) : pendingOf (active es) = pendingOf es := by
  simp [pendingOf, active_active]

/-- `sync`: the same handler calls as "take replies while a request is outstanding", states stay related
    (the compaction of the handler array is invisible to the spec) -/
theorem rel_sync (fails : Nat → Bool) (x : St) (sp : ReqSt) (fuel : Nat) (h : Rel x sp) (hf : x.inq.length < fuel) :
    (sync fails noFollow x).2.map callS = (awaitReplies fails fuel sp.inq sp []).2 ∧
    Rel (sync fails noFollow x).1 (awaitReplies fails fuel sp.inq sp []).1 := by
  have hq : sp.inq = x.inq := h.inq
  rw [hq]
  unfold sync
  cases ha : x.arr with
  | none =>
    have hp : sp.pending.isEmpty = true := by rw [h.pending, ha]; rfl
    rw [awaitReplies_stop fails fuel x.inq sp [] hf (Or.inl hp)]
    exact ⟨rfl, ⟨h.w, h.pending, h.cur, rfl, h.distinct⟩⟩
  | some es =>
    simp only []
    by_cases hz : es.length = 0 ∨ x.idlen = 0
    · rw [if_pos hz]
      have hs : sp.pending.isEmpty = true ∨ sp.w = 0 := by
        rcases hz with a | a
        · left
          have : es = [] := List.eq_nil_of_length_eq_zero a
          rw [h.pending, ha, this]; rfl
        · right; rw [h.w]; exact a
      rw [awaitReplies_stop fails fuel x.inq sp [] hf hs]
      exact ⟨rfl, ⟨h.w, by rw [h.pending, ha], h.cur, rfl, by simpa [Distinct, ha] using h.distinct⟩⟩
    · rw [if_neg hz]
      have hw : x.idlen ≠ 0 := fun a => hz (Or.inr a)
      have hn : (active es).length = sp.pending.length := by rw [h.pending, ha]; simp [pendingOf]
      obtain ⟨h1, h2, h3⟩ := rel_syncLoop fails x.inq x sp (active es).length [] [] fuel h.rel0 hn hw hf rfl
      split
      · refine ⟨h1, ⟨h2.w, ?_, h2.cur, h3, ?_⟩⟩
        · simp only [Option.getD_some]; rw [pendingOf_active]; exact h2.pending
        · simp only [Distinct, Option.getD_some]; rw [activeIds_active]; exact h2.distinct
      · exact ⟨h1, ⟨h2.w, h2.pending, h2.cur, h3, h2.distinct⟩⟩

end Mpt.Requester
