/-
  Lemmas for C16: the name tests of mpt_node_locate / mpt_node_next agree with value equality, and the list search
  finds the node the spec search finds.
-/
import MptModel.Lemmas.Ident
import MptModel.Spec.Ident
namespace Mpt.Ident

/-- stored bytes of a value: a text carries its terminator -/
def Val.stored (v : Val) : List Byte := if v.charset = utf8 then v.bytes ++ [0] else v.bytes

/-- the identifier (slot `k`) denotes the spec value `v` -/
def Denotes (id : Ident) (h : Heap) (k : Nat) (v : Val) : Prop := Holds id h k v.charset v.stored

theorem locateMatch_spec {id : Ident} {h : Heap} {k : Nat} {v : Val} (hd : Denotes id h k v) (t : List Byte) :
    locateMatch id h t = .ok (cmpEq v t) := by
  unfold locateMatch cmpEq
  have hcs := hd.cs
  have hlen := hd.len
  have hread := hd.read
  by_cases hc : v.charset = utf8
  · have hst : v.stored = v.bytes ++ [0] := by simp [Val.stored, hc]
    rw [hst] at hlen hread
    have h1 : ¬ id.charset ≠ 1 := by rw [hcs, hc]; simp [utf8]
    rw [if_neg h1]
    by_cases hl : t.length + 1 ≠ id.len
    · rw [if_pos hl]
      have : v.bytes ≠ t := by
        intro he; apply hl; rw [hlen, he]; simp
      simp [hc, this, pure, Except.pure]
    · rw [if_neg hl]
      have hbl : t.length = v.bytes.length := by
        have := hlen; simp at this; omega
      simp only [bind, Except.bind, hread, pure, Except.pure]
      have hterm : (v.bytes ++ [0])[t.length]? = some 0 := by rw [hbl]; simp
      have htake : (v.bytes ++ [0]).take t.length = v.bytes := by rw [hbl]; simp
      rw [hterm, htake]
      congr 1
      by_cases he : v.bytes = t
      · simp [hc, he]
      · have : ¬ t.length = 0 ∨ True := Or.inr trivial
        by_cases h0 : t.length = 0
        · exfalso; apply he
          have h1 : t = [] := List.eq_nil_of_length_eq_zero h0
          have h2 : v.bytes = [] := List.eq_nil_of_length_eq_zero (by omega)
          rw [h1, h2]
        · simp [hc, he, h0]
  · have h1 : id.charset ≠ 1 := by rw [hcs]; exact hc
    rw [if_pos h1]
    simp [hc, pure, Except.pure]

theorem locateWalk_spec {nodes : List (Ident × Nat × Val)} {h : Heap}
    (hd : ∀ n, n ∈ nodes → Denotes n.1 h n.2.1 n.2.2) (t : List Byte) (step : Int) (pos : Nat) (i : Int) :
    locateWalk h t step (nodes.map (·.1)) pos i = .ok (walkS t step (nodes.map (·.2.2)) pos i) := by
  induction nodes generalizing pos i with
  | nil => rfl
  | cons n rest ih =>
    have hhead := hd n (by simp)
    have htail : ∀ m, m ∈ rest → Denotes m.1 h m.2.1 m.2.2 := fun m hm => hd m (by simp [hm])
    simp only [List.map_cons, locateWalk, walkS, bind, Except.bind, locateMatch_spec hhead t]
    cases cmpEq n.2.2 t
    · simp only [Bool.false_eq_true, if_false]
      exact ih htail pos _
    · simp only [if_true]
      split
      · rfl
      · exact ih htail _ _

/-- **locate**: `mpt_node_locate` with a text name over a list of nodes whose identifiers denote `vals` finds exactly
    the node the spec search finds (names of any length, inline or allocated) -/
theorem locate_spec {nodes : List (Ident × Nat × Val)} {h : Heap}
    (hd : ∀ n, n ∈ nodes → Denotes n.1 h n.2.1 n.2.2) (start : Nat) (pos : Int) (t : List Byte) :
    locate (nodes.map (·.1)) h start pos t = .ok (locateS (nodes.map (·.2.2)) start pos t) := by
  unfold locate locateS
  simp only [List.length_map]
  by_cases hs : start ≥ nodes.length
  · simp [hs, pure, Except.pure]
  · simp only [hs, if_false]
    by_cases hp : pos > 0
    · simp only [hp, if_true, ← List.map_drop]
      exact locateWalk_spec (fun n hn => hd n (List.mem_of_mem_drop hn)) t 1 _ _
    · simp only [hp, if_false]
      by_cases h0 : pos = 0
      · simp only [h0, if_true, List.getElem?_map]
        cases hl : nodes[nodes.length - 1]? with
        | none => rfl
        | some n =>
          have hn : n ∈ nodes := List.mem_of_getElem? hl
          simp only [Option.map_some, bind, Except.bind, locateMatch_spec (hd n hn) t]
          cases cmpEq n.2.2 t
          · simp only [Bool.false_eq_true, if_false, ← List.map_take, ← List.map_reverse]
            exact locateWalk_spec (fun m hm => hd m (List.mem_of_mem_take (List.mem_reverse.mp hm))) t (-1) _ _
          · rfl
      · simp only [h0, if_false, ← List.map_take, ← List.map_reverse]
        exact locateWalk_spec (fun m hm => hd m (List.mem_of_mem_take (List.mem_reverse.mp hm))) t (-1) _ _

/-- the name test of `mpt_node_next` on an identifier that holds the text `c`: matches exactly the C string `c` -/
theorem nextMatch_text {id : Ident} {h : Heap} {k : Nat} {c : List Byte} (hh : Holds id h k 1 (c ++ [0])) (b : List Byte)
    (hb : ∀ x, x ∈ b → x ≠ 0) :
    nextMatch id h (some (b ++ [0])) = .ok (decide (b = c)) := by
  have hlen : id.len = c.length + 1 := by rw [hh.len]; simp
  have hsl : strlen (b ++ [0]) = b.length := by
    unfold strlen
    rw [List.takeWhile_append]
    have hall : ∀ l : List Byte, (∀ x, x ∈ l → x ≠ 0) → l.takeWhile (· != 0) = l := by
      intro l hl
      induction l with
      | nil => rfl
      | cons x r ih =>
        have hx : (x != 0) = true := by simpa using hl x (by simp)
        simp only [List.takeWhile_cons, hx, if_true]
        rw [ih (fun y hy => hl y (by simp [hy]))]
    have : (b.takeWhile (· != 0)).length = b.length := by rw [hall b hb]
    simp [this]
  unfold nextMatch
  simp only [hsl, hh.cs]
  by_cases hl : b.length + 1 ≠ id.len
  · have : b ≠ c := by intro he; apply hl; rw [hlen, he]
    simp [hl, this, pure, Except.pure]
  · have hbl : b.length = c.length := by omega
    have hl' : b.length + 1 = id.len := by omega
    simp only [hl', ne_eq, not_true_eq_false, false_or, if_false]
    have : ¬ id.len = 0 := by omega
    simp only [this, if_false, bind, Except.bind, hh.read, pure, Except.pure, Option.getD_some]
    rw [← hl']
    simp only [Nat.add_sub_cancel]
    rw [List.take_left' rfl, hbl, List.take_left' rfl]
    congr 1
    by_cases he : b = c
    · subst he; simp
    · have : ¬ c = b := fun hc => he hc.symm
      simp [he, this]

end Mpt.Ident
