/-
  C05, layer 8: the array operations on heaps of managed buffers are complete steps.
-/
import MptModel.Lemmas.TokDetach
namespace Mpt.Heap
open Mpt

/-- every outcome of an operation is a complete step (no fault) -/
def OpOK {α : Type} (amb : List Nat) (s : State) (r : Out α) : Prop :=
  match r with
  | .fault _ => False
  | .fail s' _ => Step amb s s'
  | .ok s' _ => Step amb s s'

theorem OpOK.fail_same {α : Type} {amb : List Nat} {s : State} (gs : GoodS amb s) (e : Fail) : OpOK (α := α) amb s (.fail s e) :=
  Step.refl gs

theorem detachOp_ok {amb : List Nat} {s : State} (gs : GoodS amb s) (h n : Nat) : OpOK amb s (detachOp s h n) := by
  unfold detachOp
  cases hh : s.handle h with
  | none => exact OpOK.fail_same gs _
  | some b =>
    simp only
    obtain ⟨x, hb⟩ := gs.inv.live h b hh
    obtain ⟨t, _, xt, _⟩ := (gs.inv.good b x hb).elems
    have es := ensure_step gs hh hb xt true n
    generalize ensure s h b true n = r at es
    cases r with
    | fault w => exact es
    | fail s1 e => exact es
    | ok s1 nb => exact es.1

theorem reduce_ok {amb : List Nat} {s : State} (gs : GoodS amb s) (h : Nat) : OpOK amb s (arrayReduce s h) := by
  unfold arrayReduce
  cases hh : s.handle h with
  | none => exact Step.refl gs
  | some b =>
    simp only
    obtain ⟨x, hb⟩ := gs.inv.live h b hh
    rw [hb]
    simp only
    obtain ⟨t, _, xt, _⟩ := (gs.inv.good b x hb).elems
    have es := ensure_step gs hh hb xt true x.used
    generalize ensure s h b true x.used = r at es
    cases r with
    | fault w => exact es
    | fail s1 e => exact es
    | ok s1 nb =>
      obtain ⟨st, _, z, hz, _⟩ := es
      simp only [hz]
      exact st

theorem cutOp_ok {amb : List Nat} {s : State} (gs : GoodS amb s) (h off len : Nat) : OpOK amb s (cutOp s h off len) := by
  unfold cutOp
  cases hh : s.handle h with
  | none => exact OpOK.fail_same gs _
  | some b =>
    simp only
    obtain ⟨x, hb⟩ := gs.inv.live h b hh
    rw [hb]
    simp only
    obtain ⟨t, _, xt, _⟩ := (gs.inv.good b x hb).elems
    have es := ensure_step gs hh hb xt true x.used
    generalize ensure s h b true x.used = r at es
    cases r with
    | fault w => exact es
    | fail s1 e => exact es
    | ok s1 nb =>
      obtain ⟨st, _, z, hz, _⟩ := es
      simp only
      have cs := bufferCut_step st.good hz off len
      generalize bufferCut s1 nb off len = r2 at cs
      cases r2 with
      | fault w => exact cs
      | fail s2 e => rw [cs]; exact st
      | ok s2 v => exact st.trans cs.1


theorem bufToks_ref (x : Buf) (r : Nat) : ({ x with ref := r } : Buf).toks = x.toks := rfl

/-- `replaceBuf` after the reference on `new` has been taken (`s1` = `s` with that reference added) -/
theorem replaceBuf_ok {amb : List Nat} {s s1 : State} (gs : GoodS amb s) {dst : Nat} (hlt : dst < s.hs.length) (new : Option Nat)
    (hnew : ∀ a, new = some a → ∃ x, s.buf? a = some x)
    (hne : s.handle dst ≠ new)
    (hs1hs : s1.hs = s.hs) (hs1len : s1.bufs.length = s.bufs.length) (hs1log : s1.log = s.log) (hs1next : s1.next = s.next)
    (hs1or : s1.oracle = s.oracle)
    (hs1 : ∀ c, s1.buf? c = if new = some c then (s.buf? c).map (fun x => { x with ref := x.ref + 1 }) else s.buf? c) :
    OpOK amb s (replaceBuf s1 dst new (s.handle dst)) := by
  have toks1 : ∀ c, bufToks (s1.buf? c) = bufToks (s.buf? c) := by
    intro c
    rw [hs1]
    split
    · cases s.buf? c <;> rfl
    · rfl
  unfold replaceBuf
  cases hd : s.handle dst with
  | none =>
    simp only
    have inv' := gs.inv.reassign (s' := s1.setHandle dst new) hlt new hnew hne (by simp [hs1hs])
      (by intro c; rw [State.buf?_setHandle, hs1]; simp [hd])
    exact step_of_toks_same gs inv' (by simp [hs1hs]) (fun c => by rw [State.buf?_setHandle]; exact toks1 c) hs1log hs1next
  | some b =>
    simp only
    obtain ⟨x, hb⟩ := gs.inv.live dst b hd
    have blt := State.buf?_lt hb
    have nb : ¬ new = some b := by intro e; exact hne (hd.trans e.symm)
    have hb1 : (s1.setHandle dst new).buf? b = some x := by
      rw [State.buf?_setHandle, hs1]; simp [nb, hb]
    have r := gs.inv.ref b x hb
    by_cases r1 : x.ref = 1
    · obtain ⟨t, n, xt, mt, hu, hsz⟩ := (gs.inv.good b x hb).elems
      obtain ⟨s', hu', hnone, hoth, hhs, hnx, _, hlog⟩ := unref_last_managed hb1 r1 xt mt.2.1 (by have := mt.2.2; omega) hsz
      rw [hu']
      have hbuf : ∀ c, s'.buf? c =
          if new = some c then (s.buf? c).map (fun x => { x with ref := x.ref + 1 })
          else if s.handle dst = some c then
            (match s.buf? c with
             | some x => if x.ref = 1 then none else some { x with ref := x.ref - 1 }
             | none => none)
          else s.buf? c := by
        intro c
        by_cases cb : c = b
        · rw [cb, hnone, hd]; simp [nb, hb, r1]
        · rw [hoth c cb, State.buf?_setHandle, hs1, hd]
          have : ¬ some b = some c := by intro e; cases e; exact cb rfl
          simp [this]
      have inv' := gs.inv.reassign (s' := s') hlt new hnew hne (by rw [hhs]; simp [hs1hs]) hbuf
      have dead : s.buf? s.bufs.length = none := State.buf?_ge_length s _ (Nat.le_refl _)
      have dead' : s'.buf? s.bufs.length = none := by
        rw [hbuf]
        have n1 : ¬ new = some s.bufs.length := by
          intro e; obtain ⟨y, hy⟩ := hnew _ e; rw [dead] at hy; cases hy
        have n2 : ¬ s.handle dst = some s.bufs.length := by rw [hd]; intro e; cases e; omega
        simp [n1, n2, dead]
      refine step_of_pair (nb := s.bufs.length) gs hb dead inv' (by rw [hhs]; simp [hs1hs]) (by rw [hnx]; show s.next ≤ s1.next; omega)
        (by
          intro c c1 c2
          rw [hoth c c1, State.buf?_setHandle]; exact toks1 c) ?_
      intro small
      have sn : s'.next = s.next := by rw [hnx]; exact hs1next
      obtain ⟨tp, am⟩ := gs.tok (by omega)
      rw [hnone, dead']
      simp only [bufToks, List.append_nil]
      refine ⟨Delta.mk x.toks [] [] 0 [] (by rw [hnx]; show s1.next = _; rw [hs1next]; rfl)
        (by rw [hlog]; show s1.log ++ _ = _; rw [hs1log]; simp) (Creates.nil _) (tp.nodup b x hb) (fun t ht => ht)
        (fun k hk => by cases hk) List.nodup_nil (fun t ht => by cases ht) List.nodup_nil ?_⟩
      intro t
      constructor
      · intro h; cases h
      · rintro ⟨(⟨h1, h2⟩ | h), _⟩
        · exact absurd h1 h2
        · omega
    · unfold unref
      rw [hb1]
      have r0 : ¬ x.ref = 0 := by omega
      simp only [r0, if_false, ne_eq, r1, not_false_eq_true, if_true]
      have l1 : b < (s1.setHandle dst new).bufs.length := by simp [hs1len]; exact blt
      have hbuf : ∀ c, ((s1.setHandle dst new).setBuf b { x with ref := x.ref - 1 }).buf? c =
          if new = some c then (s.buf? c).map (fun x => { x with ref := x.ref + 1 })
          else if s.handle dst = some c then
            (match s.buf? c with
             | some x => if x.ref = 1 then none else some { x with ref := x.ref - 1 }
             | none => none)
          else s.buf? c := by
        intro c
        rw [State.buf?_setBuf _ _ _ _ l1]
        by_cases cb : c = b
        · rw [cb, hd]; simp [nb, hb, r1]
        · rw [if_neg cb, State.buf?_setHandle, hs1, hd]
          have : ¬ some b = some c := by intro e; cases e; exact cb rfl
          simp [this]
      have inv' := gs.inv.reassign (s' := (s1.setHandle dst new).setBuf b { x with ref := x.ref - 1 }) hlt new hnew hne
        (by simp [hs1hs]) hbuf
      refine step_of_toks_same gs inv' (by simp [hs1hs]) ?_ hs1log hs1next
      intro c
      rw [State.buf?_setBuf _ _ _ _ l1]
      by_cases cb : c = b
      · rw [cb, hb]; simp [bufToks, bufToks_ref]
      · rw [if_neg cb, State.buf?_setHandle]; exact toks1 c

theorem clone_ok {amb : List Nat} {s : State} (gs : GoodS amb s) {dst : Nat} (hlt : dst < s.hs.length) (src : Option Nat) :
    OpOK amb s (arrayClone s dst src) := by
  unfold arrayClone
  cases src with
  | none =>
    simp only
    by_cases hd : s.handle dst = none
    · rw [hd]
      simp only [replaceBuf]
      have inv' : InvM (s.setHandle dst none) := by
        refine gs.inv.congr (fun _ => rfl) ?_
        simp only [State.setHandle_hs]
        apply List.ext_getElem?
        intro i
        rw [List.getElem?_set]
        split
        · rename_i eq; subst eq
          unfold State.handle at hd
          split at hd
          · exact absurd hd (by simp)
          · rename_i hn
            cases hx : s.hs[dst]? with
            | none => have := List.getElem?_eq_none_iff.mp hx; omega
            | some v => cases v with
              | none => simp [hlt]
              | some b => exact absurd hx (hn b)
        · rfl
      exact step_of_toks_same gs inv' (by simp) (fun _ => rfl) rfl rfl
    · exact replaceBuf_ok gs hlt none (by intro a e; cases e) hd rfl rfl rfl rfl rfl (by intro c; simp)
  | some hsrc =>
    simp only
    split
    · exact Step.refl gs
    · rename_i diff
      split
      · exact OpOK.fail_same gs _
      · cases hs : s.handle hsrc with
        | none =>
          simp only
          exact replaceBuf_ok gs hlt none (by intro a e; cases e) (by rw [← hs]; exact fun e => diff e.symm) rfl rfl rfl rfl rfl (by intro c; simp)
        | some a =>
          simp only
          obtain ⟨x, ha⟩ := gs.inv.live hsrc a hs
          have alt := State.buf?_lt ha
          have r := gs.inv.ref a x ha
          unfold addref
          rw [ha]
          have r0 : ¬ x.ref = 0 := by omega
          simp only [r0, if_false]
          have key := replaceBuf_ok (s1 := s.setBuf a { x with ref := x.ref + 1 }) gs hlt (some a)
            (by intro a' e; cases e; exact ⟨x, ha⟩) (by rw [← hs]; exact fun e => diff e.symm) rfl (by simp) rfl rfl rfl
            (by
              intro c
              rw [State.buf?_setBuf _ _ _ _ alt]
              by_cases ca : c = a
              · subst ca; simp [ha]
              · have : ¬ some a = some c := by intro e; cases e; exact ca rfl
                simp [ca, this])
          have nz : x.ref + 1 ≠ 0 := by omega
          generalize x.ref + 1 = k at nz key
          cases k with
          | zero => exact absurd rfl nz
          | succ k => exact key


/-- an empty handle gets a fresh buffer of managed elements -/
theorem attach_managed_step {amb : List Nat} {s : State} (gs : GoodS amb s) {h : Nat} (hlt : h < s.hs.length) (hh : s.handle h = none)
    (len fl : Nat) (t : Traits) (mt : Managed t) :
    Step amb s ((s.newBuf len fl (some t)).setHandle h (some s.bufs.length)) ∧
    ((s.newBuf len fl (some t)).setHandle h (some s.bufs.length)).buf? s.bufs.length = some (State.fresh len fl (some t)) := by
  have hnb : s.buf? s.bufs.length = none := State.buf?_ge_length s _ (Nat.le_refl _)
  have hz : ((s.newBuf len fl (some t)).setHandle h (some s.bufs.length)).buf? s.bufs.length = some (State.fresh len fl (some t)) := by
    rw [State.buf?_setHandle, State.buf?_newBuf]; simp
  have fg : GoodBuf (State.fresh len fl (some t)) := goodBuf_of (n := 0) rfl mt (by simp [State.fresh]) (by simp)
  obtain ⟨inv', _⟩ := gs.inv.retarget (s' := (s.newBuf len fl (some t)).setHandle h (some s.bufs.length)) hlt hnb (by simp)
    (by intro c; rw [State.buf?_setHandle, State.buf?_newBuf]; simp [hh]) rfl fg
  refine ⟨step_of_toks_same gs inv' (by simp) ?_ rfl rfl, hz⟩
  intro c
  rw [State.buf?_setHandle, State.buf?_newBuf]
  by_cases e : c = s.bufs.length
  · rw [e, hnb]; simp [bufToks, fresh_toks _ _ t mt]
  · simp [e]

/-- map the result of a buffer-level step into the result of the array function -/
theorem OpOK.of_set {amb : List Nat} {s s1 : State} {b : Nat} {r : Out Int} {pos : Nat} (st : Step amb s s1)
    (h : match r with
      | .fault _ => False
      | .fail s' _ => s' = s1 ∨ (Step amb s1 s' ∧ Frame s1 s' b)
      | .ok s' _ => Step amb s1 s' ∧ Frame s1 s' b) :
    OpOK amb s (match r with
      | .ok s2 _ => Out.ok s2 pos
      | .fail s2 _ => .fail s2 .null
      | .fault w => .fault w) := by
  cases r with
  | fault w => exact h
  | fail s2 e =>
    rcases h with e1 | e1
    · rw [e1]; exact st
    · exact st.trans e1.1
  | ok s2 v => exact st.trans h.1

/-- `mpt_array_set` with managed element traits: the sources (if any) are live tokens held by the caller -/
theorem arraySet_ok {amb : List Nat} {s : State} (gs : GoodS amb s) {h : Nat} (hlt : h < s.hs.length) (t : Traits) (mt : Managed t)
    (bytes : List Byte) (hasSrc : Bool) (off : Int) (S : List Nat)
    (hS : hasSrc = true → ∀ j, j < bytes.length / t.size → slot bytes t.size j ∈ S)
    (hSl : s.next ≤ tokLimit → ∀ k ∈ S, k ∈ amb) :
    OpOK amb s (arraySet s h (some t) bytes hasSrc off) := by
  unfold arraySet
  simp only
  split
  · exact OpOK.fail_same gs _
  · cases hh : s.handle h with
    | none =>
      simp only
      split
      · exact OpOK.fail_same gs _
      · obtain ⟨st, hz⟩ := attach_managed_step gs hlt hh ((off * Int.ofNat t.size).toNat + bytes.length) 0 t mt
        have bs := bufferSet_step st.good hz rfl (off * Int.ofNat t.size).toNat bytes hasSrc S hS
          (by intro small k hk; exact ⟨Or.inl (hSl (Nat.le_trans st.next small) k hk), by rw [fresh_toks _ _ t mt]; simp⟩)
        exact OpOK.of_set st bs
    | some b =>
      simp only
      obtain ⟨x, hb⟩ := gs.inv.live h b hh
      rw [hb]
      simp only
      split
      · exact OpOK.fail_same gs _
      · rename_i sameT
        have xt : x.traits = some t := by simpa using sameT
        generalize hpos : (if off < 0 then off * Int.ofNat t.size + Int.ofNat x.used else off * Int.ofNat t.size) = pos1
        split
        · exact OpOK.fail_same gs _
        · have es := ensure_step gs hh hb xt (decide (x.size < pos1.toNat + bytes.length ∨ x.immutable = true ∨ x.shared = true))
            (max (pos1.toNat + bytes.length) x.used)
          generalize ensure s h b _ (max (pos1.toNat + bytes.length) x.used) = r at es
          cases r with
          | fault w => exact es
          | fail s1 e => exact es
          | ok s1 nb =>
            obtain ⟨st, _, z, hz, zt, _⟩ := es
            simp only
            have bs := bufferSet_step st.good hz zt pos1.toNat bytes hasSrc S hS
              (by
                intro small k hk
                have am := (st.good.tok small).2
                have ka := hSl (Nat.le_trans st.next small) k hk
                refine ⟨Or.inl ka, fun hm => ?_⟩
                exact (am.2 k ka).2 ((mem_stored_split hz k).mpr (Or.inl hm)))
            exact OpOK.of_set st bs


theorem range_map_seqFrom (a k : Nat) : (List.range k).map (fun i => a + i) = seqFrom a k := by
  induction k generalizing a with
  | zero => rfl
  | succ k ih =>
    rw [List.range_succ_eq_map, List.map_cons, List.map_map]
    simp only [seqFrom, Nat.add_zero]
    congr 1
    rw [← ih (a + 1)]
    apply List.map_congr_left
    intro i _; simp only [Function.comp]; omega

theorem creates_inits (a k : Nat) : Creates [] a ((seqFrom a k).map Ev.init) k := by
  induction k generalizing a with
  | zero => exact Creates.nil a
  | succ k ih => exact Creates.init (ih (a + 1))

theorem slot_append_left (A B : List Byte) (sz j : Nat) (h : (j + 1) * sz ≤ A.length) (h4 : 4 ≤ sz) : slot (A ++ B) sz j = slot A sz j := by
  unfold slot rdTok
  have e2 : (j + 1) * sz = j * sz + sz := by rw [Nat.add_mul]; simp
  simp only [List.getD_eq_getElem?_getD, List.getElem?_append]
  have p0 : j * sz < A.length := by omega
  have p1 : j * sz + 1 < A.length := by omega
  have p2 : j * sz + 2 < A.length := by omega
  have p3 : j * sz + 3 < A.length := by omega
  simp only [p0, p1, p2, p3, if_true]

theorem slot_append_right (A B : List Byte) (sz j : Nat) (h : A.length = sz) : slot (A ++ B) sz (j + 1) = slot B sz j := by
  unfold slot rdTok
  have e2 : (j + 1) * sz = j * sz + sz := by rw [Nat.add_mul]; simp
  simp only [List.getD_eq_getElem?_getD, List.getElem?_append, e2, h]
  have p0 : ¬ j * sz + sz < sz := by omega
  have p1 : ¬ j * sz + sz + 1 < sz := by omega
  have p2 : ¬ j * sz + sz + 2 < sz := by omega
  have p3 : ¬ j * sz + sz + 3 < sz := by omega
  simp only [p0, p1, p2, p3, if_false]
  have a0 : j * sz + sz - sz = j * sz := by omega
  have a1 : j * sz + sz + 1 - sz = j * sz + 1 := by omega
  have a2 : j * sz + sz + 2 - sz = j * sz + 2 := by omega
  have a3 : j * sz + sz + 3 - sz = j * sz + 3 := by omega
  rw [a0, a1, a2, a3]

theorem sourcesBytes_succ (a k sz : Nat) : sourcesBytes a (k + 1) sz = elemBytes a sz ++ sourcesBytes (a + 1) k sz := by
  unfold sourcesBytes
  rw [List.range_succ_eq_map, List.flatMap_cons, List.flatMap_map]
  simp only [Nat.add_zero]
  congr 1
  induction (List.range k) with
  | nil => rfl
  | cons i is ih =>
    simp only [List.flatMap_cons, ih]
    congr 2; omega

theorem sourcesBytes_length (a k sz : Nat) (h4 : 4 ≤ sz) : (sourcesBytes a k sz).length = k * sz := by
  induction k generalizing a with
  | zero => simp [sourcesBytes]
  | succ k ih => rw [sourcesBytes_succ, List.length_append, elemBytes_length a sz h4, ih, Nat.add_mul]; omega

/-- the source elements the caller built hold the tokens `a, a+1, ..` (32-bit tokens) -/
theorem slot_sourcesBytes (a k sz j : Nat) (h4 : 4 ≤ sz) (hj : j < k) (small : a + k ≤ tokLimit) :
    slot (sourcesBytes a k sz) sz j = a + j := by
  induction k generalizing a j with
  | zero => omega
  | succ k ih =>
    rw [sourcesBytes_succ]
    cases j with
    | zero =>
      rw [slot_append_left _ _ sz 0 (by rw [elemBytes_length a sz h4]; omega) h4]
      exact slot_elemBytes a sz h4 (by unfold tokLimit at small; omega)
    | succ j =>
      rw [slot_append_right _ _ sz j (elemBytes_length a sz h4), ih (a + 1) j (by omega) (by omega)]
      omega

/-- the caller builds `k` source elements: they are ambient live tokens -/
theorem goodS_sourcesInit {s : State} (gs : GoodS [] s) (k : Nat) : GoodS (seqFrom s.next k) (sourcesInit s k) := by
  refine ⟨gs.inv.congr (fun _ => rfl) rfl, ?_⟩
  intro small
  have small' : s.next + k ≤ tokLimit := small
  obtain ⟨tp, _⟩ := gs.tok (by omega)
  refine ⟨tp.same (by show s.next ≤ s.next + k; omega) (fun c y hy => ⟨y, hy, rfl⟩), seqFrom_nodup _ _, ?_⟩
  intro x hx
  have := mem_seqFrom.mp hx
  refine ⟨by show x < s.next + k; omega, fun hm => ?_⟩
  have : x < s.next := tp.fresh_stored x hm
  omega

/-- construction of the sources before a step, their destruction after it: a step without ambient tokens -/
theorem step_sources_wrap {s : State} (gs : GoodS [] s) (k : Nat) (s' : State)
    (st : Step (seqFrom s.next k) (sourcesInit s k) s') : Step [] s (sourcesFini s' s.next k) := by
  refine ⟨st.inv.congr (fun _ => rfl) rfl, st.hsl, ?_, ?_⟩
  · have := st.next; show s.next ≤ s'.next; have : (sourcesInit s k).next = s.next + k := rfl; omega
  · intro small
    have small' : s'.next ≤ tokLimit := small
    obtain ⟨tp', am', evs, lg, run⟩ := st.tok small'
    have nI : (sourcesInit s k).next = s.next + k := rfl
    obtain ⟨tp, _⟩ := gs.tok (by have := st.next; omega)
    refine ⟨tp'.same (Nat.le_refl _) (fun c y hy => ⟨y, hy, rfl⟩), ⟨List.nodup_nil, fun x hx => by cases hx⟩, ?_⟩
    refine ⟨(seqFrom s.next k).map Ev.init ++ evs ++ (seqFrom s.next k).map Ev.fini, ?_, ?_⟩
    · show s'.log ++ _ = _
      rw [lg]
      show (s.log ++ (List.range k).map (fun i => Ev.init (s.next + i))) ++ evs ++ (List.range k).map (fun i => Ev.fini (s.next + i)) = _
      have e1 : (List.range k).map (fun i => Ev.init (s.next + i)) = (seqFrom s.next k).map Ev.init := by
        rw [← range_map_seqFrom, List.map_map]; rfl
      have e2 : (List.range k).map (fun i => Ev.fini (s.next + i)) = (seqFrom s.next k).map Ev.fini := by
        rw [← range_map_seqFrom, List.map_map]; rfl
      rw [e1, e2]; simp
    · have r1 := (creates_inits s.next k).run (stored s) tp.fresh_stored (by intro x hx; cases hx)
      have r2 : Run (seqFrom s.next k ++ stored s) evs (seqFrom s.next k ++ stored s') := run
      have r3 : Run (seqFrom s.next k ++ stored s') ((seqFrom s.next k).map Ev.fini) (stored s') :=
        Run.fini (List.Perm.refl _)
      simp only [List.nil_append]
      exact (r1.append r2).append r3

theorem setOpE_ok {s : State} (gs : GoodS [] s) {h : Nat} (hlt : h < s.hs.length) (t : Traits) (mt : Managed t) (off : Int) (k : Nat)
    (withSrc : Bool) : OpOK [] s (setOpE s h t off k withSrc) := by
  have h4 := mt.2.2
  have sz0 : t.size ≠ 0 := by omega
  unfold setOpE
  cases withSrc with
  | false =>
    simp only [Bool.false_eq_true, if_false]
    exact arraySet_ok gs hlt t mt _ false off [] (by intro h; cases h) (by intro _ k hk; cases hk)
  | true =>
    simp only [if_true]
    have gI := goodS_sourcesInit gs k
    have hlt' : h < (sourcesInit s k).hs.length := hlt
    have inner := arraySet_ok gI hlt' t mt (sourcesBytes s.next k t.size) true off (slotsFrom (sourcesBytes s.next k t.size) t.size 0 k)
      (by
        intro _ j hj
        rw [sourcesBytes_length _ _ _ h4, mul_div_self k t.size sz0] at hj
        rw [mem_slotsFrom]; exact ⟨j, by omega, by omega, rfl⟩)
      (by
        intro small x hx
        have small' : s.next + k ≤ tokLimit := small
        obtain ⟨j, _, h2, e⟩ := mem_slotsFrom.mp hx
        rw [← e, slot_sourcesBytes s.next k t.size j h4 (by omega) small', mem_seqFrom]; omega)
    generalize arraySet (sourcesInit s k) h (some t) (sourcesBytes s.next k t.size) true off = r at inner
    cases r with
    | fault w => exact inner
    | fail s' e => exact step_sources_wrap gs k s' inner
    | ok s' v => exact step_sources_wrap gs k s' inner


/-- private copy, then `mpt_buffer_set` with the buffer's own element type; the sources (if any) are ambient tokens -/
theorem bsetOp_ok {amb : List Nat} {s : State} (gs : GoodS amb s) (h pos : Nat) (bytes : List Byte) (hasSrc : Bool) (S : List Nat)
    (hS : ∀ t x b, s.handle h = some b → s.buf? b = some x → x.traits = some t →
      hasSrc = true → ∀ j, j < bytes.length / t.size → slot bytes t.size j ∈ S)
    (hSl : s.next ≤ tokLimit → ∀ k ∈ S, k ∈ amb) :
    OpOK amb s (bsetOp s h pos bytes hasSrc) := by
  unfold bsetOp
  cases hh : s.handle h with
  | none => exact OpOK.fail_same gs _
  | some b =>
    simp only
    obtain ⟨x, hb⟩ := gs.inv.live h b hh
    rw [hb]
    simp only
    obtain ⟨t, _, xt, _, _, _⟩ := (gs.inv.good b x hb).elems
    have es := ensure_step gs hh hb xt true (max x.used (pos + bytes.length))
    generalize ensure s h b true (max x.used (pos + bytes.length)) = r at es
    cases r with
    | fault w => exact es
    | fail s1 e => exact es
    | ok s1 nb =>
      obtain ⟨st, _, z, hz, zt, _⟩ := es
      simp only
      rw [xt]
      have bs := bufferSet_step st.good hz zt pos bytes hasSrc S (hS t x b hh hb xt)
        (by
          intro small k hk
          have am := (st.good.tok small).2
          have ka := hSl (Nat.le_trans st.next small) k hk
          refine ⟨Or.inl ka, fun hm => ?_⟩
          exact (am.2 k ka).2 ((mem_stored_split hz k).mpr (Or.inl hm)))
      generalize bufferSet s1 nb (some t) pos bytes hasSrc = r2 at bs
      cases r2 with
      | fault w => exact bs
      | fail s2 e =>
        rcases bs with e1 | e1
        · rw [e1]; exact st
        · exact st.trans e1.1
      | ok s2 v => exact st.trans bs.1

/-- the same with `k` source elements the caller constructs, passes and destroys again -/
theorem bsetSrcE_ok {s : State} (gs : GoodS [] s) (h pos k : Nat) : OpOK [] s (bsetSrcE s h pos k) := by
  unfold bsetSrcE
  cases ht : ((s.handle h).bind s.buf?).bind (·.traits) with
  | none => exact OpOK.fail_same gs _
  | some t =>
    simp only
    have gI := goodS_sourcesInit gs k
    have tfact : ∀ t' x b, (sourcesInit s k).handle h = some b → (sourcesInit s k).buf? b = some x → x.traits = some t' → t' = t := by
      intro t' x b hh hb xt
      have hh' : s.handle h = some b := hh
      have hb' : s.buf? b = some x := hb
      rw [hh'] at ht
      simp only [Option.bind_some, hb', xt] at ht
      cases ht; rfl
    have inner := bsetOp_ok gI h pos (sourcesBytes s.next k t.size) true (slotsFrom (sourcesBytes s.next k t.size) t.size 0 k)
      (by
        intro t' x b hh hb xt _ j hj
        have e := tfact t' x b hh hb xt
        subst e
        obtain ⟨t2, _, xt', mt, _, _⟩ := (gI.inv.good b x hb).elems
        have e2 : t2 = t' := by rw [xt] at xt'; cases xt'; rfl
        rw [e2] at mt
        have h4 := mt.2.2
        rw [sourcesBytes_length _ _ _ h4, mul_div_self k _ (by omega)] at hj
        rw [mem_slotsFrom]; exact ⟨j, by omega, by omega, rfl⟩)
      (by
        intro small x hx
        have small' : s.next + k ≤ tokLimit := small
        obtain ⟨j, _, h2, e⟩ := mem_slotsFrom.mp hx
        -- the element size is at least 4 whenever a source exists (the buffer is managed)
        cases hh : s.handle h with
        | none => rw [hh] at ht; cases ht
        | some b =>
          obtain ⟨y, hy⟩ := gs.inv.live h b hh
          obtain ⟨ty, _, yt, mty, _, _⟩ := (gs.inv.good b y hy).elems
          have : ty = t := by
            rw [hh] at ht
            simp only [Option.bind_some, hy, yt] at ht
            cases ht; rfl
          subst this
          rw [← e, slot_sourcesBytes s.next k ty.size j mty.2.2 (by omega) small', mem_seqFrom]; omega)
    generalize bsetOp (sourcesInit s k) h pos (sourcesBytes s.next k t.size) true = r at inner
    cases r with
    | fault w => exact inner
    | fail s' e => exact step_sources_wrap gs k s' inner
    | ok s' v => exact step_sources_wrap gs k s' inner

theorem slotsFrom_shift {d d' : List Byte} {sz i i' c : Nat} (h : ∀ a, a < c → slot d' sz (i' + a) = slot d sz (i + a)) :
    slotsFrom d' sz i' c = slotsFrom d sz i c := by
  apply List.map_congr_left
  intro a ha
  exact h a (List.mem_range.mp ha)

/-- `mpt_buffer_insert` followed by the construction of the inserted elements (all `l`, or — for an insertion
    at or behind the end — a prefix of `m`, after which the buffer ends): a complete step -/
theorem insert_fill_step {amb : List Nat} {s s1 s2 : State} {b : Nat} {x x1 : Buf} {t : Traits} {n p l m : Nat} {d2 : List Byte} {u2 : Nat}
    {S : List Nat} (gs : GoodS amb s) (hb : s.buf? b = some x) (xt : x.traits = some t) (mt : Managed t) (hu : x.used = n * t.size)
    (ins : Inserted s s1 b x x1 t.size n p l) (fit : (max n p + l) * t.size ≤ x.size)
    (bt : Built s1 s2 b x1 t.size p m S d2 u2) (hS : ∀ k ∈ S, k ∈ amb)
    (alt : (m = l ∧ u2 = x1.used) ∨ (n ≤ p ∧ m < l ∧ u2 = (p + m) * t.size)) : Step amb s s2 := by
  have h4 := mt.2.2
  have U : u2 = (min n p + (p - n) + m + (n - p)) * t.size := by
    rcases alt with ⟨e1, e2⟩ | ⟨e1, e2, e3⟩
    · rw [e2, ins.used, e1]; congr 1; omega
    · rw [e3]; congr 1; omega
  have x2t : ({ x1 with data := d2, used := u2 } : Buf).traits = some t := ins.traits.trans xt
  have ufit : (min n p + (p - n) + m + (n - p)) * t.size ≤ ({ x1 with data := d2, used := u2 } : Buf).size := by
    simp only [Buf.size, bt.len, ins.len]
    have : (min n p + (p - n) + m + (n - p)) * t.size ≤ (max n p + l) * t.size := by
      apply Nat.mul_le_mul_right
      rcases alt with ⟨e1, _⟩ | ⟨e1, e2, _⟩ <;> omega
    simp only [Buf.size] at fit; omega
  refine step_of_frame gs hb (ins.frame.trans bt.frame) bt.buf ins.ref (goodBuf_of x2t mt U ufit)
    (by rw [bt.next, ins.next]; omega) ?_
  intro small
  have small1 : s1.next ≤ tokLimit := by have := bt.next; omega
  obtain ⟨tp, am⟩ := gs.tok (by have := ins.next; omega)
  have nd := tp.nodup b x hb
  have old := tp.fresh b x hb
  have xtoks : x.toks = slotsFrom x.data t.size 0 (min n p) ++ slotsFrom x.data t.size p (n - p) := by
    rw [toks_of_used xt mt hu]
    have e : n = min n p + (n - p) := by omega
    conv => lhs; rw [e]
    rw [slotsFrom_add]
    congr 1
    exact slotsFrom_start (by intro h; omega)
  have x2toks : ({ x1 with data := d2, used := u2 } : Buf).toks =
      slotsFrom x.data t.size 0 (min n p) ++ seqFrom s.next ((p - n) + m) ++ slotsFrom x.data t.size p (n - p) := by
    rw [toks_of_used x2t mt U, slotsFrom_four, seqFrom_add, ← List.append_assoc]
    congr 1
    · congr 1
      · congr 1
        · refine slotsFrom_congr (fun j _ h2 => ?_)
          show slot d2 t.size j = _
          rw [bt.out j (Or.inl (by omega))]
          exact ins.low j (by omega)
        · rw [slotsFrom_start (i' := n) (by intro h; omega)]
          refine slotsFrom_eq_seqFrom (fun j h1 h2 => ?_)
          show slot d2 t.size j = _
          rw [bt.out j (Or.inl (by omega))]
          exact ins.gap small1 j h1 (by omega)
      · rw [slotsFrom_start (i' := p) (by intro h; omega)]
        refine slotsFrom_eq_seqFrom (fun j h1 h2 => ?_)
        show slot d2 t.size j = _
        rw [bt.inn small j h1 h2, ins.next]
    · -- the moved tail (only for an insertion inside the data, which is then complete)
      by_cases c0 : n - p = 0
      · rw [c0]; rfl
      · have ml : m = l := by
          rcases alt with ⟨e1, _⟩ | ⟨e1, _, _⟩
          · exact e1
          · omega
        refine slotsFrom_shift (fun a ha => ?_)
        show slot d2 t.size _ = _
        rw [bt.out _ (Or.inr (by omega)), ins.high _ (by omega) (by omega)]
        congr 1; omega
  have nd' : (slotsFrom x.data t.size 0 (min n p) ++ [] ++ slotsFrom x.data t.size p (n - p)).Nodup := by
    simpa [xtoks] using nd
  have old' : ∀ t' ∈ slotsFrom x.data t.size 0 (min n p) ++ [] ++ slotsFrom x.data t.size p (n - p), t' < s.next := by
    intro t' ht'; apply old; rw [xtoks]; simpa using ht'
  obtain ⟨ev1, l1, c1⟩ := ins.log
  obtain ⟨ev2, l2, c2⟩ := bt.log
  refine ⟨Delta.mk [] [] (ev1 ++ ev2) ((p - n) + m) S (by rw [bt.next, ins.next]; omega) (by rw [l2, l1]; simp)
    (Creates.append (c1.mono (fun k hk => by cases hk)) (by rw [← ins.next]; exact c2)) List.nodup_nil (fun t ht => by cases ht)
    (fun k hk => ⟨Or.inl (hS k hk), by simp⟩)
    List.nodup_nil (fun t ht => by cases ht) ?_ ?_⟩
  · rw [x2toks]
    have := set_nodup false nd' old' (M := (p - n) + m)
    simpa using this
  · intro t'
    rw [x2toks, xtoks]
    have := set_mem false nd' old' t' (M := (p - n) + m)
    simpa using this


/-- elements appended behind the used part by default construction: a complete step -/
theorem append_step {amb : List Nat} {s s' : State} {b : Nat} {x x' : Buf} {t : Traits} {n m : Nat}
    (gs : GoodS amb s) (hb : s.buf? b = some x) (xt : x.traits = some t) (mt : Managed t) (hu : x.used = n * t.size)
    (fr : Frame s s' b) (hb' : s'.buf? b = some x') (r : x'.ref = x.ref) (tr : x'.traits = x.traits)
    (u' : x'.used = (n + m) * t.size) (ufit : (n + m) * t.size ≤ x'.size) (n' : s'.next = s.next + m)
    (lg : ∃ evs, s'.log = s.log ++ evs ∧ Creates [] s.next evs m)
    (lo : ∀ j, j < n → slot x'.data t.size j = slot x.data t.size j)
    (inn : s'.next ≤ tokLimit → ∀ j, n ≤ j → j < n + m → slot x'.data t.size j = s.next + (j - n)) : Step amb s s' := by
  refine step_of_frame gs hb fr hb' r (goodBuf_of (tr.trans xt) mt u' ufit) (by rw [n']; omega) ?_
  intro small
  obtain ⟨tp, am⟩ := gs.tok (by rw [n'] at small; omega)
  have nd := tp.nodup b x hb
  have old := tp.fresh b x hb
  obtain ⟨evs, lg, cr⟩ := lg
  have x'toks : x'.toks = x.toks ++ seqFrom s.next m := by
    rw [toks_of_used (tr.trans xt) mt u', toks_of_used xt mt hu, slotsFrom_add]
    congr 1
    · exact slotsFrom_congr (fun j _ h2 => lo j (by omega))
    · simp only [Nat.zero_add]
      exact slotsFrom_eq_seqFrom (fun j h1 h2 => inn small j h1 h2)
  refine ⟨Delta.mk [] [] evs m [] n' (by rw [lg]; simp) cr List.nodup_nil (fun t ht => by cases ht)
    (fun k hk => by cases hk) List.nodup_nil (fun t ht => by cases ht) ?_ ?_⟩
  · rw [x'toks, List.nodup_append]
    refine ⟨nd, seqFrom_nodup _ _, fun a ha c hc e => ?_⟩
    subst e
    have := old a ha
    have := mem_seqFrom.mp hc
    omega
  · intro t
    rw [x'toks, List.mem_append, mem_seqFrom]
    simp

theorem Built.setUsed {s s1 : State} {b : Nat} {x : Buf} {sz i m : Nat} {S : List Nat} {d' : List Byte} {u : Nat}
    (bt : Built s s1 b x sz i m S d' u) (u' : Nat) :
    Built s (s1.setBuf b { x with data := d', used := u' }) b x sz i m S d' u' := by
  have blt := State.buf?_lt bt.buf
  refine ⟨⟨by simp [bt.frame.hs], by simpa [State.setBuf] using bt.frame.wins, by simp [bt.frame.len], fun c ne => ?_⟩, ?_, bt.len, bt.next, bt.log, bt.out, bt.inn⟩
  · rw [State.buf?_setBuf _ _ _ _ blt, if_neg ne]; exact bt.frame.other c ne
  · rw [State.buf?_setBuf _ _ _ _ blt, if_pos rfl]

/-- extension part of `mpt_array_slice` on a private buffer of managed elements -/
theorem sliceGrow_ok {amb : List Nat} {s : State} (gs : GoodS amb s) {nb : Nat} {z : Buf} {t : Traits} (hz : s.buf? nb = some z)
    (zt : z.traits = some t) (mt : Managed t) (h : Nat) (p l off : Nat) (zu : z.used ≤ p * t.size) (lp : 0 < l) :
    OpOK amb s (sliceGrow s h nb (some t) (p * t.size) (l * t.size) off) := by
  have h4 := mt.2.2
  have szp : 0 < t.size := by omega
  obtain ⟨t', n, zt', _, hu, hsz⟩ := (gs.inv.good nb z hz).elems
  have te : t' = t := by rw [zt] at zt'; cases zt'; rfl
  subst te
  have np : n ≤ p := by rw [hu] at zu; exact Nat.le_of_mul_le_mul_right zu szp
  unfold sliceGrow
  rcases bufferInsert_managed hz zt mt hu hsz (p * t'.size) (l * t'.size) with ⟨e, he⟩ | ⟨_, e0, _⟩ | ⟨p', l', s2, z', ep, el, fit, he, ins⟩ |
    ⟨p', m, s2, z', ep, nm, pfit, he, fr, hb', r, _, tr, dl, u', n', lg, lo, inn⟩
  · rw [he]; exact Step.refl gs
  · exfalso
    rcases Nat.mul_eq_zero.mp e0 with h | h <;> omega
  · have e1 : p' = p := (Nat.eq_of_mul_eq_mul_right szp ep).symm
    have e2 : l' = l := (Nat.eq_of_mul_eq_mul_right szp el).symm
    subst e1; subst e2
    rw [he]
    simp only [sliceFill, mt.1, if_true]
    have it : iters 0 (l' * t'.size) t'.size = l' := by
      have := iters_aligned 0 l' t'.size (by omega)
      simpa using this
    rw [it, initLoopStop_eq]
    have mx : max n p' = p' := Nat.max_eq_right np
    have fit' : (p' + l') * t'.size ≤ z'.size := by
      rw [mx] at fit; simp only [Buf.size, ins.len]; simpa [Buf.size] using fit
    obtain ⟨s3, d', m, ml, bt, alt⟩ := genInit_spec (stopFail nb) doneUnit l' s2 nb p' t'.size z' ins.buf h4 fit'
    rcases alt with ⟨em, eg⟩ | ⟨lt, eg⟩
    · rw [eg]
      exact insert_fill_step gs hz zt mt hu ins fit bt (fun _ hk => by cases hk) (Or.inl ⟨em, rfl⟩)
    · rw [eg]
      simp only [stopFail, bt.buf]
      exact insert_fill_step gs hz zt mt hu ins fit (bt.setUsed ((p' + m) * t'.size)) (fun _ hk => by cases hk) (Or.inr ⟨np, lt, rfl⟩)
  · rw [he]
    have ufit : (n + m) * t'.size ≤ z'.size := by
      simp only [Buf.size, dl]
      have : (n + m) * t'.size ≤ p' * t'.size := Nat.mul_le_mul_right _ (by omega)
      simp only [Buf.size] at pfit; omega
    exact append_step gs hz zt mt hu fr hb' r tr u' ufit n' lg lo inn

/-- `mpt_array_slice` on a handle that holds a buffer of managed elements -/
theorem slice_ok {amb : List Nat} {s : State} (gs : GoodS amb s) {h b : Nat} (hh : s.handle h = some b) (off len : Nat) :
    OpOK amb s (arraySlice s h off len) := by
  unfold arraySlice
  rw [hh]
  simp only
  obtain ⟨x, hb⟩ := gs.inv.live h b hh
  rw [hb]
  simp only
  obtain ⟨t, n, xt, mt, hu, hsz⟩ := (gs.inv.good b x hb).elems
  have h4 := mt.2.2
  have szp : 0 < t.size := by omega
  by_cases bad : sliceBad x off len = true
  · rw [if_pos bad]; exact OpOK.fail_same gs _
  · rw [if_neg bad]
    have es := ensure_step gs hh hb xt (decide (off + len > x.size ∨ x.immutable = true ∨ x.shared = true)) (max (off + len) x.used)
    generalize ensure s h b _ (max (off + len) x.used) = r at es
    cases r with
    | fault w => exact es
    | fail s1 e => exact es
    | ok s1 nb =>
      obtain ⟨st, _, z, hz, zt, zu⟩ := es
      simp only
      by_cases grow : off + len > x.used
      · rw [if_pos grow, xt]
        simp only [sliceBad, xt, decide_eq_true_eq, not_or, Decidable.not_not] at bad
        obtain ⟨_, o0, l0, _⟩ := bad
        have tot : (off + len) % t.size = 0 := by rw [Nat.add_mod, o0, l0]; simp
        have ediv : off + len = ((off + len) / t.size) * t.size := by
          have := Nat.div_add_mod (off + len) t.size; rw [tot, Nat.mul_comm] at this; omega
        have lt : n < (off + len) / t.size := by
          rw [hu, ediv] at grow
          exact Nat.lt_of_mul_lt_mul_right grow
        have em : off + len - x.used = ((off + len) / t.size - n) * t.size := by
          rw [Nat.sub_mul, ← ediv, hu]
        rw [em, hu]
        have sg := sliceGrow_ok st.good hz zt mt h n ((off + len) / t.size - n) off (by rw [← hu]; exact zu) (by omega)
        generalize sliceGrow s1 h nb (some t) (n * t.size) (((off + len) / t.size - n) * t.size) off = r at sg
        cases r with
        | fault w => exact sg
        | fail s2 e => exact st.trans sg
        | ok s2 v => exact st.trans sg
      · rw [if_neg grow]; exact st


theorem Frame.handle {s s' : State} {b : Nat} (fr : Frame s s' b) (h : Nat) : s'.handle h = s.handle h := by
  unfold State.handle; rw [fr.hs]

/-- the traits the caller of `mpt_array_insert` finds in the buffer -/
theorem managed_eq {s : State} {h nb : Nat} {z : Buf} {t : Traits} (hh : s.handle h = some nb) (hz : s.buf? nb = some z)
    (zt : z.traits = some t) (mt : Managed t) :
    (((s.handle h).bind s.buf?).bind fun x => x.traits.bind fun t =>
      if (t.init ∨ t.fini.isSome) ∧ t.size ≠ 0 then some t else none) = some t := by
  have h4 := mt.2.2
  have : t.size ≠ 0 := by omega
  simp [hh, hz, zt, mt.1, this]

/-- `mpt_array_insert` + construction of the new elements by the caller, on a handle that holds a buffer of
    managed elements -/
theorem insertOpE_ok {amb : List Nat} {s : State} (gs : GoodS amb s) {h b : Nat} (hh : s.handle h = some b) (pos : Nat) (bytes : List Byte) :
    OpOK amb s (insertOpE s h pos bytes) := by
  unfold insertOpE arrayInsert
  rw [hh]
  simp only
  obtain ⟨x, hb⟩ := gs.inv.live h b hh
  rw [hb]
  simp only
  obtain ⟨t, n0, xt, mt, _, _⟩ := (gs.inv.good b x hb).elems
  have h4 := mt.2.2
  have szp : 0 < t.size := by omega
  have es := ensure_step gs hh hb xt (decide ¬(max x.used pos + bytes.length ≤ x.size ∧ ¬x.shared = true)) (max x.used pos + bytes.length)
  generalize ensure s h b _ (max x.used pos + bytes.length) = r at es
  cases r with
  | fault w => exact es
  | fail s1 e => exact es
  | ok s1 nb =>
    obtain ⟨st, hh1, z, hz, zt, _⟩ := es
    simp only
    obtain ⟨t', n, zt', _, hu, hsz⟩ := (st.good.inv.good nb z hz).elems
    have te : t' = t := by rw [zt] at zt'; cases zt'; rfl
    subst te
    rcases bufferInsert_managed hz zt mt hu hsz pos bytes.length with ⟨e, he⟩ | ⟨_, e0, _, he⟩ | ⟨p, l, s2, z', ep, el, fit, he, ins⟩ |
      ⟨p, m, s2, z', ep, nm, pfit, he, fr, hb', r, _, tr, dl, u', n', lg, lo, inn⟩
    · rw [he]; exact st
    · rw [he]
      simp only
      rw [managed_eq hh1 hz zt mt]
      simp only [hh1, e0, Nat.zero_div, ctorLoop]
      exact st
    · rw [he]
      simp only
      have hh2 : s2.handle h = some nb := (ins.frame.handle h).trans hh1
      rw [managed_eq hh2 ins.buf (ins.traits.trans zt) mt]
      simp only [hh2]
      have el' : bytes.length / t'.size = l := by rw [el]; exact Nat.mul_div_cancel _ szp
      rw [el', ep]
      have fit' : (p + l) * t'.size ≤ z'.size := by
        have : (p + l) * t'.size ≤ (max n p + l) * t'.size := Nat.mul_le_mul_right _ (by omega)
        simp only [Buf.size, ins.len]; simp only [Buf.size] at fit; omega
      obtain ⟨s3, d', ec, bt, _⟩ := ctorLoop_spec l s2 nb p t'.size z' ins.buf h4 fit'
      rw [ec]
      exact st.trans (insert_fill_step st.good hz zt mt hu ins fit bt (fun _ hk => by cases hk) (Or.inl ⟨rfl, rfl⟩))
    · rw [he]
      have ufit : (n + m) * t'.size ≤ z'.size := by
        simp only [Buf.size, dl]
        have : (n + m) * t'.size ≤ p * t'.size := Nat.mul_le_mul_right _ (by omega)
        simp only [Buf.size] at pfit; omega
      exact st.trans (append_step st.good hz zt mt hu fr hb' r tr u' ufit n' lg lo inn)

end Mpt.Heap
