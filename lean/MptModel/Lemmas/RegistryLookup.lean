/-
  C06: what a lookup returns.  (1) `mpt_type_traits` by id range; (2) an id that was just handed out resolves to what
  was registered; (3) lookups by name are sound and complete (whole string, length-limited, alias).
-/
import MptModel.Lemmas.Registry
set_option linter.unusedSimpArgs false
namespace Mpt.Registry
open Mpt.Generated Mpt.RegSpec

/-! ### `mpt_type_traits` by range -/

theorem traits_dynamic (r : Reg) (id : Nat) (h : 192 ≤ id ∧ id ≤ 255) :
    traits r id = (r.dyn[id - TypeTab.dynamicBase]?).map plain := by
  have h1 : ¬ id ≤ 0 := by omega
  have h2 : ¬ id ≤ 31 := by omega
  have h3 : ¬ id ≤ 122 := by omega
  have h4 : ¬ id ≤ 89 := by omega
  have h5 : ¬ id ≤ 191 := by omega
  simp [traits, TypeTab.dispatch, traitsWalk, h1, h2, h3, h4, h5, h.1, h.2]

theorem traits_interface (r : Reg) (id : Nat) (h : 128 ≤ id ∧ id ≤ 191) :
    traits r id = (interfaceTraits r id).map (·.traits) := by
  have h1 : ¬ id ≤ 0 := by omega
  have h2 : ¬ id ≤ 31 := by omega
  have h3 : ¬ id ≤ 122 := by omega
  have h4 : ¬ id ≤ 89 := by omega
  simp [traits, TypeTab.dispatch, traitsWalk, h1, h2, h3, h4, h.1, h.2]

theorem traits_meta (r : Reg) (id : Nat) (h : 256 ≤ id ∧ id ≤ 2047) :
    traits r id = (metatypeTraits r id).map (·.traits) := by
  have h1 : ¬ id ≤ 0 := by omega
  have h2 : ¬ id ≤ 31 := by omega
  have h3 : ¬ id ≤ 122 := by omega
  have h4 : ¬ id ≤ 89 := by omega
  have h5 : ¬ id ≤ 191 := by omega
  have h6 : ¬ id ≤ 255 := by omega
  have h7 : ¬ 2048 ≤ id := by omega
  simp [traits, TypeTab.dispatch, traitsWalk, h1, h2, h3, h4, h5, h6, h7, h.1, h.2]

theorem traits_generic (r : Reg) (id : Nat) (h : 2304 ≤ id) :
    traits r id = (r.generics[id - TypeTab.genericBase]?).map .known := by
  have h1 : ¬ id ≤ 0 := by omega
  have h2 : ¬ id ≤ 31 := by omega
  have h3 : ¬ id ≤ 122 := by omega
  have h4 : ¬ id ≤ 89 := by omega
  have h5 : ¬ id ≤ 191 := by omega
  have h6 : ¬ id ≤ 255 := by omega
  have h7 : ¬ id ≤ 2051 := by omega
  have h8 : ¬ id ≤ 2047 := by omega
  have h9 : ¬ id < 2304 := by omega
  simp [traits, TypeTab.dispatch, traitsWalk, TypeTab.dispatchGenericBase, TypeTab.genericBase, h1, h2, h3, h4, h5, h6, h7, h8, h9]

/-! ### an id that was just handed out resolves to what was registered -/

/-- the description of a pointer type -/
def ptrDesc : Desc := { size := TypeTab.pointerSize, init := false, fini := false }

/-- the description a registration asks for -/
def Op.desc : Op → Desc
  | .basic size => { size := if size = 0 then TypeTab.pointerSize else size, init := false, fini := false }
  | .generic d => d
  | .iface _ => ptrDesc
  | .mtype _ => ptrDesc

def Op.name : Op → Option Name
  | .iface n => n
  | .mtype n => n
  | _ => none

theorem pointerCopy_adds : pointerCopy "mpt_type_interface_add" = .known ptrDesc ∧
    pointerCopy "mpt_type_metatype_add" = .known ptrDesc := by decide

theorem issued_step (r : Reg) (hinv : Inv r) (op : Op) (id : Nat) (h : (op.run r).2 = some id) :
    traits (step r op) id = some (.known op.desc) ∧
    (∀ n, op = .iface n → interfaceTraits (step r op) id = some { name := n, id := id, traits := .known ptrDesc } ∧
        some ({ name := n, id := id, traits := .known ptrDesc } : Named) ∈ (step r op).ifaces) ∧
    (∀ n, op = .mtype n → metatypeTraits (step r op) id = some { name := n, id := id, traits := .known ptrDesc } ∧
        ({ name := n, id := id, traits := .known ptrDesc } : Named) ∈ (step r op).metas) := by
  have hinv' := inv_step hinv op
  cases op with
  | basic size =>
    refine ⟨?_, (fun n hn => by cases hn), (fun n hn => by cases hn)⟩
    have hd := hinv.dynLen
    simp only [step, Op.run, basicAdd] at h ⊢
    by_cases hc : r.dyn.length < TypeTab.dynamicCap
    · simp only [hc, if_true, Option.some.injEq] at h ⊢
      subst h
      rw [traits_dynamic _ _ (by simp only [TypeTab.dynamicBase, TypeTab.dynamicCap] at *; omega)]
      simp [Op.desc, plain]
    · simp [hc] at h
  | generic d =>
    refine ⟨?_, (fun n hn => by cases hn), (fun n hn => by cases hn)⟩
    simp only [step, Op.run, genericAdd] at h ⊢
    by_cases h0 : d.size = 0
    · simp [h0] at h
    by_cases hc : rangeRefused TypeTab.genericBase TypeTab.genericChunk r.generics.length TypeTab.genericLoopMax TypeTab.genericFinalMax = true
    · simp [h0, hc] at h
    · simp only [h0, hc, if_false, Bool.false_eq_true, Option.some.injEq] at h ⊢
      subst h
      rw [traits_generic _ _ (by simp only [TypeTab.genericBase]; omega)]
      simp [Op.desc]
  | iface name =>
    have hl := hinv.ifaceLen
    simp only [step, Op.run, ifaceAdd] at h hinv' ⊢
    by_cases hc : r.ifaces.length ≥ TypeTab.interfaceCap
    · simp [hc] at h
    by_cases hn : nameRefused TypeTab.minNameLenIface TypeTab.dupLookupIface (ownIface r) r name = true
    · simp [hc, hn] at h
    · simp only [hc, hn, if_false, Bool.false_eq_true, Option.some.injEq] at h hinv' ⊢
      subst h
      have hmem : some ({ name := name, id := TypeTab.interfaceBase + r.ifaces.length, traits := .known ptrDesc } : Named) ∈
          r.ifaces ++ [some ({ name := name, id := TypeTab.interfaceBase + r.ifaces.length, traits := pointerCopy "mpt_type_interface_add" } : Named)] := by
        rw [pointerCopy_adds.1]; simp
      have hby := iface_by_id hinv' hmem
      refine ⟨?_, ?_, (fun n hn => by cases hn)⟩
      · rw [traits_interface _ _ (by simp only [TypeTab.interfaceBase, TypeTab.interfaceCap, TypeTab.interfaceStart] at *; omega)]
        simp only at hby
        rw [hby]; rfl
      · intro n hn; cases hn; exact ⟨hby, hmem⟩
  | mtype name =>
    have hl := hinv.metaLen
    simp only [step, Op.run, metaAdd] at h hinv' ⊢
    by_cases hn : nameRefused TypeTab.minNameLenMeta TypeTab.dupLookupMeta (ownMeta r) r name = true
    · simp [hn] at h
    by_cases hc : rangeRefused TypeTab.metaBase TypeTab.metaChunk r.metas.length TypeTab.metaLoopMax TypeTab.metaFinalMax = true
    · simp [hn, hc] at h
    · simp only [hc, hn, if_false, Bool.false_eq_true, Option.some.injEq] at h hinv' ⊢
      subst h
      have hle := rangeRefused_final TypeTab.metaBase TypeTab.metaChunk r.metas.length TypeTab.metaMax TypeTab.metaLoopMax
        (by rw [← table_facts.2.1]; simpa using hc)
      have hmem : ({ name := name, id := TypeTab.metaBase + r.metas.length, traits := .known ptrDesc } : Named) ∈
          r.metas ++ [({ name := name, id := TypeTab.metaBase + r.metas.length, traits := pointerCopy "mpt_type_metatype_add" } : Named)] := by
        rw [pointerCopy_adds.2]; simp
      have hby := meta_by_id hinv' hmem
      refine ⟨?_, (fun n hn => by cases hn), ?_⟩
      · rw [traits_meta _ _ (by simp only [TypeTab.metaBase, TypeTab.metaMax] at *; omega)]
        simp only at hby
        rw [hby]; rfl
      · intro n hn; cases hn; exact ⟨hby, hmem⟩

/-! ### lookups by name: sound and complete -/

/-- whole-string lookup returns an entry that carries the (short-name expanded) text as its name -/
theorem named_whole_sound {r : Reg} {text : Name} {e : Named} (h : namedTraits r text (-1) = some e) :
    e ∈ allNamed r ∧ e.name = some (resolveShort text) := by
  unfold namedTraits at h
  split at h
  · cases h
  · simp only [show ¬ ((-1 : Int) ≥ 0) by omega, if_false] at h
    exact lookupKey_mem h

/-- length-limited lookup returns an entry whose name is exactly the first `len` characters of the text -/
theorem named_len_sound {r : Reg} {text : Name} {len : Nat} {e : Named} (h : namedTraits r text len = some e) :
    len ≠ 0 ∧ len ≤ text.length ∧ e ∈ allNamed r ∧ e.name = some (text.take len) := by
  unfold namedTraits at h
  split at h
  · cases h
  rename_i hne
  simp only [show ((len : Int) ≥ 0) by omega, if_true, Int.toNat_natCast] at h
  split at h
  · cases h
  rename_i hlen
  rw [lookupLen_eq] at h
  obtain ⟨hm, hn⟩ := lookupKey_mem h
  refine ⟨?_, by omega, hm, hn⟩
  intro h0; subst h0; simp at hne

/-- the name of a found entry has exactly the requested length: a shorter or longer limit never finds it -/
theorem named_len_exact {r : Reg} {text : Name} {len : Nat} {e : Named} {n : Name}
    (h : namedTraits r text len = some e) (hn : e.name = some n) : n.length = len ∧ n = text.take len := by
  obtain ⟨_, hle, _, hname⟩ := named_len_sound h
  rw [hn] at hname
  simp only [Option.some.injEq] at hname
  subst hname
  exact ⟨by simp [List.length_take]; omega, rfl⟩

/-- a registered name is found by a length-limited lookup in any text it starts -/
theorem named_prefix {r : Reg} (hinv : Inv r) {e : Named} {n : Name} (he : e ∈ allNamed r) (hn : e.name = some n)
    (suffix : Name) : namedTraits r (n ++ suffix) n.length = some e := by
  obtain ⟨_, h2⟩ := name_roundtrip hinv he hn
  obtain ⟨_, hne⟩ := hinv.noShort e he n hn
  have hlen : (n.length : Int) ≠ 0 := by
    cases n with
    | nil => exact absurd rfl hne
    | cons a t => simp; omega
  have hne2 : n ++ suffix ≠ [] := by simp [hne]
  simp only [namedTraits, hne, hne2, hlen, false_or, if_false, show ((n.length : Int) ≥ 0) by omega, if_true,
    Int.toNat_natCast, Nat.lt_irrefl, List.take_length, List.length_append,
    show ¬ (n.length + suffix.length < n.length) by omega, List.take_left'] at h2 ⊢
  exact h2

/-- nothing is found when no entry carries the key as its name -/
theorem named_none {r : Reg} {text : Name} :
    ((∀ e ∈ allNamed r, e.name ≠ some (resolveShort text)) → namedTraits r text (-1) = none) ∧
    (∀ len : Nat, (∀ e ∈ allNamed r, e.name ≠ some (text.take len)) → namedTraits r text len = none) := by
  refine ⟨?_, ?_⟩
  · intro h
    cases hr : namedTraits r text (-1) with
    | none => rfl
    | some e => obtain ⟨hm, hn⟩ := named_whole_sound hr; exact absurd hn (h e hm)
  · intro len h
    cases hr : namedTraits r text len with
    | none => rfl
    | some e => obtain ⟨_, _, hm, hn⟩ := named_len_sound hr; exact absurd hn (h e hm)

/-! ### `mpt_alias_typeid` -/

theorem findIdx?_first {α} (p : α → Bool) (l1 l2 : List α) (x : α) (h : ∀ y ∈ l1, p y = false) (hx : p x = true) :
    (l1 ++ x :: l2).findIdx? p = some l1.length := by
  induction l1 with
  | nil => simp [List.findIdx?_cons, hx]
  | cons a t ih =>
    have ha : p a = false := h a (by simp)
    simp only [List.cons_append, List.findIdx?_cons, ha, Bool.false_eq_true, if_false]
    rw [ih (fun y hy => h y (by simp [hy]))]
    simp

theorem dropWhile_all_append {α} (p : α → Bool) (a b : List α) (h : ∀ x ∈ a, p x = true) :
    (a ++ b).dropWhile p = b.dropWhile p := by
  induction a with
  | nil => rfl
  | cons x t ih =>
    simp only [List.cons_append, List.dropWhile_cons, h x (by simp), if_true]
    exact ih (fun y hy => h y (by simp [hy]))

theorem takeWhile_run {α} (p : α → Bool) (a b : List α) (ha : ∀ x ∈ a, p x = true)
    (hb : ∀ c, b.head? = some c → p c = false) : (a ++ b).takeWhile p = a := by
  induction a with
  | nil =>
    cases b with
    | nil => rfl
    | cons c t => simp [List.takeWhile_cons, hb c rfl]
  | cons c t ih =>
    simp only [List.cons_append, List.takeWhile_cons, ha c (by simp), if_true]
    congr 1
    exact ih (fun y hy => ha y (by simp [hy]))

theorem aliasKey_trim (n ws rest : Name) (hws : ∀ c ∈ ws, isSpaceC c = true)
    (hlast : ∀ c, n.getLast? = some c → isSpaceC c = false) :
    aliasKey (n ++ ws ++ rest) (n.length + ws.length) = n := by
  unfold aliasKey
  have : (n ++ ws ++ rest).take (n.length + ws.length) = n ++ ws := by
    rw [← List.length_append]; exact List.take_left'  rfl
  rw [this, List.reverse_append, dropWhile_all_append _ _ _ (by intro x hx; exact hws x (by simpa using hx))]
  cases hn : n.reverse with
  | nil => simp at hn; subst hn; rfl
  | cons c t =>
    have hc : n.getLast? = some c := by
      rw [List.getLast?_eq_head?_reverse, hn]; rfl
    simp only [List.dropWhile_cons, hlast c hc, Bool.false_eq_true, if_false]
    rw [← hn, List.reverse_reverse]

/-- a description without separator is the whole-string lookup of the text -/
theorem alias_plain (r : Reg) (desc : Name) (h : 58 ∉ desc) :
    aliasTypeid r desc = (match namedTraits r desc (-1) with
      | some e => .ok (e.id, desc.length)
      | none => .err .BadValue) := by
  have : desc.findIdx? (· = 58) = none := by
    rw [List.findIdx?_eq_none_iff]
    intro x hx; simp; intro hx58; subst hx58; exact h hx
  simp only [aliasTypeid, this]
  cases namedTraits r desc (-1) <;> rfl

/-- `name [ws] : [ws] symbol` for a registered name resolves to the id of that name and ends at the symbol -/
theorem alias_described {r : Reg} (hinv : Inv r) {e : Named} {n : Name} (he : e ∈ allNamed r) (hn : e.name = some n)
    (ws ws2 sym : Name) (hcolon : 58 ∉ n) (hlast : ∀ c, n.getLast? = some c → isSpaceC c = false)
    (hws : ∀ c ∈ ws, isSpaceC c = true) (hws2 : ∀ c ∈ ws2, isSpaceC c = true)
    (hsym : ∀ c, sym.head? = some c → isSpaceC c = false) :
    aliasTypeid r (n ++ ws ++ 58 :: (ws2 ++ sym)) = .ok (e.id, n.length + ws.length + 1 + ws2.length) := by
  obtain ⟨_, hne⟩ := hinv.noShort e he n hn
  have hidx : (n ++ ws ++ 58 :: (ws2 ++ sym)).findIdx? (· = 58) = some (n.length + ws.length) := by
    have := findIdx?_first (fun c : Nat => decide (c = 58)) (n ++ ws) (ws2 ++ sym) 58
      (by
        intro y hy
        rcases List.mem_append.1 hy with hy | hy
        · simp; intro h58; subst h58; exact hcolon hy
        · have := hws y hy
          simp; intro h58; subst h58; simp [isSpaceC] at this)
      (by simp)
    simpa using this
  have hkey := aliasKey_trim n ws (58 :: (ws2 ++ sym)) hws hlast
  have hfound := named_prefix hinv he hn (ws ++ 58 :: (ws2 ++ sym))
  have hend : ((n ++ ws ++ 58 :: (ws2 ++ sym)).drop (n.length + ws.length + 1)).takeWhile isSpaceC = ws2 := by
    have : (n ++ ws ++ 58 :: (ws2 ++ sym)).drop (n.length + ws.length + 1) = ws2 ++ sym := by
      have h1 : n ++ ws ++ 58 :: (ws2 ++ sym) = (n ++ ws ++ [58]) ++ (ws2 ++ sym) := by simp
      rw [h1]
      exact List.drop_left' (by simp; omega)
    rw [this]
    exact takeWhile_run isSpaceC ws2 sym hws2 hsym
  simp only [aliasTypeid, hidx, hkey, hne, if_false]
  rw [show n ++ ws ++ 58 :: (ws2 ++ sym) = n ++ (ws ++ 58 :: (ws2 ++ sym)) by simp, hfound]
  rw [show n ++ (ws ++ 58 :: (ws2 ++ sym)) = n ++ ws ++ 58 :: (ws2 ++ sym) by simp, hend]

/-- whatever `mpt_alias_typeid` accepts is the id of the entry named by the name part of the description -/
theorem alias_sound {r : Reg} {desc : Name} {id off : Nat} (h : aliasTypeid r desc = .ok (id, off)) :
    ∃ e ∈ allNamed r, e.id = id ∧
      ((58 ∉ desc ∧ e.name = some (resolveShort desc)) ∨
       (∃ k, desc.findIdx? (· = 58) = some k ∧ aliasKey desc k ≠ [] ∧ e.name = some (desc.take (aliasKey desc k).length))) := by
  unfold aliasTypeid at h
  cases hidx : desc.findIdx? (· = 58) with
  | none =>
    simp only [hidx] at h
    cases hl : namedTraits r desc (-1) with
    | none => simp [hl] at h
    | some e =>
      simp only [hl, Res.ok.injEq, Prod.mk.injEq] at h
      obtain ⟨hm, hn⟩ := named_whole_sound hl
      refine ⟨e, hm, h.1, Or.inl ⟨?_, hn⟩⟩
      intro hmem
      rw [List.findIdx?_eq_none_iff] at hidx
      simpa using hidx 58 hmem
  | some k =>
    simp only [hidx] at h
    split at h
    · cases h
    rename_i hkey
    cases hl : namedTraits r desc (aliasKey desc k).length with
    | none => simp [hl] at h
    | some e =>
      simp only [hl, Res.ok.injEq, Prod.mk.injEq] at h
      obtain ⟨_, _, hm, hn⟩ := named_len_sound hl
      exact ⟨e, hm, h.1, Or.inr ⟨k, rfl, hkey, hn⟩⟩

end Mpt.Registry