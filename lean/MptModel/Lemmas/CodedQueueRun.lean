/-
  Helper lemmas for C02 (core Lean only): histories of a decode queue (feed / receive / shift / grow in any
  order) inside a valid frame stream.
-/
import MptModel.Lemmas.CodedQueueRecv
import MptModel.Lemmas.CodedQueuePeek
namespace Mpt.CQ
open Mpt Mpt.Cobs Mpt.Stream Mpt.Codec

/-- operations on the receiver side -/
inductive DOp where
  | feed (bytes : List Byte)
  | recv
  | shift
  | grow (n : Nat)
  | peek (mx : Nat) (dst : Bool)
  deriving Repr

def dstep (q : DecodeQueue) : DOp → DecodeQueue
  | .feed bytes => match queueFeed q bytes with | .ok (q', _) => q' | _ => q
  | .recv => match queueRecv q with | .ok (q', _) => q' | _ => q
  | .shift => match queueShift q with | .ok q' => q' | _ => q
  | .grow n => match queueGrow q n with | .ok q' => q' | _ => q
  | .peek mx dst => match queuePeek q mx dst with | .ok (q', _, _) => q' | _ => q

/-- the invariant and the framing are kept by every receiver operation -/
theorem dstep_inv (v : Variant) : ∀ (ops : List DOp) (q : DecodeQueue), DInv q → q.codec = some v →
    DInv (ops.foldl dstep q) ∧ (ops.foldl dstep q).codec = some v := by
  intro ops
  induction ops with
  | nil => intro q h hc; exact ⟨h, hc⟩
  | cons op ops ih =>
    intro q h hc
    simp only [List.foldl_cons]
    apply ih
    · cases op with
      | feed bytes => obtain ⟨q', c, he, hi, _⟩ := queueFeed_inv q bytes h; simp only [dstep, he]; exact hi
      | recv => obtain ⟨q', r, he, hi, _⟩ := queueRecv_inv v q hc h; simp only [dstep, he]; exact hi
      | shift => obtain ⟨q', he, hi, _⟩ := queueShift_inv q h; simp only [dstep, he]; exact hi
      | grow n => obtain ⟨q', he, hi, _⟩ := queueGrow_inv q n h; simp only [dstep, he]; exact hi
      | peek mx dst =>
        simp only [dstep]
        split
        · rename_i q' r out he; exact (queuePeek_inv v q h hc mx dst q' r out he).1
        · exact h
    · cases op with
      | feed bytes =>
        obtain ⟨q', c, he, _, _, _, _⟩ := queueFeed_inv q bytes h
        simp only [dstep, he]
        unfold queueFeed at he
        split at he <;> first | (cases he; exact hc) | cases he
      | recv => obtain ⟨q', r, he, _, _, hc'⟩ := queueRecv_inv v q hc h; simp only [dstep, he]; exact hc'
      | shift => obtain ⟨q', he, _, _, _, hc'⟩ := queueShift_inv q h; simp only [dstep, he]; rw [hc']; exact hc
      | grow n =>
        obtain ⟨q', he, _⟩ := queueGrow_inv q n h
        simp only [dstep, he]
        unfold queueGrow at he
        split at he
        · cases he; exact hc
        · split at he <;> first | (cases he; exact hc) | cases he
      | peek mx dst =>
        simp only [dstep]
        split
        · rename_i q' r out he; exact (queuePeek_inv v q h hc mx dst q' r out he).2.1
        · exact hc

/-- receiver state of a history: the queue, every byte it accepted, the messages it delivered (read
    through `mpt_message_get` right after the delivering `mpt_queue_recv`) -/
structure RSt where
  q : DecodeQueue
  fed : List Byte := []
  got : List Msg := []

def msgOf (q : DecodeQueue) : Msg :=
  match currentMessage q with
  | some (.ok (_, m)) => m
  | _ => []

def rstep (s : RSt) : DOp → RSt
  | .feed bytes =>
    match queueFeed s.q bytes with
    | .ok (q', c) => if c < 0 then { s with q := q' } else { s with q := q', fed := s.fed ++ bytes }
    | _ => s
  | .recv =>
    match queueRecv s.q with
    | .ok (q', r) => if r = 1 then { s with q := q', got := s.got ++ [msgOf q'] } else { s with q := q' }
    | _ => s
  | .shift => match queueShift s.q with | .ok q' => { s with q := q' } | _ => s
  | .grow n => match queueGrow s.q n with | .ok q' => { s with q := q' } | _ => s
  | .peek mx dst => match queuePeek s.q mx dst with | .ok (q', _, _) => { s with q := q' } | _ => s

/-- receiver invariant inside a valid stream -/
structure RInv (v : Variant) (frames : List (List Byte)) (ms : List Msg) (s : RSt) : Prop where
  inv : DInv s.q
  codec : s.q.codec = some v
  ex : ∃ k, s.got = ms.take k ∧ k ≤ ms.length ∧ Phase v frames s.q.st s.q.ring.content s.fed k

theorem rstep_fed (s : RSt) (op : DOp) : ∃ more, (rstep s op).fed = s.fed ++ more := by
  cases op with
  | feed bytes =>
    simp only [rstep]
    split
    · split
      · exact ⟨[], by simp⟩
      · exact ⟨bytes, rfl⟩
    · exact ⟨[], by simp⟩
  | recv =>
    simp only [rstep]
    split
    · split <;> exact ⟨[], by simp⟩
    · exact ⟨[], by simp⟩
  | shift => simp only [rstep]; split <;> exact ⟨[], by simp⟩
  | grow n => simp only [rstep]; split <;> exact ⟨[], by simp⟩
  | peek mx dst => simp only [rstep]; split <;> exact ⟨[], by simp⟩

theorem rstep_inv (v : Variant) (frames : List (List Byte)) (ms : List Msg) (hcar : Carries v frames ms) (s : RSt) (op : DOp)
    (future : List Byte) (hfut : (rstep s op).fed ++ future = frames.flatten) (h : RInv v frames ms s) :
    RInv v frames ms (rstep s op) := by
  obtain ⟨k, hgot, hk, hph⟩ := h.ex
  have hle := h.inv.bnd.le
  cases op with
  | feed bytes =>
    obtain ⟨q', c, he, hi, _, hst, hcase⟩ := queueFeed_inv s.q bytes h.inv
    have hcd : q'.codec = s.q.codec := by
      unfold queueFeed at he
      split at he <;> first | (cases he; rfl) | cases he
    simp only [rstep, he]
    by_cases hcn : c < 0
    · rw [if_pos hcn]
      have hq : q' = s.q := by
        unfold queueFeed at he
        split at he
        · rename_i r1 c1 hq
          cases he
          have := qpush_code_nonneg _ _ _ _ _ hq; omega
        · cases he; rfl
        all_goals cases he
      rw [hq]
      exact ⟨h.inv, h.codec, k, hgot, hk, hph⟩
    · rw [if_neg hcn]
      rcases hcase with ⟨hneg, _⟩ | hcont
      · omega
      · refine ⟨hi, by rw [hcd]; exact h.codec, k, hgot, hk, ?_⟩
        simp only; rw [hcont, hst]
        exact hph.feed hle bytes
  | recv =>
    have hsame : (rstep s .recv).fed = s.fed := by
      simp only [rstep]
      split
      · split <;> rfl
      · rfl
    have hfed : s.fed ++ future = frames.flatten := by rw [← hsame]; exact hfut
    simp only [rstep]
    obtain ⟨q', r, he, hcd, _, hi, hout⟩ := queueRecv_phase v frames ms hcar s.q h.codec s.fed future hfed k h.inv hph
    rw [he]
    simp only
    rcases hout with ⟨hne, hp⟩ | ⟨h1, hp, c, m, hm, hcm⟩
    · rw [if_neg hne]; exact ⟨hi, hcd, k, hgot, hk, hp⟩
    · rw [if_pos h1]
      have hk1 : k < ms.length := by
        rcases Nat.lt_or_ge k ms.length with a | a
        · exact a
        · rw [List.getElem?_eq_none a] at hm; cases hm
      refine ⟨hi, hcd, k + 1, ?_, hk1, hp⟩
      simp only [msgOf, hcm]
      rw [hgot, List.take_add_one, hm]; rfl
  | shift =>
    obtain ⟨n, p', r', he, hc', hn, hp, _⟩ := queueShift_eff s.q h.inv
    obtain ⟨q', he', hi', _, _, hcd'⟩ := queueShift_inv s.q h.inv
    rw [he] at he'; cases he'
    simp only [rstep, he]
    refine ⟨hi', by rw [hcd']; exact h.codec, k, hgot, hk, ?_⟩
    simp only; rw [hc']
    exact hph.shift hle n p' hn hp
  | grow n =>
    obtain ⟨q', he, hi, hst, hcont, _⟩ := queueGrow_inv s.q n h.inv
    have hcd : q'.codec = s.q.codec := by
      unfold queueGrow at he
      split at he
      · cases he; rfl
      · split at he <;> first | (cases he; rfl) | cases he
    simp only [rstep, he]
    exact ⟨hi, by rw [hcd]; exact h.codec, k, hgot, hk, by rw [hst, hcont]; exact hph⟩
  | peek mx dst =>
    have hsame : (rstep s (.peek mx dst)).fed = s.fed := by
      simp only [rstep]
      split <;> rfl
    have hfed : s.fed ++ future = frames.flatten := by rw [← hsame]; exact hfut
    simp only [rstep]
    split
    · rename_i q' r out he
      obtain ⟨hi, hcd, _⟩ := queuePeek_inv v s.q h.inv h.codec mx dst q' r out he
      obtain ⟨hp, _⟩ := queuePeek_phase v frames ms hcar s.q h.codec s.fed future hfed k h.inv hph mx dst q' r out he
      exact ⟨hi, hcd, k, hgot, hk, hp⟩
    · exact ⟨h.inv, h.codec, k, hgot, hk, hph⟩

theorem rrun_fed (ops : List DOp) : ∀ s : RSt, ∃ more, (ops.foldl rstep s).fed = s.fed ++ more := by
  induction ops with
  | nil => intro s; exact ⟨[], by simp⟩
  | cons op ops ih =>
    intro s
    obtain ⟨m1, h1⟩ := rstep_fed s op
    obtain ⟨m2, h2⟩ := ih (rstep s op)
    exact ⟨m1 ++ m2, by simp only [List.foldl_cons]; rw [h2, h1, List.append_assoc]⟩

theorem rrun_inv (v : Variant) (frames : List (List Byte)) (ms : List Msg) (hcar : Carries v frames ms) (ops : List DOp) :
    ∀ (s : RSt) (future : List Byte), (ops.foldl rstep s).fed ++ future = frames.flatten → RInv v frames ms s →
      RInv v frames ms (ops.foldl rstep s) := by
  induction ops with
  | nil => intro s _ _ h; exact h
  | cons op ops ih =>
    intro s future hfut h
    simp only [List.foldl_cons] at hfut ⊢
    obtain ⟨more, hm⟩ := rrun_fed ops (rstep s op)
    exact ih (rstep s op) future hfut
      (rstep_inv v frames ms hcar s op (more ++ future) (by rw [← List.append_assoc, ← hm]; exact hfut) h)


end Mpt.CQ
