/-
  node_insert.c by position: the position search (gnode_pos.c) on a realised sibling list, and the
  refinement of mpt_gnode_add / mpt_gnode_insert.
-/
import MptModel.Lemmas.NodesClone
namespace Mpt.Nodes
open Mpt Mpt.Forest

/-- the record of the `j`-th element of a realised sibling list (by index) -/
theorem Real.rec_idx {s : Store} : ∀ {L : Forest} {par prev : Option Nat} {j : Nat} {t : Tree},
    Real s par prev L → L[j]? = some t →
    ∃ cs n v, s.nodes[t.id]? = some (recOf (headId (L.drop (j + 1))) (prevAt prev L j) par cs n v)
  | [], _, _, _, _, _, h => by simp at h
  | (.node i n v cs) :: ts, par, prev, 0, t, hL, h => by
    rw [Real_cons] at hL
    simp at h; subst h
    exact ⟨cs, n, v, by simpa [prevAt, Tree.id] using hL.1⟩
  | (.node i n v cs) :: ts, par, prev, j + 1, t, hL, h => by
    rw [Real_cons] at hL
    obtain ⟨cs', n', v', h'⟩ := Real.rec_idx hL.2.2 (by simpa using h)
    exact ⟨cs', n', v', by rw [prevAt_succ]; simpa [Tree.id] using h'⟩

theorem headId_drop (L : Forest) (j : Nat) : headId (L.drop j) = (L[j]?).map Tree.id := by
  induction L generalizing j with
  | nil => simp
  | cons t ts ih =>
    cases j with
    | zero => cases t; simp [Tree.id]
    | succ j => simpa using ih j

theorem prevAt_none_eq (L : Forest) (j : Nat) : prevAt none L j = if j = 0 then none else (L[j - 1]?).map Tree.id := by
  unfold prevAt
  split
  · rfl
  · rw [headId_drop]

/-- following `next` links `k` times from the `j`-th element -/
theorem stepNext_real {s : Store} {L : Forest} {par prev : Option Nat} (hL : Real s par prev L) :
    ∀ (k j : Nat) (t : Tree), L[j]? = some t → s.stepNext k (some t.id) = .ok ((L[j + k]?).map Tree.id)
  | 0, j, t, h => by simp [Store.stepNext, h]
  | k + 1, j, t, h => by
    obtain ⟨cs, n, v, hrec⟩ := Real.rec_idx hL h
    simp only [Store.stepNext, Store.get_ok ⟨hrec, rfl⟩, Res.bind_ok]
    rw [headId_drop]
    cases hn : L[j + 1]? with
    | none =>
      have : L[j + (k + 1)]? = none := by
        apply List.getElem?_eq_none
        have := List.getElem?_eq_none_iff.1 hn
        omega
      cases k <;> simp [Store.stepNext, this]
    | some t' =>
      simp only [Option.map_some]
      rw [stepNext_real hL k (j + 1) t' hn]
      rw [show j + 1 + k = j + (k + 1) by omega]

/-- following `prev` links `k` times from the `j`-th element of a list without predecessor -/
theorem stepPrev_real {s : Store} {L : Forest} {par : Option Nat} (hL : Real s par none L) :
    ∀ (k j : Nat) (t : Tree), L[j]? = some t →
    s.stepPrev k (some t.id) = .ok (if k ≤ j then (L[j - k]?).map Tree.id else none)
  | 0, j, t, h => by simp [Store.stepPrev, h]
  | k + 1, j, t, h => by
    obtain ⟨cs, n, v, hrec⟩ := Real.rec_idx hL h
    simp only [Store.stepPrev, Store.get_ok ⟨hrec, rfl⟩, Res.bind_ok]
    rw [prevAt_none_eq]
    cases j with
    | zero =>
      simp only [↓reduceIte]
      cases k <;> simp [Store.stepPrev]
    | succ j' =>
      simp only [Nat.add_one_ne_zero, ↓reduceIte, Nat.add_sub_cancel]
      have hlt : j' < L.length := by
        have := (List.getElem?_eq_some_iff.1 h).1
        omega
      obtain ⟨t', ht'⟩ : ∃ t', L[j']? = some t' := ⟨L[j'], List.getElem?_eq_getElem hlt⟩
      simp only [ht', Option.map_some]
      rw [stepPrev_real hL k j' t' ht']
      by_cases hk : k ≤ j'
      · have : k + 1 ≤ j' + 1 := by omega
        simp only [hk, this, ↓reduceIte]
        rw [show j' + 1 - (k + 1) = j' - k by omega]
      · have : ¬ (k + 1 ≤ j' + 1) := by omega
        simp [hk, this]

/-- walking to the end of the list -/
theorem lastOf_real {s : Store} {L : Forest} {par prev : Option Nat} (hL : Real s par prev L) :
    ∀ (fuel j : Nat) (t : Tree), L[j]? = some t → L.length - j ≤ fuel →
    s.lastOf fuel t.id = .ok ((L[L.length - 1]?).map Tree.id |>.getD 0)
  | 0, j, t, h, hf => by
    have := (List.getElem?_eq_some_iff.1 h).1
    omega
  | f + 1, j, t, h, hf => by
    obtain ⟨cs, n, v, hrec⟩ := Real.rec_idx hL h
    have hlt := (List.getElem?_eq_some_iff.1 h).1
    simp only [Store.lastOf, Store.get_ok ⟨hrec, rfl⟩, Res.bind_ok]
    rw [headId_drop]
    cases hn : L[j + 1]? with
    | none =>
      have hlen : L.length = j + 1 := by
        have := List.getElem?_eq_none_iff.1 hn
        omega
      simp only [Option.map_none]
      have : L.length - 1 = j := by omega
      rw [this, h]
      rfl
    | some t' =>
      simp only [Option.map_some]
      exact lastOf_real hL f (j + 1) t' hn (by omega)


theorem getElem?_last {L : Forest} (h : L ≠ []) : ∃ t, L[L.length - 1]? = some t := by
  have : L.length - 1 < L.length := by
    cases L with
    | nil => exact absurd rfl h
    | cons a as => simp
  exact ⟨L[L.length - 1], List.getElem?_eq_getElem this⟩

/-- where `node_insert(first, pos, x, mpt_gnode_pos)` ends up: one call of after/before at a list element,
    and the resulting index is `addIdx` -/
theorem nodeInsert_pos {s : Store} {L : Forest} {par : Option Nat} {f x : Nat} {tf : Tree} (pos : Int)
    (hL : Real s par none L) (hf : L[f]? = some tf) (hfuel : L.length ≤ s.fuel) :
    ∃ jt tt, L[jt]? = some tt ∧
      ((s.nodeInsert tf.id pos x false = s.gnodeAfter (some tt.id) x ∧ addIdx L.length f pos = jt + 1) ∨
       (s.nodeInsert tf.id pos x false = s.gnodeBefore (some tt.id) x ∧ addIdx L.length f pos = jt)) := by
  have hflt := (List.getElem?_eq_some_iff.1 hf).1
  have hne : L ≠ [] := by intro h; simp [h] at hflt
  obtain ⟨tl, htl⟩ := getElem?_last hne
  have hlast : s.lastOf s.fuel tf.id = .ok tl.id := by
    rw [lastOf_real hL s.fuel f tf hf (by omega), htl]; rfl
  have hfirst : s.gnodePos (some tf.id) 1 = .ok (some tf.id) := by
    simp [Store.gnodePos, Store.stepNext]
  have hl0 : s.gnodePos (some tf.id) 0 = .ok (some tl.id) := by
    simp [Store.gnodePos, hlast]
  by_cases h0 : pos = 0
  · subst h0
    refine ⟨L.length - 1, tl, htl, Or.inl ⟨?_, ?_⟩⟩
    · simp [Store.nodeInsert, Store.getnode, hl0]
    · simp [addIdx]; omega
  by_cases h1 : pos = 1
  · subst h1
    refine ⟨f, tf, hf, Or.inr ⟨?_, ?_⟩⟩
    · simp [Store.nodeInsert, Store.getnode, hfirst]
    · simp [addIdx]; omega
  by_cases hp : pos > 0
  · -- pos ≥ 2
    have hnl : ¬ pos < 0 := by omega
    have hn1 : ¬ pos < 1 := by omega
    have hneg1 : -pos < 1 := by omega
    have hstep : s.gnodePos (some tf.id) pos = .ok ((L[f + (pos.toNat - 1)]?).map Tree.id) := by
      simp only [Store.gnodePos, hnl, ↓reduceIte, hp]
      exact stepNext_real hL (pos.toNat - 1) f tf hf
    cases hn : L[f + (pos.toNat - 1)]? with
    | some tt =>
      refine ⟨f + (pos.toNat - 1), tt, hn, Or.inr ⟨?_, ?_⟩⟩
      · simp [Store.nodeInsert, Store.getnode, hp, hfirst, h0, h1, hstep, hn, hn1]
      · have hlt := (List.getElem?_eq_some_iff.1 hn).1
        simp only [addIdx, h0, ↓reduceIte, hp]
        omega
    | none =>
      refine ⟨L.length - 1, tl, htl, Or.inl ⟨?_, ?_⟩⟩
      · simp [Store.nodeInsert, Store.getnode, hp, hfirst, h0, h1, hstep, hn, hnl, hl0, hneg1]
      · have hge := List.getElem?_eq_none_iff.1 hn
        simp only [addIdx, h0, ↓reduceIte, hp]
        omega
  · -- pos < 0
    have hneg : pos < 0 := by omega
    have hlt1 : pos < 1 := by omega
    have hnn : ¬ (-pos < 1) := by omega
    have hstep : s.gnodePos (some tl.id) pos =
        .ok (if (-pos).toNat ≤ L.length - 1 then (L[L.length - 1 - (-pos).toNat]?).map Tree.id else none) := by
      simp only [Store.gnodePos, hneg, ↓reduceIte]
      exact stepPrev_real hL (-pos).toNat (L.length - 1) tl htl
    by_cases hk : (-pos).toNat ≤ L.length - 1
    · have hlt : L.length - 1 - (-pos).toNat < L.length := by omega
      obtain ⟨tt, htt⟩ : ∃ tt, L[L.length - 1 - (-pos).toNat]? = some tt := ⟨_, List.getElem?_eq_getElem hlt⟩
      refine ⟨L.length - 1 - (-pos).toNat, tt, htt, Or.inl ⟨?_, ?_⟩⟩
      · simp [Store.nodeInsert, Store.getnode, hp, hl0, h0, h1, hstep, hk, htt, hlt1]
      · simp only [addIdx, h0, ↓reduceIte, hp]
        have : (-pos).toNat < L.length := by omega
        simp only [this, ↓reduceIte]
        omega
    · refine ⟨f, tf, hf, Or.inr ⟨?_, ?_⟩⟩
      · simp [Store.nodeInsert, Store.getnode, hp, hl0, h0, h1, hstep, hk, hneg, hfirst, hnn]
      · simp only [addIdx, h0, ↓reduceIte, hp]
        have : ¬ ((-pos).toNat < L.length) := by omega
        simp [this]


theorem idx?_of_getElem? : ∀ {L : Forest} {j : Nat} {t : Tree}, (ids L).Nodup → L[j]? = some t → idx? t.id L = some j
  | [], _, _, _, h => by simp at h
  | (.node i n v cs) :: ts, 0, t, _, h => by
    simp at h; subst h
    rw [idx?_cons]; simp [Tree.id]
  | (.node i n v cs) :: ts, j + 1, t, hnd, h => by
    rw [ids_cons, List.nodup_cons, List.mem_append, List.nodup_append] at hnd
    obtain ⟨hni, ndcs, ndts, disj⟩ := hnd
    have h' : ts[j]? = some t := by simpa using h
    have ih := idx?_of_getElem? ndts h'
    have hmem : t.id ∈ ids ts := idx?_mem ih
    have hne : ¬ i = t.id := by rintro rfl; exact hni (Or.inr hmem)
    rw [idx?_cons]
    simp [hne, ih]

theorem length_le_ids : ∀ (L : Forest), L.length ≤ (ids L).length
  | [] => by simp
  | (.node i n v cs) :: ts => by
    have := length_le_ids ts
    simp; omega

theorem SibsAt.with_idx {p p' : Nat} {l L : Forest} {j j' : Nat} {par : Option Nat}
    (h : SibsAt p l L j par) (hi : idx? p' L = some j') : SibsAt p' l L j' par := by
  cases h with
  | top _ => exact SibsAt.top hi
  | kids hf _ => exact SibsAt.kids hf hi

/-- `mpt_gnode_add(first, pos, x)` (by position) with `x` a detached root: `x` is placed in the sibling list
    of `first` at the index the position denotes (`addIdx`) -/
theorem add_refines {s : Store} {first x f : Nat} {n' : Name} {v' : Val} {cs' l0 L : Forest} {rest : List Forest}
    {par : Option Nat} (pos : Int)
    (hR : Realises s ([.node x n' v' cs'] :: l0 :: rest)) (hat : SibsAt first l0 L f par) :
    ∃ s', s.add first pos x false = .ok s' ∧
      Realises s' (applyAt par (fun L' => L'.insertIdx (addIdx L.length f pos) (.node x n' v' cs')) l0 :: rest) := by
  have hl0 := hR.real l0 (by simp)
  have hnd := hR.nodup
  simp only [List.flatMap_cons, ids_cons, ids_nil, List.append_nil] at hnd
  have hnd0 : (ids l0).Nodup := by
    have := (List.nodup_append.1 hnd).2.1
    exact (List.nodup_append.1 this).1
  have hLr := hat.real hl0.2
  have hLnd := hat.nodup hnd0
  obtain ⟨tf, htf, htfid⟩ := getElem?_of_idx? hat.idx
  have hfuel : L.length ≤ s.fuel := by
    have h1 := hR.cost_le (l := l0) (by simp)
    rw [cost_eq] at h1
    obtain ⟨A, B, h2, _⟩ := hat.ids_split hnd0
    have h3 := length_le_ids L
    have : (ids L).length ≤ (ids l0).length := by rw [h2]; simp; omega
    simp only [Store.fuel]
    omega
  obtain ⟨jt, tt, htt, hcase⟩ := nodeInsert_pos (x := x) pos hLr htf hfuel
  have hat' := hat.with_idx (idx?_of_getElem? hLnd htt)
  subst htfid
  rcases hcase with ⟨heq, hidx⟩ | ⟨heq, hidx⟩
  · obtain ⟨s', hs', hr⟩ := after_refines hR hat'
    exact ⟨s', by simp only [Store.add]; rw [heq]; exact hs', by rw [hidx]; exact hr⟩
  · obtain ⟨s', hs', hr⟩ := before_refines hR hat'
    exact ⟨s', by simp only [Store.add]; rw [heq]; exact hs', by rw [hidx]; exact hr⟩

/-- `mpt_gnode_insert(parent, pos, x)` (by position) for a parent that has children: `x` becomes a child at
    the index the position denotes, counted from the first child -/
theorem insert_refines {s : Store} {parent x : Nat} {n' : Name} {v' : Val} {cs' l0 : Forest} {rest : List Forest}
    {tp : Tree} (pos : Int)
    (hR : Realises s ([.node x n' v' cs'] :: l0 :: rest)) (hf : find? parent l0 = some tp) (hne : tp.children ≠ []) :
    ∃ s', s.insert parent pos x false = .ok s' ∧
      Realises s' (modKids parent (fun L' => L'.insertIdx (addIdx tp.children.length 0 pos) (.node x n' v' cs')) l0 :: rest) := by
  have hl0 := hR.real l0 (by simp)
  obtain ⟨⟨nx, pv, pr, hprec⟩, _⟩ := Real.of_find hl0.2 hf
  cases hk : tp.children with
  | nil => exact absurd hk hne
  | cons c cs =>
    cases c with
    | node ci cn cv ccs =>
      have hidx : idx? ci tp.children = some 0 := by rw [hk, idx?_cons]; simp
      have hat : SibsAt ci l0 tp.children 0 (some parent) := SibsAt.kids hf hidx
      obtain ⟨s', hs', hr⟩ := add_refines pos hR hat
      refine ⟨s', ?_, ?_⟩
      · simp only [Store.insert, Store.get_ok ⟨hprec, rfl⟩, Res.bind_ok]
        simp only [hk, headId_cons]
        exact hs'
      · simpa [applyAt, hk] using hr


/-- `mpt_gnode_insert`/`mpt_node_insert(parent, pos, x)` for a parent without children: `x` becomes the only child -/
theorem insert_empty_refines {s : Store} {parent x : Nat} {n' : Name} {v' : Val} {cs' l0 : Forest} {rest : List Forest}
    {tp : Tree} (pos : Int) (byName : Bool)
    (hR : Realises s ([.node x n' v' cs'] :: l0 :: rest)) (hf : find? parent l0 = some tp) (hempty : tp.children = []) :
    ∃ s', s.insert parent pos x byName = .ok s' ∧
      Realises s' (modKids parent (fun _ => [.node x n' v' cs']) l0 :: rest) := by
  have hT := (hR.real [.node x n' v' cs'] (by simp)).2
  have hl0 := hR.real l0 (by simp)
  have hnd := hR.nodup
  simp only [List.flatMap_cons, ids_cons, ids_nil, List.append_nil] at hnd
  have hnd0 : (ids l0).Nodup := by
    have := (List.nodup_append.1 hnd).2.1
    exact (List.nodup_append.1 this).1
  obtain ⟨⟨nx, pv, pr, hprec⟩, _⟩ := Real.of_find hl0.2 hf
  have hpl0 := (find?_mem hf).1
  have hxrec := hT
  rw [Real_cons] at hxrec
  have hdisj : ∀ k, k ∈ ids l0 → k ≠ x ∧ k ∉ ids cs' := by
    intro k hk
    have h1 := (List.nodup_append.1 hnd).2.2
    refine ⟨?_, ?_⟩
    · rintro rfl; exact h1 k (by simp) k (by simp [hk]) rfl
    · intro h; exact h1 k (by simp [h]) k (by simp [hk]) rfl
  have hpx : parent ≠ x := (hdisj parent hpl0).1
  have hplive : s.Live parent (recOf nx pv pr tp.children tp.name tp.value) := ⟨hprec, rfl⟩
  obtain ⟨s1, e1, u1⟩ := Store.modify_ok hplive (fun n => { n with children := some x })
  have hx1 : s1.Live x (recOf (headId []) none none cs' n' v') := u1.live_other ⟨hxrec.1, rfl⟩ (Ne.symm hpx)
  obtain ⟨s2, e2, u2⟩ := Store.modify_ok hx1 (fun n => { n with parent := some parent })
  have heff : ∀ i, s2.nodes[i]? =
      if i = x then some { recOf (headId []) none none cs' n' v' with parent := some parent }
      else if i = parent then some { recOf nx pv pr tp.children tp.name tp.value with children := some x }
      else s.nodes[i]? := by
    intro i
    rw [u2.2.2, u1.2.2]
  refine ⟨s2, ?_, ?_⟩
  · simp only [Store.insert, Store.get_ok hplive, Res.bind_ok]
    simp only [hempty, headId_nil]
    rw [e1]
    simp only [Res.bind_ok]
    exact e2
  · refine hR.of_sameLife ⟨by rw [u2.1, u1.1], ?_⟩ ?_ ?_
    · intro i
      rw [heff i]
      by_cases h1 : i = x
      · subst h1; simp [hxrec.1]
      · by_cases h2 : i = parent
        · subst h2; simp [h1, hprec]
        · simp [h1, h2]
    · intro l' hl'
      simp only [List.mem_cons] at hl'
      rcases hl' with rfl | hl'
      · refine ⟨?_, ?_⟩
        · intro h
          have := headId_modKids (q := parent) (g := fun _ => [Tree.node x n' v' cs']) l0
          rw [h] at this
          cases l0 with
          | nil => exact hl0.1 rfl
          | cons t ts => cases t; simp at this
        · refine real_modKids hl0.2 hnd0 hf ?_ ?_ ?_
          · rw [Real_cons]
            refine ⟨by rw [heff x]; simp [recOf], ?_, by simp⟩
            refine Real.frame hxrec.2.1 (fun k hk => ?_)
            rw [heff k]
            have h1 : k ≠ x := by
              rintro rfl
              have := (List.nodup_append.1 hnd).1
              simp at this
              exact this.1 hk
            have h2 : k ≠ parent := by rintro rfl; exact (hdisj k hpl0).2 hk
            simp [h1, h2]
          · rw [heff parent]; simp [hpx, hprec, recOf]
          · intro i hi h1 _
            rw [heff i]
            simp [(hdisj i hi).1, h1]
      · have hr := hR.real l' (by simp [hl'])
        refine ⟨hr.1, Real.frame hr.2 (fun i hi => ?_)⟩
        have hirest : i ∈ rest.flatMap ids := List.mem_flatMap.2 ⟨l', hl', hi⟩
        have h2 := (List.nodup_append.1 hnd).2.2
        have h3 := (List.nodup_append.1 (List.nodup_append.1 hnd).2.1).2.2
        rw [heff i]
        have h4 : i ≠ x := by rintro rfl; exact h2 i (by simp) i (by simp [hirest]) rfl
        have h5 : i ≠ parent := by rintro rfl; exact h3 i hpl0 i hirest rfl
        simp [h4, h5]
    · simp only [List.flatMap_cons]
      have := ids_modKids_perm (g := fun _ => [Tree.node x n' v' cs']) (E := ids [Tree.node x n' v' cs']) hnd0 hf
        (by rw [hempty]; simp)
      have h2 := List.Perm.append_right (rest.flatMap ids) this
      simpa [List.append_assoc] using h2

end Mpt.Nodes
