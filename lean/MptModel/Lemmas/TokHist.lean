/-
  C05, layer 9: the operations of the element harness as an alphabet, their preconditions, and the
  exactly-once invariant over single operations and whole histories.
-/
import MptModel.Lemmas.TokReserve
namespace Mpt.Heap
open Mpt

/-- forget the returned value -/
def Out.void {α : Type} : Out α → Out Unit
  | .ok s _ => .ok s ()
  | .fail s e => .fail s e
  | .fault w => .fault w

theorem OpOK.void {α : Type} {amb : List Nat} {s : State} {r : Out α} (h : OpOK amb s r) : OpOK amb s r.void := by
  cases r <;> exact h

/-- the array operations on buffers of managed elements, as a caller that handles elements correctly performs
    them (`insert`: construct the new elements in the returned region; `set`: pass constructed sources and
    destroy them afterwards, or pass no data) -/
inductive EOp where
  | reserve (h len : Nat) (t : Traits)
  | slice (h off len : Nat)
  | insert (h pos : Nat) (bytes : List Byte)
  | set (h : Nat) (t : Traits) (off : Int) (k : Nat) (withSrc : Bool)
  | cut (h off len : Nat)
  | clone (dst src : Nat)
  | drop (h : Nat)
  | detach (h n : Nat)
  | reduce (h : Nat)
  | bset (h pos : Nat) (bytes : List Byte)        -- private copy + `mpt_buffer_set` without source elements
  | bsetSrc (h pos k : Nat)                       -- the same with `k` source elements of the caller

def execE (s : State) : EOp → Out Unit
  | .reserve h len t => (arrayReserve s h len (some t)).void
  | .slice h off len => (arraySlice s h off len).void
  | .insert h pos bytes => (insertOpE s h pos bytes).void
  | .set h t off k withSrc => (setOpE s h t off k withSrc).void
  | .cut h off len => (cutOp s h off len).void
  | .clone dst src => (arrayClone s dst (some src)).void
  | .drop h => (arrayClone s h none).void
  | .detach h n => (detachOp s h n).void
  | .reduce h => (arrayReduce s h).void
  | .bset h pos bytes => (bsetOp s h pos bytes false).void
  | .bsetSrc h pos k => (bsetSrcE s h pos k).void

/-- what the caller has to respect: handles exist; element types have constructor, destructor and at least 4
    bytes; `slice`/`insert` are applied to handles that hold a buffer (on an empty handle they create an untyped
    buffer) -/
def EOp.pre (s : State) : EOp → Prop
  | .reserve h _ t => h < s.hs.length ∧ Managed t
  | .slice h _ _ => s.handle h ≠ none
  | .insert h _ _ => s.handle h ≠ none
  | .set h t _ _ _ => h < s.hs.length ∧ Managed t
  | .cut _ _ _ => True
  | .clone dst _ => dst < s.hs.length
  | .drop h => h < s.hs.length
  | .detach _ _ => True
  | .reduce _ => True
  | .bset _ _ _ => True
  | .bsetSrc _ _ _ => True

theorem execE_ok {s : State} (gs : GoodS [] s) (op : EOp) (pre : op.pre s) : OpOK [] s (execE s op) := by
  cases op with
  | reserve h len t => exact (reserve_ok gs pre.1 len t pre.2).void
  | slice h off len =>
    cases hh : s.handle h with
    | none => exact absurd hh pre
    | some b => exact (slice_ok gs hh off len).void
  | insert h pos bytes =>
    cases hh : s.handle h with
    | none => exact absurd hh pre
    | some b => exact (insertOpE_ok gs hh pos bytes).void
  | set h t off k withSrc => exact (setOpE_ok gs pre.1 t pre.2 off k withSrc).void
  | cut h off len => exact (cutOp_ok gs h off len).void
  | clone dst src => exact (clone_ok gs pre (some src)).void
  | drop h => exact (clone_ok gs pre none).void
  | detach h n => exact (detachOp_ok gs h n).void
  | reduce h => exact (reduce_ok gs h).void
  | bset h pos bytes =>
    exact (bsetOp_ok gs h pos bytes false [] (by intro _ _ _ _ _ _ c; cases c) (by intro _ k hk; cases hk)).void
  | bsetSrc h pos k => exact (bsetSrcE_ok gs h pos k).void

/-! ### from the pointwise invariant to the live set of the spec -/

/-- the live set is exactly what the live buffers store in their used parts, without duplicates, and below the
    token counter -/
def TokInv (s : State) (live : Tokens.Live) : Prop :=
  live.Perm (stored s) ∧ live.Nodup ∧ ∀ t ∈ live, t < s.next

theorem flatMap_range_nodup {n : Nat} {f : Nat → List Nat} (h : ((List.range n).flatMap f).Nodup) :
    (∀ c, c < n → (f c).Nodup) ∧ (∀ c1 c2, c1 < c2 → c2 < n → ∀ t, t ∈ f c1 → t ∉ f c2) := by
  induction n with
  | zero => exact ⟨fun c hc => by omega, fun c1 c2 _ h2 => by omega⟩
  | succ n ih =>
    rw [List.range_succ, List.flatMap_append, List.nodup_append] at h
    obtain ⟨h1, h2, h3⟩ := h
    obtain ⟨i1, i2⟩ := ih h1
    simp only [List.flatMap_cons, List.flatMap_nil, List.append_nil] at h2 h3
    refine ⟨fun c hc => ?_, fun c1 c2 lt hc t ht ht2 => ?_⟩
    · by_cases e : c = n
      · rw [e]; exact h2
      · exact i1 c (by omega)
    · by_cases e : c2 = n
      · rw [e] at ht2
        exact h3 t (List.mem_flatMap.mpr ⟨c1, List.mem_range.mpr (by omega), ht⟩) t ht2 rfl
      · exact i2 c1 c2 lt (by omega) t ht ht2

theorem TokP.of_stored {s : State} (nd : (stored s).Nodup) (fr : ∀ t ∈ stored s, t < s.next) : TokP s := by
  obtain ⟨n1, n2⟩ := flatMap_range_nodup nd
  refine ⟨fun c x hx => ?_, fun c x hx t ht => fr t (mem_stored.mpr ⟨c, x, hx, ht⟩), fun c1 c2 x1 x2 ne h1 h2 t ht ht2 => ?_⟩
  · have := n1 c (State.buf?_lt hx)
    rw [hx] at this; exact this
  · have l1 := State.buf?_lt h1
    have l2 := State.buf?_lt h2
    rcases Nat.lt_or_gt_of_ne ne with lt | gt
    · have := n2 c1 c2 lt l2 t (by rw [h1]; exact ht)
      rw [h2] at this; exact this ht2
    · have := n2 c2 c1 gt l1 t (by rw [h2]; exact ht2)
      rw [h1] at this; exact this ht

theorem GoodS.of_inv {s : State} {live : List Nat} (inv : InvM s) (ti : TokInv s live) : GoodS [] s := by
  refine ⟨inv, fun _ => ⟨TokP.of_stored (ti.1.nodup_iff.mp ti.2.1) (fun t ht => ti.2.2 t (ti.1.mem_iff.mpr ht)), List.nodup_nil,
    fun t ht => by cases ht⟩⟩

/-- a complete step, read on the live set of the spec: the new events are legal and lead to a live set that is
    again what the buffers store -/
theorem Step.replay {s s' : State} {live : List Nat} (st : Step [] s s') (ti : TokInv s live) (small : s'.next ≤ tokLimit) :
    ∃ live', replay live (s'.log.drop s.log.length) = some live' ∧ TokInv s' live' := by
  obtain ⟨tp', _, evs, hlog, run⟩ := st.tok small
  simp only [List.nil_append] at run
  obtain ⟨l1, h1, p1⟩ := run.perm_left ti.1.symm
  refine ⟨l1, by rw [hlog, List.drop_left]; exact h1, p1, p1.nodup_iff.mpr tp'.nodup_stored, fun t ht => ?_⟩
  exact tp'.fresh_stored t (p1.mem_iff.mp ht)

/-- histories: every operation meets its precondition; a failing operation leaves a state to continue with -/
inductive Hist : State → List EOp → State → Prop where
  | nil (s : State) : Hist s [] s
  | ok {s s1 s2 : State} {op : EOp} {ops : List EOp} : op.pre s → execE s op = .ok s1 () → Hist s1 ops s2 → Hist s (op :: ops) s2
  | fail {s s1 s2 : State} {op : EOp} {ops : List EOp} {e : Fail} : op.pre s → execE s op = .fail s1 e → Hist s1 ops s2 →
      Hist s (op :: ops) s2

theorem Hist.step {s s' : State} {ops : List EOp} (hi : Hist s ops s') (gs : GoodS [] s) : Step [] s s' := by
  induction hi with
  | nil s => exact Step.refl gs
  | ok pre he _ ih =>
    have := execE_ok gs _ pre
    rw [he] at this
    exact Step.trans this (ih this.good)
  | fail pre he _ ih =>
    have := execE_ok gs _ pre
    rw [he] at this
    exact Step.trans this (ih this.good)

/-- when no handle holds a buffer, no buffer is alive and nothing is stored -/
theorem stored_nil_of_no_handle {s : State} (inv : InvM s) (hn : ∀ h, s.handle h = none) : stored s = [] := by
  have dead : ∀ c, s.buf? c = none := by
    intro c
    cases hx : s.buf? c with
    | none => rfl
    | some x =>
      exfalso
      obtain ⟨r1, r2⟩ := inv.ref c x hx
      have pos : 0 < s.hs.count (some c) := by omega
      have mem := List.count_pos_iff.mp pos
      obtain ⟨i, hi⟩ := List.mem_iff_getElem?.mp mem
      have := hn i
      simp [State.handle, hi] at this
  unfold stored
  apply List.flatMap_eq_nil_iff.mpr
  intro c _
  rw [dead c]; rfl

end Mpt.Heap
