/-
  C04: `mpt_printf` appends the text (two slices of computed length, `vsnprintf`, adjustment of the used size).
-/
import MptModel.Lemmas.HeapOwn
namespace Mpt.Heap
open Mpt

theorem take_write_prefix (d : List Byte) (off : Nat) (b : List Byte) (fit : off + b.length ≤ d.length) :
    (Mem.write d off b).take off = d.take off := by
  have h2 := congrArg (List.take off) (take_write_append d off b fit)
  rw [List.take_take, Nat.min_eq_left (by omega)] at h2
  rw [h2, List.take_append_of_le_length (by rw [List.length_take]; omega), List.take_take]
  simp

/-- text and terminator written at `off`: the first `off + |t|` bytes -/
theorem take_write_text (d : List Byte) (off : Nat) (t : List Byte) (fit : off + t.length + 1 ≤ d.length) :
    (Mem.write d off (t ++ [0])).take (off + t.length) = d.take off ++ t := by
  have h1 := take_write_append d off (t ++ [0]) (by simp; omega)
  have h2 := congrArg (List.take (off + t.length)) h1
  rw [List.take_take, Nat.min_eq_left (by simp)] at h2
  rw [h2, ← List.append_assoc, List.take_append_of_le_length (by simp [List.length_take]; omega)]
  apply List.take_of_length_le
  simp [List.length_take]; omega

theorem padTo_take (v : List Byte) (m k : Nat) (hk : k ≤ v.length) : (Vec.padTo v m).take k = v.take k := by
  unfold Vec.padTo
  exact List.take_append_of_le_length hk

theorem padTo_length (v : List Byte) (m : Nat) : (Vec.padTo v m).length = max v.length m := by
  simp [Vec.padTo, Vec.zeros]; omega

/-- `vsnprintf` into an owned buffer of characters and the adjustment of the used size, when the text fits -/
theorem print_on_own {s : State} {h nb : Nat} {z : Buf} (inv : Inv s) (o : Own s h nb z) (zp : PlainT z.traits)
    (e1 : esize z.traits = 1) (used L : Nat) (text : List Byte) (L0 : L ≠ 0) (fit : used + L ≤ z.size) (nl : text.length < L)
    (zu : z.used ≤ z.size) :
    ∃ s2 s3, snprintfAt s h used L text = .ok s2 () ∧ printfFinish s2 h used text.length = .ok s3 text.length ∧
      Inv s3 ∧ s3.hs.length = s.hs.length ∧ s3.abs h = z.data.take used ++ text ∧ ∀ h', h' ≠ h → s3.abs h' = s.abs h' := by
  have tk : text.take (L - 1) = text := List.take_of_length_le (by omega)
  unfold snprintfAt
  rw [if_neg L0, tk, poke_eq o.hh o.hb used (text ++ [0]) (by simp; omega)]
  have wl : (Mem.write z.data used (text ++ [0])).length = z.data.length :=
    write_length _ _ _ (by simp; simp only [Buf.size] at fit; omega)
  have up := o.update inv { z with data := Mem.write z.data used (text ++ [0]) } o.ref rfl
    (by simp only [Buf.size, wl]; exact zu) zp (esize_one_mod _ e1 _)
  obtain ⟨inv2, o2, _, oth2, len2⟩ := up
  refine ⟨_, (s.setBuf nb { z with data := Mem.write z.data used (text ++ [0]) }).setBuf nb
    { z with data := Mem.write z.data used (text ++ [0]), used := used + text.length }, rfl, ?_⟩
  unfold printfFinish setUsedH
  rw [o2.hh]
  simp only [o2.hb]
  have up3 := o2.update inv2 { z with data := Mem.write z.data used (text ++ [0]), used := used + text.length } o.ref rfl
    (by simp only [Buf.size, wl]; simp only [Buf.size] at fit; omega) zp (esize_one_mod _ e1 _)
  obtain ⟨inv3, _, abs3, oth3, len3⟩ := up3
  refine ⟨trivial, inv3, by rw [len3]; exact len2, ?_, fun h' ne => ?_⟩
  · rw [abs3]
    show (Mem.write z.data used (text ++ [0])).take (used + text.length) = _
    exact take_write_text _ _ _ (by simp only [Buf.size] at fit; omega)
  · rw [oth3 h' ne]; exact oth2 h' ne

theorem n_lt_len2 (n : Nat) : n < (n / 64 + 1) * 64 := by omega

/-- the second attempt on an owned character buffer always succeeds -/
theorem printfRetry_own {s : State} {h nb : Nat} {z : Buf} {ct : Traits} (inv : Inv s) (hlt : h < s.hs.length) (o : Own s h nb z)
    (zt : z.traits = some ct) (c1 : ct.size = 1) (used len : Nat) (text : List Byte) (n0 : text.length ≠ 0) (hu : used ≤ z.used) :
    ∃ s5, printfRetry s h used len text = .ok s5 text.length ∧ Inv s5 ∧ s5.hs.length = s.hs.length ∧
      s5.abs h = z.data.take used ++ text ∧ ∀ h', h' ≠ h → s5.abs h' = s.abs h' := by
  have e1 : esize z.traits = 1 := by rw [zt]; exact c1
  have zused := inv.used nb z o.hb
  unfold printfRetry
  simp only
  generalize hL : max len ((text.length / 64 + 1) * 64) = L
  have nL : text.length < L := by have := n_lt_len2 text.length; omega
  have ss := slice_sem inv hlt used L
  have st := slice_struct inv hlt used L
  generalize arraySlice s h used L = r at ss st
  cases r with
  | fault w => exact ss.elim
  | fail s3 e => exact (st nb z o e1).elim
  | ok s3 v =>
    obtain ⟨inv3, len3, abs3, oth3⟩ := ss
    obtain ⟨_, nb3, z3, o3, fit3, z3t⟩ := st
    have z3t' : z3.traits = some ct := by rw [z3t, o.hh]; simp [o.hb, zt]
    have z3p := inv3.plain nb3 z3 o3.hb
    have z3u := inv3.used nb3 z3 o3.hb
    have c3 : z3.content = Vec.padTo z.content (used + L) := by
      rw [← State.abs_of o3.hh o3.hb, abs3, State.abs_of o.hh o.hb]; rfl
    have z3len : used ≤ z3.used := by
      have := congrArg List.length c3
      rw [content_length z3 z3u, padTo_length, content_length z zused] at this
      omega
    have pre3 : z3.data.take used = z.data.take used := by
      have h1 : z3.content.take used = z3.data.take used := by
        simp only [Buf.content, List.take_take]; rw [Nat.min_eq_left z3len]
      have h2 : z.content.take used = z.data.take used := by
        simp only [Buf.content, List.take_take]; rw [Nat.min_eq_left hu]
      rw [← h1, c3, padTo_take _ _ _ (by rw [content_length z zused]; exact hu), h2]
    obtain ⟨s4, s5, q1, q2, inv5, len5, abs5, oth5⟩ := print_on_own inv3 o3 z3p (by rw [z3t']; exact c1) used L text (by omega) fit3 nL z3u
    simp only
    rw [q1]
    simp only [if_neg n0]
    refine ⟨s5, q2, inv5, by rw [len5, len3], by rw [abs5, pre3], fun h' ne => ?_⟩
    rw [oth5 h' ne]; exact oth3 h' ne

/-- `mpt_vprintf` behind the type check: on a handle whose buffer (if any) holds characters -/
theorem printfTail_sem {s : State} (inv : Inv s) {h : Nat} (hlt : h < s.hs.length) (ct : Traits) (c1 : ct.size = 1) (used len : Nat)
    (text : List Byte) (ht : ((s.handle h).bind s.buf?).bind (·.traits) = some ct) (hl : (s.abs h).length = used) :
    Sem s h (fun v v' => v' = Vec.append v text) (printfTail s h used len text) := by
  unfold printfTail
  simp only
  have ss := slice_sem inv hlt used len
  have st := slice_struct inv hlt used len
  generalize arraySlice s h used len = r at ss st
  cases r with
  | fault w => exact ss
  | fail s1 e => exact ⟨ss.1, ss.2.1, ss.2.2⟩
  | ok s1 v =>
    obtain ⟨inv1, len1, abs1, oth1⟩ := ss
    obtain ⟨_, nb, z, o, fit, zt⟩ := st
    rw [ht] at zt
    have e1 : esize z.traits = 1 := by rw [zt]; exact c1
    have zp := inv1.plain nb z o.hb
    have zu := inv1.used nb z o.hb
    have hlt1 : h < s1.hs.length := by rw [len1]; exact hlt
    have zc : z.content = Vec.padTo (s.abs h) (used + len) := by
      rw [← State.abs_of o.hh o.hb, abs1]; rfl
    have zlen : z.used = used + len := by
      have := congrArg List.length zc
      rw [content_length z zu, padTo_length, hl] at this
      omega
    have pre : z.data.take used = s.abs h := by
      have h1 : z.content.take used = z.data.take used := by
        simp only [Buf.content, List.take_take]; rw [Nat.min_eq_left (by omega)]
      rw [← h1, zc, padTo_take _ _ _ (by omega)]
      exact List.take_of_length_le (by omega)
    simp only
    by_cases L0 : len = 0
    · -- no room at all: nothing is printed in the first attempt
      subst L0
      simp only [snprintfAt, if_true]
      by_cases n0 : text.length = 0
      · rw [if_pos (Or.inl n0)]
        have tn : text = [] := List.eq_nil_of_length_eq_zero n0
        subst tn
        unfold printfFinish setUsedH
        rw [o.hh]
        simp only [o.hb]
        have up := o.update inv1 { z with used := used + ([] : List Byte).length } o.ref rfl
          (by simp only [Buf.size, List.length_nil]; simp only [Buf.size] at zu; omega) zp (esize_one_mod _ e1 _)
        obtain ⟨inv3, _, abs3, oth3, len3⟩ := up
        refine ⟨inv3, by rw [len3, len1], ?_, fun h' ne => ?_⟩
        · rw [abs3]
          show z.data.take (used + 0) = _
          simp [Vec.append, pre]
        · rw [oth3 h' ne]; exact oth1 h' ne
      · rw [if_neg (by omega)]
        obtain ⟨s5, q, inv5, len5, abs5, oth5⟩ := printfRetry_own inv1 hlt1 o zt c1 used 0 text n0 (by omega)
        rw [q]
        refine ⟨inv5, by rw [len5, len1], by rw [abs5, pre]; rfl, fun h' ne => ?_⟩
        rw [oth5 h' ne]; exact oth1 h' ne
    · by_cases fits : text.length = 0 ∨ text.length < len
      · have nl : text.length < len := by omega
        obtain ⟨s2, s3, q1, q2, inv3, len3, abs3, oth3⟩ := print_on_own inv1 o zp e1 used len text L0 fit nl zu
        rw [q1]
        simp only [if_pos fits]
        rw [q2]
        refine ⟨inv3, by rw [len3, len1], by rw [abs3, pre]; rfl, fun h' ne => ?_⟩
        rw [oth3 h' ne]; exact oth1 h' ne
      · -- truncated first attempt, then the retry
        unfold snprintfAt
        rw [if_neg L0, poke_eq o.hh o.hb used (text.take (len - 1) ++ [0]) (by simp; omega)]
        have wl : (Mem.write z.data used (text.take (len - 1) ++ [0])).length = z.data.length :=
          write_length _ _ _ (by simp; simp only [Buf.size] at fit; omega)
        have up := o.update inv1 { z with data := Mem.write z.data used (text.take (len - 1) ++ [0]) } o.ref rfl
          (by simp only [Buf.size, wl]; exact zu) zp (esize_one_mod _ e1 _)
        obtain ⟨inv2, o2, _, oth2, len2⟩ := up
        simp only [if_neg fits]
        obtain ⟨s5, q, inv5, len5, abs5, oth5⟩ := printfRetry_own inv2 (by rw [len2]; exact hlt1) o2 zt c1 used len text (by omega)
          (by show used ≤ z.used; omega)
        rw [q]
        refine ⟨inv5, by rw [len5, len2, len1], ?_, fun h' ne => ?_⟩
        · rw [abs5]
          show (Mem.write z.data used (text.take (len - 1) ++ [0])).take used ++ text = _
          rw [take_write_prefix _ _ _ (by simp; simp only [Buf.size] at fit; omega), pre]; rfl
        · rw [oth5 h' ne, oth2 h' ne]; exact oth1 h' ne

/-- `mpt_printf(arr, "%s", text)`: the text is appended (lengths exact), other handles keep their values, a buffer
    of another type is refused without a change -/
theorem printf_sem {s : State} (inv : Inv s) {h : Nat} (hlt : h < s.hs.length) (ct : Traits) (pt : PlainT (some ct)) (c1 : ct.size = 1)
    (text : List Byte) : Sem s h (fun v v' => v' = Vec.append v text) (arrayPrintf s h ct text) := by
  unfold arrayPrintf
  cases hh : s.handle h with
  | none =>
    simp only
    obtain ⟨dp, _⟩ := attach_fresh inv hlt hh 64 (some ct) pt
    obtain ⟨inv0, len0, oth0, hh0, z, hz, _⟩ := dp
    have hz' : ((s.newBuf 64 0 (some ct)).setHandle h (some s.bufs.length)).buf? s.bufs.length = some (State.fresh 64 0 (some ct)) := by
      rw [State.buf?_setHandle, State.buf?_newBuf]; simp
    have abs0 : ((s.newBuf 64 0 (some ct)).setHandle h (some s.bufs.length)).abs h = [] := by
      rw [State.abs_of hh0 hz']; rfl
    have t := printfTail_sem inv0 (by rw [len0]; exact hlt) ct c1 0 (allocSize 64) text
      (by rw [hh0]; simp [hz', State.fresh]) (by rw [abs0]; rfl)
    generalize printfTail _ h 0 (allocSize 64) text = r at t
    have absh : s.abs h = [] := State.abs_none hh
    cases r with
    | fault w => exact t
    | fail s1 e =>
      refine ⟨t.1, by rw [t.2.1, len0], fun h' => ?_⟩
      rw [t.2.2 h']
      by_cases e : h' = h
      · rw [e, abs0, absh]
      · exact oth0 h' e
    | ok s1 v =>
      refine ⟨t.1, by rw [t.2.1, len0], ?_, fun h' ne => ?_⟩
      · rw [t.2.2.1, abs0, absh]
      · rw [t.2.2.2 h' ne]; exact oth0 h' ne
  | some b =>
    simp only
    obtain ⟨x, hb⟩ := inv.live h b hh
    rw [hb]
    simp only
    split
    · exact Sem.fail_same inv _ _ _
    · rename_i same
      have xt : x.traits = some ct := by simpa using same
      exact printfTail_sem inv hlt ct c1 x.used _ text (by rw [hh]; simp [hb, xt])
        (by rw [State.abs_of hh hb, content_length x (inv.used b x hb)])

end Mpt.Heap
