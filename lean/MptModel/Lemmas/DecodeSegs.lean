/-
  Lemmas for C03 (core Lean only): honesty of the decoders when the stream arrives into an iovec array of
  several segments (arrivals extend the last segment or add a segment, empty ones included).
-/
import MptModel.Lemmas.DecodeArrive
namespace Mpt.Codec
open Mpt.Cobs

/-- a call that continues an open block with more input -/
theorem resume_callG (v : Variant) (segs2 : List Seg) (st : DecState) (store piece : List Byte) (c0 : Nat) (U : List Byte)
    (hflat : flat segs2 = store ++ piece)
    (h : Hist v c0 U st store) : CallRes v c0 (U ++ piece) (decodeCobs v st segs2 false) := by
  obtain ⟨hmsg, hcurr, c, p, hctx, hc0, hc, hp, hrel⟩ := h
  unfold decodeCobs
  simp only [Bool.false_eq_true, if_false, hflat]
  cases hprep : decPrep st segs2 (store ++ piece) false with
  | inl es =>
    obtain ⟨e, st'⟩ := es
    exact CallRes.ofErr v c0 _ e st' _ (decPrep_err _ _ _ _ _ _ hprep)
  | inr sl =>
    obtain ⟨st', l⟩ := sl
    obtain ⟨h1, h2, h3, h4, h5, h6, h7, h8, h9, h10⟩ := decPrep_mid st _ _ st' l c p hmsg hctx hc0 hc hp hprep
    simp only
    unfold decStart
    rw [if_neg (by omega)]
    have hacc : l.acc = (store.drop st.pos).take st.len := by
      simp only [Loc.acc, h1, h4]
      by_cases hl : st.len = 0
      · simp [hl]
      · rw [h10 hl]; exact take_drop_append_le _ _ _ _ (by omega)
    refine loop_callres v st' l c0 (U ++ piece) ?_ h6 h7 (by rw [h1]; exact h8) (by omega) (by omega) (by omega)
    intro more
    rw [h2, h3, h5, h1, hacc, List.append_assoc, hrel, List.drop_append_of_le_length hcurr, List.append_assoc]

/-- the first call on a fresh state: nothing has arrived, or a delimiter, or the first code byte `c0` -/
theorem start_callG (v : Variant) (segs2 : List Seg) (st : DecState) (store2 : List Byte) (hflat : flat segs2 = store2) (hf : Fresh st) :
    (store2.drop st.curr = [] → (decodeCobs v st segs2 false).ret ≠ .val 1 ∧
        ((decodeCobs v st segs2 false).ret = .val 0 →
          Fresh (decodeCobs v st segs2 false).st ∧ (decodeCobs v st segs2 false).st.curr = st.curr ∧
          (decodeCobs v st segs2 false).store = store2)) ∧
    (∀ tl, store2.drop st.curr = 0 :: tl → (decodeCobs v st segs2 false).ret ≠ .val 1 ∧
        (decodeCobs v st segs2 false).ret ≠ .val 0 ∧ (decodeCobs v st segs2 false).ret ≠ .err .MissingData) ∧
    (∀ c0 U, store2.drop st.curr = c0 :: U → c0 ≠ 0 → CallRes v c0.toNat U (decodeCobs v st segs2 false)) := by
  unfold decodeCobs
  simp only [Bool.false_eq_true, if_false, hflat]
  cases hprep : decPrep st segs2 store2 false with
  | inl es =>
    obtain ⟨e, st'⟩ := es
    have he := decPrep_err _ _ _ _ _ _ hprep
    exact ⟨fun _ => ⟨by simp, by simp⟩, fun _ _ => ⟨by simp, by simp, by simp [he]⟩, fun c0 U _ _ => CallRes.ofErr v _ U e st' _ he⟩
  | inr sl =>
    obtain ⟨st', l⟩ := sl
    obtain ⟨h1, h2, h3, h4, h5, h6, h7⟩ := decPrep_fresh st _ store2 st' l hf hprep
    have hmid := decPrep_ok st _ store2 false st' l hf.wf hprep
    have hst' : Fresh st' ∧ st'.curr = st.curr ∧ st'.msg = none := by
      have hm := hf.mlen
      unfold decPrep at hprep
      simp only at hprep
      split at hprep
      · simp at hprep
      split at hprep
      · simp at hprep
      try rw [if_pos hm] at hprep
      simp only [Bool.false_eq_true, if_false, hf.ctx, Nat.zero_mod, if_true] at hprep
      unfold decEnter at hprep
      split at hprep
      · simp at hprep
      simp only [Sum.inr.injEq, Prod.mk.injEq] at hprep
      obtain ⟨rfl, _⟩ := hprep
      have hpv : (decPrev st).1.ctx = 0 ∧ (decPrev st).1.msg = none ∧ (decPrev st).1.len = 0 ∧ (decPrev st).1.curr = st.curr := by
        unfold decPrev
        cases hmsg : st.msg with
        | none => simp [hf.ctx, hf.hnone hmsg, hmsg]
        | some m => simp [hf.ctx, hf.hsome m hmsg]
      exact ⟨⟨hpv.1, fun _ => hpv.2.2.1, fun m hm => by simp [hpv.2.1] at hm⟩, hpv.2.2.2, hpv.2.1⟩
    simp only
    unfold decStart
    rw [if_pos h2]
    refine ⟨?_, ?_, ?_⟩
    · intro hnil
      have : l.store[l.r]? = none := by
        rw [h1, h5]
        have := congrArg (fun x => x[0]?) hnil
        simpa using this
      rw [this]
      exact ⟨by simp, fun _ => ⟨hst'.1, hst'.2.1, h1⟩⟩
    · intro tl htl
      have : l.store[l.r]? = some 0 := by
        rw [h1, h5]
        have := congrArg (fun x => x[0]?) htl
        simpa using this
      rw [this]
      simp
    · intro c0 U hU hc0
      have hc : l.store[l.r]? = some c0 := by
        rw [h1, h5]
        have := congrArg (fun x => x[0]?) hU
        simpa using this
      have hlt : l.r < l.store.length := by
        rcases Nat.lt_or_ge l.r l.store.length with h | h
        · exact h
        · simp [List.getElem?_eq_none h] at hc
      have hdrop : l.store.drop (l.r + 1) = U := by
        rw [h1, h5]
        have := congrArg (List.drop 1) hU
        simpa [List.drop_drop, Nat.add_comm] using this
      rw [hc]
      simp only [hc0, if_false]
      have hr1 : ({ l with proc := l.proc + 1, code := c0.toNat, reads := [l.r] } : Loc).r = l.r + 1 := by
        simp only [Loc.r]; omega
      have := loop_callres v st' { l with proc := l.proc + 1, code := c0.toNat, reads := [l.r] } c0.toNat U
        (by
          intro more
          rw [hr1]
          simp only [hdrop, h3, Loc.acc, h4, List.take_zero, MRes.pre_nil])
        h6 hst'.2.2 (by rw [hr1]; exact hlt)
        (Nat.pos_of_ne_zero ((toNat_ne_zero c0).mpr hc0)) (UInt8.toNat_lt c0) (by simp [h3])
      rw [hr1] at this
      exact this




theorem flat_append (a b : List Seg) : flat (a ++ b) = flat a ++ flat b := by simp [flat]

theorem flat_addArrival (segs : List Seg) (x : Arrival) : flat (addArrival segs x) = flat segs ++ x.bytes := by
  unfold addArrival
  cases hl : segs.getLast? with
  | none => simp [flat_append, flat]
  | some last =>
    cases hn : x.newSeg with
    | true => simp [flat_append, flat]
    | false =>
      obtain ⟨ys, rfl⟩ := List.getLast?_eq_some_iff.mp hl
      simp [flat_append, flat]

theorem flat_reseg (segs : List Seg) : ∀ (store : List Byte), store.length = (flat segs).length →
    flat (reseg segs store) = store := by
  induction segs with
  | nil => intro store h; simp [flat] at h; simp [reseg, flat, h]
  | cons sg rest ih =>
    intro store h
    obtain ⟨a, bs⟩ := sg
    have hl : (flat ((a, bs) :: rest)).length = bs.length + (flat rest).length := by simp [flat]
    simp only [reseg]
    have := ih (store.drop bs.length) (by simp; omega)
    have hc : flat ((a, store.take bs.length) :: reseg rest (store.drop bs.length))
        = store.take bs.length ++ flat (reseg rest (store.drop bs.length)) := by simp [flat]
    rw [hc, this, List.take_append_drop]

/-- the storage keeps its size in a call (needed to put it back into the segments) -/
theorem decodeV_len (v : Variant) (st : DecState) (segs : List Seg) (hwf : ∀ m, st.msg = some m → m = st.len) :
    (decodeV v st segs false).store.length = (flat segs).length := by
  have := (decodeV_safe v st segs false hwf).len
  simpa using this

def arrBytes (xs : List Arrival) : List Byte := (xs.map (·.bytes)).flatten

/-- phase B with an iovec array -/
theorem arriveSegs_mid (v : Variant) (c0 : Nat) (xs : List Arrival) : ∀ (st : DecState) (segs : List Seg) (U : List Byte) (o : DecOut),
    Hist v c0 U st (flat segs) → arriveSegs v st segs xs = some o → o.ret = .val 1 →
    ∃ U' rest, Delivered v c0 U' o.region ∧ U' ++ rest = U ++ arrBytes xs := by
  induction xs with
  | nil => intro st segs U o _ h; simp [arriveSegs] at h
  | cons x xs ih =>
    intro st segs U o hh h h1
    have hwf : ∀ m, st.msg = some m → m = st.len := by intro m hm; rw [hh.msg] at hm; simp at hm
    have hcall := resume_callG v (addArrival segs x) st (flat segs) x.bytes c0 U (flat_addArrival segs x) hh
    have hl := lift_call v st (addArrival segs x) c0 (U ++ x.bytes) hwf hcall
    simp only [arriveSegs] at h
    by_cases h0 : (decodeV v st (addArrival segs x) false).ret = .val 0
    · rw [if_pos h0] at h
      have hfl := flat_reseg (addArrival segs x) _ (decodeV_len v st (addArrival segs x) hwf)
      obtain ⟨U', rest, hd, he⟩ := ih _ _ (U ++ x.bytes) o (by rw [hfl]; exact hl.1 h0) h h1
      exact ⟨U', rest, hd, by rw [he]; simp [arrBytes]⟩
    · rw [if_neg h0] at h
      simp only [Option.some.injEq] at h
      subst h
      exact ⟨U ++ x.bytes, arrBytes xs, hl.2 h1, by simp [arrBytes]⟩


/-- phase A with an iovec array -/
theorem arriveSegs_fresh (v : Variant) (xs : List Arrival) : ∀ (st : DecState) (segs : List Seg) (o : DecOut),
    Fresh st → st.curr ≤ (flat segs).length → arriveSegs v st segs xs = some o → o.ret = .val 1 →
    ∃ c0 U' rest, c0 ≠ 0 ∧ Delivered v c0.toNat U' o.region ∧
      c0 :: U' ++ rest = (flat segs).drop st.curr ++ arrBytes xs := by
  induction xs with
  | nil => intro st segs o _ _ h; simp [arriveSegs] at h
  | cons x xs ih =>
    intro st segs o hf hcur h h1
    have hflat2 := flat_addArrival segs x
    have hdrop : (flat segs ++ x.bytes).drop st.curr = (flat segs).drop st.curr ++ x.bytes :=
      List.drop_append_of_le_length hcur
    have hstart := start_callG v (addArrival segs x) st (flat segs ++ x.bytes) hflat2 hf
    have hlen := decodeV_len v st (addArrival segs x) hf.wf
    simp only [arriveSegs] at h
    have hVeq : ∀ (hne : (decodeCobs v st (addArrival segs x) false).ret ≠ .err .MissingData),
        decodeV v st (addArrival segs x) false = decodeCobs v st (addArrival segs x) false := by
      intro hne
      unfold decodeV decodeCobsR
      cases v.tail <;> simp [hne]
    cases hX : (flat segs).drop st.curr ++ x.bytes with
    | nil =>
      obtain ⟨hX0, hp0⟩ := List.append_eq_nil_iff.mp hX
      have hcur' : st.curr = (flat segs).length := by
        have := List.drop_eq_nil_iff.mp hX0; omega
      have hflat2' : flat (addArrival segs x) = flat segs := by rw [hflat2, hp0]; simp
      obtain ⟨hn1, hn0⟩ := hstart.1 (by rw [hdrop, hX])
      have hne : (decodeCobs v st (addArrival segs x) false).ret ≠ .err .MissingData := by
        intro hmd
        unfold decodeCobs at hmd
        simp only [Bool.false_eq_true, if_false, hflat2'] at hmd
        cases hprep : decPrep st (addArrival segs x) (flat segs) false with
        | inl es => rw [hprep] at hmd; exact decPrep_err _ _ _ _ _ _ hprep (by simpa using hmd)
        | inr sl =>
          obtain ⟨st', l⟩ := sl
          rw [hprep] at hmd
          obtain ⟨g1, g2, g3, g4, g5, g6, g7⟩ := decPrep_fresh st _ _ st' l hf hprep
          simp only [decStart, g2, if_true] at hmd
          have : l.store[l.r]? = none := by
            rw [g1, g5, hcur']; simp
          rw [this] at hmd
          simp at hmd
      rw [hVeq hne] at h hlen
      by_cases h0 : (decodeCobs v st (addArrival segs x) false).ret = .val 0
      · rw [if_pos h0] at h
        obtain ⟨hf', hc', hs'⟩ := hn0 h0
        have hfl := flat_reseg (addArrival segs x) _ hlen
        obtain ⟨c0, U', rest, e1, e2, e3⟩ := ih _ _ o hf' (by rw [hfl, hc', hs', hp0]; simp; omega) h h1
        refine ⟨c0, U', rest, e1, e2, ?_⟩
        rw [e3, hfl, hc', hs', hp0, hX0]
        simp [hcur', arrBytes, hp0]
      · rw [if_neg h0] at h
        simp only [Option.some.injEq] at h
        subst h
        exact absurd h1 hn1
    | cons b tl =>
      by_cases hb : b = 0
      · subst hb
        obtain ⟨hn1, hn0, hnmd⟩ := hstart.2.1 tl (by rw [hdrop, hX])
        rw [hVeq hnmd] at h
        rw [if_neg hn0] at h
        simp only [Option.some.injEq] at h
        subst h
        exact absurd h1 hn1
      · have hcall := hstart.2.2 b tl (by rw [hdrop, hX]) hb
        have hl := lift_call v st (addArrival segs x) b.toNat tl hf.wf hcall
        by_cases h0 : (decodeV v st (addArrival segs x) false).ret = .val 0
        · rw [if_pos h0] at h
          have hfl := flat_reseg (addArrival segs x) _ hlen
          obtain ⟨U', rest, hd, he⟩ := arriveSegs_mid v b.toNat xs _ _ tl o (by rw [hfl]; exact hl.1 h0) h h1
          refine ⟨b, U', rest, hb, hd, ?_⟩
          show b :: (U' ++ rest) = _
          rw [he]
          simp only [arrBytes, List.map_cons, List.flatten_cons]
          rw [← List.append_assoc, hX]; rfl
        · rw [if_neg h0] at h
          simp only [Option.some.injEq] at h
          subst h
          refine ⟨b, tl, arrBytes xs, hb, hl.2 h1, ?_⟩
          simp only [arrBytes, List.map_cons, List.flatten_cons]
          rw [← List.append_assoc, hX]

/-- honesty over every segmentation in time and space: the stream arrives in arbitrary pieces, each either
    appended to the last segment of the iovec array or put into a further segment (empty ones included) at
    any base alignment; a delivered message is the reference decoding of the frame at the input position -/
theorem arriveSegs_honest (v : Variant) (st : DecState) (segs : List Seg) (xs : List Arrival)
    (pre junk : List Byte) (o : DecOut) (hf : Fresh st) (hc : st.curr ≤ (flat segs).length)
    (hS : (flat segs).drop st.curr ++ arrBytes xs = pre ++ 0 :: junk) (hnz : ∀ x ∈ pre, x ≠ 0)
    (h : arriveSegs v st segs xs = some o) (h1 : o.ret = .val 1) : dec v (pre ++ [0]) = some o.region := by
  obtain ⟨c0, U', rest, hc0, hd, he⟩ := arriveSegs_fresh v xs st segs o hf hc h h1
  rw [hS] at he
  cases pre with
  | nil =>
    simp only [List.nil_append, List.cons_append, List.cons.injEq] at he
    exact absurd he.1 hc0
  | cons c body =>
    simp only [List.cons_append, List.cons.injEq] at he
    obtain ⟨rfl, he⟩ := he
    exact hd.dec hc0 he (fun x hx => hnz x (by simp [hx]))

end Mpt.Codec
