/-
  Helper lemmas for C19 (core Lean only): recognised `range(…)` descriptions are accepted with the denoted
  sequence.
-/
import MptModel.Lemmas.IterAccept4
namespace Mpt.Iter
open Mpt.IterSpec

theorem nextIs_other (a : List Char) (c d : Char) (t : List Char) (ha : OptBlank a) (hg : isGraph c = true)
    (hs : isSpace c = false) (hne : c ≠ d) : nextIs (a ++ c :: t) d = false := by
  unfold nextIs
  rw [nextvis_opt a c t ha hg hs]
  simpa using hne

/-- the range check of `_mpt_iterator_range` passes for the ranges the spec gives a meaning -/
theorem range_check (a b st : Rat) (h1 : a < b) (h2 : 0 < st) (h3 : st ≤ b - a) (h4 : (b - a) / 100000 ≤ st) :
    ¬ (¬ (0 < st) ∨ (b - a) * (1 + rangeTol) < st ∨ st < (b - a) * (1 / 1000000)) := by
  intro h
  have t : rangeTol = 1 / 562949953421312 := by unfold rangeTol; simp
  rw [t] at h
  rcases h with h | h | h <;> grind

theorem range_count (a b st : Rat) (h1 : a < b) (h2 : 0 < st) (h4 : (b - a) / 100000 ≤ st) :
    ((b - a) / st).floor.toNat + 1 < 4294967296 := by
  have hle : (b - a) / st ≤ 100000 := by
    apply Rat.not_lt.1
    intro hc
    rw [Rat.lt_div_iff h2] at hc
    grind
  have hf := Rat.floor_le ((b - a) / st)
  have : (((b - a) / st).floor : Rat) ≤ ((100000 : Int) : Rat) := by
    have : ((100000 : Int) : Rat) = 100000 := by simp
    rw [this]; grind
  have := Rat.intCast_le_intCast.1 this
  omega

/-- where the spec calls the step count settled the tolerance of the implementation does not fire -/
theorem rangeSteps_settled (a b st : Rat) (h1 : a < b) (h2 : 0 < st) (h4 : (b - a) / 100000 ≤ st)
    (h5 : rangeSettled a b st = true) : rangeSteps a b st = ((b - a) / st).floor.toNat := by
  have hc := range_count a b st h1 h2 h4
  unfold rangeSteps
  simp only []
  rw [if_neg]
  intro hle
  unfold rangeSettled at h5
  simp only [Bool.or_eq_true, decide_eq_true_eq] at h5
  generalize (b - a) / st = q at hc hle h5
  generalize q.floor.toNat = k at hc hle h5
  unfold rangeTol at hle
  rcases h5 with h5 | h5
  · subst h5
    have hk : ((k + 1 : Nat) : Rat) ≤ ((4294967296 : Nat) : Rat) := by exact_mod_cast Nat.le_of_lt hc
    have e : ((k + 1 : Nat) : Rat) = ((k : Nat) : Rat) + 1 := by push_cast; rfl
    have t : ((2 ^ 49 : Nat) : Rat) = 562949953421312 := by simp
    have t2 : ((4294967296 : Nat) : Rat) = 4294967296 := by simp
    rw [e, t] at hle
    rw [e, t2] at hk
    grind
  · exact absurd hle (Rat.not_le.2 h5)

theorem range_den (a b st : Rat) (h1 : a < b) (h2 : 0 < st) (h4 : (b - a) / 100000 ≤ st)
    (h5 : rangeSettled a b st = true) :
    (Gen.linear a st (wrap32 (rangeSteps a b st + 1)) 0).all = (IterSpec.range a b st).elems := by
  have := range_count a b st h1 h2 h4
  rw [rangeSteps_settled a b st h1 h2 h4 h5]
  have hw : wrap32 (((b - a) / st).floor.toNat + 1) = ((b - a) / st).floor.toNat + 1 := by unfold wrap32; omega
  rw [hw]
  simp [Gen.all, IterSpec.range, Den.elems]

/-- the checks and the generator of `_mpt_iterator_range` once bounds and step are known -/
def rangeMake (mn mx step : Rat) : Option Gen :=
  if ¬ (0 < step) ∨ (mx - mn) * (1 + rangeTol) < step ∨ step < (mx - mn) * (1 / 1000000) then none
  else some (.linear mn step (wrap32 (rangeSteps mn mx step + 1)) 0)

/-- acceptance of the range description, bounds only (step = a tenth of the width) -/
theorem rangeArgs_one (a0 a1 b1 ta tb : List Char) (va vb : Rat)
    (oa : OptBlank a0) (oa1 : OptBlank a1) (ob1 : OptBlank b1)
    (h1 : strictNumber ta = some va) (h2 : strictNumber tb = some vb) :
    rangeArgs (a0 ++ '(' :: (a1 ++ (ta ++ ' ' :: (tb ++ (b1 ++ [')'])))))
      = rangeMake va vb ((vb - va) / 10) := by
  unfold rangeArgs
  rw [nextvis_opt a0 '(' _ oa paren_open_graph.1 paren_open_graph.2]
  simp only [List.tail_cons, ne_eq, not_true_eq_false, ↓reduceIte]
  rw [parseRange_two a1 b1 ta tb va vb 0 1 oa1 ob1 h1 h2 ')' [] close_stops]
  simp only []
  have hst : rangeStep (b1 ++ [')']) ((vb - va) / 10) = some ((vb - va) / 10, b1 ++ [')']) := by
    unfold rangeStep
    rw [nextIs_other b1 ')' ':' [] ob1 paren_close_graph.1 paren_close_graph.2 (by decide)]
    rfl
  rw [hst]
  simp only []
  rw [closeOk_opt b1 ob1]
  simp only [Bool.not_true, Bool.false_eq_true, ↓reduceIte, rangeMake]

/-- acceptance of the range description with an explicit step -/
theorem rangeArgs_two (a0 a1 b1 a2 b2 ta tb ts : List Char) (va vb vs : Rat)
    (oa : OptBlank a0) (oa1 : OptBlank a1) (ob1 : OptBlank b1) (oa2 : OptBlank a2) (ob2 : OptBlank b2)
    (h1 : strictNumber ta = some va) (h2 : strictNumber tb = some vb) (h3 : strictNumber ts = some vs) :
    rangeArgs (a0 ++ '(' :: (a1 ++ (ta ++ ' ' :: (tb ++ (b1 ++ ':' :: (a2 ++ (ts ++ (b2 ++ [')']))))))))
      = rangeMake va vb vs := by
  unfold rangeArgs
  rw [nextvis_opt a0 '(' _ oa paren_open_graph.1 paren_open_graph.2]
  simp only [List.tail_cons, ne_eq, not_true_eq_false, ↓reduceIte]
  rw [parseRange_two a1 b1 ta tb va vb 0 1 oa1 ob1 h1 h2 ':' _ colon_stops]
  simp only []
  have hst : rangeStep (b1 ++ ':' :: (a2 ++ (ts ++ (b2 ++ [')'])))) ((vb - va) / 10) = some (vs, b2 ++ [')']) := by
    unfold rangeStep
    obtain ⟨n1, n2⟩ := nextIs_opt b1 ':' (a2 ++ (ts ++ (b2 ++ [')']))) ob1 colon_graph.1 colon_graph.2
    rw [if_pos n1, n2]
    simp only [List.tail_cons]
    rw [cdouble_opt a2 _ vs _ oa2 (cdouble_strict ts (b2 ++ [')']) vs h3 (stops_opt b2 ')' [] ob2 close_stops))]
  rw [hst]
  simp only []
  rw [closeOk_opt b2 ob2]
  simp only [Bool.not_true, Bool.false_eq_true, ↓reduceIte, rangeMake]

/-- a recognised `range(…)` description reaches the checks of `_mpt_iterator_range` with its bounds and step -/
theorem range_created (s : List Char) (a b st : Rat) (h : recognise s = some (.range a b st)) :
    create s = rangeMake a b st := by
  unfold recognise at h
  simp only [] at h
  split at h
  · cases hq : numbers s with
    | none => rw [hq] at h; simp at h
    | some vs => rw [hq] at h; simp only [Option.bind_some] at h; split at h <;> cases h
  · rename_i hname
    have hname' : (s.takeWhile isLetter).isEmpty = false := by simpa using hname
    split at h
    all_goals first
      | (cases h; done)
      | (exfalso; revert h; (repeat' split) <;> simp; done)
      | skip
    · -- bounds only
      rename_i ab hkw hf
      cases hab : numbers ab with
      | none => rw [hab] at h; simp at h
      | some vs =>
        rw [hab] at h
        match vs, h, hab with
        | [a', b'], h, hab =>
          simp only [Option.some.injEq, Desc.range.injEq] at h
          obtain ⟨e1, e2, e3⟩ := h
          subst e1; subst e2; subst e3
          obtain ⟨ta, tb, hab2, h1, h2⟩ := numbers_two ab a' b' hab
          obtain ⟨a0, inner, hrest, oa, hfs⟩ := fieldsOf_inv _ _ hf
          obtain ⟨g1, hg1, hg2⟩ := map_eq_one trim1 _ ab hfs.symm
          have hj := join_splitC ':' inner
          rw [hg1] at hj
          simp only [joinC] at hj
          obtain ⟨a1, b1, hf1, oa1, ob1⟩ := trim1_inv g1
          rw [hg2, hab2] at hf1
          have hkw' := keyword_range _ hkw
          have hl : (s.takeWhile isLetter).length ≤ 6 := by
            rw [← lowerAll_length, hkw']; decide
          rw [create_keyword s hname' hl]
          simp only []
          rw [if_neg (by rw [hkw']; decide), if_neg (by rw [hkw']; decide), if_pos hkw', hrest, ← hj, hf1]
          have := rangeArgs_one a0 a1 b1 ta tb a' b' oa oa1 ob1 h1 h2
          simp only [List.append_assoc, List.cons_append, List.nil_append] at this ⊢
          rw [this]
        | [], h, _ => simp at h
        | [_], h, _ => simp at h
        | _ :: _ :: _ :: _, h, _ => simp at h
    · -- bounds and step
      rename_i ab stx hkw hf
      cases hab : numbers ab with
      | none => rw [hab] at h; simp at h
      | some vs =>
        rw [hab] at h
        cases hst : numbers stx with
        | none => rw [hst] at h; revert h; (repeat' split) <;> intros <;> simp_all
        | some ws =>
          rw [hst] at h
          match vs, ws, h, hab, hst with
          | [a', b'], [s'], h, hab, hst =>
            simp only [Option.some.injEq, Desc.range.injEq] at h
            obtain ⟨e1, e2, e3⟩ := h
            subst e1; subst e2; subst e3
            obtain ⟨ta, tb, hab2, h1, h2⟩ := numbers_two ab a' b' hab
            have h3 := numbers_one stx s' hst
            obtain ⟨a0, inner, hrest, oa, hfs⟩ := fieldsOf_inv _ _ hf
            obtain ⟨g1, g2, hg, hg1, hg2⟩ := map_eq_two trim1 _ ab stx hfs.symm
            have hj := join_splitC ':' inner
            rw [hg] at hj
            simp only [joinC] at hj
            obtain ⟨a1, b1, hf1, oa1, ob1⟩ := trim1_inv g1
            obtain ⟨a2, b2, hf2, oa2, ob2⟩ := trim1_inv g2
            rw [hg1, hab2] at hf1
            rw [hg2] at hf2
            have hkw' := keyword_range _ hkw
            have hl : (s.takeWhile isLetter).length ≤ 6 := by
              rw [← lowerAll_length, hkw']; decide
            rw [create_keyword s hname' hl]
            simp only []
            rw [if_neg (by rw [hkw']; decide), if_neg (by rw [hkw']; decide), if_pos hkw', hrest, ← hj, hf1, hf2]
            have := rangeArgs_two a0 a1 b1 a2 b2 ta tb stx a' b' s' oa oa1 ob1 oa2 ob2 h1 h2 h3
            simp only [List.append_assoc, List.cons_append, List.nil_append] at this ⊢
            rw [this]
          | [], _, h, _, _ => simp at h
          | [_], _, h, _, _ => simp at h
          | _ :: _ :: _ :: _, _, h, _, _ => simp at h
          | [_, _], [], h, _, _ => simp at h
          | [_, _], _ :: _ :: _, h, _, _ => simp at h


/-- **a recognised `range(…)` description is accepted and denotes its sequence** -/
theorem accept_range (s : List Char) (a b st : Rat) (den : Den)
    (h : recognise s = some (.range a b st)) (hd : (Desc.range a b st).den = some den) :
    ∃ g, create s = some g ∧ g.all = den.elems ∧ g.rem = g.all ∧ g.WF := by
  have hk : a < b ∧ 0 < st ∧ st ≤ b - a ∧ (b - a) / 100000 ≤ st ∧ rangeSettled a b st = true
      ∧ den = IterSpec.range a b st := by
    simp only [Desc.den] at hd
    split at hd
    · rename_i hc; cases hd; exact ⟨hc.1, hc.2.1, hc.2.2.1, hc.2.2.2.1, hc.2.2.2.2, rfl⟩
    · cases hd
  obtain ⟨c1, c2, c3, c4, c5, hden⟩ := hk
  subst hden
  rw [range_created s a b st h]
  unfold rangeMake
  rw [if_neg (range_check a b st c1 c2 c3 c4)]
  exact ⟨_, rfl, range_den a b st c1 c2 c4 c5, by simp [Gen.rem], trivial⟩

end Mpt.Iter
