/-
  Lemmas for C03 (core Lean only): the block loop of the decoder model as a pure byte machine `mach`,
  its agreement with the reference decoder `decBody`, and the correspondence of the in-place loop
  `decLoop` with `mach` (decoded bytes are appended behind the read index, unread input is untouched).
-/
import MptModel.Impl.Decode
import MptModel.Lemmas.Cobs
import MptModel.Lemmas.DecodeSafe
namespace Mpt.Codec
open Mpt.Cobs

/-- result of the byte-wise block machine on a byte string -/
inductive MRes where
  | done (out : List Byte)                       -- delimiter reached between blocks
  | zeroIn (out : List Byte) (code pos : Nat)    -- zero byte inside the block `code` after `pos` of its bytes
  | more                                         -- input exhausted
  deriving Repr, DecidableEq

def MRes.pre (xs : List Byte) : MRes → MRes
  | .done out => .done (xs ++ out)
  | .zeroIn out c p => .zeroIn (xs ++ out) c p
  | .more => .more

/-- the block loop of `_decode` as a function from the unread bytes to the decoded bytes
    (unbounded target space) -/
def mach (v : Variant) : Nat → Nat → List Byte → MRes
  | _, _, [] => .more
  | code, pos, b :: rest =>
    if pos < lenData v code then
      if b = 0 then .zeroIn [] code pos
      else (mach v code (pos + 1) rest).pre [b]
    else
      if b = 0 then .done (List.replicate (lenData v code + lenZero v code 0 - pos) 0)
      else (mach v b.toNat 0 rest).pre (List.replicate (lenData v code + lenZero v code b.toNat - pos) 0)

theorem MRes.pre_pre (xs ys : List Byte) (m : MRes) : (m.pre ys).pre xs = m.pre (xs ++ ys) := by
  cases m <;> simp [MRes.pre]

theorem MRes.pre_nil (m : MRes) : m.pre [] = m := by
  cases m <;> simp [MRes.pre]

/-- data phase: `d` non-zero bytes that fit into the open block are copied -/
theorem mach_data (v : Variant) (code : Nat) (d : List Byte) : ∀ (pos : Nat) (tl : List Byte),
    (∀ x ∈ d, x ≠ 0) → pos + d.length ≤ lenData v code →
    mach v code pos (d ++ tl) = (mach v code (pos + d.length) tl).pre d := by
  induction d with
  | nil => intro pos tl _ _; simp [MRes.pre_nil]
  | cons b d ih =>
    intro pos tl hnz hl
    have hb : b ≠ 0 := hnz b (by simp)
    simp only [List.cons_append, mach]
    rw [if_pos (by simp at hl; omega), if_neg hb]
    rw [ih (pos + 1) tl (fun x hx => hnz x (by simp [hx])) (by simp at hl ⊢; omega)]
    rw [MRes.pre_pre]
    simp only [List.length_cons, List.singleton_append]
    congr 2; omega

theorem lenData_eq (v : Variant) (c : Byte) : lenData v c.toNat = dataLen v c := by
  unfold lenData dataLen
  cases hz : v.isZpe
  · have := v.nozpe_maxlen hz
    have := UInt8.toNat_lt c
    simp only [Bool.false_eq_true, if_false]
    rw [if_pos (by omega)]
  · simp only [if_true]

theorem toNat_ne_zero (n : Byte) : n.toNat ≠ 0 ↔ n ≠ 0 := by
  constructor
  · intro h hn; subst hn; simp at h
  · intro h hn; apply h; exact UInt8.toNat_inj.mp (by simpa using hn)

theorem lenZero_eq (v : Variant) (c n : Byte) :
    List.replicate (lenZero v c.toNat n.toNat) (0 : Byte) = zerosAfter v c (decide (n ≠ 0)) := by
  have hn := toNat_ne_zero n
  have hc := UInt8.toNat_lt c
  unfold lenZero zerosAfter
  cases hz : v.isZpe
  · have hm := v.nozpe_maxlen hz
    have hA : ¬ v.maxlen < c.toNat := by omega
    simp only [Bool.false_eq_true, false_and, if_false, hA]
    by_cases hB : c.toNat < v.maxlen <;> by_cases h1 : n = 0
    · subst h1; simp
    · have : n.toNat ≠ 0 := hn.mpr h1
      simp [hB, h1, this]
    · subst h1; simp
    · simp [hB]
  · have hm := v.zpe_maxlen hz
    simp only [true_and]
    by_cases h0 : c.toNat ≥ 0xe0
    · have hA : v.maxlen < c.toNat := by omega
      simp only [h0, hA, if_true]; rfl
    · have hA : ¬ v.maxlen < c.toNat := by omega
      simp only [h0, hA, if_false]
      by_cases hB : c.toNat < v.maxlen <;> by_cases h1 : n = 0
      · subst h1; simp
      · have : n.toNat ≠ 0 := hn.mpr h1
        simp [hB, h1, this]
      · subst h1; simp
      · simp [hB]


/-- what the machine result means in terms of the reference decoder -/
def MRes.agrees (v : Variant) (m : MRes) (spec : Option (List Byte)) : Prop :=
  match m with
  | .done out => spec = some out
  | .zeroIn out code _ => spec = if v.tail = true then some (out ++ [UInt8.ofNat code]) else none
  | .more => False

theorem MRes.agrees_pre (v : Variant) (m : MRes) (xs : List Byte) (spec : Option (List Byte))
    (h : m.agrees v spec) : (m.pre xs).agrees v (spec.map (xs ++ ·)) := by
  cases m with
  | done out => simp [MRes.agrees, MRes.pre] at *; simp [h]
  | zeroIn out c p =>
    simp only [MRes.agrees, MRes.pre] at *
    rw [h]; split <;> simp
  | more => simp [MRes.agrees] at h

/-- the block machine computes the reference decoding of a frame body `c :: body` followed by the delimiter -/
theorem mach_spec (v : Variant) (fuel : Nat) : ∀ (c : Byte) (body junk : List Byte),
    (∀ x ∈ body, x ≠ 0) → body.length + 1 < fuel →
    (mach v c.toNat 0 (body ++ 0 :: junk)).agrees v (decBody v fuel (c :: body)) := by
  induction fuel with
  | zero => intro c body junk _ h; omega
  | succ f ih =>
    intro c body junk hnz hf
    have hld := lenData_eq v c
    by_cases hshort : body.length < dataLen v c
    · -- the block is cut short by the delimiter
      have := mach_data v c.toNat body 0 (0 :: junk) hnz (by omega)
      rw [this]
      simp only [Nat.zero_add, mach]
      rw [if_pos (by omega)]
      simp only [if_true, MRes.pre, List.append_nil, MRes.agrees, decBody]
      rw [if_pos hshort]
      simp
    · have hge : dataLen v c ≤ body.length := by omega
      have hsplit : body = body.take (dataLen v c) ++ body.drop (dataLen v c) := (List.take_append_drop _ _).symm
      have hd_nz : ∀ x ∈ body.take (dataLen v c), x ≠ 0 := fun x hx => hnz x (List.take_subset _ _ hx)
      have hdl : (body.take (dataLen v c)).length = dataLen v c := by simp; omega
      have hm : mach v c.toNat 0 (body ++ 0 :: junk) =
          (mach v c.toNat (dataLen v c) (body.drop (dataLen v c) ++ 0 :: junk)).pre (body.take (dataLen v c)) := by
        conv => lhs; rw [hsplit, List.append_assoc]
        rw [mach_data v c.toNat _ 0 _ hd_nz (by omega)]
        simp [hdl]
      rw [hm]
      have hspec : decBody v (f + 1) (c :: body) =
          (decBody v f (body.drop (dataLen v c))).map fun tl =>
            body.take (dataLen v c) ++ zerosAfter v c (!(body.drop (dataLen v c)).isEmpty) ++ tl := by
        simp only [decBody]; rw [if_neg hshort]
      rw [hspec]
      cases htl : body.drop (dataLen v c) with
      | nil =>
        obtain ⟨g, rfl⟩ : ∃ g, f = g + 1 := ⟨f - 1, by omega⟩
        simp only [List.nil_append, mach]
        rw [if_neg (by omega)]
        simp only [if_true, MRes.pre, MRes.agrees, decBody, Option.map_some, List.isEmpty_nil, Bool.not_true]
        have := lenZero_eq v c 0
        simp only [UInt8.toNat_zero, ne_eq, not_true_eq_false, decide_false] at this
        rw [hld, Nat.add_sub_cancel_left, this]
        simp
      | cons c' tl' =>
        have hc' : c' ≠ 0 := hnz c' (by rw [hsplit, htl]; simp)
        have htl_nz : ∀ x ∈ tl', x ≠ 0 := fun x hx => hnz x (by rw [hsplit, htl]; simp [hx])
        have hlen : tl'.length + 1 < f := by
          have : body.length = dataLen v c + (tl'.length + 1) := by
            conv => lhs; rw [hsplit]
            simp [htl]; omega
          omega
        simp only [List.cons_append, mach]
        rw [if_neg (by omega), if_neg hc']
        have := ih c' tl' junk htl_nz hlen
        have h2 := MRes.agrees_pre v _ (List.replicate (lenData v c.toNat + lenZero v c.toNat c'.toNat - dataLen v c) 0) _ this
        have h3 := MRes.agrees_pre v _ (body.take (dataLen v c)) _ h2
        rw [MRes.pre_pre] at h3 ⊢
        have hz := lenZero_eq v c c'
        simp only [ne_eq, hc', not_false_eq_true, decide_true] at hz
        rw [hld, Nat.add_sub_cancel_left, hz] at h3 ⊢
        simpa [Option.map_map, Function.comp_def, List.append_assoc] using h3


theorem drop_set_lt (s : List Byte) (w r : Nat) (b : Byte) (h : w < r) : (s.set w b).drop r = s.drop r := by
  apply List.ext_getElem?
  intro i
  simp only [List.getElem?_drop, List.getElem?_set]
  split
  · omega
  · rfl

theorem region_snoc (s : List Byte) (done mlen : Nat) (b : Byte) (h : done + mlen < s.length) :
    ((s.set (done + mlen) b).drop done).take (mlen + 1) = (s.drop done).take mlen ++ [b] := by
  apply List.ext_getElem?
  intro i
  simp only [List.getElem?_take, List.getElem?_drop, List.getElem?_set, List.getElem?_append, List.length_take, List.length_drop]
  grind

/-- decoded bytes of the message in progress -/
def Loc.acc (l : Loc) : List Byte := (l.store.drop l.done).take l.mlen

/-- the zero loop appends `k` zeros to the decoded bytes and leaves the unread input alone -/
theorem putZeros_spec (k : Nat) : ∀ (l : Loc) (r : Nat) (l' : Loc), r = l.r + 1 → r ≤ l.store.length →
    putZeros k l r = (l', true) →
    l'.done = l.done ∧ l'.mlen = l.mlen + k ∧ l'.proc + k = l.proc ∧ l'.code = l.code ∧
    l'.store.length = l.store.length ∧ l'.store.drop l.r = l.store.drop l.r ∧
    l'.acc = l.acc ++ List.replicate k 0 := by
  induction k with
  | zero =>
    intro l r l' _ _ h
    simp only [putZeros, Prod.mk.injEq] at h
    obtain ⟨rfl, _⟩ := h
    simp
  | succ k ih =>
    intro l r l' hr hrl h
    unfold putZeros at h
    by_cases hp : l.proc = 0
    · simp [hp] at h
    · rw [if_neg hp] at h
      have hw : l.w < r := by simp only [Loc.w, Loc.r] at *; omega
      rw [Loc.put_some l r 0 hw hrl] at h
      simp only at h
      have := ih _ r l' (by simp only [Loc.r] at *; omega) (by simpa using hrl) h
      obtain ⟨h1, h2, h3, h4, h5, h6, h7⟩ := this
      simp only [Loc.r, Loc.w, Loc.acc, List.length_set] at *
      refine ⟨h1, by omega, by omega, h4, h5, ?_, ?_⟩
      · have e : l.done + (l.mlen + 1) + (l.proc - 1) = l.done + l.mlen + l.proc := by omega
        rw [e] at h6
        rw [h6, drop_set_lt _ _ _ _ (by omega)]
      · rw [h1, h2] at h7 ⊢
        rw [h7, region_snoc _ _ _ _ (by omega)]
        simp [List.replicate_succ]


/-- what an exit of the block loop tells about the machine run on the unread bytes -/
structure LoopSpec (v : Variant) (st : DecState) (l : Loc) (inp : List Byte) (o : DecOut) : Prop where
  one : o.ret = .val 1 → ∃ out, mach v l.code l.pos inp = .done out ∧
    o.st.pos = l.done ∧ o.st.len = l.mlen + out.length ∧ o.st.msg = some o.st.len ∧ o.st.ctx = 0 ∧
    (o.store.drop l.done).take o.st.len = l.acc ++ out
  md : o.ret = .err .MissingData → ∃ out code pos, mach v l.code l.pos inp = .zeroIn out code pos ∧
    o.st.pos = st.pos ∧ o.st.len = l.mlen + out.length ∧ o.st.ctx % 256 = code ∧ o.st.ctx ≠ 0 ∧
    (o.store.drop l.done).take o.st.len = l.acc ++ out

/-- transfer of the loop facts over one step that appended `xs` to the decoded bytes -/
theorem LoopSpec.step {v : Variant} {st : DecState} {l l2 : Loc} {inp inp2 : List Byte} {o : DecOut} (xs : List Byte)
    (h : LoopSpec v st l2 inp2 o) (hdone : l2.done = l.done) (hmlen : l2.mlen = l.mlen + xs.length)
    (hacc : l2.acc = l.acc ++ xs) (hm : mach v l.code l.pos inp = (mach v l2.code l2.pos inp2).pre xs) :
    LoopSpec v st l inp o := by
  obtain ⟨h1, h2⟩ := h
  constructor
  · intro he
    obtain ⟨out, e1, e2, e3, e4, e5, e6⟩ := h1 he
    refine ⟨xs ++ out, by rw [hm, e1]; rfl, by rw [e2, hdone], by rw [e3, hmlen]; simp; omega, e4, e5, ?_⟩
    rw [← hdone, e6, hacc]; simp
  · intro he
    obtain ⟨out, code, pos, e1, e2, e3, e4, e5, e6⟩ := h2 he
    refine ⟨xs ++ out, code, pos, by rw [hm, e1]; rfl, e2, by rw [e3, hmlen]; simp; omega, e4, e5, ?_⟩
    rw [← hdone, e6, hacc]; simp

theorem decLoop_spec (v : Variant) (st : DecState) (n : Nat) : ∀ (l : Loc),
    l.r + n = l.store.length → 0 < l.code → l.code < 256 →
    LoopSpec v st l (l.store.drop l.r) (decLoop v st false n l) := by
  induction n with
  | zero =>
    intro l _ _ _
    simp only [decLoop]
    exact ⟨by simp [Loc.save], by simp [Loc.save]⟩
  | succ n ih =>
    intro l hn hc0 hc
    have hlt : l.r < l.store.length := by omega
    have hb : l.store[l.r]? = some l.store[l.r] := by simp [hlt]
    have hinp : l.store.drop l.r = l.store[l.r] :: l.store.drop (l.r + 1) := by
      rw [List.drop_eq_getElem_cons hlt]
    generalize l.store[l.r] = b at hb hinp
    unfold decLoop
    rw [hinp]
    by_cases hd : l.pos < lenData v l.code
    · simp only [hd, if_true, hb]
      by_cases hz : b = 0
      · -- inline zero byte
        simp only [hz, if_true]
        refine ⟨by simp [Loc.save], fun _ => ⟨[], l.code, l.pos, by simp [mach, hd], rfl, by simp [Loc.save], ?_, ?_, ?_⟩⟩
        · simp only [Loc.save]; omega
        · simp only [Loc.save]; omega
        · simp [Loc.save, Loc.acc]
      simp only [hz, if_false]
      by_cases hp : l.proc = 0
      · rw [if_pos hp]; exact ⟨by simp [Loc.save], by simp [Loc.save]⟩
      rw [if_neg hp]
      have hw : l.w < l.r + 1 := by simp only [Loc.w, Loc.r]; omega
      rw [Loc.put_some { l with reads := l.reads ++ [l.r] } (l.r + 1) b hw (by simp; omega)]
      simp only
      have hwl : l.done + l.mlen < l.store.length := by simp only [Loc.r] at hlt; omega
      refine LoopSpec.step [b] (ih _ ?_ hc0 hc) rfl rfl ?_ ?_
      · simp only [Loc.r, Loc.w, List.length_set] at *; omega
      · simp only [Loc.acc, Loc.w]; exact region_snoc _ _ _ _ hwl
      · simp only [Loc.r, Loc.w] at hw ⊢
        rw [show l.done + (l.mlen + 1) + l.proc = l.done + l.mlen + l.proc + 1 by omega,
          drop_set_lt _ _ _ _ hw]
        simp [mach, hd, hz]
    · simp only [hd, if_false, Bool.false_eq_true, hb]
      generalize hq : putZeros (lenData v l.code + lenZero v l.code b.toNat - l.pos) { l with reads := l.reads ++ [l.r] } (l.r + 1) = q
      obtain ⟨l', ok⟩ := q
      cases ok
      · exact ⟨by simp [Loc.save], by simp [Loc.save]⟩
      · have hs := putZeros_spec _ _ _ l' rfl (by simp [Loc.r] at hlt ⊢; omega) hq
        obtain ⟨s1, s2, s3, s4, s5, s6, s7⟩ := hs
        show LoopSpec v st l _ (if b = 0 then _ else _)
        by_cases hn0 : b = 0
        · -- message finished
          subst hn0
          simp only [if_true]
          refine ⟨fun _ => ⟨List.replicate (lenData v l.code + lenZero v l.code 0 - l.pos) 0, by simp [mach, hd], s1, by simp [s2], by simp, rfl, ?_⟩, by simp⟩
          simp only [Loc.acc] at s7 ⊢
          rw [s1] at s7
          rw [s7]; simp
        · simp only [hn0, if_false]
          have hbn : 0 < b.toNat := Nat.pos_of_ne_zero ((toNat_ne_zero b).mpr hn0)
          have hdrop : l'.store.drop (l.r + 1) = l.store.drop (l.r + 1) := by
            have := congrArg (List.drop 1) s6
            simpa [List.drop_drop, Nat.add_comm, Loc.r] using this
          refine LoopSpec.step (List.replicate (lenData v l.code + lenZero v l.code b.toNat - l.pos) 0)
            (ih _ ?_ hbn (UInt8.toNat_lt b)) s1 (by simpa using s2) ?_ ?_
          · simp only [Loc.r] at *; omega
          · simpa [Loc.acc] using s7
          · simp only [Loc.r] at s1 s2 s3 hdrop ⊢
            rw [show l'.done + l'.mlen + (l'.proc + 1) = l.done + l.mlen + l.proc + 1 by omega, hdrop]
            simp [mach, hd, hn0]


theorem alignPost_le (a u p : Nat) : alignPost a u p ≤ p := by
  unfold alignPost
  split
  · omega
  split
  · omega
  split
  · omega
  split
  · omega
  · omega

/-- between two messages: no open block, nothing decoded that has not been delivered -/
structure Fresh (st : DecState) : Prop where
  ctx : st.ctx = 0
  hnone : st.msg = none → st.len = 0
  hsome : ∀ m, st.msg = some m → m = st.len

theorem Fresh.wf {st : DecState} (h : Fresh st) : ∀ m, st.msg = some m → m = st.len := h.hsome

theorem Fresh.mlen {st : DecState} (h : Fresh st) : (decPrev st).2.2 = 0 := by
  unfold decPrev
  cases hm : st.msg with
  | none => simpa using h.hnone hm
  | some m => simp [h.hsome m hm]

/-- a call on a fresh state enters the block loop at the input position `curr` with an empty message -/
theorem decPrep_fresh (st : DecState) (segs : List Seg) (store : List Byte) (st' : DecState) (l : Loc) (hf : Fresh st)
    (h : decPrep st segs store false = .inr (st', l)) :
    l.store = store ∧ l.code = 0 ∧ l.pos = 0 ∧ l.mlen = 0 ∧ l.r = st.curr ∧ st'.pos = l.done ∧ l.r ≤ store.length := by
  have hok := decPrep_ok st segs store false st' l hf.wf h
  unfold decPrep at h
  simp only at h
  split at h
  · simp at h
  rename_i hg
  split at h
  · simp at h
  rw [if_pos hf.mlen] at h
  simp only [Bool.false_eq_true, if_false, hf.ctx, Nat.zero_mod, if_true] at h
  unfold decEnter at h
  split at h
  · simp at h
  simp only [Sum.inr.injEq, Prod.mk.injEq] at h
  obtain ⟨rfl, rfl⟩ := h
  have hp := alignPost_le (cursorAt segs (st.pos + st.len)).1 (cursorAt segs (st.pos + st.len)).2 (st.curr - (st.pos + st.len))
  have hctx : (decPrev st).1.ctx = 0 := by
    unfold decPrev; split <;> simp [hf.ctx]
  refine ⟨rfl, by simp [hctx], by simp [hctx], rfl, ?_, hok.pos, hok.r⟩
  simp only [Loc.r]; omega


theorem dec_frame (v : Variant) (c : Byte) (body : List Byte) (hc : c ≠ 0) (hnz : ∀ x ∈ body, x ≠ 0) :
    dec v (c :: body ++ [0]) = decBody v (body.length + 2) (c :: body) := by
  unfold dec
  have h1 : (c :: body ++ [0]).dropLast = c :: body := by
    have : c :: body ++ [0] = (c :: body) ++ [0] := rfl
    rw [this, List.dropLast_concat]
  rw [if_pos]
  · rw [h1]; rfl
  · refine ⟨by rw [show c :: body ++ [0] = (c :: body) ++ [0] from rfl, List.getLast?_concat], by rw [h1]; simp, ?_⟩
    rw [h1]
    intro hm
    simp only [List.mem_cons] at hm
    rcases hm with hm | hm
    · exact hc hm.symm
    · exact hnz 0 hm rfl

/-- decoded bytes of the message as the state describes them -/
def DecOut.region (o : DecOut) : List Byte := (o.store.drop o.st.pos).take o.st.len

/-- one call of the regular decoder on a fresh state whose unread input starts with a delimited frame -/
theorem decodeCobs_honest (v : Variant) (st : DecState) (segs : List Seg) (pre junk : List Byte) (hf : Fresh st)
    (hin : (flat segs).drop st.curr = pre ++ 0 :: junk) (hnz : ∀ x ∈ pre, x ≠ 0) :
    ((decodeCobs v st segs false).ret = .val 1 →
        dec v (pre ++ [0]) = some (decodeCobs v st segs false).region ∧
        (decodeCobs v st segs false).st.msg = some (decodeCobs v st segs false).st.len) ∧
    ((decodeCobs v st segs false).ret = .err .MissingData → v.tail = true →
        dec v (pre ++ [0]) = some ((decodeCobs v st segs false).region ++ [UInt8.ofNat ((decodeCobs v st segs false).st.ctx % 256)]) ∧
        (decodeCobs v st segs false).st.ctx ≠ 0) := by
  unfold decodeCobs
  simp only [Bool.false_eq_true, if_false]
  cases hprep : decPrep st segs (flat segs) false with
  | inl es =>
    obtain ⟨e, st'⟩ := es
    have := decPrep_err _ _ _ _ _ _ hprep
    simp only
    exact ⟨by simp, by intro h; simp at h; exact absurd h this⟩
  | inr sl =>
    obtain ⟨st', l⟩ := sl
    obtain ⟨h1, h2, h3, h4, h5, h6, h7⟩ := decPrep_fresh st segs (flat segs) st' l hf hprep
    simp only
    unfold decStart
    rw [if_pos h2]
    cases pre with
    | nil =>
      have hc : l.store[l.r]? = some 0 := by
        rw [h1, h5]
        have := congrArg (fun x => x[0]?) hin
        simpa using this
      rw [hc]
      simp
    | cons c body =>
      have hc0 : c ≠ 0 := hnz c (by simp)
      have hbody : ∀ x ∈ body, x ≠ 0 := fun x hx => hnz x (by simp [hx])
      have hc : l.store[l.r]? = some c := by
        rw [h1, h5]
        have := congrArg (fun x => x[0]?) hin
        simpa using this
      have hlt : l.r < l.store.length := by
        rcases Nat.lt_or_ge l.r l.store.length with h | h
        · exact h
        · simp [List.getElem?_eq_none h] at hc
      have hdrop : l.store.drop (l.r + 1) = body ++ 0 :: junk := by
        rw [h1, h5]
        have := congrArg (List.drop 1) hin
        simpa [List.drop_drop, Nat.add_comm] using this
      rw [hc]
      simp only [hc0, if_false]
      have hspec := decLoop_spec v st' (l.store.length - (l.r + 1))
        { l with proc := l.proc + 1, code := c.toNat, reads := [l.r] }
        (by simp only [Loc.r] at *; omega)
        (Nat.pos_of_ne_zero ((toNat_ne_zero c).mpr hc0)) (UInt8.toNat_lt c)
      have hr1 : ({ l with proc := l.proc + 1, code := c.toNat, reads := [l.r] } : Loc).r = l.r + 1 := by
        simp only [Loc.r]; omega
      rw [hr1] at hspec
      simp only [hdrop] at hspec
      simp only [h3] at hspec ⊢
      have hms := mach_spec v (body.length + 2) c body junk hbody (by omega)
      rw [← dec_frame v c body hc0 hbody] at hms
      obtain ⟨s1, s2⟩ := hspec
      constructor
      · intro he
        obtain ⟨out, e1, e2, e3, e4, e5, e6⟩ := s1 he
        rw [e1] at hms
        simp only [MRes.agrees] at hms
        refine ⟨?_, e4⟩
        simp only [DecOut.region, e2]
        rw [e6]
        simp only [Loc.acc, h4, List.take_zero, List.nil_append]
        exact hms
      · intro he ht
        obtain ⟨out, code, pos, e1, e2, e3, e4, e5, e6⟩ := s2 he
        rw [e1] at hms
        simp only [MRes.agrees, ht, if_true] at hms
        refine ⟨?_, e5⟩
        simp only [DecOut.region, e2, h6]
        rw [e6, e4]
        simp only [Loc.acc, h4, List.take_zero, List.nil_append]
        exact hms


/-- honesty of one decoder call (all four COBS decoders) on a fresh state: a delivered message is the
    reference decoding of the frame at the input position -/
theorem decodeV_honest (v : Variant) (st : DecState) (segs : List Seg) (pre junk : List Byte) (hf : Fresh st)
    (hin : (flat segs).drop st.curr = pre ++ 0 :: junk) (hnz : ∀ x ∈ pre, x ≠ 0)
    (h1 : (decodeV v st segs false).ret = .val 1) :
    dec v (pre ++ [0]) = some (decodeV v st segs false).region ∧
    (decodeV v st segs false).st.msg = some (decodeV v st segs false).st.len := by
  have hh := decodeCobs_honest v st segs pre junk hf hin hnz
  unfold decodeV at h1 ⊢
  cases ht : v.tail
  · simp only [ht, Bool.false_eq_true, if_false] at h1 ⊢
    exact hh.1 h1
  · simp only [ht, if_true] at h1 ⊢
    unfold decodeCobsR at h1 ⊢
    simp only [Bool.false_eq_true, false_or] at h1 ⊢
    generalize decodeCobs v st segs false = o at hh h1 ⊢
    by_cases hc : o.ret = .err .MissingData ∧ o.st.ctx ≠ 0
    · rw [if_pos hc] at h1 ⊢
      by_cases hl : o.store.length ≤ o.st.pos + o.st.len
      · rw [if_pos hl] at h1; simp at h1
      · rw [if_neg hl] at h1 ⊢
        by_cases hw : o.st.pos + o.st.len < o.st.curr + 1
        · rw [if_pos hw]
          obtain ⟨e1, _⟩ := hh.2 hc.1 ht
          refine ⟨?_, rfl⟩
          rw [e1]
          simp only [DecOut.region]
          rw [region_snoc _ _ _ _ (by omega)]
        · rw [if_neg hw] at h1; simp at h1
    · rw [if_neg hc] at h1 ⊢
      exact hh.1 h1

end Mpt.Codec
