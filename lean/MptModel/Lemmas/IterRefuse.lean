/-
  Helper lemmas for C19 (core Lean only): descriptions the specification calls malformed beyond the
  "certainly malformed" class are refused.
-/
import MptModel.Lemmas.IterAccept7
namespace Mpt.Iter
open Mpt.IterSpec

theorem isWs_eq : IterSpec.isWs = isSpace := rfl

theorem dropWhile_ws (l : List Char) : l.dropWhile IterSpec.isWs = dropSpace l := by
  rw [isWs_eq]
  induction l with
  | nil => rfl
  | cons c cs ih =>
    by_cases h : isSpace c = true
    · simp [dropSpace, List.dropWhile, h, ih]
    · simp [dropSpace, List.dropWhile, h]

theorem dropSpace_head (l : List Char) (c : Char) (h : (dropSpace l).head? = some c) : isSpace c = false := by
  induction l with
  | nil => simp [dropSpace] at h
  | cons x xs ih =>
    by_cases hx : isSpace x = true
    · simp only [dropSpace, hx, ↓reduceIte] at h; exact ih h
    · simp only [dropSpace, hx, Bool.false_eq_true, ↓reduceIte, List.head?_cons, Option.some.injEq] at h
      subst h; simpa using hx

theorem dropSpace_idem (l : List Char) : dropSpace (dropSpace l) = dropSpace l := by
  cases h : dropSpace l with
  | nil => rfl
  | cons c cs =>
    have := dropSpace_head l c (by rw [h]; rfl)
    exact dropSpace_id c cs this

theorem create_drop (s : List Char) : create s = create (dropSpace s) := by
  unfold create
  simp only [dropSpace_idem]

theorem graph_not_space (c : Char) (h : isGraph c = true) : isSpace c = false := by
  unfold isGraph at h
  unfold isSpace
  simp only [Bool.and_eq_true, decide_eq_true_eq] at h
  simp only [Bool.or_eq_false_iff, Bool.and_eq_false_iff, decide_eq_false_iff_not]
  omega

/-- the position `mpt_string_nextvis` reports is the text without its leading white space -/
theorem nextvis_drop (s : List Char) (c : Char) (t : List Char) (h : nextvis s = .ok (c, t)) :
    t = dropSpace s ∧ t.head? = some c := by
  unfold nextvis at h
  split at h
  · cases h
  · rename_i c0 t0
    split at h
    · rename_i hs
      cases h
      exact ⟨(dropSpace_id _ _ (by simpa using hs)).symm, rfl⟩
    · rename_i hs
      split at h
      · cases h
      · rename_i c2 t2
        split at h
        · cases h
        · rename_i hg
          cases h
          have hs' : isSpace c0 = true := by simpa using hs
          refine ⟨?_, rfl⟩
          simp only [dropSpace, hs', ↓reduceIte]
          exact (dropSpace_id _ _ (graph_not_space _ (by simpa using hg))).symm

theorem nextIs_visible (s : List Char) (ch : Char) (h : nextIs s ch = true) : (dropSpace s).head? = some ch := by
  unfold nextIs at h
  split at h
  · rename_i c t hv
    obtain ⟨h1, h2⟩ := nextvis_drop s c t hv
    have : c = ch := by simpa using h
    rw [← h1, h2, this]
  · cases h

/-- what `_mpt_iterator_linear` needs of its argument text: an opening parenthesis, a count, and behind it
    `:` or `)` -/
theorem linArgs_needs (r : List Char) (g : Gen) (h : linArgs r = some g) :
    ∃ body n s1, dropSpace r = '(' :: body ∧ cuint32 body = .ok n s1 ∧
      (nextIs s1 ':' = true ∨ nextIs s1 ')' = true) := by
  unfold linArgs at h
  split at h
  · cases h
  · rename_i c s0 hv
    obtain ⟨hd, hh⟩ := nextvis_drop r c s0 hv
    split at h
    · cases h
    · rename_i hc
      have hc' : c = '(' := by simpa using hc
      subst hc'
      split at h
      · cases h
      · cases h
      · rename_i iv s1 hu
        have hs0 : s0 = '(' :: s0.tail := by
          cases s0 with
          | nil => simp at hh
          | cons x xs => simp at hh; subst hh; rfl
        refine ⟨s0.tail, iv, s1, by rw [← hd]; exact hs0, hu, ?_⟩
        split at h
        · cases h
        · rename_i mn mx s2 hr
          split at h
          · cases h
          · rename_i hp
            have hp' : nextIs s2 ')' = true := closeOk_nextIs s2 (by simpa using hp)
            unfold linRange at hr
            split at hr
            · rename_i hcol; exact Or.inl hcol
            · cases hr; exact Or.inr hp'

/-- the same for `_mpt_iterator_factor` (a missing count lets the scan continue at the same place) -/
theorem facArgs_needs (r : List Char) (g : Gen) (h : facArgs r = some g) :
    ∃ body, dropSpace r = '(' :: body ∧
      ((∀ e, cuint32 body ≠ .err e) ∧
       ∀ s1, (cuint32 body = .zero ∧ s1 = body ∨ ∃ n, cuint32 body = .ok n s1) →
         (nextIs s1 ':' = true ∨ nextIs s1 ')' = true)) := by
  unfold facArgs at h
  split at h
  · cases h
  · rename_i c s0 hv
    obtain ⟨hd, hh⟩ := nextvis_drop r c s0 hv
    split at h
    · cases h
    · rename_i hc
      have hc' : c = '(' := by simpa using hc
      subst hc'
      have hs0 : s0 = '(' :: s0.tail := by
        cases s0 with
        | nil => simp at hh
        | cons x xs => simp at hh; subst hh; rfl
      refine ⟨s0.tail, by rw [← hd]; exact hs0, ?_⟩
      split at h
      · cases h
      · rename_i iter s1 hfc
        -- behind the count: ':' or ')'
        have hnext : nextIs s1 ':' = true ∨ nextIs s1 ')' = true := by
          split at h
          · cases h
          · rename_i base s2 hfb
            split at h
            · cases h
            · rename_i fact init s5 hft
              split at h
              · cases h
              · rename_i hp
                have hp' : nextIs s5 ')' = true := closeOk_nextIs s5 (by simpa using hp)
                unfold facBase at hfb
                split at hfb
                · rename_i hcol; exact Or.inl hcol
                · rename_i hncol
                  cases hfb
                  unfold facTail at hft
                  rw [if_neg hncol] at hft
                  split at hft
                  · cases hft
                  · cases hft; exact Or.inr hp'
        unfold facCount at hfc
        split at hfc
        · cases hfc
        · rename_i hz
          cases hfc
          refine ⟨fun e he => (by rw [hz] at he; cases he), ?_⟩
          intro s1' hs
          rcases hs with ⟨_, e⟩ | ⟨n, e⟩
          · subst e; exact hnext
          · rw [hz] at e; cases e
        · rename_i v rest hok
          split at hfc
          · cases hfc
          · cases hfc
            refine ⟨fun e he => (by rw [hok] at he; cases he), ?_⟩
            intro s1' hs
            rcases hs with ⟨e, _⟩ | ⟨n, e⟩
            · rw [hok] at e; cases e
            · rw [hok] at e; cases e; exact hnext

theorem dropWhile_oct (l : List Char) :
    l.dropWhile isOct = l.dropWhile isDigit ∨ ∃ d rest, l.dropWhile isOct = d :: rest ∧ isDigit d = true := by
  induction l with
  | nil => exact Or.inl rfl
  | cons c cs ih =>
    by_cases ho : isOct c = true
    · have hd : isDigit c = true := by
        unfold isOct at ho; unfold isDigit
        simp only [Bool.and_eq_true, decide_eq_true_eq] at ho ⊢
        omega
      simp only [List.dropWhile, ho, hd]
      exact ih
    · by_cases hd : isDigit c = true
      · exact Or.inr ⟨c, cs, by simp [List.dropWhile, ho], hd⟩
      · exact Or.inl (by simp [List.dropWhile, ho, hd])

theorem all_space_drop (l : List Char) (h : l.all isSpace = true) : dropSpace l = [] := by
  induction l with
  | nil => rfl
  | cons c cs ih =>
    simp only [List.all_cons, Bool.and_eq_true] at h
    simp only [dropSpace, h.1, ↓reduceIte]
    exact ih h.2

/-- **the text behind `(` is no count followed by `:` or `)`**: the count scanner fails, or what follows the
    digits is neither of the two -/
theorem badCount_scan (body : List Char) (h : badCount body = true) :
    (∃ e, cuint32 body = .err e) ∨
    (∃ n s1, cuint32 body = .ok n s1 ∧ nextIs s1 ':' = false ∧ nextIs s1 ')' = false) := by
  unfold badCount at h
  simp only [dropWhile_ws, isDig_eq] at h
  -- b = dropSpace body
  cases hb : dropSpace body with
  | nil => rw [hb] at h; simp at h
  | cons x xs =>
    rw [hb] at h
    have hxs : isSpace x = false := dropSpace_head body x (by rw [hb]; rfl)
    have hne : body.isEmpty = false := by
      cases body with
      | nil => simp [dropSpace] at hb
      | cons _ _ => rfl
    have hnsp : body.all isSpace = false := by
      cases hq : body.all isSpace with
      | false => rfl
      | true => rw [all_space_drop body hq] at hb; cases hb
    by_cases hminus : x = '-'
    · -- a minus sign: refused whatever follows
      subst hminus
      left
      unfold cuint32
      rw [hne]
      simp only [Bool.false_eq_true, ↓reduceIte]
      split
      · rw [hnsp]; exact ⟨_, rfl⟩
      · rw [if_pos (Or.inl (by rw [hb]; rfl))]; exact ⟨_, rfl⟩
    · -- the digits the scanner starts at
      have hns : numStart body =
          (if (x :: xs).head? = some '+' then (x :: xs).tail else x :: xs) := by
        unfold numStart signRest
        rw [hb]
        by_cases hp : x = '+'
        · subst hp; simp
        · simp [hminus, hp]
      generalize hb' : (if (x :: xs).head? = some '+' then (x :: xs).tail else x :: xs) = b' at h hns
      split at h
      · -- no digit
        rename_i hnd
        left
        have hud : (uintDigits body).isEmpty = true := by
          unfold uintDigits
          rw [hns, spanP_eq, spanP_eq]
          simp only []
          have hdig : b'.takeWhile isDigit = [] := by simpa using hnd
          split
          · -- leading '0' would be a digit
            rename_i h0
            cases b' with
            | nil => simp at h0
            | cons y ys =>
              simp only [List.head?_cons, Option.some.injEq] at h0
              subst h0
              simp [List.takeWhile, isDigit] at hdig
          · simp [hdig]
        unfold cuint32
        rw [hne]
        simp only [Bool.false_eq_true, ↓reduceIte, hud, hnsp]
        exact ⟨_, rfl⟩
      · -- digits, then something else
        rename_i hd
        by_cases hud : (uintDigits body).isEmpty = true
        · left
          unfold cuint32
          rw [hne]
          simp only [Bool.false_eq_true, ↓reduceIte, hud, hnsp]
          exact ⟨_, rfl⟩
        · by_cases hbig : (dropSpace body).head? = some '-' ∨ 4294967295 < uintVal body
          · left
            unfold cuint32
            rw [hne]
            simp only [Bool.false_eq_true, ↓reduceIte, hud]
            rw [if_pos hbig]; exact ⟨_, rfl⟩
          · right
            refine ⟨uintVal body, uintRest body, ?_, ?_⟩
            · unfold cuint32
              rw [hne]
              simp only [Bool.false_eq_true, ↓reduceIte, hud]
              rw [if_neg hbig]
            · -- the rest starts with a digit or is what follows the digits
              have hrest : uintRest body = b'.dropWhile isDigit ∨
                  ∃ d rest, uintRest body = d :: rest ∧ isDigit d = true := by
                unfold uintRest
                rw [hns, spanP_eq, spanP_eq]
                simp only []
                split
                · exact dropWhile_oct b'
                · exact Or.inl rfl
              rcases hrest with hr | ⟨d, rest, hr, hdg⟩
              · rw [hr]
                cases hx : (dropSpace (b'.dropWhile isDigit)).head? with
                | none =>
                  rw [hx] at h; simp at h
                | some y =>
                  rw [hx] at h
                  simp only [Bool.and_eq_true, bne_iff_ne, ne_eq] at h
                  constructor
                  · cases hq : nextIs (b'.dropWhile isDigit) ':' with
                    | false => rfl
                    | true =>
                      have := nextIs_visible _ _ hq
                      rw [hx] at this; cases this; exact absurd rfl h.1
                  · cases hq : nextIs (b'.dropWhile isDigit) ')' with
                    | false => rfl
                    | true =>
                      have := nextIs_visible _ _ hq
                      rw [hx] at this; cases this; exact absurd rfl h.2
              · rw [hr]
                have hds : isSpace d = false := digit_not_space d hdg
                have hv : nextvis (d :: rest) = .ok (d, d :: rest) := nextvis_here d rest hds
                have hne1 : d ≠ ':' := by intro e; subst e; simp [isDigit] at hdg
                have hne2 : d ≠ ')' := by intro e; subst e; simp [isDigit] at hdg
                constructor <;> (unfold nextIs; rw [hv]; simpa)

/-- **a malformed count is refused** -/
theorem malformedCount_refused (s : List Char) (h : malformedCount s = true) : create s = none := by
  unfold malformedCount at h
  simp only [dropWhile_ws] at h
  split at h
  · cases h
  · rename_i hk
    have hname : ¬ ((dropSpace s).takeWhile isLetter).isEmpty = true := fun hp => hk (Or.inl hp)
    have hkind : keywordKind ((dropSpace s).takeWhile isLetter) = some 0 ∨
        keywordKind ((dropSpace s).takeWhile isLetter) = some 2 :=
      Classical.byContradiction fun hq => hk (Or.inr hq)
    have hname' : ((dropSpace s).takeWhile isLetter).isEmpty = false := by simpa using hname
    rw [create_drop s]
    have hlen : ((dropSpace s).takeWhile isLetter).length ≤ 6 := by
      rw [← lowerAll_length]
      rcases hkind with hk | hk
      · rcases keyword_lin _ hk with e | e <;> rw [e] <;> decide
      · rcases keyword_fac _ hk with e | e | e <;> rw [e] <;> decide
    rw [create_keyword _ hname' hlen]
    simp only []
    split at h
    · rename_i body hbody
      have hscan := badCount_scan body h
      rcases hkind with hk | hk
      · rw [if_pos (keyword_lin _ hk)]
        cases hl : linArgs ((dropSpace s).dropWhile isLetter) with
        | none => rfl
        | some g =>
          exfalso
          obtain ⟨body', n, s1, hd, hu, hnx⟩ := linArgs_needs _ g hl
          rw [hbody] at hd
          cases hd
          rcases hscan with ⟨e, he⟩ | ⟨n', s1', hu', h1, h2⟩
          · rw [he] at hu; cases hu
          · rw [hu'] at hu; cases hu
            rcases hnx with hnx | hnx
            · rw [h1] at hnx; cases hnx
            · rw [h2] at hnx; cases hnx
      · have hfac := keyword_fac _ hk
        have hnl : ¬ (lowerAll ((dropSpace s).takeWhile isLetter) = "linear".toList ∨
            lowerAll ((dropSpace s).takeWhile isLetter) = "lin".toList) := by
          rcases hfac with e | e | e <;> rw [e] <;> decide
        rw [if_neg hnl, if_pos hfac]
        cases hl : facArgs ((dropSpace s).dropWhile isLetter) with
        | none => rfl
        | some g =>
          exfalso
          obtain ⟨body', hd, hne, hnx⟩ := facArgs_needs _ g hl
          rw [hbody] at hd
          cases hd
          rcases hscan with ⟨e, he⟩ | ⟨n', s1', hu', h1, h2⟩
          · exact hne e he
          · rcases hnx s1' (Or.inr ⟨n', hu'⟩) with hq | hq
            · rw [h1] at hq; cases hq
            · rw [h2] at hq; cases hq
    · cases h

theorem dropSpace_append_ws (A B : List Char) (h : A.all isSpace = true) : dropSpace (A ++ B) = dropSpace B := by
  induction A with
  | nil => rfl
  | cons x xs ih =>
    simp only [List.all_cons, Bool.and_eq_true] at h
    simp only [List.cons_append, dropSpace, h.1, ↓reduceIte]
    exact ih h.2

theorem reverse_tail_ws (pre tl : List Char) (h : tl.all isSpace = true) :
    (dropSpace (pre ++ ')' :: tl).reverse).head? = some ')' := by
  have e : (pre ++ ')' :: tl).reverse = tl.reverse ++ (')' :: pre.reverse) := by simp
  rw [e, dropSpace_append_ws _ _ (by simpa using h)]
  simp [dropSpace, isSpace]

/-- **text behind the closing parenthesis is refused** -/
theorem trailingJunk_refused (s : List Char) (h : trailingJunk s = true) : create s = none := by
  unfold trailingJunk at h
  simp only [dropWhile_ws] at h
  split at h
  · cases h
  · rename_i hk
    have hname : ¬ ((dropSpace s).takeWhile isLetter).isEmpty = true := fun hp => hk (Or.inl hp)
    have hkind : (keywordKind ((dropSpace s).takeWhile isLetter)).isNone = false := by
      cases hq : (keywordKind ((dropSpace s).takeWhile isLetter)).isNone with
      | false => rfl
      | true => exact absurd (Or.inr hq) hk
    have hname' : ((dropSpace s).takeWhile isLetter).isEmpty = false := by simpa using hname
    -- where the text ends if it is accepted
    have key : ∀ g, create s = some g → ∃ pre tl, s = pre ++ ')' :: tl ∧ tl.all isSpace = true := by
      intro g hg
      rw [create_drop s] at hg
      have hlen : ((dropSpace s).takeWhile isLetter).length ≤ 6 := by
        rw [← lowerAll_length]
        cases hq : keywordKind ((dropSpace s).takeWhile isLetter) with
        | none => rw [hq] at hkind; simp at hkind
        | some k =>
          unfold keywordKind at hq
          simp only [] at hq
          have hl : lowerAll ((dropSpace s).takeWhile isLetter) = ((dropSpace s).takeWhile isLetter).map IterSpec.toLower := rfl
          rw [hl]
          generalize ((dropSpace s).takeWhile isLetter).map IterSpec.toLower = n at hq
          have conv : ∀ (w : String), String.ofList n = w → n.length = w.toList.length := by
            intro w hw; rw [← hw]; simp
          split at hq
          · rename_i h1; rcases h1 with e | e <;> rw [conv _ e] <;> decide
          · split at hq
            · rename_i h1; rw [conv _ h1]; decide
            · split at hq
              · rename_i h1; rcases h1 with e | e | e <;> rw [conv _ e] <;> decide
              · cases hq
      rw [create_keyword _ hname' hlen] at hg
      simp only [] at hg
      have hsuf : ∀ r tl, (')' :: tl) <:+ r → r <:+ s → ∃ pre, s = pre ++ ')' :: tl := by
        intro r tl a b
        obtain ⟨p1, e1⟩ := a.trans b
        exact ⟨p1, e1.symm⟩
      have hrs : (dropSpace s).dropWhile isLetter <:+ s :=
        (List.dropWhile_suffix _).trans (dropSpace_suffix s)
      split at hg
      · obtain ⟨_, _, tl, a, b⟩ := linArgs_parens _ g hg
        obtain ⟨pre, e⟩ := hsuf _ tl a hrs
        exact ⟨pre, tl, e, b⟩
      · split at hg
        · obtain ⟨_, _, tl, a, b⟩ := facArgs_parens _ g hg
          obtain ⟨pre, e⟩ := hsuf _ tl a hrs
          exact ⟨pre, tl, e, b⟩
        · split at hg
          · obtain ⟨_, _, tl, a, b⟩ := rangeArgs_parens _ g hg
            obtain ⟨pre, e⟩ := hsuf _ tl a hrs
            exact ⟨pre, tl, e, b⟩
          · cases hg
    cases hc : create s with
    | none => rfl
    | some g =>
      exfalso
      obtain ⟨pre, tl, e, htl⟩ := key g hc
      have := reverse_tail_ws pre tl htl
      rw [← e] at this
      rw [this] at h
      simp at h

/-- **recognised descriptions without a sequence are refused**: zero steps, an empty or descending range, a
    step that is not positive -/
theorem senseless_refused (s : List Char) (d : Desc) (h : recognise s = some d) (hs : d.senseless = true) :
    create s = none := by
  cases d with
  | lin k a b =>
    simp only [Desc.senseless, beq_iff_eq] at hs
    subst hs
    rw [lin_created s 0 a b h]
    rfl
  | range a b st =>
    simp only [Desc.senseless, Bool.or_eq_true, decide_eq_true_eq] at hs
    rw [range_created s a b st h]
    unfold rangeMake
    rw [if_pos]
    have t : rangeTol = 1 / 562949953421312 := by unfold rangeTol; simp
    rw [t]
    rcases hs with hs | hs
    · by_cases hp : 0 < st
      · right; left; grind
      · left; exact hp
    · left; grind
  | fac k base f init => simp [Desc.senseless] at hs
  | values vs => simp [Desc.senseless] at hs

end Mpt.Iter
